(* Shared byte-string vocabulary.  Stdlib only. *)
From Coq Require Export List NArith ZArith Bool Lia.
From Coq.Strings Require Export Byte.
Export ListNotations.

Definition bytes := list byte.

(* byte-string literals:  b#"text"  *)
Inductive bstr := BS (l : list byte).
Definition bs_parse (l : list byte) : bstr := BS l.
Definition bs_print (b : bstr) : list byte := match b with BS l => l end.
Declare Scope bs_scope.
Delimit Scope bs_scope with bs.
String Notation bstr bs_parse bs_print : bs_scope.
Definition unBS (b : bstr) : bytes := match b with BS l => l end.
Notation "'b#' s" := (unBS s%bs) (at level 0, s at level 0, only parsing).

Definition bN (b : byte) : N := Byte.to_N b.
Definition Nb (n : N) : byte := match Byte.of_N n with Some b => b | None => x00 end.

Definition beqb (a b : byte) : bool := Byte.eqb a b.

Fixpoint bytes_eqb (a b : bytes) : bool :=
  match a, b with
  | [], [] => true
  | x :: a', y :: b' => Byte.eqb x y && bytes_eqb a' b'
  | _, _ => false
  end.

Definition in_range (lo hi : N) (b : byte) : bool := (lo <=? bN b)%N && (bN b <=? hi)%N.

Definition is_json_ws (b : byte) : bool :=
  match b with x20 | x09 | x0a | x0d => true | _ => false end.
(* Rust u8::is_ascii_whitespace: space, \t, \n, \x0C, \r *)
Definition is_ascii_ws (b : byte) : bool :=
  match b with x20 | x09 | x0a | x0d | x0c => true | _ => false end.
Definition is_digit (b : byte) : bool := in_range 48 57 b.

Fixpoint drop_while (p : byte -> bool) (s : bytes) : bytes :=
  match s with
  | c :: s' => if p c then drop_while p s' else s
  | [] => []
  end.
Fixpoint take_while (p : byte -> bool) (s : bytes) : bytes :=
  match s with
  | c :: s' => if p c then c :: take_while p s' else []
  | [] => []
  end.
Definition skip_ws (s : bytes) : bytes := drop_while is_json_ws s.

Fixpoint starts_with (p s : bytes) : option bytes :=
  match p, s with
  | [], _ => Some s
  | x :: p', y :: s' => if Byte.eqb x y then starts_with p' s' else None
  | _ :: _, [] => None
  end.

Definition blen (s : bytes) : N := N.of_nat (length s).

Fixpoint join (sep : bytes) (l : list bytes) : bytes :=
  match l with
  | [] => []
  | [x] => x
  | x :: l' => x ++ sep ++ join sep l'
  end.

Lemma byte_eqb_eq a b : Byte.eqb a b = true <-> a = b.
Proof. apply Byte.byte_dec_bl || (split; [apply Byte.byte_dec_bl | apply Byte.byte_dec_lb]). Qed.

Lemma byte_eqb_refl a : Byte.eqb a a = true.
Proof. apply byte_eqb_eq; reflexivity. Qed.

Lemma bytes_eqb_eq a : forall b, bytes_eqb a b = true <-> a = b.
Proof.
  induction a as [|x a IH]; intros [|y b]; simpl; split; intro H; try congruence; try reflexivity.
  - apply andb_true_iff in H as [H1 H2]. apply byte_eqb_eq in H1. apply IH in H2. congruence.
  - inversion H; subst. rewrite byte_eqb_refl. simpl. apply IH. reflexivity.
Qed.

Lemma bytes_eqb_refl a : bytes_eqb a a = true.
Proof. apply bytes_eqb_eq; reflexivity. Qed.
