(* Decimal printing/parsing of N through the stdlib's Decimal.uint. *)
From JV Require Import Base.Bytes.
From Coq Require Import DecimalN DecimalPos DecimalFacts Decimal.

Fixpoint uint_to_bytes (u : Decimal.uint) : bytes :=
  match u with
  | Nil => []
  | D0 u => x30 :: uint_to_bytes u
  | D1 u => x31 :: uint_to_bytes u
  | D2 u => x32 :: uint_to_bytes u
  | D3 u => x33 :: uint_to_bytes u
  | D4 u => x34 :: uint_to_bytes u
  | D5 u => x35 :: uint_to_bytes u
  | D6 u => x36 :: uint_to_bytes u
  | D7 u => x37 :: uint_to_bytes u
  | D8 u => x38 :: uint_to_bytes u
  | D9 u => x39 :: uint_to_bytes u
  end.

(* non-digits are dropped; callers only pass digit strings *)
Fixpoint bytes_to_uint (s : bytes) : Decimal.uint :=
  match s with
  | [] => Nil
  | c :: s' =>
    let r := bytes_to_uint s' in
    match c with
    | x30 => D0 r | x31 => D1 r | x32 => D2 r | x33 => D3 r | x34 => D4 r
    | x35 => D5 r | x36 => D6 r | x37 => D7 r | x38 => D8 r | x39 => D9 r
    | _ => r
    end
  end.

Definition print_N (n : N) : bytes := uint_to_bytes (N.to_uint n).
Definition digits_val (ds : bytes) : N := N.of_uint (bytes_to_uint ds).

Definition print_Z (z : Z) : bytes :=
  match z with
  | Z0 => [x30]
  | Zpos p => print_N (Npos p)
  | Zneg p => x2d :: print_N (Npos p)
  end.

Definition u64_max : N := 18446744073709551615%N.
Definition i64_min_abs : N := 9223372036854775808%N.
