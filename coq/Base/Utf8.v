(* UTF-8 validity (as Rust's str::from_utf8) and encoding of code points (WTF-8 as serde_json's push_wtf8_codepoint). *)
From JV Require Import Base.Bytes.
Local Open Scope N_scope.

Definition is_cont (b : byte) : bool := in_range 128 191 b.

Fixpoint utf8_valid (s : bytes) : bool :=
  match s with
  | [] => true
  | a :: s1 =>
    let n := bN a in
    if n <? 128 then utf8_valid s1
    else if (194 <=? n) && (n <=? 223) then
      match s1 with b :: s2 => is_cont b && utf8_valid s2 | _ => false end
    else if n =? 224 then
      match s1 with b :: c :: s3 => in_range 160 191 b && is_cont c && utf8_valid s3 | _ => false end
    else if ((225 <=? n) && (n <=? 236)) || (n =? 238) || (n =? 239) then
      match s1 with b :: c :: s3 => is_cont b && is_cont c && utf8_valid s3 | _ => false end
    else if n =? 237 then
      match s1 with b :: c :: s3 => in_range 128 159 b && is_cont c && utf8_valid s3 | _ => false end
    else if n =? 240 then
      match s1 with b :: c :: d :: s4 => in_range 144 191 b && is_cont c && is_cont d && utf8_valid s4 | _ => false end
    else if (241 <=? n) && (n <=? 243) then
      match s1 with b :: c :: d :: s4 => is_cont b && is_cont c && is_cont d && utf8_valid s4 | _ => false end
    else if n =? 244 then
      match s1 with b :: c :: d :: s4 => in_range 128 143 b && is_cont c && is_cont d && utf8_valid s4 | _ => false end
    else false
  end.

Definition utf8_encode (n : N) : bytes :=
  if n <? 128 then [Nb n]
  else if n <? 2048 then [Nb (192 + n / 64); Nb (128 + n mod 64)]
  else if n <? 65536 then [Nb (224 + n / 4096); Nb (128 + (n / 64) mod 64); Nb (128 + n mod 64)]
  else [Nb (240 + n / 262144); Nb (128 + (n / 4096) mod 64); Nb (128 + (n / 64) mod 64); Nb (128 + n mod 64)].
