From Coq Require Import Extraction ExtrOcamlBasic.
From JV Require Import Base.Bytes Base.Dec Base.Utf8 Json.Json Json.JsonSer Json.JsonParse Model.Builder.
Extraction Language OCaml.
Extraction "../modelrun/gen/builder_model.ml" Byte.to_N Byte.of_N
  positional named insert insert_named insert_old insert_named_old build builder_to_rpc_params
  seq_to_rpc_params map_to_rpc_params rpc_params batch_insert batch_build.
