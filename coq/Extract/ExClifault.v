From Coq Require Import Extraction ExtrOcamlBasic.
From JV Require Import Base.Bytes Base.Dec Model.Wire Model.ClientMgr Model.ClientShutdown.
Extraction Language OCaml.
Extraction "../modelrun/gen/clifault_model.ml" Byte.to_N Byte.of_N print_N print_Z digits_val
  ClientShutdown.sys_init ClientShutdown.script_step ClientShutdown.pending_handles.
