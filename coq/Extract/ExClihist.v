From Coq Require Import Extraction ExtrOcamlBasic.
From JV Require Import Base.Bytes Base.Dec Model.Wire Model.ClientMgr.
Extraction Language OCaml.
Extraction "../modelrun/gen/clihist_model.ml" Byte.to_N Byte.of_N print_N print_Z digits_val
  ClientMgr.init ClientMgr.step ClientMgr.table_sizes ClientMgr.classify_frame.
