From Coq Require Import Extraction ExtrOcamlBasic.
From JV Require Import Model.ConnGuard.
Extraction Language OCaml.
Extraction "../modelrun/gen/connguard_model.ml" init script_step script_run.
