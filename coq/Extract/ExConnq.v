From Coq Require Import Extraction ExtrOcamlBasic.
From JV Require Import Base.Bytes Base.Dec Model.Wire Model.ConnQueue.
Extraction Language OCaml.
Extraction "../modelrun/gen/connq_model.ml" Byte.to_N Byte.of_N print_N digits_val
  ConnQueue.init ConnQueue.step ConnQueue.run ConnQueue.render ConnQueue.q ConnQueue.closed.
