From Coq Require Import Extraction ExtrOcamlBasic.
From JV Require Import Base.Bytes Base.Dec Model.HostFilter.
Extraction Language OCaml.
Extraction "../modelrun/gen/hostfilter_model.ml" Byte.to_N Byte.of_N print_N run_req run_auth.
