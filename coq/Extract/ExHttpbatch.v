From Coq Require Import Extraction ExtrOcamlBasic.
From JV Require Import Base.Bytes Base.Dec Model.Wire Model.ClientMgr Model.HttpBatch.
Extraction Language OCaml.
Extraction "../modelrun/gen/httpbatch_model.ml" Byte.to_N Byte.of_N print_N print_Z digits_val
  Wire.ser_response HttpBatch.http_reply HttpBatch.http_mk_id HttpBatch.count_ok HttpBatch.count_err HttpBatch.http_single.
