From Coq Require Import Extraction ExtrOcamlBasic.
From JV Require Import Base.Bytes Base.Dec Model.HttpGate.
Extraction Language OCaml.
Extraction "../modelrun/gen/httpgate_model.ml" Byte.to_N Byte.of_N print_N digits_val
  gate read_body read_body_old call_with_service call_with_service_old outcome_status.
