From Coq Require Import Extraction ExtrOcamlBasic.
From JV Require Import Base.Bytes Base.Dec Base.Utf8 Json.Json Json.JsonSer Json.JsonParse Model.Wire Model.Registry
  Model.MacroApi Gen.MacroApiGen.
Extraction Language OCaml.
Extraction "../modelrun/gen/macroapi_model.ml" Byte.to_N Byte.of_N print_N print_Z digits_val Z.of_N Z.opp
  parse_text ser run_stub run_raw family a_methods snake_case lower_camel_case.
