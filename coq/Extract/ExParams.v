From Coq Require Import Extraction ExtrOcamlBasic.
From JV Require Import Base.Bytes Base.Dec Base.Utf8 Json.Json Json.JsonSer Json.JsonParse Model.Params.
Extraction Language OCaml.
Extraction "../modelrun/gen/params_model.ml" Byte.to_N Byte.of_N print_N print_Z ser ser_str parse_text
  params_new is_object sequence next optional_next parse one decode run read_seq.
