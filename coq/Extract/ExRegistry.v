From Coq Require Import Extraction ExtrOcamlBasic.
From JV Require Import Base.Bytes Model.Registry.
Extraction Language OCaml.
Extraction "../modelrun/gen/registry_model.ml" Byte.to_N Byte.of_N run_trace.
