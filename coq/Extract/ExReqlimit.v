From Coq Require Import Extraction ExtrOcamlBasic.
From JV Require Import Base.Bytes Base.Dec Model.Wire Gen.LimitsWiringGen Model.ReqLimit.
Extraction Language OCaml.
Extraction "../modelrun/gen/reqlimit_model.ml" Byte.to_N Byte.of_N print_N digits_val
  ws_session ws_processed http_result http_status http_reject_body too_big_request_frame internal_error_body
  ws_pipeline_session ws_pipeline_replies ws_frag_session ws_read.
