From Coq Require Import Extraction ExtrOcamlBasic.
From JV Require Import Base.Bytes Base.Dec Json.JsonSer Model.Wire Gen.LimitsWiringGen Model.RespSize.
Extraction Language OCaml.
Extraction "../modelrun/gen/respsize_model.ml" Byte.to_N Byte.of_N print_N print_Z digits_val ser_str ser_id
  full_ser bounded_write method_response method_response_chunked error_response batch_response batch_fail_index batch_new
  ws_call_reply http_call_reply ws_batch_reply http_batch_reply.
