From Coq Require Import Extraction ExtrOcamlBasic.
From JV Require Import Base.Bytes Base.Dec Base.Utf8 Json.Json Json.JsonSer Json.JsonParse Model.Wire Model.RespSize Model.Server.
Extraction Language OCaml.
Extraction "../modelrun/gen/server_model.ml" Byte.to_N Byte.of_N print_N digits_val Z.of_N Z.opp parse_text
  classify classify_old classify_entry classify_entry_old batch_elems sniff handle replies serve.
