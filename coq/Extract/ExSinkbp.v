From Coq Require Import Extraction ExtrOcamlBasic.
From JV Require Import Base.Bytes Base.Dec Model.Wire Model.SinkQueue.
Extraction Language OCaml.
Extraction "../modelrun/gen/sinkbp_model.ml" Byte.to_N Byte.of_N print_N digits_val
  Wire.parse_sub_notif Wire.k_result Wire.ser_subid SinkQueue.init SinkQueue.step SinkQueue.run SinkQueue.to_json SinkQueue.oklog.
