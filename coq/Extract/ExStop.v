From Coq Require Import Extraction ExtrOcamlBasic NArith.
From JV Require Import Model.Stop.
Extraction Language OCaml.
Extraction "../modelrun/gen/stop_model.ml" init init_cap step effective sig all_dropped internal N.of_nat N.to_nat.
