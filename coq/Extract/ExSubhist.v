From Coq Require Import Extraction ExtrOcamlBasic.
From JV Require Import Model.SubBook Model.SubBookWire.
Extraction Language OCaml.
Extraction "../modelrun/gen/subhist_model.ml" init step step_old run_gen drain_trace conns subs table stopped c_wire c_queue c_open c_ended
  errkind_wire.
