From Coq Require Import Extraction ExtrOcamlBasic.
From JV Require Import Base.Bytes Base.Dec Base.Utf8 Json.Json Json.JsonSer Json.JsonParse Model.Wire.
Extraction Language OCaml.
Extraction "../modelrun/gen/wire_model.ml" Byte.to_N Byte.of_N print_N print_Z digits_val parse_text ser raw_text
  parse_id ser_id parse_subid ser_subid parse_request ser_request parse_notification ser_notification
  parse_invalid parse_response ser_response parse_errobj ser_errobj parse_sub_notif ser_sub_notif.
