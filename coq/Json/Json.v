(* JSON values as jsonrpsee sees them through serde_json 1.0.x. *)
From JV Require Import Base.Bytes Base.Dec.

Inductive num :=
| NPos (n : N)           (* fits u64 *)
| NNeg (n : N)           (* -n, 0 < n <= 2^63 *)
| NFloat (lex : bytes).  (* anything else: the lexeme is kept, never interpreted *)

Inductive json :=
| JNull
| JBool (b : bool)
| JNum (x : num)
| JStr (s : bytes)                    (* decoded UTF-8 *)
| JArr (l : list json)
| JObj (m : list (bytes * json)).     (* members in source order, duplicates kept *)

Definition num_eqb (a b : num) : bool :=
  match a, b with
  | NPos x, NPos y => N.eqb x y
  | NNeg x, NNeg y => N.eqb x y
  | NFloat x, NFloat y => bytes_eqb x y
  | _, _ => false
  end.

Fixpoint json_eqb (a b : json) {struct a} : bool :=
  match a, b with
  | JNull, JNull => true
  | JBool x, JBool y => Bool.eqb x y
  | JNum x, JNum y => num_eqb x y
  | JStr x, JStr y => bytes_eqb x y
  | JArr x, JArr y =>
    (fix go (l1 l2 : list json) : bool :=
       match l1, l2 with
       | [], [] => true
       | u :: l1', v :: l2' => json_eqb u v && go l1' l2'
       | _, _ => false
       end) x y
  | JObj x, JObj y =>
    (fix go (l1 l2 : list (bytes * json)) : bool :=
       match l1, l2 with
       | [], [] => true
       | (k1, u) :: l1', (k2, v) :: l2' => bytes_eqb k1 k2 && json_eqb u v && go l1' l2'
       | _, _ => false
       end) x y
  | _, _ => false
  end.

(* nesting depth: scalars 0, containers 1 + max of children *)
Fixpoint jdepth (v : json) : nat :=
  match v with
  | JArr l => S (fold_right (fun x acc => Nat.max (jdepth x) acc) 0%nat l)
  | JObj m => S (fold_right (fun kv acc => Nat.max (jdepth (snd kv)) acc) 0%nat m)
  | _ => 0%nat
  end.
