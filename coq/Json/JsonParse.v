(* The slice of serde_json's reader that jsonrpsee relies on:
   - strict parsing into a value (deserialize_any / Value / Content), depth limit 128;
   - lenient skipping (ignore_value, also used for RawValue), recursive formulation of the
     iterative scanner in de.rs (same accepted language; validated differentially). *)
From JV Require Import Base.Bytes Base.Dec Base.Utf8 Json.Json.
Local Open Scope N_scope.

(* ---------- lexical pieces ---------- *)

Definition hexval (c : byte) : option N :=
  if is_digit c then Some (bN c - 48)
  else if in_range 65 70 c then Some (bN c - 55)
  else if in_range 97 102 c then Some (bN c - 87)
  else None.

Definition hex4 (a b c d : byte) : option N :=
  match hexval a, hexval b, hexval c, hexval d with
  | Some x, Some y, Some z, Some w => Some (x * 4096 + y * 256 + z * 16 + w)
  | _, _, _, _ => None
  end.

Definition simple_escape (e : byte) : option byte :=
  match e with
  | x22 => Some x22 | x5c => Some x5c | x2f => Some x2f
  | x62 => Some x08 | x66 => Some x0c | x6e => Some x0a | x72 => Some x0d | x74 => Some x09
  | _ => None
  end.

Definition is_low_sur (n : N) : bool := (56320 <=? n) && (n <=? 57343).    (* DC00..DFFF *)
Definition is_high_sur (n : N) : bool := (55296 <=? n) && (n <=? 56319).   (* D800..DBFF *)

(* after the opening quote; strict (validate = true) *)
Fixpoint scan_str (s : bytes) : option (bytes * bytes) :=
  match s with
  | [] => None
  | c :: s1 =>
    if beqb c x22 then Some ([], s1)
    else if beqb c x5c then
      match s1 with
      | [] => None
      | e :: s2 =>
        match simple_escape e with
        | Some d => match scan_str s2 with Some (t, r) => Some (d :: t, r) | None => None end
        | None =>
          if beqb e x75 then
            match s2 with
            | h1 :: h2 :: h3 :: h4 :: s3 =>
              match hex4 h1 h2 h3 h4 with
              | None => None
              | Some n =>
                if is_low_sur n then None
                else if is_high_sur n then
                  match s3 with
                  | q1 :: q2 :: g1 :: g2 :: g3 :: g4 :: s4 =>
                    if beqb q1 x5c && beqb q2 x75 then
                      match hex4 g1 g2 g3 g4 with
                      | Some n2 =>
                        if is_low_sur n2 then
                          match scan_str s4 with
                          | Some (t, r) => Some (utf8_encode ((n - 55296) * 1024 + (n2 - 56320) + 65536) ++ t, r)
                          | None => None
                          end
                        else None
                      | None => None
                      end
                    else None
                  | _ => None
                  end
                else
                  match scan_str s3 with
                  | Some (t, r) => Some (utf8_encode n ++ t, r)
                  | None => None
                  end
              end
            | _ => None
            end
          else None
        end
      end
    else if bN c <? 32 then None
    else match scan_str s1 with Some (t, r) => Some (c :: t, r) | None => None end
  end.

(* as from_slice sees a string: decoded text must be UTF-8 *)
Definition scan_str_valid (s : bytes) : option (bytes * bytes) :=
  match scan_str s with
  | Some (t, r) => if utf8_valid t then Some (t, r) else None
  | None => None
  end.

(* lenient: ignore_str; returns (consumed incl. closing quote, rest) *)
Fixpoint skip_str (s : bytes) : option (bytes * bytes) :=
  match s with
  | [] => None
  | c :: s1 =>
    if beqb c x22 then Some ([c], s1)
    else if beqb c x5c then
      match s1 with
      | [] => None
      | e :: s2 =>
        match simple_escape e with
        | Some _ => match skip_str s2 with Some (t, r) => Some (c :: e :: t, r) | None => None end
        | None =>
          if beqb e x75 then
            match s2 with
            | h1 :: h2 :: h3 :: h4 :: s3 =>
              match hex4 h1 h2 h3 h4 with
              | Some _ => match skip_str s3 with
                          | Some (t, r) => Some (c :: e :: h1 :: h2 :: h3 :: h4 :: t, r)
                          | None => None end
              | None => None
              end
            | _ => None
            end
          else None
        end
      end
    else if bN c <? 32 then None
    else match skip_str s1 with Some (t, r) => Some (c :: t, r) | None => None end
  end.

(* ---------- numbers ---------- *)

Record numlex := { nl_neg : bool; nl_int : bytes; nl_frac : bytes (* with '.' *); nl_exp : bytes (* with e/E and sign *) }.

Definition numlex_bytes (l : numlex) : bytes :=
  (if nl_neg l then [x2d] else []) ++ nl_int l ++ nl_frac l ++ nl_exp l.

Definition scan_int (s : bytes) : option (bytes * bytes) :=
  match s with
  | c :: s' =>
    if beqb c x30 then
      match s' with
      | d :: _ => if is_digit d then None else Some ([c], s')
      | [] => Some ([c], [])
      end
    else if in_range 49 57 c then Some (c :: take_while is_digit s', drop_while is_digit s')
    else None
  | [] => None
  end.

Definition scan_frac (s : bytes) : option (bytes * bytes) :=
  match s with
  | c :: s' =>
    if beqb c x2e then
      match take_while is_digit s' with
      | [] => None
      | ds => Some (c :: ds, drop_while is_digit s')
      end
    else Some ([], s)
  | [] => Some ([], [])
  end.

Definition scan_exp (s : bytes) : option (bytes * bytes) :=
  match s with
  | c :: s' =>
    if beqb c x65 || beqb c x45 then
      let '(sg, s'') :=
        match s' with
        | g :: t => if beqb g x2b || beqb g x2d then ([g], t) else ([], s')
        | [] => ([], s')
        end in
      match take_while is_digit s'' with
      | [] => None
      | ds => Some (c :: sg ++ ds, drop_while is_digit s'')
      end
    else Some ([], s)
  | [] => Some ([], [])
  end.

(* s starts at '-' or a digit *)
Definition scan_number (s : bytes) : option (numlex * bytes) :=
  let '(neg, s0) := match s with c :: t => if beqb c x2d then (true, t) else (false, s) | [] => (false, s) end in
  match scan_int s0 with
  | None => None
  | Some (ip, s1) =>
    match scan_frac s1 with
    | None => None
    | Some (fp, s2) =>
      match scan_exp s2 with
      | None => None
      | Some (ep, s3) => Some ({| nl_neg := neg; nl_int := ip; nl_frac := fp; nl_exp := ep |}, s3)
      end
    end
  end.

Definition classify_num (l : numlex) : num :=
  match nl_frac l, nl_exp l with
  | [], [] =>
    let v := digits_val (nl_int l) in
    if nl_neg l then
      if (0 <? v) && (v <=? i64_min_abs) then NNeg v else NFloat (numlex_bytes l)
    else
      if v <=? u64_max then NPos v else NFloat (numlex_bytes l)
  | _, _ => NFloat (numlex_bytes l)
  end.

(* ---------- strict values ---------- *)

Definition is_num_start (c : byte) : bool := beqb c x2d || is_digit c.

Fixpoint parse_value (fuel : nat) (depth : nat) (s : bytes) {struct fuel} : option (json * bytes) :=
  match fuel with
  | O => None
  | S f =>
    match skip_ws s with
    | [] => None
    | c :: s1 =>
      if beqb c x6e then match starts_with b#"ull" s1 with Some r => Some (JNull, r) | None => None end
      else if beqb c x74 then match starts_with b#"rue" s1 with Some r => Some (JBool true, r) | None => None end
      else if beqb c x66 then match starts_with b#"alse" s1 with Some r => Some (JBool false, r) | None => None end
      else if beqb c x22 then match scan_str_valid s1 with Some (t, r) => Some (JStr t, r) | None => None end
      else if is_num_start c then
        match scan_number (c :: s1) with Some (l, r) => Some (JNum (classify_num l), r) | None => None end
      else if beqb c x5b then
        match depth with
        | S (S d) =>
          match skip_ws s1 with
          | c2 :: r => if beqb c2 x5d then Some (JArr [], r)
                       else match parse_elems f (S d) s1 with Some (vs, r') => Some (JArr vs, r') | None => None end
          | [] => None
          end
        | _ => None
        end
      else if beqb c x7b then
        match depth with
        | S (S d) =>
          match skip_ws s1 with
          | c2 :: r => if beqb c2 x7d then Some (JObj [], r)
                       else match parse_members f (S d) s1 with Some (ms, r') => Some (JObj ms, r') | None => None end
          | [] => None
          end
        | _ => None
        end
      else None
    end
  end
with parse_elems (fuel : nat) (depth : nat) (s : bytes) {struct fuel} : option (list json * bytes) :=
  match fuel with
  | O => None
  | S f =>
    match parse_value f depth s with
    | Some (v, r) =>
      match skip_ws r with
      | c :: r1 =>
        if beqb c x2c then match parse_elems f depth r1 with Some (vs, r2) => Some (v :: vs, r2) | None => None end
        else if beqb c x5d then Some ([v], r1)
        else None
      | [] => None
      end
    | None => None
    end
  end
with parse_members (fuel : nat) (depth : nat) (s : bytes) {struct fuel} : option (list (bytes * json) * bytes) :=
  match fuel with
  | O => None
  | S f =>
    match skip_ws s with
    | q :: s1 =>
      if beqb q x22 then
        match scan_str_valid s1 with
        | Some (k, r0) =>
          match skip_ws r0 with
          | col :: r1 =>
            if beqb col x3a then
              match parse_value f depth r1 with
              | Some (v, r) =>
                match skip_ws r with
                | c :: r2 =>
                  if beqb c x2c then
                    match parse_members f depth r2 with Some (ms, r3) => Some ((k, v) :: ms, r3) | None => None end
                  else if beqb c x7d then Some ([(k, v)], r2)
                  else None
                | [] => None
                end
              | None => None
              end
            else None
          | [] => None
          end
        | None => None
        end
      else None
    | [] => None
    end
  end.

Definition depth_limit : nat := 128.

(* whole document: ws* value ws* eof   (serde_json::from_slice::<Value>) *)
Definition parse_text (s : bytes) : option json :=
  match parse_value (S (length s)) depth_limit s with
  | Some (v, r) => match skip_ws r with [] => Some v | _ => None end
  | None => None
  end.

(* ---------- lenient skipping: returns (consumed, rest), s = consumed ++ rest ---------- *)

Definition ws_prefix (s : bytes) : bytes := take_while is_json_ws s.

Fixpoint skip_value (fuel : nat) (s : bytes) {struct fuel} : option (bytes * bytes) :=
  match fuel with
  | O => None
  | S f =>
    let w := ws_prefix s in
    match skip_ws s with
    | [] => None
    | c :: s1 =>
      if beqb c x6e then match starts_with b#"ull" s1 with Some r => Some (w ++ b#"null", r) | None => None end
      else if beqb c x74 then match starts_with b#"rue" s1 with Some r => Some (w ++ b#"true", r) | None => None end
      else if beqb c x66 then match starts_with b#"alse" s1 with Some r => Some (w ++ b#"false", r) | None => None end
      else if beqb c x22 then match skip_str s1 with Some (t, r) => Some (w ++ c :: t, r) | None => None end
      else if is_num_start c then
        match scan_number (c :: s1) with Some (l, r) => Some (w ++ numlex_bytes l, r) | None => None end
      else if beqb c x5b then
        match skip_ws s1 with
        | c2 :: r => if beqb c2 x5d then Some (w ++ c :: ws_prefix s1 ++ [c2], r)
                     else match skip_elems f s1 with Some (t, r') => Some (w ++ c :: t, r') | None => None end
        | [] => None
        end
      else if beqb c x7b then
        match skip_ws s1 with
        | c2 :: r => if beqb c2 x7d then Some (w ++ c :: ws_prefix s1 ++ [c2], r)
                     else match skip_members f s1 with Some (t, r') => Some (w ++ c :: t, r') | None => None end
        | [] => None
        end
      else None
    end
  end
with skip_elems (fuel : nat) (s : bytes) {struct fuel} : option (bytes * bytes) :=
  match fuel with
  | O => None
  | S f =>
    match skip_value f s with
    | Some (t, r) =>
      match skip_ws r with
      | c :: r1 =>
        if beqb c x2c then
          match skip_elems f r1 with Some (t2, r2) => Some (t ++ ws_prefix r ++ c :: t2, r2) | None => None end
        else if beqb c x5d then Some (t ++ ws_prefix r ++ [c], r1)
        else None
      | [] => None
      end
    | None => None
    end
  end
with skip_members (fuel : nat) (s : bytes) {struct fuel} : option (bytes * bytes) :=
  match fuel with
  | O => None
  | S f =>
    match skip_ws s with
    | q :: s1 =>
      if beqb q x22 then
        match skip_str s1 with
        | Some (k, r0) =>
          match skip_ws r0 with
          | col :: r1 =>
            if beqb col x3a then
              match skip_value f r1 with
              | Some (t, r) =>
                match skip_ws r with
                | c :: r2 =>
                  let pre := ws_prefix s ++ q :: k ++ ws_prefix r0 ++ col :: t ++ ws_prefix r in
                  if beqb c x2c then
                    match skip_members f r2 with Some (t3, r3) => Some (pre ++ c :: t3, r3) | None => None end
                  else if beqb c x7d then Some (pre ++ [c], r2)
                  else None
                | [] => None
                end
              | None => None
              end
            else None
          | [] => None
          end
        | None => None
        end
      else None
    | [] => None
    end
  end.

(* RawValue through from_slice: leading whitespace dropped, span must be UTF-8 *)
Definition raw_value (s : bytes) : option (bytes * bytes) :=
  let s' := skip_ws s in
  match skip_value (S (length s')) s' with
  | Some (t, r) => if utf8_valid t then Some (t, r) else None
  | None => None
  end.

(* a complete raw text: ws* value ws* eof *)
Definition raw_text (s : bytes) : option bytes :=
  match raw_value s with
  | Some (t, r) => match skip_ws r with [] => Some t | _ => None end
  | None => None
  end.
