(* Compact serialisation, as serde_json::to_string/to_vec. *)
From JV Require Import Base.Bytes Base.Dec Json.Json.
Local Open Scope N_scope.

Definition hex_digit (n : N) : byte := if n <? 10 then Nb (48 + n) else Nb (87 + n).   (* lower case *)

Definition escape_byte (c : byte) : bytes :=
  match c with
  | x22 => [x5c; x22]
  | x5c => [x5c; x5c]
  | x08 => [x5c; x62]
  | x0c => [x5c; x66]
  | x0a => [x5c; x6e]
  | x0d => [x5c; x72]
  | x09 => [x5c; x74]
  | _ => if bN c <? 32 then [x5c; x75; x30; x30; hex_digit (bN c / 16); hex_digit (bN c mod 16)] else [c]
  end.

Fixpoint escape_body (s : bytes) : bytes :=
  match s with
  | [] => []
  | c :: s' => escape_byte c ++ escape_body s'
  end.

Definition ser_str (s : bytes) : bytes := x22 :: escape_body s ++ [x22].

Definition ser_num (x : num) : bytes :=
  match x with
  | NPos n => print_N n
  | NNeg n => x2d :: print_N n
  | NFloat l => l
  end.

Fixpoint ser (v : json) : bytes :=
  match v with
  | JNull => b#"null"
  | JBool true => b#"true"
  | JBool false => b#"false"
  | JNum x => ser_num x
  | JStr s => ser_str s
  | JArr l =>
    x5b :: (fix go (l : list json) : bytes :=
              match l with
              | [] => [x5d]
              | [x] => ser x ++ [x5d]
              | x :: l' => ser x ++ x2c :: go l'
              end) l
  | JObj m =>
    x7b :: (fix go (m : list (bytes * json)) : bytes :=
              match m with
              | [] => [x7d]
              | [(k, x)] => ser_str k ++ x3a :: ser x ++ [x7d]
              | (k, x) :: m' => ser_str k ++ x3a :: ser x ++ x2c :: go m'
              end) m
  end.
