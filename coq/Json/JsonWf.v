(* Well-formed values = the image of the strict parser; follow-set for number termination. *)
From JV Require Import Base.Bytes Base.Dec Base.Utf8 Json.Json Json.JsonSer Json.JsonParse.
Local Open Scope N_scope.

Definition is_float_num (x : num) : bool := match x with NFloat _ => true | _ => false end.

Definition wf_num (x : num) : bool :=
  match x with
  | NPos n => n <=? u64_max
  | NNeg n => (0 <? n) && (n <=? i64_min_abs)
  | NFloat l =>
    match scan_number l with
    | Some (nl, []) => bytes_eqb (numlex_bytes nl) l && num_eqb (classify_num nl) (NFloat l)
    | _ => false
    end
  end.

Fixpoint wf (v : json) : bool :=
  match v with
  | JNull | JBool _ => true
  | JNum x => wf_num x
  | JStr s => utf8_valid s
  | JArr l => forallb wf l
  | JObj m => forallb (fun kv => utf8_valid (fst kv) && wf (snd kv)) m
  end.

(* a byte that cannot continue a number lexeme *)
Definition num_cont (c : byte) : bool :=
  is_digit c || beqb c x2e || beqb c x65 || beqb c x45.
Definition ok_follow (rest : bytes) : bool :=
  match rest with [] => true | c :: _ => negb (num_cont c) end.
