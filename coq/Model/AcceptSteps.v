(* The effectful steps of `PendingSubscriptionSink::accept` (core/src/server/subscription.rs), as an alphabet.
   The ORDER in which the source performs them is not written here: tools/translators/accept_order.py reads it off
   the function body on every check and emits it as `Gen/AcceptOrderGen.accept_steps`; Model/SubBook.v interprets
   that list (accept_run).

     ASendToSink    `self.inner.send(response.to_json()).await ... ?`   hand the subscribe answer to the connection's
                    outgoing channel; FAILS when that channel is closed (the only await of the function)
     ANotifyCall    `self.subscribe.send(response) ... ?`               hand the answer to the waiting subscribe-call
                    future through its oneshot; FAILS when that future has been dropped (abandoned call)
     ATableInsert   `self.subscribers.lock().insert(uniq_sub, ..)`      register the subscription in the shared table
     ABuildSink     `Ok(SubscriptionSink { .. })`                       build the first sink (owner of the drop guard and
                    of the permit) and return it *)
From Coq Require Import List Bool.
Import ListNotations.

Inductive accept_step := ASendToSink | ANotifyCall | ATableInsert | ABuildSink.

(* the steps behind a `?` *)
Definition fallible (a : accept_step) : bool :=
  match a with ASendToSink | ANotifyCall => true | _ => false end.

Definition is_nil_steps (l : list accept_step) : bool := match l with [] => true | _ => false end.

(* The model keeps ONE seam inside accept (acts Accept1 / Accept2): everything up to and including the last fallible
   step (the part that answers the call and can still fail) / the rest, which cannot fail. *)
Fixpoint split_answer (l : list accept_step) : list accept_step * list accept_step :=
  match l with
  | [] => ([], [])
  | a :: l' =>
      let pq := split_answer l' in
      if fallible a || negb (is_nil_steps (fst pq)) then (a :: fst pq, snd pq) else ([], a :: snd pq)
  end.
