(* What the server does with a message sniffed as a BATCH before and after its entries are executed, as an alphabet.
   Neither the ORDER of the checks nor what each of them answers is written in the model: tools/translators/batch_gate.py
   reads both off `handle_rpc_call` (server/src/server.rs), `RpcService::batch` (server/src/middleware/rpc.rs) and
   `BatchResponseBuilder::{is_empty, finish}` (core/src/server/method_response.rs) on every check and emits
   `Gen/BatchGateGen.{batch_gate, batch_epilogue}`; Model/Server.v interprets the two lists (run_gate, run_epilogue).

   Prologue (handle_rpc_call, the `else` branch of `if is_single`), every rejection is `MethodResponse::error(Id::Null, e)`:
     GDisabledRejects e     `let max_len = match batch_config { Disabled => return error(Id::Null, e),
                                                                 Limit(limit) => limit as usize, Unlimited => usize::MAX }`
                            -- from here on the configured limit is known (max_len)
     GParseArray e          `if let Ok(batch) = serde_json::from_slice::<Vec<&RawValue>>(body) { .. } else { error(Id::Null, e) }`
                            -- from here on the entries are known
     GTooLong cmp e         `if batch.len() <cmp> max_len { return error(Id::Null, e(max_len)) }`; `Unlimited` = usize::MAX
                            never triggers; needs both max_len and the entries
     GEntriesMustBeObjects  the loop over the entries: `!call.get().starts_with('{')` -> an invalid entry with id null, else
                            Request / Notification / InvalidRequest{id} (Model/Server.v classify_entry), then
                            `rpc_service.batch(..)` -- ends the prologue: the entries are ADMITTED
   Epilogue (after RpcService::batch's loop over the entries, when no append failed), first rule that applies:
     FAllNotificationsSilent  `if batch_rp.is_empty() && got_notification { MethodResponse::notification() }`
     FEmptyIsInvalid e        BatchResponseBuilder::finish: `if self.result.len() == 1 { error(Id::Null, e) }`  (nothing was
                              appended: THIS is where an empty array `[]` gets its answer; there is no check for it in
                              handle_rpc_call)
     FCloseArray              finish: `pop(); push(']')`

   A list in which a step needs something no earlier step has established (the length check before the array is read
   or before max_len exists, two parses, no final GEntriesMustBeObjects, an epilogue that runs out of rules) is not a
   program the source could be: the interpreters answer GStuck / None and every theorem about batches fails to build. *)
From JV Require Import Base.Bytes Model.ErrShape.

Inductive len_cmp := LenGt | LenGe.      (* `>` / `>=` *)

Inductive gate_step :=
| GDisabledRejects (e : shape)
| GParseArray (e : shape)
| GTooLong (cmp : len_cmp) (e : shape)
| GEntriesMustBeObjects.

Inductive epilogue_step :=
| FAllNotificationsSilent
| FEmptyIsInvalid (e : shape)
| FCloseArray.

(* `len <cmp> max_len` *)
Definition len_exceeds (cmp : len_cmp) (len : nat) (max_len : N) : bool :=
  match cmp with
  | LenGt => (max_len <? N.of_nat len)%N
  | LenGe => (max_len <=? N.of_nat len)%N
  end.
