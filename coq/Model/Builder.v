(* core/src/params.rs : ParamsBuilder (maybe_initialize / insert / insert_named / build), ArrayParams,
   ObjectParams, BatchRequestBuilder; core/src/traits.rs : ToRpcParams for tuples 1..16, slices, Vec,
   arrays, serde_json::Map (all `to_raw_value(&self)`); core/src/client/mod.rs : rpc_params!.

   A value handed to a builder is seen only through what its `Serialize` impl does to the writer:
     SOk t        it wrote the text t and returned Ok
     SFail p      it wrote the bytes p and then returned Err           (user code: an input of every theorem)
   `insert` / `insert_named` model the code WITH the C20 repair (remember the buffer length on entry, truncate
   back to it when serialisation fails); `insert_old` / `insert_named_old` transcribe the code before the repair
   and are kept for the refutation witness and for the driver's `old` mode.
   `build` is unchanged by the repair: trailing ',' replaced by the end byte (else the end byte is pushed),
   then `RawValue::from_string(..).expect("Valid JSON String; qed")` = raw_text, failure = BPanic.

   Left out: Vec capacity (`reserve`), `Clone`/`Debug`; the `unsafe from_utf8_unchecked` in build (a buffer that
   is not UTF-8 is reported as BPanic here - serde_json only ever writes whole `str` fragments, and raw_text
   checks UTF-8); panics raised by a user's `Serialize` impl itself; the keys of ObjectParams are `&str`
   (UTF-8), here arbitrary bytes with `utf8_valid` as a hypothesis of the theorems. *)
From JV Require Import Base.Bytes Base.Utf8 Json.Json Json.JsonSer Json.JsonParse.

Record builder := { buf : bytes; b_start : byte; b_end : byte }.

Inductive sres := SOk (t : bytes) | SFail (partial : bytes).
Inductive bres := BNone | BSome (t : bytes) | BPanic.

Definition positional : builder := {| buf := []; b_start := x5b; b_end := x5d |}.
Definition named : builder := {| buf := []; b_start := x7b; b_end := x7d |}.

Definition set_buf (b : builder) (s : bytes) : builder := {| buf := s; b_start := b_start b; b_end := b_end b |}.

(* if self.bytes.is_empty() { reserve; push(start) } *)
Definition maybe_initialize (b : builder) : builder :=
  match buf b with
  | [] => set_buf b [b_start b]
  | _ :: _ => b
  end.

(* serde_json::to_writer(&mut self.bytes, &value) *)
Definition to_writer (b : builder) (v : sres) : builder * bool :=
  match v with
  | SOk t => (set_buf b (buf b ++ t), true)
  | SFail p => (set_buf b (buf b ++ p), false)
  end.

Definition push (b : builder) (c : byte) : builder := set_buf b (buf b ++ [c]).
Definition truncate (b : builder) (n : nat) : builder := set_buf b (firstn n (buf b)).

(* ---- before the repair:  maybe_initialize; to_writer(value)?; push(',') *)
Definition insert_old (b : builder) (v : sres) : builder * bool :=
  let b1 := maybe_initialize b in
  let '(b2, ok) := to_writer b1 v in
  if ok then (push b2 x2c, true) else (b2, false).

(* maybe_initialize; to_writer(name)?; push(':'); to_writer(value)?; push(',')     (a &str key never fails) *)
Definition insert_named_old (b : builder) (k : bytes) (v : sres) : builder * bool :=
  let b1 := maybe_initialize b in
  let b2 := set_buf b1 (buf b1 ++ ser_str k) in
  let b3 := push b2 x3a in
  let '(b4, ok) := to_writer b3 v in
  if ok then (push b4 x2c, true) else (b4, false).

(* ---- with the repair:  let len = self.bytes.len(); ...; on Err: self.bytes.truncate(len); return Err *)
Definition insert (b : builder) (v : sres) : builder * bool :=
  let len := length (buf b) in
  let '(b', ok) := insert_old b v in
  if ok then (b', true) else (truncate b' len, false).

Definition insert_named (b : builder) (k : bytes) (v : sres) : builder * bool :=
  let len := length (buf b) in
  let '(b', ok) := insert_named_old b k v in
  if ok then (b', true) else (truncate b' len, false).

(* build(self) -> Option<Box<RawValue>> *)
Definition build (b : builder) : bres :=
  match rev (buf b) with
  | [] => BNone
  | c :: r =>
    let t := if beqb c x2c then rev r ++ [b_end b] else buf b ++ [b_end b] in
    match raw_text t with
    | Some t' => BSome t'
    | None => BPanic
    end
  end.

(* ---- sequences of calls (the results of the individual inserts are kept) *)
Fixpoint inserts_with (ins : builder -> sres -> builder * bool) (b : builder) (ops : list sres) : builder * list bool :=
  match ops with
  | [] => (b, [])
  | v :: ops' =>
    let '(b1, ok) := ins b v in
    let '(b2, oks) := inserts_with ins b1 ops' in
    (b2, ok :: oks)
  end.
Definition inserts := inserts_with insert.

Fixpoint inserts_named_with (ins : builder -> bytes -> sres -> builder * bool) (b : builder) (ops : list (bytes * sres))
  : builder * list bool :=
  match ops with
  | [] => (b, [])
  | (k, v) :: ops' =>
    let '(b1, ok) := ins b k v in
    let '(b2, oks) := inserts_named_with ins b1 ops' in
    (b2, ok :: oks)
  end.
Definition inserts_named := inserts_named_with insert_named.

(* ---- ToRpcParams *)
Inductive tres := TOk (p : option bytes) | TErr | TPanic.

(* impl ToRpcParams for ArrayParams / ObjectParams:  Ok(self.0.build()) *)
Definition builder_to_rpc_params (b : builder) : tres :=
  match build b with
  | BNone => TOk None
  | BSome t => TOk (Some t)
  | BPanic => TPanic
  end.

(* serde_json's compact serializer on a tuple / slice / Vec / array whose elements behave as es:
   '[' , elements separated by ',' , ']' ; stops at the first element that fails *)
Fixpoint seq_body (first : bool) (es : list sres) : sres :=
  match es with
  | [] => SOk [x5d]
  | e :: es' =>
    let sep := if first then [] else [x2c] in
    match e with
    | SFail p => SFail (sep ++ p)
    | SOk t =>
      match seq_body false es' with
      | SOk r => SOk (sep ++ t ++ r)
      | SFail p => SFail (sep ++ t ++ p)
      end
    end
  end.
Definition ser_seq (es : list sres) : sres :=
  match seq_body true es with
  | SOk r => SOk (x5b :: r)
  | SFail p => SFail (x5b :: p)
  end.

(* ... and on a map (entries in the map's iteration order) *)
Fixpoint map_body (first : bool) (es : list (bytes * sres)) : sres :=
  match es with
  | [] => SOk [x7d]
  | (k, e) :: es' =>
    let pre := (if first then [] else [x2c]) ++ ser_str k ++ [x3a] in
    match e with
    | SFail p => SFail (pre ++ p)
    | SOk t =>
      match map_body false es' with
      | SOk r => SOk (pre ++ t ++ r)
      | SFail p => SFail (pre ++ t ++ p)
      end
    end
  end.
Definition ser_map (es : list (bytes * sres)) : sres :=
  match map_body true es with
  | SOk r => SOk (x7b :: r)
  | SFail p => SFail (x7b :: p)
  end.

(* to_rpc_params_impl!:  let json = serde_json::value::to_raw_value(&self)?; Ok(Some(json))
   (to_string into a fresh buffer, dropped on error; RawValue::from_owned does not re-validate) *)
Definition to_raw_value (s : sres) : tres :=
  match s with
  | SOk t => TOk (Some t)
  | SFail _ => TErr
  end.
Definition seq_to_rpc_params (es : list sres) : tres := to_raw_value (ser_seq es).
Definition map_to_rpc_params (es : list (bytes * sres)) : tres := to_raw_value (ser_map es).

(* rpc_params![..]: ArrayParams::new(), insert each in order, `panic!` (documented) at the first Err *)
Fixpoint rpc_params_from (b : builder) (vs : list sres) : option builder :=
  match vs with
  | [] => Some b
  | v :: vs' =>
    let '(b', ok) := insert b v in
    if ok then rpc_params_from b' vs' else None
  end.
Definition rpc_params (vs : list sres) : option builder := rpc_params_from positional vs.

(* ---- BatchRequestBuilder: Vec<(&str, Option<Box<RawValue>>)>;  insert: self.0.push((method, value.to_rpc_params()?)) *)
Definition batch := list (bytes * option bytes).
Inductive outcome := OOk | OErr | OPanic.
Definition batch_insert (l : batch) (m : bytes) (r : tres) : batch * outcome :=
  match r with
  | TOk p => (l ++ [(m, p)], OOk)
  | TErr => (l, OErr)
  | TPanic => (l, OPanic)
  end.
Fixpoint batch_inserts (l : batch) (es : list (bytes * tres)) : batch * list outcome :=
  match es with
  | [] => (l, [])
  | (m, r) :: es' =>
    let '(l1, o) := batch_insert l m r in
    let '(l2, os) := batch_inserts l1 es' in
    (l2, o :: os)
  end.
(* build(self): Err(EmptyBatchRequest) when empty *)
Definition batch_build (l : batch) : option batch := match l with [] => None | _ => Some l end.

(* ---------- vocabulary of the C20 statements ---------- *)

(* ws* value ws* eof by the strict reader with `d` levels left (parse_text = parse_depth depth_limit) *)
Definition parse_depth (d : nat) (t : bytes) : option json :=
  match parse_value (S (length t)) d t with
  | Some (v, r) => match skip_ws r with [] => Some v | _ => None end
  | None => None
  end.

(* the value carried by a successfully serialised text: UTF-8, and readable with one nesting level to spare
   (the builder wraps it in one more array / object, and the reader's recursion limit is 128) *)
Definition item_depth : nat := 127.
Definition value_of (t : bytes) : option json := if utf8_valid t then parse_depth item_depth t else None.

Definition sres_is_ok (v : sres) : bool := match v with SOk _ => true | SFail _ => false end.
Definition sres_valid (v : sres) : Prop := match v with SOk t => value_of t <> None | SFail _ => True end.
(* the weaker, depth-free notion: exactly what a RawValue holds (lenient scanner, UTF-8, no surrounding whitespace) *)
Definition raw_valid (t : bytes) : Prop := raw_text t = Some t.
Definition sres_raw_valid (v : sres) : Prop := match v with SOk t => raw_valid t | SFail _ => True end.

Fixpoint values (ops : list sres) : list json :=
  match ops with
  | [] => []
  | SOk t :: r => match value_of t with Some v => v :: values r | None => values r end
  | SFail _ :: r => values r
  end.
Fixpoint members (ops : list (bytes * sres)) : list (bytes * json) :=
  match ops with
  | [] => []
  | (k, SOk t) :: r => match value_of t with Some v => (k, v) :: members r | None => members r end
  | (_, SFail _) :: r => members r
  end.
Definition all_ok (ops : list sres) : bool := forallb sres_is_ok ops.
