(* The async client's dispatch of an incoming transport message, as an alphabet.
   (core/src/client/async_client/mod.rs, `handle_backend_messages::handle_recv_message`.)

   Neither the ORDER in which the readers are tried nor what each arm DOES is written in the model:
   tools/translators/client_dispatch.py reads both off the function body on every check and emits
   `Gen/ClientDispatchGen.client_dispatch` (and its components); Model/ClientMgr.v interprets that value
   (`classify_with`, `classify_frame_with`, `handle_back_with`).

   First-byte table (`match first_non_whitespace { Some(b'{') => .., Some(b'[') => .., _ => .. }`, the byte being
   `raw.iter().find(|byte| !byte.is_ascii_whitespace())`):
     BSingle    the arm tries the readers of `d_single` on the whole text `raw`
     BArray     the arm reads `Vec<&RawValue>` (else `return Err(unparse_error(raw))`) and loops over the elements
                (`d_elem` on `r.get()`), then the epilogue
     BError     `return Err(unparse_error(raw))`

   Readers (`if let Ok(x) = serde_json::from_slice/from_str::<T>(..)`, an `else if` chain: the first that accepts wins):
     TryResponse      T = Response<_>
     TrySubResponse   T = SubscriptionResponse<_>     (subscription notification: params {subscription, result})
     TrySubError      T = SubscriptionError<_>        (closing notification:      params {subscription, error})
     TryNotification  T = Notification

   Actions (the body of the arm of a reader):
     ASingleResponse c   `let maybe_unsub = process_single_response(&mut manager.lock(), single.into_owned().into(), cap)?;`
                         (an error is fatal) and `if let Some(sub_id) = maybe_unsub { <close c> }`
     ABatchCollect k     array only: `let id = response.id.try_parse_inner_as_number()<k>; batch.push(..);` + the update of
                         `range` (get_or_insert(id..id), start = min, end = max).  k = IdNumberOrFatal is the `?`
                         (an id that is not a number ends the read task); IdNumberUnchecked = no `?` (nothing fatal there:
                         the element is collected and the range is left alone)
     ASubItem c          `if let Some(sub_id) = process_subscription_response(&mut manager.lock(), response) { <close c> }`
     ASubClose           `process_subscription_close_response(&mut manager.lock(), response);`
     ANotification       `process_notification(&mut manager.lock(), notif);`
   <close c>, what is done with a close request (FrontToBack::SubscriptionClosed(sub_id)) that comes out of an action:
     CloseReturned       `return Ok(vec![FrontToBack::SubscriptionClosed(sub_id)]);`   the function ends there: inside the
                         array loop the remaining elements are NOT looked at and the epilogue (process_batch_response) is skipped
     ClosePushed         `messages.push(FrontToBack::SubscriptionClosed(sub_id));`      the loop goes on; the function's tail
                         `Ok(messages)` hands the requests over
   In the array table every entry also records whether its arm sets `got_notif = true`.

   When no reader accepts:
     NoReaderFatal       `else { return Err(unparse_error(raw)); }`
     NoReaderIgnored     no final `else`: the text is dropped silently

   Array epilogue (after the loop), rules tried in order, falling through to `Ok(messages)`:
     PBatchResponse      `if let Some(mut range) = range { range.end = range.end.checked_add(1).ok_or_else(..NotPendingRequest..)?;
                          process_batch_response(&mut manager.lock(), batch, range)?; }`   applies when a response was collected
     PEmptyIsFatal       `else if !got_notif { return Err(EmptyBatchRequest.into()); }`    applies when got_notif is false *)
From JV Require Import Base.Bytes.

Inductive frame_arm := BSingle | BArray | BError.
Inductive reader := TryResponse | TrySubResponse | TrySubError | TryNotification.
Inductive close_mode := CloseReturned | ClosePushed.
Inductive id_check := IdNumberOrFatal | IdNumberUnchecked.
Inductive action :=
| ASingleResponse (closes_by : close_mode)
| ABatchCollect (chk : id_check)
| ASubItem (closes_by : close_mode)
| ASubClose
| ANotification.
Inductive no_reader_rule := NoReaderFatal | NoReaderIgnored.
Inductive post_rule := PBatchResponse | PEmptyIsFatal.

Record dispatch := {
  d_first : list (byte * frame_arm);                 (* the arms `Some(b'..') =>`, in source order *)
  d_first_default : frame_arm;                       (* the arm `_ =>` (also taken when there is no non-whitespace byte) *)
  d_single : list (reader * action);                 (* the `{` arm: readers in the order tried, each with its action *)
  d_single_no_reader : no_reader_rule;
  d_elem : list (reader * action * bool);            (* the loop of the `[` arm: reader, action, sets got_notif *)
  d_elem_no_reader : no_reader_rule;
  d_post : list post_rule                            (* after the loop *)
}.

Definition reader_eqb (a b : reader) : bool :=
  match a, b with
  | TryResponse, TryResponse | TrySubResponse, TrySubResponse | TrySubError, TrySubError
  | TryNotification, TryNotification => true
  | _, _ => false
  end.

Definition single_readers (d : dispatch) : list reader := map fst (d_single d).
Definition elem_readers (d : dispatch) : list reader := map (fun x => fst (fst x)) (d_elem d).

Fixpoint single_action (r : reader) (l : list (reader * action)) : option action :=
  match l with
  | [] => None
  | (r', a) :: l' => if reader_eqb r r' then Some a else single_action r l'
  end.
Fixpoint elem_action (r : reader) (l : list (reader * action * bool)) : option (action * bool) :=
  match l with
  | [] => None
  | (r', a, g) :: l' => if reader_eqb r r' then Some (a, g) else elem_action r l'
  end.

Fixpoint first_byte_arm (tbl : list (byte * frame_arm)) (dflt : frame_arm) (c : byte) : frame_arm :=
  match tbl with
  | [] => dflt
  | (b, a) :: tbl' => if beqb c b then a else first_byte_arm tbl' dflt c
  end.
