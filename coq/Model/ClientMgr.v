(* The async client's bookkeeping (core/src/client/async_client/{manager,helpers,mod}.rs, client/mod.rs):
   the four tables of RequestManager, the incoming-message classifier and the front-to-back message
   handler, as one state machine
       step : st -> ev -> st * list out
   whose events are the front-end operations, the server frames, and the release of a gated transport
   write.  After every event the send task is run to quiescence (it handles queued front-to-back
   messages one at a time unless it is blocked inside a transport write), which is what the harness's
   poll-to-quiescence does on a current-thread runtime.  Any interleaving of the send task, the read
   task and front-end callers at manager-lock granularity is some event list.

   Modelled as it is NOW in /repo (i.e. with the C03/C05/C09/C12/C18 repairs applied).
   The dispatch of an incoming message (handle_recv_message: first-byte table, order of the readers, what each arm
   does, close requests returned or pushed in the array loop, the rules after the loop) is NOT written here: it is the
   value Gen/ClientDispatchGen.client_dispatch, read from the source by tools/translators/client_dispatch.py on every
   check (alphabet: Model/ClientDispatch.v) and interpreted by classify_with / classify_frame_with / handle_single_with /
   array_run_with / run_post / handle_back_with; classify_frame, handle_back, ... are these at client_dispatch.
   Left out: ping/pong, request timeouts (the caller giving up is the event FGiveUp), middleware,
   and the shutdown protocol between the three tasks (Model/ClientShutdown.v); here a fatal error
   just kills the state (everything pending fails with the cause). *)
From JV Require Import Base.Bytes Base.Dec Base.Utf8 Json.Json Json.JsonSer Json.JsonParse Model.Wire.
From JV Require Import Model.ClientDispatch Gen.ClientDispatchGen.
Local Open Scope N_scope.

Definition handle := N.

(* ---------- per-subscription bounded channel (client/mod.rs subscription_channel) ---------- *)
Record chan := { c_cap : nat; c_buf : list bytes; c_tx : bool; c_rx : bool; c_lag : bool }.

Inductive sendres := SentOk | SentClosed | SentTooSlow.

(* SubscriptionSender::send (after the lag repair: refuse once lagged) *)
Definition chan_send (c : chan) (x : bytes) : chan * sendres :=
  if c_lag c then (c, SentTooSlow)
  else if negb (c_rx c) then (c, SentClosed)
  else if Nat.ltb (length (c_buf c)) (c_cap c)
       then ({| c_cap := c_cap c; c_buf := c_buf c ++ [x]; c_tx := c_tx c; c_rx := c_rx c; c_lag := c_lag c |}, SentOk)
       else ({| c_cap := c_cap c; c_buf := c_buf c; c_tx := c_tx c; c_rx := c_rx c; c_lag := true |}, SentTooSlow).

Definition chan_drop_tx (c : chan) : chan :=
  {| c_cap := c_cap c; c_buf := c_buf c; c_tx := false; c_rx := c_rx c; c_lag := c_lag c |}.
Definition chan_drop_rx (c : chan) : chan :=
  {| c_cap := c_cap c; c_buf := []; c_tx := c_tx c; c_rx := false; c_lag := c_lag c |}.
Definition new_chan (cap : nat) : chan :=
  {| c_cap := cap; c_buf := []; c_tx := true; c_rx := true; c_lag := false |}.

(* ---------- tables ---------- *)
Inductive kind :=
| KCall (w : option handle)                              (* PendingMethodCall(Option<oneshot>) *)
| KPendSub (unsub : id) (w : handle) (um : bytes)        (* PendingSubscription *)
| KSub (unsub : id) (ch : handle) (um : bytes)           (* Subscription (its sink is channel ch) *)
| KUnsubP (sub : id).                                    (* PendingUnsubscribe(subscribe request id) *)

Record mgr := {
  requests : list (id * kind);
  subs : list (subid * id);
  batches : list ((N * N) * handle);          (* Range<u64> start..end -> waiter *)
  nhandlers : list (bytes * handle)           (* notification method -> channel *)
}.

Definition empty_mgr : mgr := {| requests := []; subs := []; batches := []; nhandlers := [] |}.

Section AList.
  Context {K V : Type} (eqb : K -> K -> bool).
  Fixpoint alookup (k : K) (l : list (K * V)) : option V :=
    match l with [] => None | (k', v) :: l' => if eqb k k' then Some v else alookup k l' end.
  Fixpoint aremove (k : K) (l : list (K * V)) : list (K * V) :=
    match l with [] => [] | (k', v) :: l' => if eqb k k' then aremove k l' else (k', v) :: aremove k l' end.
  Definition ahas (k : K) (l : list (K * V)) : bool := match alookup k l with Some _ => true | None => false end.
  Definition aset (k : K) (v : V) (l : list (K * V)) : list (K * V) := (k, v) :: aremove k l.
End AList.

Definition range_eqb (a b : N * N) : bool := N.eqb (fst a) (fst b) && N.eqb (snd a) (snd b).

Definition req_lookup (i : id) (m : mgr) := alookup id_eqb i (requests m).
Definition set_requests (m : mgr) (r : list (id * kind)) : mgr :=
  {| requests := r; subs := subs m; batches := batches m; nhandlers := nhandlers m |}.
Definition set_subs (m : mgr) (s : list (subid * id)) : mgr :=
  {| requests := requests m; subs := s; batches := batches m; nhandlers := nhandlers m |}.
Definition set_batches (m : mgr) (b : list ((N * N) * handle)) : mgr :=
  {| requests := requests m; subs := subs m; batches := b; nhandlers := nhandlers m |}.
Definition set_nhandlers (m : mgr) (h : list (bytes * handle)) : mgr :=
  {| requests := requests m; subs := subs m; batches := batches m; nhandlers := h |}.

(* manager.rs: release_reserved_unsubscribe_id *)
Definition release_reserved (u : id) (m : mgr) : mgr :=
  match req_lookup u m with
  | Some (KCall None) => set_requests m (aremove id_eqb u (requests m))
  | _ => m
  end.

(* ---------- messages ---------- *)
Inductive f2b :=
| MBatch (lo hi : N) (h : handle) (raw : bytes)
| MNotif (raw : bytes)
| MRequest (i : id) (w : option handle) (raw : bytes)
| MSubscribe (sub_id unsub_id : id) (um : bytes) (h : handle) (raw : bytes)
| MRegister (method : bytes) (h : handle)
| MUnregister (method : bytes)
| MSubClosed (s : subid).

Inductive inmsg :=
| IResp (r : response)
| ISubNotif (method : bytes) (s : subid) (payload : bytes)
| ISubErr (method : bytes) (s : subid) (payload : bytes)
| INotif (method : bytes) (params : option bytes)
| IBad.
Inductive inframe := FSingle (m : inmsg) | FArray (ms : list inmsg) | FGarbage.

(* The ORDER of the attempts in handle_recv_message is not written here: it is read from the source
   (tools/translators/client_dispatch.py -> Gen/ClientDispatchGen.client_dispatch) and interpreted.
   What one reader yields when it accepts the text: *)
Definition try_reader (r : reader) (t : bytes) : option inmsg :=
  match r with
  | TryResponse => match parse_response t with Some r => Some (IResp r) | None => None end
  | TrySubResponse => match parse_sub_notif k_result t with Some (me, s, p) => Some (ISubNotif me s p) | None => None end
  | TrySubError => match parse_sub_notif k_error t with Some (me, s, p) => Some (ISubErr me s p) | None => None end
  | TryNotification => match parse_notification t with Some (me, p) => Some (INotif me p) | None => None end
  end.

(* the `if let Ok(..) .. else if let Ok(..) ..` chain: the first reader that accepts wins *)
Fixpoint classify_with (rs : list reader) (t : bytes) : inmsg :=
  match rs with
  | [] => IBad
  | r :: rs' => match try_reader r t with Some x => x | None => classify_with rs' t end
  end.

(* a whole message (the `{` arm) / one element of an array (the loop of the `[` arm) *)
Definition classify_single (t : bytes) : inmsg := classify_with (single_readers client_dispatch) t.
Definition classify_elem (t : bytes) : inmsg := classify_with (elem_readers client_dispatch) t.

(* Vec<&RawValue> from a slice: ws* '[' (value (',' value)* )? ']' ws* eof, spans must be UTF-8 *)
Fixpoint raw_elems (fuel : nat) (s : bytes) : option (list bytes * bytes) :=
  match fuel with
  | O => None
  | S f =>
    match raw_value s with
    | Some (t, r) =>
      match skip_ws r with
      | c :: r1 =>
        if beqb c x2c then match raw_elems f r1 with Some (ts, r2) => Some (t :: ts, r2) | None => None end
        else if beqb c x5d then Some ([t], r1)
        else None
      | [] => None
      end
    | None => None
    end
  end.

Definition raw_array (s : bytes) : option (list bytes) :=
  match skip_ws s with
  | c :: s1 =>
    if beqb c x5b then
      match skip_ws s1 with
      | c2 :: r =>
        if beqb c2 x5d then match skip_ws r with [] => Some [] | _ => None end
        else match raw_elems (S (length s1)) s1 with
             | Some (ts, r') => match skip_ws r' with [] => Some ts | _ => None end
             | None => None
             end
      | [] => None
      end
    else None
  | [] => None
  end.

(* `match first_non_whitespace { .. }` over the generated first-byte table *)
Definition classify_frame_with (d : dispatch) (raw : bytes) : inframe :=
  let arm := match drop_while is_ascii_ws raw with
             | c :: _ => first_byte_arm (d_first d) (d_first_default d) c
             | [] => d_first_default d
             end in
  match arm with
  | BSingle => FSingle (classify_with (single_readers d) raw)
  | BArray =>
      match raw_array raw with
      | Some ts => FArray (map (classify_with (elem_readers d)) ts)
      | None => FGarbage
      end
  | BError => FGarbage
  end.

Definition classify_frame (raw : bytes) : inframe := classify_frame_with client_dispatch raw.

(* ---------- results seen by front-end callers ---------- *)
Inductive cerr :=
| EOccupied                 (* InvalidRequestId::Occupied *)
| ECall (e : errobj)        (* Error::Call *)
| EParse                    (* subscription id in the answer is not a subscription id *)
| EInvalidSubId             (* Error::InvalidSubscriptionId: duplicate subscription id *)
| EAlreadyRegistered
| ENameConflict             (* subscribe == unsubscribe method *)
| EEmptyBatch
| EDisconnected.            (* RestartNeeded(cause) *)

Inductive cres :=
| CResp (r : response)
| CBatch (rs : list response)
| CSubOk (s : subid)
| CRegOk
| CDone                     (* unsubscribe() finished *)
| CErr (e : cerr).

(* ---------- state ---------- *)
Inductive fatal :=
| FNotPending               (* a response matching nothing pending *)
| FUnparseable
| FEmptyBatch
| FBadBatchId               (* id in an array reply that is not a number / numeric string *)
| FTransport.               (* injected transport fault *)

Inductive out :=
| OWire (raw : bytes)
| OComplete (h : handle) (r : cres)
| OFatal (f : fatal).

Record st := {
  m : mgr;
  chans : list (handle * chan);
  next_id : N;
  id_str : bool;               (* IdKind::String *)
  queue : list f2b;            (* front-to-back mpsc *)
  qcap : nat;
  waiting : list (f2b * option handle);   (* senders blocked on a full queue (FIFO, as tokio's semaphore); an unsubscribe() future is tagged with its waiter *)
  gone : list handle;          (* callers that gave up: their oneshot receivers are dropped *)
  gated : bool;                (* transport writes block until released *)
  busy : bool;                 (* the send task is inside a transport write *)
  unsubw : list (handle * handle * bool);   (* pending Subscription::unsubscribe futures: (waiter, channel, its message has entered the queue) *)
  subkind : list (handle * (subid + bytes));   (* what a front-end Subscription value refers to *)
  bufcap : nat;                (* max_buffer_capacity_per_subscription *)
  dead : bool;
  dying : option fatal;        (* a background task has ended with this error; shutdown has not happened yet *)
  sendfail : bool;             (* the next transport write fails (injected fault) *)
  unacked : list id            (* HISTORY VARIABLE (read by no transition): ids of unsubscribe calls sent and not yet answered *)
}.

Definition init (idstr : bool) (qc : nat) (bc : nat) (gate : bool) : st :=
  {| m := empty_mgr; chans := []; next_id := 0; id_str := idstr; queue := []; qcap := qc; waiting := [];
     gone := []; gated := gate; busy := false; unsubw := []; subkind := []; bufcap := bc; dead := false; dying := None; sendfail := false; unacked := [] |}.

Definition upd_m (s : st) (m' : mgr) : st :=
  {| m := m'; chans := chans s; next_id := next_id s; id_str := id_str s; queue := queue s; qcap := qcap s;
     waiting := waiting s; gone := gone s; gated := gated s; busy := busy s; unsubw := unsubw s;
     subkind := subkind s; bufcap := bufcap s; dead := dead s; dying := dying s; sendfail := sendfail s; unacked := unacked s |}.
Definition upd_chans (s : st) (c : list (handle * chan)) : st :=
  {| m := m s; chans := c; next_id := next_id s; id_str := id_str s; queue := queue s; qcap := qcap s;
     waiting := waiting s; gone := gone s; gated := gated s; busy := busy s; unsubw := unsubw s;
     subkind := subkind s; bufcap := bufcap s; dead := dead s; dying := dying s; sendfail := sendfail s; unacked := unacked s |}.
Definition upd_next (s : st) (n : N) : st :=
  {| m := m s; chans := chans s; next_id := n; id_str := id_str s; queue := queue s; qcap := qcap s;
     waiting := waiting s; gone := gone s; gated := gated s; busy := busy s; unsubw := unsubw s;
     subkind := subkind s; bufcap := bufcap s; dead := dead s; dying := dying s; sendfail := sendfail s; unacked := unacked s |}.
Definition upd_queue (s : st) (q : list f2b) (w : list (f2b * option handle)) : st :=
  {| m := m s; chans := chans s; next_id := next_id s; id_str := id_str s; queue := q; qcap := qcap s;
     waiting := w; gone := gone s; gated := gated s; busy := busy s; unsubw := unsubw s;
     subkind := subkind s; bufcap := bufcap s; dead := dead s; dying := dying s; sendfail := sendfail s; unacked := unacked s |}.
Definition upd_gone (s : st) (g : list handle) : st :=
  {| m := m s; chans := chans s; next_id := next_id s; id_str := id_str s; queue := queue s; qcap := qcap s;
     waiting := waiting s; gone := g; gated := gated s; busy := busy s; unsubw := unsubw s;
     subkind := subkind s; bufcap := bufcap s; dead := dead s; dying := dying s; sendfail := sendfail s; unacked := unacked s |}.
Definition upd_busy (s : st) (b : bool) : st :=
  {| m := m s; chans := chans s; next_id := next_id s; id_str := id_str s; queue := queue s; qcap := qcap s;
     waiting := waiting s; gone := gone s; gated := gated s; busy := b; unsubw := unsubw s;
     subkind := subkind s; bufcap := bufcap s; dead := dead s; dying := dying s; sendfail := sendfail s; unacked := unacked s |}.
Definition upd_unsubw (s : st) (u : list (handle * handle * bool)) : st :=
  {| m := m s; chans := chans s; next_id := next_id s; id_str := id_str s; queue := queue s; qcap := qcap s;
     waiting := waiting s; gone := gone s; gated := gated s; busy := busy s; unsubw := u;
     subkind := subkind s; bufcap := bufcap s; dead := dead s; dying := dying s; sendfail := sendfail s; unacked := unacked s |}.
Definition upd_subkind (s : st) (k : list (handle * (subid + bytes))) : st :=
  {| m := m s; chans := chans s; next_id := next_id s; id_str := id_str s; queue := queue s; qcap := qcap s;
     waiting := waiting s; gone := gone s; gated := gated s; busy := busy s; unsubw := unsubw s;
     subkind := k; bufcap := bufcap s; dead := dead s; dying := dying s; sendfail := sendfail s; unacked := unacked s |}.
Definition upd_dead (s : st) : st :=
  {| m := m s; chans := chans s; next_id := next_id s; id_str := id_str s; queue := queue s; qcap := qcap s;
     waiting := waiting s; gone := gone s; gated := gated s; busy := busy s; unsubw := unsubw s;
     subkind := subkind s; bufcap := bufcap s; dead := true; dying := dying s; sendfail := sendfail s; unacked := unacked s |}.

Definition upd_dying (s : st) (f : fatal) : st :=
  {| m := m s; chans := chans s; next_id := next_id s; id_str := id_str s; queue := queue s; qcap := qcap s;
     waiting := waiting s; gone := gone s; gated := gated s; busy := busy s; unsubw := unsubw s;
     subkind := subkind s; bufcap := bufcap s; dead := dead s;
     dying := match dying s with Some f0 => Some f0 | None => Some f end; sendfail := sendfail s; unacked := unacked s |}.

Definition upd_sendfail (s : st) (b : bool) : st :=
  {| m := m s; chans := chans s; next_id := next_id s; id_str := id_str s; queue := queue s; qcap := qcap s;
     waiting := waiting s; gone := gone s; gated := gated s; busy := busy s; unsubw := unsubw s;
     subkind := subkind s; bufcap := bufcap s; dead := dead s; dying := dying s; sendfail := b; unacked := unacked s |}.

Definition upd_unacked (s : st) (u : list id) : st :=
  {| m := m s; chans := chans s; next_id := next_id s; id_str := id_str s; queue := queue s; qcap := qcap s;
     waiting := waiting s; gone := gone s; gated := gated s; busy := busy s; unsubw := unsubw s;
     subkind := subkind s; bufcap := bufcap s; dead := dead s; dying := dying s; sendfail := sendfail s; unacked := u |}.

Definition alive (s : st) (h : handle) : bool := negb (existsb (N.eqb h) (gone s)).
Definition complete (s : st) (h : handle) (r : cres) : list out := if alive s h then [OComplete h r] else [].

Definition chan_of (s : st) (h : handle) : option chan := alookup N.eqb h (chans s).
Definition set_chan (s : st) (h : handle) (c : chan) : st := upd_chans s (aset N.eqb h c (chans s)).
Definition drop_sink (s : st) (h : handle) : st :=
  match chan_of s h with Some c => set_chan s h (chan_drop_tx c) | None => s end.

Definition mk_id (s : st) (n : N) : id := if id_str s then IdStr (print_N n) else IdNum n.

(* Id::try_parse_inner_as_number: u64::from_str on a string id accepts an optional '+' and leading zeros *)
Definition all_digits (s : bytes) : bool := forallb is_digit s.
Definition id_as_number (i : id) : option N :=
  match i with
  | IdNull => None
  | IdNum n => Some n
  | IdStr s =>
    let d := match s with c :: t => if beqb c x2b then t else s | [] => s end in
    match d with
    | [] => None
    | _ => if all_digits d then (let v := digits_val d in if v <=? u64_max then Some v else None) else None
    end
  end.

(* ---------- enqueueing ---------- *)
Definition mark_admitted (w : handle) (u : list (handle * handle * bool)) : list (handle * handle * bool) :=
  map (fun x => match x with (h, c, b) => if N.eqb h w then (h, c, true) else (h, c, b) end) u.

Definition enqueue_tagged (s : st) (msg : f2b) (tag : option handle) : st :=
  if Nat.ltb (length (queue s)) (qcap s) && (match waiting s with [] => true | _ => false end)
  then
    let s1 := upd_queue s (queue s ++ [msg]) (waiting s) in
    match tag with Some w => upd_unsubw s1 (mark_admitted w (unsubw s1)) | None => s1 end
  else upd_queue s (queue s) (waiting s ++ [(msg, tag)]).

Definition enqueue (s : st) (msg : f2b) : st := enqueue_tagged s msg None.

(* Drop for Subscription: try_send *)
Definition try_enqueue (s : st) (msg : f2b) : st :=
  if Nat.ltb (length (queue s)) (qcap s) then upd_queue s (queue s ++ [msg]) (waiting s) else s.

Fixpoint admit_waiting (fuel : nat) (s : st) : st :=
  match fuel with
  | O => s
  | S f =>
    match waiting s with
    | (msg, tag) :: w =>
      if Nat.ltb (length (queue s)) (qcap s)
      then
        let s1 := upd_queue s (queue s ++ [msg]) w in
        admit_waiting f (match tag with Some h => upd_unsubw s1 (mark_admitted h (unsubw s1)) | None => s1 end)
      else s
    | [] => s
    end
  end.

(* ---------- the send task: handle_frontend_messages ---------- *)
Definition unsub_request (s : st) (u : id) (um : bytes) (sid : subid) : bytes :=
  ser_request {| rq_id := u; rq_method := um; rq_params := Some (x5b :: ser_subid sid ++ [x5d]) |}.

(* a transport write: frame goes out; with the gate on the task stays inside the write until released *)
Definition wire (s : st) (raw : bytes) : st * list out :=
  if sendfail s then (upd_dying (upd_sendfail s false) FTransport, [])      (* the write errors: the send task ends *)
  else (if gated s then upd_busy s true else s, [OWire raw]).

(* build_unsubscribe_message + manager.unsubscribe: the subscribe-id entry becomes a waiter-less pending call
   (it absorbs a late duplicate of the subscribe answer) and the reserved unsubscribe id remembers it
   (repaired: the acknowledgement of the unsubscribe call releases both) *)
Definition do_unsubscribe (s : st) (sid : subid) : st * list out :=
  match alookup subid_eqb sid (subs (m s)) with
  | None => (s, [])
  | Some rid =>
    match req_lookup rid (m s) with
    | Some (KSub u ch um) =>
      let r1 := aset id_eqb u (KUnsubP rid) (aset id_eqb rid (KCall None) (requests (m s))) in
      let m1 := set_subs (set_requests (m s) r1) (aremove subid_eqb sid (subs (m s))) in
      let s1 := drop_sink (upd_m s m1) ch in
      wire (upd_unacked s1 (u :: unacked s1)) (unsub_request s1 u um sid)
    | _ => (s, [])
    end
  end.

Definition handle_front (s : st) (msg : f2b) : st * list out :=
  match msg with
  | MBatch lo hi h raw =>
    if ahas range_eqb (lo, hi) (batches (m s)) then (s, complete s h (CErr EOccupied))
    else wire (upd_m s (set_batches (m s) (((lo, hi), h) :: batches (m s)))) raw
  | MNotif raw => wire s raw
  | MRequest i w raw =>
    if ahas id_eqb i (requests (m s))
    then (s, match w with Some h => complete s h (CErr EOccupied) | None => [] end)
    else wire (upd_m s (set_requests (m s) ((i, KCall w) :: requests (m s)))) raw
  | MSubscribe si ui um h raw =>
    if negb (ahas id_eqb si (requests (m s))) && negb (ahas id_eqb ui (requests (m s))) && negb (id_eqb si ui)
    then wire (upd_m s (set_requests (m s) ((ui, KCall None) :: (si, KPendSub ui h um) :: requests (m s)))) raw
    else (s, complete s h (CErr EOccupied))
  | MSubClosed sid => do_unsubscribe s sid
  | MRegister me h =>
    if ahas bytes_eqb me (nhandlers (m s)) then (s, complete s h (CErr EAlreadyRegistered))
    else
      let s1 := set_chan (upd_m s (set_nhandlers (m s) ((me, h) :: nhandlers (m s)))) h (new_chan (bufcap s)) in
      if alive s h then (upd_subkind s1 ((h, inr me) :: subkind s1), [OComplete h CRegOk])
      else (* nobody took the receiver: it is dropped with the oneshot *)
        (set_chan s1 h (chan_drop_rx (new_chan (bufcap s))), [])
  | MUnregister me =>
    match alookup bytes_eqb me (nhandlers (m s)) with
    | Some ch => (drop_sink (upd_m s (set_nhandlers (m s) (aremove bytes_eqb me (nhandlers (m s))))) ch, [])
    | None => (s, [])
    end
  end.

(* Subscription::unsubscribe futures: once their message is in the queue they drain the channel and complete when
   its sender is gone *)
Definition unsub_done (s : st) (x : handle * handle * bool) : bool :=
  match x with (_, c, adm) => adm && match chan_of s c with Some ch => negb (c_tx ch) | None => true end end.

Definition finish_unsubs (s : st) : st * list out :=
  let done := filter (unsub_done s) (unsubw s) in
  let rest := filter (fun x => negb (unsub_done s x)) (unsubw s) in
  let s1 := fold_left (fun s' x => match x with (_, c, _) =>
                                     match chan_of s' c with
                                     | Some ch => set_chan s' c (chan_drop_rx ch) | None => s' end end) done s in
  (upd_unsubw s1 rest, flat_map (fun x => match x with (w, _, _) => complete s w CDone end) done).

(* run the send task until the queue is empty or it blocks in a write *)
Fixpoint drain (fuel : nat) (s : st) : st * list out :=
  match fuel with
  | O => (s, [])
  | S f =>
    let s0 := admit_waiting (length (waiting s)) s in
    if busy s0 || dead s0 || (match dying s0 with Some _ => true | None => false end) then (s0, [])
    else match queue s0 with
         | [] => (s0, [])
         | msg :: q =>
           let '(s1, o1) := handle_front (upd_queue s0 q (waiting s0)) msg in
           let '(s2, o2) := drain f s1 in
           (s2, o1 ++ o2)
         end
  end.

(* ---------- the read task: handle_backend_messages ---------- *)
(* forward a message to the send task (read_task: pending_unsubscribes.push(to_send_task.send(msg))) *)
Definition forward (s : st) (msg : f2b) : st := enqueue s msg.

Definition sub_deliver (s : st) (sid : subid) (payload : bytes) : st :=
  match alookup subid_eqb sid (subs (m s)) with
  | None => s
  | Some rid =>
    match req_lookup rid (m s) with
    | Some (KSub _ ch _) =>
      match chan_of s ch with
      | Some c =>
        let '(c', r) := chan_send c payload in
        let s1 := set_chan s ch c' in
        match r with SentOk => s1 | _ => forward s1 (MSubClosed sid) end
      | None => s
      end
    | _ => s
    end
  end.

(* process_subscription_close_response + manager.remove_subscription (repaired) *)
Definition sub_close (s : st) (sid : subid) : st :=
  match alookup subid_eqb sid (subs (m s)) with
  | None => s
  | Some rid =>
    match req_lookup rid (m s) with
    | Some (KSub u ch _) =>
      let m1 := set_subs (set_requests (m s) (aremove id_eqb rid (requests (m s)))) (aremove subid_eqb sid (subs (m s))) in
      drop_sink (upd_m s (release_reserved u m1)) ch
    | _ => s      (* code: expect(); unreachable by the invariant subs -> KSub *)
    end
  end.

Definition null_text : bytes := Eval cbv in b#"null".

Definition notif_deliver (s : st) (me : bytes) (p : option bytes) : st :=
  match alookup bytes_eqb me (nhandlers (m s)) with
  | None => s
  | Some ch =>
    match chan_of s ch with
    | Some c =>
      let '(c', r) := chan_send c (match p with Some x => x | None => null_text end) in
      let s1 := set_chan s ch c' in
      match r with
      | SentOk => s1
      | _ => drop_sink (upd_m s1 (set_nhandlers (m s1) (aremove bytes_eqb me (nhandlers (m s1))))) ch
      end
    | None => s
    end
  end.

Inductive rres := ROk (s : st) (o : list out) | RFatal (s : st) (o : list out) (f : fatal).

(* helpers.rs process_single_response *)
Definition single_response (s : st) (r : response) : rres :=
  let i := rs_id r in
  match req_lookup i (m s) with
  | Some (KCall w) =>
    let s1 := upd_m s (set_requests (m s) (aremove id_eqb i (requests (m s)))) in
    let s1 := upd_unacked s1 (filter (fun u => negb (id_eqb i u)) (unacked s1)) in
    ROk s1 (match w with Some h => complete s h (CResp r) | None => [] end)
  | Some (KPendSub u w um) =>
    let m1 := set_requests (m s) (aremove id_eqb i (requests (m s))) in
    match rs_payload r with
    | PError e => ROk (upd_m s (release_reserved u m1)) (complete s w (CErr (ECall e)))
    | PResult raw =>
      match parse_subid raw with
      | None => ROk (upd_m s (release_reserved u m1)) (complete s w (CErr EParse))
      | Some sid =>
        if ahas subid_eqb sid (subs m1)
        then ROk (upd_m s (release_reserved u m1)) (complete s w (CErr EInvalidSubId))
        else
          let m2 := set_subs (set_requests m1 ((i, KSub u w um) :: requests m1)) ((sid, i) :: subs m1) in
          let s1 := set_chan (upd_m s m2) w (new_chan (bufcap s)) in
          if alive s w
          then ROk (upd_subkind s1 ((w, inl sid) :: subkind s1)) [OComplete w (CSubOk sid)]
          else (* the caller gave up: receiver dropped; ask the send task to unsubscribe *)
            ROk (forward (set_chan s1 w (chan_drop_rx (new_chan (bufcap s)))) (MSubClosed sid)) []
      end
    end
  | Some (KUnsubP sub) =>
    (* complete_pending_unsubscribe: the acknowledgement releases the unsubscribe id and the kept subscribe id *)
    let r1 := aremove id_eqb i (requests (m s)) in
    let r2 := match alookup id_eqb sub r1 with Some (KCall None) => aremove id_eqb sub r1 | _ => r1 end in
    let s1 := upd_m s (set_requests (m s) r2) in
    ROk (upd_unacked s1 (filter (fun u => negb (id_eqb i u)) (unacked s1))) []
  | Some (KSub _ _ _) | None => RFatal s [] FNotPending
  end.

Definition placeholder : response :=
  {| rs_jsonrpc := true; rs_payload := PError {| e_code := 0%Z; e_message := []; e_data := None |}; rs_id := IdNull |}.

Fixpoint set_nth {A} (n : nat) (x : A) (l : list A) : list A :=
  match n, l with
  | O, _ :: t => x :: t
  | S n', y :: t => y :: set_nth n' x t
  | _, [] => []
  end.

(* helpers.rs process_batch_response; range is lo..hi exclusive *)
Definition batch_response (s : st) (rs : list response) (lo hi : N) : rres :=
  match alookup range_eqb (lo, hi) (batches (m s)) with
  | None => RFatal s [] FNotPending
  | Some h =>
    let s1 := upd_m s (set_batches (m s) (aremove range_eqb (lo, hi) (batches (m s)))) in
    let slots := repeat placeholder (N.to_nat (hi - lo)) in
    let filled := fold_left (fun acc r =>
                     match id_as_number (rs_id r) with
                     | Some n => set_nth (N.to_nat (n - lo)) r acc
                     | None => acc end) rs slots in
    ROk s1 (complete s h (CBatch filled))
  end.

(* process_subscription_response returns Some(sub_id): the subscription's sink refused the item (receiver dropped,
   buffer full / lagging) and the subscription is to be closed.  `sub_deliver` has already forwarded the request. *)
Definition sub_closes (s : st) (sid : subid) (payload : bytes) : bool :=
  match alookup subid_eqb sid (subs (m s)) with
  | None => false
  | Some rid =>
    match req_lookup rid (m s) with
    | Some (KSub _ ch _) =>
      match chan_of s ch with
      | Some c => match snd (chan_send c payload) with SentOk => false | _ => true end
      | None => false
      end
    | _ => false
    end
  end.

(* ---- interpretation of the generated dispatch (Model/ClientDispatch.v) ---- *)
Definition reader_of (x : inmsg) : option reader :=
  match x with
  | IResp _ => Some TryResponse
  | ISubNotif _ _ _ => Some TrySubResponse
  | ISubErr _ _ _ => Some TrySubError
  | INotif _ _ => Some TryNotification
  | IBad => None
  end.

(* a reader paired with an action that cannot take its value (the Rust type checker forbids it; the translator never
   emits it): the model has no behaviour for it and ends the connection *)
Definition ill_typed (s : st) : rres := RFatal s [] FUnparseable.

(* the single-message arm.  A close request that comes out of an action has been forwarded by single_response /
   sub_deliver; returned at once or pushed onto `messages`, the function's value is the same here (nothing follows). *)
Definition run_single_action (a : action) (s : st) (x : inmsg) : rres :=
  match a, x with
  | ASingleResponse _, IResp r => single_response s r
  | ASubItem _, ISubNotif _ sid p => ROk (sub_deliver s sid p) []
  | ASubClose, ISubErr _ sid _ => ROk (sub_close s sid) []
  | ANotification, INotif me p => ROk (notif_deliver s me p) []
  | _, _ => ill_typed s
  end.

Definition handle_single_with (d : dispatch) (s : st) (x : inmsg) : rres :=
  match reader_of x with
  | None => match d_single_no_reader d with NoReaderFatal => RFatal s [] FUnparseable | NoReaderIgnored => ROk s [] end
  | Some r =>
    match single_action r (d_single d) with
    | Some a => run_single_action a s x
    | None => ill_typed s
    end
  end.

(* the array loop: state of the loop (manager state, `batch`, `range` inclusive, `got_notif`), or the value the
   function RETURNS from inside the loop (`return Err(..)`, `return Ok(vec![..])`) *)
Definition loop_acc := (st * list response * option (N * N) * bool)%type.

Definition run_elem_action (a : action) (mark : bool) (s : st) (x : inmsg)
    (acc : list response) (rng : option (N * N)) (got : bool) : loop_acc + rres :=
  let got' := if mark then true else got in
  match a, x with
  | ABatchCollect chk, IResp r =>
    match id_as_number (rs_id r) with
    | None =>
      match chk with
      | IdNumberOrFatal => inr (RFatal s [] FBadBatchId)
      | IdNumberUnchecked => inl (s, acc ++ [r], rng, got')
      end
    | Some n =>
      let rng' := match rng with
                  | None => (n, n)
                  | Some (lo, hi) => (if n <? lo then n else lo, if hi <? n then n else hi)
                  end in
      inl (s, acc ++ [r], Some rng', got')
    end
  | ASubItem cm, ISubNotif _ sid p =>
    let s1 := sub_deliver s sid p in
    match cm with
    | ClosePushed => inl (s1, acc, rng, got')
    | CloseReturned => if sub_closes s sid p then inr (ROk s1 []) else inl (s1, acc, rng, got')
    end
  | ASubClose, ISubErr _ sid _ => inl (sub_close s sid, acc, rng, got')
  | ANotification, INotif me p => inl (notif_deliver s me p, acc, rng, got')
  | _, _ => inr (ill_typed s)
  end.

Definition elem_step (d : dispatch) (s : st) (x : inmsg) (acc : list response) (rng : option (N * N)) (got : bool)
  : loop_acc + rres :=
  match reader_of x with
  | None => match d_elem_no_reader d with
            | NoReaderFatal => inr (RFatal s [] FUnparseable)
            | NoReaderIgnored => inl (s, acc, rng, got)
            end
  | Some r =>
    match elem_action r (d_elem d) with
    | Some (a, mark) => run_elem_action a mark s x acc rng got
    | None => inr (ill_typed s)
    end
  end.

(* responses are collected, notifications are processed on the spot *)
Fixpoint array_run_with (d : dispatch) (s : st) (ms : list inmsg) (acc : list response) (rng : option (N * N)) (got : bool)
  : loop_acc + rres :=
  match ms with
  | [] => inl (s, acc, rng, got)
  | x :: ms' =>
    match elem_step d s x acc rng got with
    | inl (s1, acc1, rng1, got1) => array_run_with d s1 ms' acc1 rng1 got1
    | inr r => inr r
    end
  end.

(* after the loop: the rules in order, falling through to the function's tail `Ok(messages)` *)
Fixpoint run_post (rules : list post_rule) (s : st) (rs : list response) (rng : option (N * N)) (got : bool) : rres :=
  match rules with
  | [] => ROk s []
  | PBatchResponse :: rest =>
    match rng with
    | Some (lo, hi) =>
      if hi =? u64_max then RFatal s [] FNotPending      (* range.end.checked_add(1) = None *)
      else batch_response s rs lo (hi + 1)
    | None => run_post rest s rs rng got
    end
  | PEmptyIsFatal :: rest => if got then run_post rest s rs rng got else RFatal s [] FEmptyBatch
  end.

Definition handle_back_with (d : dispatch) (s : st) (fr : inframe) : rres :=
  match fr with
  | FGarbage => RFatal s [] FUnparseable
  | FSingle x => handle_single_with d s x
  | FArray ms =>
    match array_run_with d s ms [] None false with
    | inr r => r
    | inl (s', rs, rng, got) => run_post (d_post d) s' rs rng got
    end
  end.

Definition handle_elem_single (s : st) (x : inmsg) : rres := handle_single_with client_dispatch s x.
Definition array_run (s : st) (ms : list inmsg) (acc : list response) (rng : option (N * N)) (got : bool) : loop_acc + rres :=
  array_run_with client_dispatch s ms acc rng got.
Definition handle_back (s : st) (fr : inframe) : rres := handle_back_with client_dispatch s fr.

(* shutdown: every waiter fails with the cause, every stream ends *)
Definition waiters_of_kind (k : id * kind) : list handle :=
  match snd k with KCall (Some h) => [h] | KPendSub _ h _ => [h] | _ => [] end.
Definition waiters_of_msg (x : f2b) : list handle :=
  match x with
  | MBatch _ _ h _ => [h] | MRequest _ (Some h) _ => [h] | MSubscribe _ _ _ h _ => [h] | MRegister _ h => [h]
  | _ => []
  end.

Fixpoint insert_sorted (x : N) (l : list N) : list N :=
  match l with [] => [x] | y :: t => if x <=? y then x :: l else y :: insert_sorted x t end.
Definition sort_handles (l : list N) : list N := fold_right insert_sorted [] l.

Definition kill (s : st) (f : fatal) : st * list out :=
  let ws := flat_map waiters_of_kind (requests (m s)) ++ map snd (batches (m s))
            ++ flat_map waiters_of_msg (queue s) ++ flat_map (fun x => waiters_of_msg (fst x)) (waiting s) in
  let outs := flat_map (fun h => complete s h (CErr EDisconnected)) (sort_handles ws) in
  let s1 := upd_chans s (map (fun hc => (fst hc, chan_drop_tx (snd hc))) (chans s)) in
  let s2 := upd_dead (upd_unacked (upd_queue (upd_m s1 empty_mgr) [] []) []) in
  (* pending unsubscribe() futures: their send fails at once on the closed channel, they drain and finish in settle *)
  let s2 := upd_unsubw s2 (map (fun x => match x with (w, c, _) => (w, c, true) end) (unsubw s2)) in
  (s2, OFatal f :: outs).

(* ---------- events ---------- *)
Inductive nextres := NItem (x : bytes) | NEndLagged | NEndClosed | NPending.
Inductive ev :=
| FCall (h : handle) (method : bytes) (params : option bytes)
| FNotify (method : bytes) (params : option bytes)
| FBatch (h : handle) (entries : list (bytes * option bytes))
| FSubscribe (h : handle) (sub unsub : bytes) (params : option bytes)
| FSubMethod (h : handle) (method : bytes)
| FNext (sh : handle)
| FUnsub (h : handle) (sh : handle)
| FDrop (sh : handle)
| FGiveUp (h : handle)
| Release
| Back (raw : bytes)
| Fault
| FailSend.

Definition batch_raw (s : st) (lo : N) (entries : list (bytes * option bytes)) : bytes :=
  let reqs := (fix go (n : N) (es : list (bytes * option bytes)) : list bytes :=
                 match es with
                 | [] => []
                 | (me, p) :: es' => ser_request {| rq_id := mk_id s n; rq_method := me; rq_params := p |} :: go (n + 1) es'
                 end) lo entries in
  x5b :: join [x2c] reqs ++ [x5d].

(* poll a subscription stream once *)
Definition poll_next (s : st) (sh : handle) : st * nextres :=
  match chan_of s sh with
  | Some c =>
    if negb (c_rx c) then (s, NPending)
    else match c_buf c with
         | x :: b' => (set_chan s sh {| c_cap := c_cap c; c_buf := b'; c_tx := c_tx c; c_rx := true; c_lag := c_lag c |}, NItem x)
         | [] => if c_tx c then (s, NPending) else (s, if c_lag c then NEndLagged else NEndClosed)
         end
  | None => (s, NPending)
  end.

Definition close_msg_of (s : st) (sh : handle) : option f2b :=
  match alookup N.eqb sh (subkind s) with
  | Some (inl sid) => Some (MSubClosed sid)
  | Some (inr me) => Some (MUnregister me)
  | None => None
  end.

(* step without the final settle; second component: result of FNext *)
Definition apply (s : st) (e : ev) : st * list out * option nextres :=
  if dead s then
    match e with
    | FCall h _ _ | FBatch h _ | FSubscribe h _ _ _ | FSubMethod h _ => (s, [OComplete h (CErr EDisconnected)], None)
    | FUnsub h sh =>
      match close_msg_of s sh, chan_of s sh with
      | Some _, Some c => (upd_subkind (set_chan s sh (chan_drop_rx c)) (aremove N.eqb sh (subkind s)), [OComplete h CDone], None)
      | _, _ => (s, [], None)
      end
    | FNext sh => let '(s', r) := poll_next s sh in (s', [], Some r)
    | FDrop sh =>
      match close_msg_of s sh, chan_of s sh with
      | Some _, Some c => (upd_subkind (set_chan s sh (chan_drop_rx c)) (aremove N.eqb sh (subkind s)), [], None)
      | _, _ => (s, [], None)
      end
    | _ => (s, [], None)
    end
  else
  match e with
  | FCall h me p =>
    let i := mk_id s (next_id s) in
    let raw := ser_request {| rq_id := i; rq_method := me; rq_params := p |} in
    (enqueue (upd_next s (next_id s + 1)) (MRequest i (Some h) raw), [], None)
  | FNotify me p =>
    (enqueue (upd_next s (next_id s + 1)) (MNotif (ser_notification me p)), [], None)
  | FBatch h es =>
    match es with
    | [] => (s, [OComplete h (CErr EEmptyBatch)], None)
    | _ =>
      let lo := next_id s in
      let hi := lo + N.of_nat (length es) in
      (enqueue (upd_next s hi) (MBatch lo hi h (batch_raw s lo es)), [], None)
    end
  | FSubscribe h sm um p =>
    if bytes_eqb sm um then (s, [OComplete h (CErr ENameConflict)], None)
    else
      let si := mk_id s (next_id s) in
      let ui := mk_id s (next_id s + 1) in
      let raw := ser_request {| rq_id := si; rq_method := sm; rq_params := p |} in
      (enqueue (upd_next s (next_id s + 2)) (MSubscribe si ui um h raw), [], None)
  | FSubMethod h me => (enqueue s (MRegister me h), [], None)
  | FNext sh => let '(s', r) := poll_next s sh in (s', [], Some r)
  | FUnsub h sh =>
    match close_msg_of s sh with
    | Some msg =>
      let s1 := upd_unsubw (upd_subkind s (aremove N.eqb sh (subkind s))) (unsubw s ++ [(h, sh, false)]) in
      (enqueue_tagged s1 msg (Some h), [], None)
    | None => (s, [], None)
    end
  | FDrop sh =>
    match close_msg_of s sh, chan_of s sh with
    | Some msg, Some c =>
      (try_enqueue (set_chan (upd_subkind s (aremove N.eqb sh (subkind s))) sh (chan_drop_rx c)) msg, [], None)
    | _, _ => (s, [], None)
    end
  | FGiveUp h =>
    (* the caller's future is dropped: a message it had not managed to enqueue yet is never sent *)
    let w' := filter (fun x => negb (existsb (N.eqb h) (waiters_of_msg (fst x)))) (waiting s) in
    (upd_gone (upd_queue s (queue s) w') (h :: gone s), [], None)
  | Release => (upd_busy s false, [], None)
  | Back raw =>
    match dying s with
    | Some _ => (s, [], None)            (* nobody reads the transport any more *)
    | None =>
      match handle_back s (classify_frame raw) with
      | ROk s' o => (s', o, None)
      | RFatal s' o f => (upd_dying s' f, o, None)
      end
    end
  | Fault => (upd_dying s FTransport, [], None)
  | FailSend => (upd_sendfail s true, [], None)
  end.

(* a background task that has ended is noticed by the other one only when that one is back in its select
   loop, i.e. not while the send task is inside a transport write; then both end and everything pending fails *)
Definition try_kill (s : st) : st * list out :=
  match dying s with
  | Some f => if busy s || dead s then (s, []) else kill s f
  | None => (s, [])
  end.

Definition settle (s : st) : st * list out :=
  let '(s1, o1) := try_kill s in
  let '(s2, o2) := drain (S (length (queue s1) + length (waiting s1))) s1 in
  let '(s3, o3) := try_kill s2 in
  let '(s4, o4) := finish_unsubs s3 in
  (s4, o1 ++ o2 ++ o3 ++ o4).

Definition step (s : st) (e : ev) : st * list out * option nextres :=
  let '(s1, o1, r) := apply s e in
  let '(s2, o2) := settle s1 in
  (s2, o1 ++ o2, r).

Definition table_sizes (s : st) : N * N * N * N :=
  (N.of_nat (length (requests (m s))), N.of_nat (length (subs (m s))),
   N.of_nat (length (batches (m s))), N.of_nat (length (nhandlers (m s)))).

Fixpoint run (s : st) (es : list ev) : st * list (list out * option nextres) :=
  match es with
  | [] => (s, [])
  | e :: es' =>
    let '(s1, o, r) := step s e in
    let '(s2, rest) := run s1 es' in
    (s2, (o, r) :: rest)
  end.
