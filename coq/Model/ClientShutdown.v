(* The shutdown protocol of the async client (core/src/client/async_client/mod.rs):
     send_task, read_task, wait_for_shutdown, ErrorFromBack::read_error, Client::{is_connected,on_disconnect},
   as a labelled transition system
       step : variant (* which send_task epilogue *) -> state -> label -> state
   over exactly the channels of the code:
     close_tx   mpsc(1) `send_receive_task_sync`, senders = send task + read task, receiver = the watcher
                (slot : one buffered result; rx_closed : the watcher dropped its receiver)
     front      mpsc `to_back`/`from_front`  (front_closed + the queued messages, by caller handle)
     reason     SharedDisconnectReason (Option)
     dropped    the `client_dropped` oneshot
   Every operation on shared state (each `await`, each channel send/recv/close/drop, the write of the reason) is
   a separate step, as on a multi-threaded runtime.  The scheduler and the environment are the universally
   quantified label list: a label that is not enabled in a state is a stutter step, so EVERY list of labels is
   a trace and "for all traces" is `forall tr : list label`.

   Modelled as the code is NOW = variant VNow (send_task epilogue: report, await close_tx.closed(), drop the front
   receiver with its queue and the manager handle, THEN close the transport).  Two earlier epilogues are kept as
   variants of `step` for the `_refuted_old` witnesses:
     VLateDrop  report, await closed, close the front channel, close the transport; the queue and the manager
                handle are dropped only when send_task returns, i.e. after close() has completed
     VOldOrder  close the front channel, close the transport, report (and the late drop).
   and one hypothetical reordering that the translator tools/translators/shutdown_order.py can recognise:
     VNoWait    as VNow but without `close_tx.closed().await`: the front receiver is dropped right after the report.
   Gen/ShutdownOrderGen.v (regenerated from the source on every check) says which variant the source implements.

   What the transport can do: `TransportReceiverT::receive` returns `Result<ReceivedMessage, Error>`: there is
   no end-of-stream value, and read_task wraps the receiver in `stream::unfold` that always yields `Some`, so
   `let Some(msg) = maybe_msg else { break Ok(()) }` is dead code.  It is nevertheless transcribed (label
   LRecvEnd, history flag h_recvend) and the theorems say what would happen if it ran.  A peer close is an
   `Err` of the transport (ws: `WsError::Closed`), label LPeerClose.

   Granularity: send task = loop iteration | report (close_tx.send) | close_tx.closed() seen | front channel closed
   (transport close() starts) | transport close() completed + locals dropped; read task = loop iteration / notice |
   report | locals dropped; watcher = receive | store the reason | drop the receiver.  A caller whose message is
   still queued sees its oneshot dropped when the send task's receiver is dropped; a caller registered in the
   manager sees it when BOTH tasks have dropped their manager handle.  The send task drops both at the
   front-channel step (VNow) or when it returns (VLateDrop, VOldOrder).

   WebSocket ping / inactivity detection (ClientBuilder::enable_ws_ping): section "ping / inactivity" below, a layer
   `pstate`/`plabel`/`pstep` on top of `step`: the ping arm of send_task (a failing ping is LSendFault with an
   empty queue), mark_as_active on every received message, the inactivity arm of read_task with
   InactivityCheck::is_inactive transcribed (count += 1 when stale, never reset; dead when count >= max_count):
   it ends the read task through the base label LInactive (cause CInactive), one more way for read_task to
   break with Err.  The model has no clock: an inactivity tick carries the outcome of
   `last_active.elapsed() >= inactive_dur` as its label.

   Left out: the capacity of the front channel (a caller blocked on a full channel behaves like a later
   LNewCall), the request timeout (C09_progress shows it is not needed), the contents of messages (the
   manager and the frame handler are Model/ClientMgr.v; `sys` below glues the two for the engine), real time
   (which ticks are stale is the environment's choice; the engine drives it by staying silent for long or short). *)
From JV Require Import Base.Bytes Base.Dec Model.Wire Model.ClientMgr.
Local Open Scope N_scope.

Inductive cause := CSend | CRecv | CPeer | CFrame (f : fatal)
| CInactive.        (* read_task's inactivity arm: Error::Transport("WebSocket ping/pong inactive") *)
Definition res := option cause.                      (* Result<(), Error>: None = Ok(()) *)

Inductive spc :=
| SLoop | SReport (r : res) | SAwaitClosed | SCloseFront | SClosing | SExited
| OCloseFront (r : res) | OClosing (r : res) | OReport (r : res).          (* old epilogue only *)
Inductive rpc := RLoop | RReport (r : res) | RExiting | RExited.
Inductive wpc := WWait | WGot (r : res) | WStored | WExited.

Inductive obs := OOk | OCause (c : cause) | OPlaceholder.
Inductive cpc :=
| CQueued            (* its message is in the front channel; it waits on its oneshot *)
| CInMgr             (* the send task took the message; the oneshot sender is in the manager *)
| CReadErr           (* got ServiceDisconnect / called on_disconnect: inside read_error, awaiting conn.closed() *)
| CDone (o : obs)
| CGone.             (* its future was dropped together with the client *)

Record state := {
  sp : spc; rp : rpc; wp : wpc;
  slot : option res;
  rx_closed : bool;
  reason : option cause;
  front_closed : bool;
  fqueue : list handle;
  callers : list (handle * cpc);
  dropped : bool;
  h_recvend : bool;            (* HISTORY: the (dead) clean-exit branch of read_task ran *)
  h_first : option res         (* HISTORY: the first result that entered close_tx *)
}.

Definition init : state :=
  {| sp := SLoop; rp := RLoop; wp := WWait; slot := None; rx_closed := false; reason := None; front_closed := false;
     fqueue := []; callers := []; dropped := false; h_recvend := false; h_first := None |}.

Definition set_sp (s : state) (x : spc) : state :=
  {| sp := x; rp := rp s; wp := wp s; slot := slot s; rx_closed := rx_closed s; reason := reason s;
     front_closed := front_closed s; fqueue := fqueue s; callers := callers s; dropped := dropped s;
     h_recvend := h_recvend s; h_first := h_first s |}.
Definition set_rp (s : state) (x : rpc) : state :=
  {| sp := sp s; rp := x; wp := wp s; slot := slot s; rx_closed := rx_closed s; reason := reason s;
     front_closed := front_closed s; fqueue := fqueue s; callers := callers s; dropped := dropped s;
     h_recvend := h_recvend s; h_first := h_first s |}.
Definition set_wp (s : state) (x : wpc) : state :=
  {| sp := sp s; rp := rp s; wp := x; slot := slot s; rx_closed := rx_closed s; reason := reason s;
     front_closed := front_closed s; fqueue := fqueue s; callers := callers s; dropped := dropped s;
     h_recvend := h_recvend s; h_first := h_first s |}.
Definition set_slot (s : state) (x : option res) : state :=
  {| sp := sp s; rp := rp s; wp := wp s; slot := x; rx_closed := rx_closed s; reason := reason s;
     front_closed := front_closed s; fqueue := fqueue s; callers := callers s; dropped := dropped s;
     h_recvend := h_recvend s; h_first := h_first s |}.
Definition set_rx_closed (s : state) : state :=
  {| sp := sp s; rp := rp s; wp := wp s; slot := slot s; rx_closed := true; reason := reason s;
     front_closed := front_closed s; fqueue := fqueue s; callers := callers s; dropped := dropped s;
     h_recvend := h_recvend s; h_first := h_first s |}.
Definition set_reason (s : state) (x : option cause) : state :=
  {| sp := sp s; rp := rp s; wp := wp s; slot := slot s; rx_closed := rx_closed s; reason := x;
     front_closed := front_closed s; fqueue := fqueue s; callers := callers s; dropped := dropped s;
     h_recvend := h_recvend s; h_first := h_first s |}.
Definition set_front_closed (s : state) : state :=
  {| sp := sp s; rp := rp s; wp := wp s; slot := slot s; rx_closed := rx_closed s; reason := reason s;
     front_closed := true; fqueue := fqueue s; callers := callers s; dropped := dropped s;
     h_recvend := h_recvend s; h_first := h_first s |}.
Definition set_fqueue (s : state) (x : list handle) : state :=
  {| sp := sp s; rp := rp s; wp := wp s; slot := slot s; rx_closed := rx_closed s; reason := reason s;
     front_closed := front_closed s; fqueue := x; callers := callers s; dropped := dropped s;
     h_recvend := h_recvend s; h_first := h_first s |}.
Definition set_callers (s : state) (x : list (handle * cpc)) : state :=
  {| sp := sp s; rp := rp s; wp := wp s; slot := slot s; rx_closed := rx_closed s; reason := reason s;
     front_closed := front_closed s; fqueue := fqueue s; callers := x; dropped := dropped s;
     h_recvend := h_recvend s; h_first := h_first s |}.
Definition set_dropped (s : state) : state :=
  {| sp := sp s; rp := rp s; wp := wp s; slot := slot s; rx_closed := rx_closed s; reason := reason s;
     front_closed := front_closed s; fqueue := fqueue s; callers := callers s; dropped := true;
     h_recvend := h_recvend s; h_first := h_first s |}.
Definition set_recvend (s : state) : state :=
  {| sp := sp s; rp := rp s; wp := wp s; slot := slot s; rx_closed := rx_closed s; reason := reason s;
     front_closed := front_closed s; fqueue := fqueue s; callers := callers s; dropped := dropped s;
     h_recvend := true; h_first := h_first s |}.
Definition set_first (s : state) (x : option res) : state :=
  {| sp := sp s; rp := rp s; wp := wp s; slot := slot s; rx_closed := rx_closed s; reason := reason s;
     front_closed := front_closed s; fqueue := fqueue s; callers := callers s; dropped := dropped s;
     h_recvend := h_recvend s; h_first := x |}.

(* ---------- callers ---------- *)
Definition get_c (s : state) (h : handle) : option cpc := alookup N.eqb h (callers s).
Definition set_c (s : state) (h : handle) (c : cpc) : state := set_callers s (aset N.eqb h c (callers s)).
Definition is_done (c : cpc) : bool := match c with CDone _ | CGone => true | _ => false end.
Definition is_queued (c : option cpc) : bool := match c with Some CQueued => true | _ => false end.
Definition is_inmgr (c : option cpc) : bool := match c with Some CInMgr => true | _ => false end.
Definition is_readerr (c : option cpc) : bool := match c with Some CReadErr => true | _ => false end.
Definition is_none {A} (o : option A) : bool := match o with None => true | Some _ => false end.

(* ---------- labels ---------- *)
Inductive label :=
(* send task *)
| LSendOk              (* loop iteration: take one front message, register it in the manager, write it out *)
| LSendFault           (* the same, but the transport write (or a ping) fails *)
| LSNotice             (* the select sees close_tx.closed() *)
| LSFrontNone          (* from_frontend.recv() = None: every front sender is gone *)
| LSReport             (* close_tx.send(res).await completes *)
| LSClosedSeen         (* close_tx.closed().await completes *)
| LSCloseFront         (* from_frontend.close(); sender.close() starts *)
| LSTransportClosed    (* sender.close().await completes (may take arbitrarily long); locals dropped *)
(* read task *)
| LRecvFault           (* receive() = Err *)
| LPeerClose           (* receive() = Err(closed by peer) *)
| LInactive            (* the inactivity arm: inactivity_check.is_inactive() = true (only through LInactTick, see below) *)
| LBadFrame (f : fatal)  (* handle_backend_messages = Err *)
| LRecvEnd             (* the stream ends: dead code, see header *)
| LAnswer (h : handle) (* a frame completes the pending call h *)
| LRNotice
| LRReport
| LRExit               (* locals dropped: manager Arc, to_send_task *)
(* watcher *)
| LWRecv | LWDropped | LWStore | LWExit
(* front end *)
| LClientDrop
| LNewCall (h : handle)          (* request / batch / subscribe: send to the front channel *)
| LOnDisc (h : handle)           (* on_disconnect() *)
| LCallerDropped (h : handle)    (* the caller's oneshot receiver sees its sender dropped *)
| LReadErr (h : handle).         (* read_error: conn.closed() resolved, reason read *)

Inductive variant := VNow | VLateDrop | VOldOrder | VNoWait.
Definition old_order (v : variant) : bool := match v with VOldOrder => true | _ => false end.
Definition early_drop (v : variant) : bool := match v with VNow | VNoWait => true | _ => false end.
Definition no_wait (v : variant) : bool := match v with VNoWait => true | _ => false end.

Definition after_break (old : variant) (r : res) : spc := if old_order old then OCloseFront r else SReport r.

(* close_tx.send: the value enters the buffer unless the receiver is gone *)
Definition push (s : state) (r : res) : state :=
  if rx_closed s then s
  else set_first (set_slot s (Some r)) (match h_first s with None => Some r | x => x end).
Definition can_push (s : state) : bool := is_none (slot s) || rx_closed s.

Definition pop_to_mgr (s : state) : state :=
  match fqueue s with
  | [] => s
  | h :: q => let s1 := set_fqueue s q in if is_queued (get_c s h) then set_c s1 h CInMgr else s1
  end.

Definition sp_is_loop (s : state) : bool := match sp s with SLoop => true | _ => false end.
Definition rp_is_loop (s : state) : bool := match rp s with RLoop => true | _ => false end.
Definition sp_exited (s : state) : bool := match sp s with SExited => true | _ => false end.
Definition rp_exited (s : state) : bool := match rp s with RExited => true | _ => false end.

Definition sp_closing_b (x : spc) : bool := match x with SClosing | SExited => true | _ => false end.
(* the send task has dropped the front receiver (with its queue) and its manager handle *)
Definition sender_let_go (old : variant) (s : state) : bool :=
  if early_drop old then sp_closing_b (sp s) else sp_exited s.

Definition enabled (old : variant) (s : state) (l : label) : bool :=
  match l with
  | LSendOk => sp_is_loop s && negb (rx_closed s) && negb (is_none (hd_error (fqueue s)))
  | LSendFault => sp_is_loop s && negb (rx_closed s)
  | LSNotice => sp_is_loop s && rx_closed s
  | LSFrontNone => sp_is_loop s && dropped s && rp_exited s && is_none (hd_error (fqueue s))
  | LSReport => match sp s with SReport _ | OReport _ => can_push s | _ => false end
  | LSClosedSeen => match sp s with SAwaitClosed => rx_closed s | _ => false end
  | LSCloseFront => match sp s with SCloseFront | OCloseFront _ => true | _ => false end
  | LSTransportClosed => match sp s with SClosing | OClosing _ => true | _ => false end
  | LRecvFault | LPeerClose | LInactive | LBadFrame _ | LRecvEnd => rp_is_loop s && negb (rx_closed s)
  | LAnswer h => rp_is_loop s && negb (rx_closed s) && is_inmgr (get_c s h)
  | LRNotice => rp_is_loop s && rx_closed s
  | LRReport => match rp s with RReport _ => can_push s | _ => false end
  | LRExit => match rp s with RExiting => true | _ => false end
  | LWRecv => match wp s, slot s with WWait, Some _ => true | _, _ => false end
  | LWDropped => match wp s with WWait => dropped s | _ => false end
  | LWStore => match wp s with WGot _ => true | _ => false end
  | LWExit => match wp s with WStored => true | _ => false end
  | LClientDrop => negb (dropped s)
  | LNewCall h | LOnDisc h => negb (dropped s) && is_none (get_c s h)
  | LCallerDropped h =>
    match get_c s h with
    | Some CQueued => sender_let_go old s                  (* the front receiver was dropped with its queue *)
    | Some CInMgr => sender_let_go old s && rp_exited s    (* both holders of the manager are gone *)
    | _ => false
    end
  | LReadErr h => is_readerr (get_c s h) && front_closed s
  end.

Definition effect (old : variant) (s : state) (l : label) : state :=
  match l with
  | LSendOk => pop_to_mgr s
  | LSendFault => set_sp (pop_to_mgr s) (after_break old (Some CSend))
  | LSNotice | LSFrontNone => set_sp s (after_break old None)
  | LSReport =>
    match sp s with
    | SReport r => set_sp (push s r) (if no_wait old then SCloseFront else SAwaitClosed)
    | OReport r => set_sp (push s r) SExited
    | _ => s
    end
  | LSClosedSeen => set_sp s SCloseFront
  | LSCloseFront =>     (* NOW: drop(from_frontend); drop(manager) -- see sender_let_go *)
    match sp s with
    | OCloseFront r => set_sp (set_front_closed s) (OClosing r)
    | _ => set_sp (set_front_closed s) SClosing
    end
  | LSTransportClosed =>
    match sp s with
    | OClosing r => set_sp s (OReport r)
    | _ => set_sp s SExited
    end
  | LRecvFault => set_rp s (RReport (Some CRecv))
  | LPeerClose => set_rp s (RReport (Some CPeer))
  | LInactive => set_rp s (RReport (Some CInactive))
  | LBadFrame f => set_rp s (RReport (Some (CFrame f)))
  | LRecvEnd => set_recvend (set_rp s (RReport None))
  | LAnswer h => set_c s h (CDone OOk)
  | LRNotice => set_rp s (RReport None)
  | LRReport => match rp s with RReport r => set_rp (push s r) RExiting | _ => s end
  | LRExit => set_rp s RExited
  | LWRecv => match slot s with Some r => set_wp (set_slot s None) (WGot r) | None => s end
  | LWDropped => set_wp (set_rx_closed s) WExited
  | LWStore =>
    match wp s with
    | WGot (Some c) => set_wp (set_reason s (Some c)) WStored
    | _ => set_wp s WStored
    end
  | LWExit => set_wp (set_rx_closed s) WExited
  | LClientDrop =>
    (* every future borrowing the client is gone before the client can be dropped *)
    set_dropped (set_callers s (map (fun hc => (fst hc, if is_done (snd hc) then snd hc else CGone)) (callers s)))
  | LNewCall h =>
    if front_closed s then set_c s h CReadErr
    else set_c (set_fqueue s (fqueue s ++ [h])) h CQueued
  | LOnDisc h => set_c s h CReadErr
  | LCallerDropped h => set_c s h CReadErr
  | LReadErr h =>
    set_c s h (CDone (match reason s with Some c => OCause c | None => OPlaceholder end))
  end.

Definition step (old : variant) (s : state) (l : label) : state :=
  if enabled old s l then effect old s l else s.

Definition run (old : variant) (s : state) (tr : list label) : state := fold_left (step old) tr s.

(* Client::is_connected *)
Definition is_connected (s : state) : bool := negb (front_closed s).

(* ---------- progress vocabulary ---------- *)
Definition mu_s (x : spc) : nat :=
  match x with
  | SLoop => 5 | SReport _ => 4 | SAwaitClosed => 3 | SCloseFront => 2 | SClosing => 1 | SExited => 0
  | OCloseFront _ => 3 | OClosing _ => 2 | OReport _ => 1
  end.
Definition mu_r (x : rpc) : nat := match x with RLoop => 3 | RReport _ => 2 | RExiting => 1 | RExited => 0 end.
Definition mu_w (x : wpc) : nat := match x with WWait => 3 | WGot _ => 2 | WStored => 1 | WExited => 0 end.
Definition mu (s : state) : nat := mu_s (sp s) + mu_r (rp s) + mu_w (wp s).

(* the steps of the shutdown protocol proper (everything except traffic and front-end calls) *)
Definition is_proto (l : label) : bool :=
  match l with
  | LSendOk | LAnswer _ | LClientDrop | LNewCall _ | LOnDisc _ | LCallerDropped _ | LReadErr _ => false
  | _ => true
  end.

Definition all_exited (s : state) : bool :=
  sp_exited s && rp_exited s && match wp s with WExited => true | _ => false end.

(* the shutdown has started: some task left its loop, or the client was dropped *)
Definition started (s : state) : bool :=
  negb (sp_is_loop s) || negb (rp_is_loop s) || negb (match wp s with WWait => true | _ => false end) || dropped s.

(* a scheduler for the protocol steps: the watcher first, then the send task, then the read task.
   `slow` = the transport's close() does not complete by itself. *)
Definition next_proto (old : variant) (slow : bool) (s : state) : option label :=
  let pick (l : label) (k : option label) := if enabled old s l then Some l else k in
  pick LWStore (pick LWExit (pick LWRecv (pick LWDropped
  (pick LSNotice (pick LSReport (pick LSClosedSeen (pick LSCloseFront
  ((if slow then (fun k => k) else pick LSTransportClosed)
  (pick LRNotice (pick LRReport (pick LRExit None))))))))))).

Fixpoint drive (old : variant) (slow : bool) (fuel : nat) (s : state) : state :=
  match fuel with
  | O => s
  | S f => match next_proto old slow s with Some l => drive old slow f (step old s l) | None => s end
  end.

(* ================= ping / inactivity (ClientBuilder::enable_ws_ping(PingConfig)) =================
   send_task:   _ = ping_interval.next() => if let Err(err) = sender.send_ping().await { break Err(Error::Transport(..)) }
                (the select is biased: from_frontend.recv() is looked at first, so a ping is written only when
                the front queue is empty)
   read_task:   maybe_msg = backend_event.next() => { inactivity_check.mark_as_active(); ... }     every message,
                ReceivedMessage::Pong included (handle_backend_messages answers a Pong with Ok(vec![]))
                _ = inactivity_stream.next() => if inactivity_check.is_inactive() { break Err(Error::Transport(
                                                     "WebSocket ping/pong inactive")) }
   utils.rs:    is_inactive: if last_active.elapsed() >= inactive_dur { count += 1 }  count >= max_count
                mark_as_active: last_active = Instant::now()          (count is NOT reset)
   `last_active` is real time; the model has no clock, so the inactivity tick is labelled with the outcome of the
   comparison (`stale`).  p_active = "a message has been received since the last inactivity tick" is what an
   on-time tick sees of the clock: the two streams have the same period inactive_dur, hence an on-time tick
   after a message in the same period is not stale (`on_time`); nothing in `pstep` depends on it. *)
Record pstate := {
  pb : state;           (* the shutdown protocol state *)
  p_max : N;            (* PingConfig::max_failures = InactivityCheck::max_count (the builder asserts > 0) *)
  p_count : N;          (* InactivityCheck::count *)
  p_active : bool;      (* a message was received since the last inactivity tick *)
  h_pings : N           (* HISTORY: ping frames written *)
}.

Inductive plabel :=
| LBase (l : label)
| LPingTick (ok : bool)       (* the ping arm of send_task; ok = send_ping() returned Ok *)
| LPong                       (* a Pong frame (or any frame that completes nothing) received *)
| LInactTick (stale : bool).  (* the inactivity arm of read_task; stale = last_active.elapsed() >= inactive_dur *)

Definition pinit (maxf : N) : pstate := {| pb := init; p_max := maxf; p_count := 0; p_active := false; h_pings := 0 |}.

Definition set_pb (p : pstate) (s : state) : pstate :=
  {| pb := s; p_max := p_max p; p_count := p_count p; p_active := p_active p; h_pings := h_pings p |}.
Definition set_active (p : pstate) (b : bool) : pstate :=
  {| pb := pb p; p_max := p_max p; p_count := p_count p; p_active := b; h_pings := h_pings p |}.
Definition set_count (p : pstate) (c : N) : pstate :=
  {| pb := pb p; p_max := p_max p; p_count := c; p_active := p_active p; h_pings := h_pings p |}.
Definition add_ping (p : pstate) : pstate :=
  {| pb := pb p; p_max := p_max p; p_count := p_count p; p_active := p_active p; h_pings := h_pings p + 1 |}.

(* the base labels that are a message taken from backend_event *)
Definition is_received (l : label) : bool :=
  match l with LRecvFault | LPeerClose | LBadFrame _ | LRecvEnd | LAnswer _ => true | _ => false end.

Definition penabled (old : variant) (p : pstate) (l : plabel) : bool :=
  match l with
  | LBase LInactive => false                      (* only the inactivity check makes that arm break *)
  | LBase l' => enabled old (pb p) l'
  | LPingTick _ => sp_is_loop (pb p) && negb (rx_closed (pb p)) && is_none (hd_error (fqueue (pb p)))
  | LPong | LInactTick _ => rp_is_loop (pb p) && negb (rx_closed (pb p))
  end.

(* InactivityCheck::is_inactive, the clock's answer given *)
Definition is_inactive (p : pstate) (stale : bool) : pstate * bool :=
  let c := if stale then p_count p + 1 else p_count p in
  (set_count p c, p_max p <=? c).

Definition peffect (old : variant) (p : pstate) (l : plabel) : pstate :=
  match l with
  | LBase l' => set_pb (if is_received l' then set_active p true else p) (step old (pb p) l')
  | LPingTick true => add_ping p
  | LPingTick false => set_pb p (step old (pb p) LSendFault)      (* the front queue is empty: nothing is popped *)
  | LPong => set_active p true
  | LInactTick stale =>
    let '(p1, dead) := is_inactive (set_active p false) stale in
    if dead then set_pb p1 (step old (pb p1) LInactive) else p1
  end.

Definition pstep (old : variant) (p : pstate) (l : plabel) : pstate :=
  if penabled old p l then peffect old p l else p.
Definition prun (old : variant) (p : pstate) (tr : list plabel) : pstate := fold_left (pstep old) tr p.

(* the tick is processed on time: a message received since the previous tick makes it fresh *)
Definition on_time (p : pstate) (l : plabel) : bool :=
  match l with LInactTick true => negb (p_active p) | _ => true end.

(* every tick the read task processes is on time and a message was received since the previous one *)
Fixpoint regular (old : variant) (p : pstate) (tr : list plabel) : Prop :=
  match tr with
  | [] => True
  | l :: tr' =>
    (forall b, l = LInactTick b -> penabled old p l = true -> p_active p = true /\ on_time p l = true) /\
    regular old (pstep old p l) tr'
  end.

(* the stale ticks of a trace (those the read task processes) *)
Fixpoint stale_ticks (old : variant) (p : pstate) (tr : list plabel) : N :=
  match tr with
  | [] => 0
  | l :: tr' =>
    (match l with LInactTick true => if penabled old p l then 1 else 0 | _ => 0 end) + stale_ticks old (pstep old p l) tr'
  end.

(* the base trace a ping-level label stands for *)
Definition base_of (old : variant) (p : pstate) (l : plabel) : list label :=
  if penabled old p l then
    match l with
    | LBase l' => [l']
    | LPingTick false => [LSendFault]
    | LInactTick stale => if snd (is_inactive (set_active p false) stale) then [LInactive] else []
    | _ => []
    end
  else [].
Fixpoint base_trace (old : variant) (p : pstate) (tr : list plabel) : list label :=
  match tr with
  | [] => []
  | l :: tr' => base_of old p l ++ base_trace old (pstep old p l) tr'
  end.

(* ================= arithmetic of the frame handler (ClientMgr.handle_back) =================
   The places where the Rust code does unchecked arithmetic or indexing on values that come from the server. *)

(* the inclusive id range `range` collected by the array loop of handle_recv_message *)
Definition frame_range (s : ClientMgr.st) (fr : inframe) : option (N * N) :=
  match fr with
  | FArray ms => match array_run s ms [] None false with
                 | inl (_, _, Some r, _) => Some r
                 | _ => None
                 end
  | _ => None
  end.
(* the value of `range.end` after "the range is exclusive so need to add one", where the code computes it:
   NOW `range.end.checked_add(1)` (None = the error path), OLD `range.end += 1` *)
Definition range_end_now (s : ClientMgr.st) (fr : inframe) : option N :=
  match frame_range s fr with
  | Some (lo, hi) => if hi =? u64_max then None else Some (hi + 1)
  | None => None
  end.
Definition range_end_old (s : ClientMgr.st) (fr : inframe) : option N :=
  match frame_range s fr with Some (lo, hi) => Some (hi + 1) | None => None end.

Definition overflow_frame : bytes := b#"[{""id"":18446744073709551615,""result"":1}]".

(* ================= glue for the engine `clifault` =================
   The shutdown model (who is told what, when) composed with the manager/frame model of ClientMgr.v (which
   frames are written, which answer completes which call, which frame is fatal).  ClientMgr's own abstract
   shutdown (`try_kill`/`settle`/`step`) is not used: only `apply`, `drain`, `poll_next`, `kill`. *)
Inductive cmd :=
| KCall (h : handle) (e : ClientMgr.ev)      (* request / batch / subscribe: e is the manager event for it *)
| KOnDisc (h : handle)
| KIsConn
| KNext (h : handle)
| KBack (raw : bytes)
| KFailSend | KRecvFault | KPeerClose | KReleaseClose | KDropClient | KSettle
| KPing                      (* one tick of ping_interval *)
| KPong                      (* ReceivedMessage::Pong *)
| KInact (stale : bool).     (* one tick of inactivity_stream *)

Inductive sout :=
| YWire (raw : bytes)
| YComp (h : handle) (r : cres)          (* completed by the manager: an answer *)
| YFail (h : handle) (o : obs)           (* completed by the shutdown: cause or placeholder *)
| YDisc (h : handle) (o : obs)           (* an on_disconnect() future completed *)
| YConn (b : bool)
| YNext (r : nextres)
| YX (k : N)                             (* 0: transport close() entered, 1: sender dropped, 2: receiver dropped *)
| YPing.                                 (* a ping frame written *)

Record sys := {
  y_cs : state;
  y_ms : ClientMgr.st;
  y_slow : bool;                 (* the transport's close() blocks until released *)
  y_released : bool;
  y_mdead : bool;                (* the manager has been dropped *)
  y_pend : list (handle * ClientMgr.ev);
  y_ondisc : list handle;
  y_ping : option N;             (* enable_ws_ping: max_failures *)
  y_count : N;                   (* InactivityCheck::count *)
  y_active : bool
}.

Definition sys_init (slow : bool) (ping : option N) : sys :=
  {| y_cs := init; y_ms := ClientMgr.init false 1024 8 false; y_slow := slow; y_released := false; y_mdead := false;
     y_pend := []; y_ondisc := []; y_ping := ping; y_count := 0; y_active := false |}.

Definition upd_cs (y : sys) (c : state) : sys :=
  {| y_cs := c; y_ms := y_ms y; y_slow := y_slow y; y_released := y_released y; y_mdead := y_mdead y;
     y_pend := y_pend y; y_ondisc := y_ondisc y;
        y_ping := y_ping y; y_count := y_count y; y_active := y_active y |}.
Definition upd_ms (y : sys) (x : ClientMgr.st) : sys :=
  {| y_cs := y_cs y; y_ms := x; y_slow := y_slow y; y_released := y_released y; y_mdead := y_mdead y;
     y_pend := y_pend y; y_ondisc := y_ondisc y;
        y_ping := y_ping y; y_count := y_count y; y_active := y_active y |}.

Definition mgr_outs (o : list ClientMgr.out) : list sout :=
  flat_map (fun x => match x with OWire raw => [YWire raw] | OComplete h r => [YComp h r] | OFatal _ => [] end) o.
Definition answered (o : list ClientMgr.out) : list handle :=
  flat_map (fun x => match x with OComplete h _ => [h] | _ => [] end) o.
Definition newly_dying (a b : ClientMgr.st) : bool := is_none (dying a) && negb (is_none (dying b)).

(* run the manager's send-side work that is queued in it; a failing transport write shows as `dying` *)
Definition mgr_drain (x : ClientMgr.st) : ClientMgr.st * list ClientMgr.out :=
  ClientMgr.drain (S (length (queue x) + length (waiting x))) x.

Definition first_caller_step (c : state) : option label :=
  let try_h (hc : handle * cpc) :=
    if enabled VNow c (LCallerDropped (fst hc)) then Some (LCallerDropped (fst hc))
    else if enabled VNow c (LReadErr (fst hc)) then Some (LReadErr (fst hc)) else None in
  fold_right (fun hc acc => match try_h hc with Some l => Some l | None => acc end) None (callers c).

(* the runtime polled to quiescence *)
Fixpoint quiesce (fuel : nat) (y : sys) : sys * list sout :=
  match fuel with
  | O => (y, [])
  | S f =>
    let c := y_cs y in
    if enabled VNow c LSendOk then
      match hd_error (fqueue c) with
      | Some h =>
        match alookup N.eqb h (y_pend y) with
        | Some e =>
          let '(m1, o1, _) := ClientMgr.apply (y_ms y) e in
          let '(m2, o2) := mgr_drain m1 in
          let l := if newly_dying (y_ms y) m2 then LSendFault else LSendOk in
          let '(y', o) := quiesce f (upd_ms (upd_cs y (step VNow c l)) m2) in
          (y', mgr_outs (o1 ++ o2) ++ o)
        | None => quiesce f (upd_cs y (step VNow c LSendOk))
        end
      | None => (y, [])
      end
    else
      match next_proto VNow (y_slow y && negb (y_released y)) c with
      | Some l => quiesce f (upd_cs y (step VNow c l))
      | None =>
        match first_caller_step c with
        | Some l => quiesce f (upd_cs y (step VNow c l))
        | None => (y, [])
        end
      end
  end.

Definition obs_of (c : option cpc) : option obs :=
  match c with Some (CDone OOk) => None | Some (CDone o) => Some o | _ => None end.

(* what became visible between two states of the shutdown model *)
Definition diff_done (a b : state) (ondisc : list handle) : list sout :=
  flat_map (fun hc =>
    let h := fst hc in
    match obs_of (get_c a h), obs_of (Some (snd hc)) with
    | None, Some o => if existsb (N.eqb h) ondisc then [YDisc h o] else [YFail h o]
    | _, _ => []
    end) (callers b).
Definition diff_x (a b : state) : list sout :=
  (if negb (sp_closing_b (sp a)) && sp_closing_b (sp b) then [YX 0] else []) ++
  (if negb (sp_exited a) && sp_exited b then [YX 1] else []) ++
  (if negb (rp_exited a) && rp_exited b then [YX 2] else []).

(* one label of the ping layer (a no-op when the client was built with disable_ws_ping) *)
Definition ping_step (y : sys) (l : plabel) : sys :=
  match y_ping y with
  | None => y
  | Some maxf =>
    let p := pstep VNow {| pb := y_cs y; p_max := maxf; p_count := y_count y; p_active := y_active y; h_pings := 0 |} l in
    {| y_cs := pb p; y_ms := y_ms y; y_slow := y_slow y; y_released := y_released y; y_mdead := y_mdead y;
       y_pend := y_pend y; y_ondisc := y_ondisc y; y_ping := y_ping y; y_count := p_count p; y_active := p_active p |}
  end.
Definition ping_on (y : sys) : bool := negb (is_none (y_ping y)).

Definition do_cmd (y : sys) (k : cmd) : sys * list sout :=
  let c := y_cs y in
  match k with
  | KCall h e =>
    ({| y_cs := step VNow c (LNewCall h); y_ms := y_ms y; y_slow := y_slow y; y_released := y_released y;
        y_mdead := y_mdead y; y_pend := (h, e) :: y_pend y; y_ondisc := y_ondisc y;
        y_ping := y_ping y; y_count := y_count y; y_active := y_active y |}, [])
  | KOnDisc h =>
    ({| y_cs := step VNow c (LOnDisc h); y_ms := y_ms y; y_slow := y_slow y; y_released := y_released y;
        y_mdead := y_mdead y; y_pend := y_pend y; y_ondisc := h :: y_ondisc y;
        y_ping := y_ping y; y_count := y_count y; y_active := y_active y |}, [])
  | KIsConn => (y, if dropped c then [] else [YConn (is_connected c)])
  | KNext h => let '(m', r) := poll_next (y_ms y) h in (upd_ms y m', [YNext r])
  | KBack raw =>
    let y := ping_step y LPong in            (* mark_as_active: every received message *)
    if enabled VNow c LRecvFault then        (* the read task is in its loop *)
      let '(m1, o1, _) := ClientMgr.apply (y_ms y) (Back raw) in
      if newly_dying (y_ms y) m1 then
        match dying m1 with
        | Some f => (upd_ms (upd_cs y (step VNow c (LBadFrame f))) m1, mgr_outs o1)
        | None => (y, [])
        end
      else
        let c1 := fold_left (fun c' h => step VNow c' (LAnswer h)) (answered o1) c in
        if enabled VNow c1 LSendFault then    (* the send task is in its loop: it takes what the read task forwarded *)
          let '(m2, o2) := mgr_drain m1 in
          let c2 := if newly_dying m1 m2 then step VNow c1 LSendFault else c1 in
          (upd_ms (upd_cs y c2) m2, mgr_outs (o1 ++ o2))
        else (upd_ms (upd_cs y c1) m1, mgr_outs o1)
    else (y, [])
  | KFailSend => let '(m1, _, _) := ClientMgr.apply (y_ms y) FailSend in (upd_ms y m1, [])
  | KRecvFault => (upd_cs y (step VNow c LRecvFault), [])
  | KPeerClose => (upd_cs y (step VNow c LPeerClose), [])
  | KReleaseClose =>
    ({| y_cs := c; y_ms := y_ms y; y_slow := y_slow y; y_released := true; y_mdead := y_mdead y;
        y_pend := y_pend y; y_ondisc := y_ondisc y;
        y_ping := y_ping y; y_count := y_count y; y_active := y_active y |}, [])
  | KDropClient => (upd_cs y (step VNow c LClientDrop), [])
  | KSettle => (y, [])
  | KPing =>
    if ping_on y && penabled VNow {| pb := c; p_max := 0; p_count := 0; p_active := false; h_pings := 0 |} (LPingTick true) then
      if sendfail (y_ms y) then (ping_step (upd_ms y (upd_sendfail (y_ms y) false)) (LPingTick false), [])
      else (ping_step y (LPingTick true), [YPing])
    else (y, [])
  | KPong => (ping_step y LPong, [])
  | KInact stale => (ping_step y (LInactTick stale), [])
  end.

Definition script_step (y : sys) (k : cmd) : sys * list sout :=
  let '(y1, o1) := do_cmd y k in
  let c1 := y_cs y1 in
  let '(y2, o2) := quiesce (24 + length (fqueue c1) + 2 * length (callers c1)) y1 in
  let c2 := y_cs y2 in
  let y3 :=
    if sender_let_go VNow c2 && rp_exited c2 && negb (y_mdead y2) then     (* both manager handles are gone: the sinks go *)
      {| y_cs := c2; y_ms := fst (kill (y_ms y2) FTransport); y_slow := y_slow y2; y_released := y_released y2;
         y_mdead := true; y_pend := y_pend y2; y_ondisc := y_ondisc y2;
         y_ping := y_ping y2; y_count := y_count y2; y_active := y_active y2 |}
    else y2 in
  (y3, o1 ++ o2 ++ diff_done (y_cs y) c2 (y_ondisc y2) ++ diff_x (y_cs y) c2).

Definition pending_handles (y : sys) : list handle :=
  flat_map (fun hc => match snd hc with CQueued | CInMgr | CReadErr => [fst hc] | _ => [] end) (callers (y_cs y)).
