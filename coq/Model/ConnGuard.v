(* C11 -- the connection guard of jsonrpsee-server as a labelled transition system.

   Code modelled (as it is NOW in /repo):
     server/src/future.rs     ConnectionGuard { inner: Arc<Semaphore>, max }, try_acquire (= try_acquire_owned),
                              available_connections (= available_permits); ConnectionPermit = OwnedSemaphorePermit,
                              whose Drop adds one permit back.
     server/src/server.rs     TowerServiceNoHttp::call:
                                 let Some(conn_permit) = conn_guard.try_acquire() else { 429 };
                                 let conn = ConnectionState::new(.., conn_permit);
                                 if enable_ws && is_upgrade_request
                                     match server.receive_request(&request)
                                       Ok  => tokio::spawn(async move { upgrade::on(request).await  -- Err => return
                                                                        ... conn moved into BackgroundTaskParams
                                                                        ws::background_task(params).await }); 101
                                       Err => 200 "Could not upgrade connection"   (conn dropped when `call` returns)
                                 else if enable_http && !is_upgrade_request
                                     Box::pin(async move { let rp = call_with_service(..).await; drop(conn); Ok(rp) })
                                 else 403 denied                                    (conn dropped when `call` returns)
     server/src/transport/ws.rs background_task: receive loop; on break graceful_shutdown(..).await; drop(conn).

   One *attempt* = one invocation of `call` (one HTTP request; a WebSocket connection is the attempt that carried its
   upgrade request).  The permit lives in exactly one place at a time; the phase of an attempt says where:
     PCall       local variable `conn` of `call` (between try_acquire and the return of `call`)
     PHttp       the boxed HTTP future (until call_with_service returns, or hyper drops the future)
     PWsPending  the spawned task, awaiting hyper::upgrade::on
     PWsSession  the spawned task, inside background_task's receive loop
     PWsClosing c the spawned task, inside graceful_shutdown (loop already left for cause c, permit not yet dropped).
                 graceful_shutdown waits for the session's in-flight calls ONLY when the loop was left because the
                 server is being stopped (`if let Ok(Shutdown::Stopped) = result`), and even then a vanished peer or a
                 dead send task ends the wait; for every other cause -- peer close, receive error, the server's own
                 ping/pong inactivity close -- it goes straight to conn_tx.send / send_task_handle.await and the
                 permit is dropped no matter how many handlers of the session are still running.  That guard is read
                 from the source on every run (gen_waits_for_pending).
     PDone       nowhere (never acquired, or dropped)
   `s_avail` is the semaphore counter; it is NOT computed from the phases: every transition changes the counter exactly
   where the code acquires or drops the permit, and Proofs/ConnGuardFacts.v shows the two views always agree.
   try_acquire and the rest of `call` are separate steps (Acquire / Dispatch): other connections run on other threads
   in between.

   Left out: the Arc around the permit in ConnectionState (the server's own paths never clone a ConnectionState, so the
   permit has one owner); TryAcquireError::Closed (the semaphore is never closed); runtime shutdown dropping spawned
   tasks; WHEN hyper/tokio drop a future after the peer went away (the model has the step, not its timing);
   the body of the RPC handling (Handler only counts invocations). *)
From Coq Require Import List NArith Bool.
From JV Require Import Gen.ConnGuardGen.
Import ListNotations.
Local Open Scope N_scope.

Record cfg := { c_max : N; c_http : bool; c_ws : bool }.

(* what the request looks like to `call` *)
Inductive kind :=
| KHttp      (* POST, JSON content type: reaches handle_rpc_call *)
| KHttpGet   (* not an upgrade request, not a POST: call_with_service answers 405 without any handler *)
| KWs        (* upgrade request accepted by soketto's receive_request *)
| KWsBad.    (* upgrade request (Connection: upgrade, Upgrade: websocket) that receive_request rejects *)

Definition is_upgrade (k : kind) : bool := match k with KWs | KWsBad => true | _ => false end.

(* why background_task's receive loop was left *)
Inductive cause :=
| CPeer       (* the peer's Close frame / end of stream: Ok(ConnectionClosed), the fused receive stream is terminated *)
| CError      (* receive error (reset, EOF without close, invalid frame): Err(e) *)
| CInactive   (* the server's own ping/pong inactivity limit: Ok(ConnectionClosed), the receive stream is still live *)
| CStopped.   (* server stop: Ok(Stopped) *)

Definition is_stopped (c : cause) : bool := match c with CStopped => true | _ => false end.
Definition result_is_ok (c : cause) : bool := match c with CError => false | _ => true end.
(* can `ws_stream.try_for_each(..)` (the `disconnect` arm of the select) still be pending? *)
Definition stream_live (c : cause) : bool := match c with CInactive | CStopped => true | _ => false end.

Inductive phase := PCall | PHttp | PWsPending | PWsSession | PWsClosing (c : cause) | PDone.

Definition holding (p : phase) : bool := match p with PDone => false | _ => true end.

Record attempt := { a_kind : kind; a_phase : phase; a_status : N (* HTTP status produced, 0 = none (yet) *);
                     a_handlers : N (* handler invocations so far *);
                     a_pending : N (* WebSocket session: calls whose handler has not returned yet *) }.

Record state := { s_cfg : cfg; s_avail : N; s_att : list attempt }.

Definition init (c : cfg) : state := {| s_cfg := c; s_avail := c_max c; s_att := [] |}.

Inductive act :=
| Acquire (k : kind)           (* call: try_acquire; the new attempt gets the next index *)
| Dispatch (i : nat)           (* call: everything after the permit is in `conn`, up to the return of `call` *)
| Handler (i : nat)            (* an RPC method handler is invoked for attempt i *)
| Respond (i : nat)            (* HTTP future: call_with_service returned; drop(conn); Ok(rp) *)
| DropFut (i : nat)            (* HTTP future dropped by hyper before completion (peer reset, connection error) *)
| Upgrade (i : nat) (ok : bool)(* hyper::upgrade::on(request) resolves *)
| HandlerDone (i : nat)        (* a handler of WebSocket session i returns (its task outlives the session if need be) *)
| WsEnd (i : nat) (c : cause)  (* background_task's loop breaks *)
| WsFinish (i : nat)           (* graceful_shutdown returns by itself (nothing to wait for, or all calls done); drop(conn) *)
| WsPeerGone (i : nat).        (* while graceful_shutdown waits: the peer disconnects or the send task dies; drop(conn) *)

(* status constants are read from transport/http.rs on every run (Gen/ConnGuardGen.v) *)
Definition status_refused : N := gen_status_refused.
Definition status_denied : N := gen_status_denied.
Definition status_switching : N := 101.   (* soketto's receive_request: SWITCHING_PROTOCOLS *)

Fixpoint upd (l : list attempt) (i : nat) (f : attempt -> attempt) : list attempt :=
  match l, i with
  | [], _ => []
  | a :: t, O => f a :: t
  | a :: t, S j => a :: upd t j f
  end.

Definition get (s : state) (i : nat) : option attempt := nth_error (s_att s) i.

Definition set_phase (p : phase) (a : attempt) : attempt :=
  {| a_kind := a_kind a; a_phase := p; a_status := a_status a; a_handlers := a_handlers a; a_pending := a_pending a |}.
Definition set_phase_status (p : phase) (st : N) (a : attempt) : attempt :=
  {| a_kind := a_kind a; a_phase := p; a_status := st; a_handlers := a_handlers a; a_pending := a_pending a |}.
Definition bump_handlers (a : attempt) : attempt :=
  {| a_kind := a_kind a; a_phase := a_phase a; a_status := a_status a; a_handlers := a_handlers a + 1; a_pending := a_pending a |}.
Definition bump_call (a : attempt) : attempt :=
  {| a_kind := a_kind a; a_phase := a_phase a; a_status := a_status a; a_handlers := a_handlers a + 1; a_pending := a_pending a + 1 |}.
Definition call_done (a : attempt) : attempt :=
  {| a_kind := a_kind a; a_phase := a_phase a; a_status := a_status a; a_handlers := a_handlers a; a_pending := a_pending a - 1 |}.

(* graceful_shutdown has something to wait for: the guard admits this cause, the receive stream can still be pending,
   and calls are in flight *)
Definition shutdown_blocked (c : cause) (x : attempt) : bool :=
  gen_waits_for_pending (is_stopped c) (result_is_ok c) && stream_live c && negb (a_pending x =? 0).

(* the attempt keeps the permit *)
Definition keep (s : state) (i : nat) (f : attempt -> attempt) : state :=
  {| s_cfg := s_cfg s; s_avail := s_avail s; s_att := upd (s_att s) i f |}.
(* the attempt's permit is dropped: OwnedSemaphorePermit::drop adds one permit *)
Definition release (s : state) (i : nat) (f : attempt -> attempt) : state :=
  {| s_cfg := s_cfg s; s_avail := s_avail s + 1; s_att := upd (s_att s) i f |}.

Definition http_status (k : kind) : N := match k with KHttp => gen_status_ok | _ => gen_status_not_post end.

Definition step (s : state) (a : act) : state :=
  match a with
  | Acquire k =>
      if s_avail s =? 0
      then {| s_cfg := s_cfg s; s_avail := s_avail s;
              s_att := s_att s ++ [{| a_kind := k; a_phase := PDone; a_status := status_refused; a_handlers := 0; a_pending := 0 |}] |}
      else {| s_cfg := s_cfg s; s_avail := s_avail s - 1;
              s_att := s_att s ++ [{| a_kind := k; a_phase := PCall; a_status := 0; a_handlers := 0; a_pending := 0 |}] |}
  | Dispatch i =>
      match get s i with
      | Some x =>
          match a_phase x with
          | PCall =>
              if c_ws (s_cfg s) && is_upgrade (a_kind x) then
                match a_kind x with
                | KWs => keep s i (set_phase_status PWsPending status_switching)
                | _ => release s i (set_phase_status PDone gen_status_handshake_failed)
                end
              else if c_http (s_cfg s) && negb (is_upgrade (a_kind x)) then keep s i (set_phase PHttp)
              else release s i (set_phase_status PDone status_denied)
          | _ => s
          end
      | None => s
      end
  | Handler i =>
      match get s i with
      | Some x =>
          match a_phase x, a_kind x with
          | PHttp, KHttp => keep s i bump_handlers
          | PWsSession, _ => keep s i bump_call
          | _, _ => s
          end
      | None => s
      end
  | Respond i =>
      match get s i with
      | Some x => match a_phase x with PHttp => release s i (set_phase_status PDone (http_status (a_kind x))) | _ => s end
      | None => s
      end
  | DropFut i =>
      match get s i with
      | Some x => match a_phase x with PHttp => release s i (set_phase PDone) | _ => s end
      | None => s
      end
  | Upgrade i ok =>
      match get s i with
      | Some x =>
          match a_phase x with
          | PWsPending => if ok then keep s i (set_phase PWsSession) else release s i (set_phase PDone)
          | _ => s
          end
      | None => s
      end
  | HandlerDone i =>
      match get s i with
      | Some x => if a_pending x =? 0 then s else keep s i call_done
      | None => s
      end
  | WsEnd i c =>
      match get s i with
      | Some x => match a_phase x with PWsSession => keep s i (set_phase (PWsClosing c)) | _ => s end
      | None => s
      end
  | WsFinish i =>
      match get s i with
      | Some x =>
          match a_phase x with
          | PWsClosing c => if shutdown_blocked c x then s else release s i (set_phase PDone)
          | _ => s
          end
      | None => s
      end
  | WsPeerGone i =>
      match get s i with
      | Some x => match a_phase x with PWsClosing _ => release s i (set_phase PDone) | _ => s end
      | None => s
      end
  end.

Definition run_from (s : state) (tr : list act) : state := fold_left step tr s.
Definition run (c : cfg) (tr : list act) : state := run_from (init c) tr.

(* every state a trace goes through, the initial one first *)
Fixpoint states_from (s : state) (tr : list act) : list state :=
  match tr with
  | [] => [s]
  | a :: t => s :: states_from (step s a) t
  end.
Definition trace_states (c : cfg) (tr : list act) : list state := states_from (init c) tr.

(* connections being served = attempts that hold a permit *)
Fixpoint count_holding (l : list attempt) : N :=
  match l with
  | [] => 0
  | a :: t => (if holding (a_phase a) then 1 else 0) + count_holding t
  end.
Definition served (s : state) : N := count_holding (s_att s).

Definition holds (s : state) (i : nat) : bool :=
  match get s i with Some x => holding (a_phase x) | None => false end.
Definition all_terminated (s : state) : bool := forallb (fun x => negb (holding (a_phase x))) (s_att s).
Definition refused (s : state) (i : nat) : bool :=
  match get s i with Some x => a_status x =? status_refused | None => false end.
Definition handlers_of (s : state) (i : nat) : N :=
  match get s i with Some x => a_handlers x | None => 0 end.
Fixpoint total_handlers (l : list attempt) : N :=
  match l with [] => 0 | a :: t => a_handlers a + total_handlers t end.

(* ------------------------------------------------------------------------------------------------
   Scripts of the correspondence engine `connguard`: one script step = one thing the harness does to
   the real server over sockets; here: the model actions it stands for.  The attempt index of an
   opening step is the number of opening steps before it (the harness numbers them the same way). *)
Inductive sstep :=
| SHOpen (i : nat)      (* POST head + all but the last body byte: `call` runs, future parks in read_body *)
| SHBody (i : nat)      (* last body byte: the (parked) handler starts *)
| SHRel (i : nat)       (* handler let go: response is produced *)
| SHAbort (i : nat)     (* TCP stream dropped while the request is in flight *)
| SHRelAbort (i : nat)  (* handler let go and the stream dropped at once *)
| SHGet (i : nat)       (* a complete GET: answered without a handler *)
| SHBurst (i k : nat)   (* k POSTs (attempts i .. i+k-1) written back to back on k streams, the 429 answers counted, then all reset *)
| SWOpen (i : nat)      (* good upgrade request, 101 read *)
| SWBad (i : nat)       (* upgrade request with a bad Sec-WebSocket-Version *)
| SWEarly (i : nat)     (* good upgrade request, stream reset as soon as `call` has run, response not read *)
| SWCall (i : nat)      (* a call of the parked method on the session *)
| SWRel (i : nat)       (* parked calls of the session let go *)
| SWClose (i : nat)     (* close frame, wait for the peer *)
| SWAbort (i : nat)     (* stream dropped without close frame *)
| SWGarbage (i : nat)   (* invalid frame: the server ends the session *)
| SWCloseAbort (i : nat) (* close frame, then the stream dropped without waiting *)
| SWIdle (i : nat).     (* ws ping enabled: the client stops answering pings (TCP stays open, no Close) until the
                           server has closed the session for inactivity, or the bounded wait is over *)

Fixpoint burst_open (i k : nat) : list act :=
  match k with O => [] | S k' => Acquire KHttp :: Dispatch i :: burst_open (S i) k' end.
Fixpoint burst_drop (i k : nat) : list act :=
  match k with O => [] | S k' => DropFut i :: burst_drop (S i) k' end.
Fixpoint count_refused (s : state) (i k : nat) : N :=
  match k with O => 0 | S k' => (if refused s i then 1 else 0) + count_refused s (S i) k' end.

Definition pending_of (s : state) (i : nat) : N :=
  match get s i with Some x => a_pending x | None => 0 end.

Definition kind_of (s : state) (i : nat) : option kind :=
  match get s i with Some a => Some (a_kind a) | None => None end.

(* steps addressed to an attempt of the wrong kind, or out of order (body twice, release before the body), are
   no-ops on both sides *)
Definition script_acts (s : state) (x : sstep) : list act :=
  match x with
  | SHOpen i => [Acquire KHttp; Dispatch i]
  | SHBody i => match kind_of s i with Some KHttp => if handlers_of s i =? 0 then [Handler i] else [] | _ => [] end
  | SHRel i => if handlers_of s i =? 0 then [] else [Respond i]
  | SHAbort i => [DropFut i]
  | SHRelAbort i => if handlers_of s i =? 0 then [DropFut i] else [Respond i]
  | SHGet i => [Acquire KHttpGet; Dispatch i; Respond i]
  | SHBurst i k => burst_open i k ++ burst_drop i k
  | SWOpen i => [Acquire KWs; Dispatch i; Upgrade i true]
  | SWBad i => [Acquire KWsBad; Dispatch i]
  | SWEarly i => [Acquire KWs; Dispatch i; Upgrade i false]
  | SWCall i => match kind_of s i with Some KWs => [Handler i] | _ => [] end
  | SWRel i => repeat (HandlerDone i) (N.to_nat (pending_of s i))
  | SWClose i => [WsEnd i CPeer; WsFinish i]
  | SWAbort i | SWGarbage i | SWCloseAbort i => [WsEnd i CError; WsFinish i]
  | SWIdle i => [WsEnd i CInactive; WsFinish i]
  end.

(* status the harness can read off the socket in that step (0 = none) *)
Definition script_status (before after : state) (x : sstep) : N :=
  match x with
  | SHOpen i | SHGet i | SWOpen i | SWBad i =>
      match get after i with Some a => a_status a | None => 0 end
  | SHRel i =>
      match get before i with
      | Some a => match a_phase a with PHttp => match get after i with Some b => a_status b | None => 0 end | _ => 0 end
      | None => 0
      end
  | SHBurst i k => 1000 + count_refused after i k   (* printed as b<count> *)
  | SWIdle i =>                                        (* 1 = closed by the server (printed c), 2 = still open (o) *)
      match get before i with
      | Some a => match a_phase a with PWsSession => if holds after i then 2 else 1 | _ => 0 end
      | None => 0
      end
  | _ => 0
  end.

Record obs := { o_status : N; o_avail : N; o_handlers : N }.

Definition script_step (s : state) (x : sstep) : state * obs :=
  let s' := run_from s (script_acts s x) in
  (s', {| o_status := script_status s s' x; o_avail := s_avail s'; o_handlers := total_handlers (s_att s') |}).

Fixpoint script_run (s : state) (l : list sstep) : list obs :=
  match l with
  | [] => []
  | x :: t => let (s', o) := script_step s x in o :: script_run s' t
  end.
