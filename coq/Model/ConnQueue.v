(* ONE connection's bounded outgoing queue shared by several subscriptions and calls (property C04, engine `connq`),
   as the code is NOW in /repo:

     server/src/transport/ws.rs        one `mpsc::channel(message_buffer_capacity)` + `MethodSink::new(tx)` per connection;
                                       the per-message task writes a method-call-kind answer with `sink.send(json).await`
                                       and does NOT write a subscription-kind answer (accept / reject wrote it);
                                       `send_task` takes the frames out one by one (step W)
     core/src/server/helpers.rs        MethodSink::{send, try_send}: tokio's bounded mpsc.  A `send` that finds no room
                                       WAITS; tokio's semaphore is fair: waiting senders are served first-come
                                       first-served, one per place that becomes free; dropping the waiting future
                                       leaves the line; when the receiving end is dropped every waiting send fails
     core/src/server/subscription.rs   PendingSubscriptionSink::{accept, reject}, SubscriptionSink::{send, try_send},
                                       SubscriptionGuard (drop of the sink removes the table entry)
     core/src/server/rpc_module.rs     register_subscription: the subscribe-call future (`rx.await`: a response that
                                       is_success -> `accepted_tx.send(())`; oneshot dropped -> InternalError, a
                                       METHOD-CALL-kind answer which the transport then writes through the queue) and
                                       the spawned task `try_join(sub_fut, accepted_rx)`: both done -> the closing value
                                       is written through the same queue (`method_sink.send(json).await`, may wait);
                                       `accepted_tx` dropped unsent -> the task ends AT ONCE and drops the handler future
                                       (state HGone: later commands to that handler find nobody);
                                       verify_and_register_unsubscribe: answer = the key was in the table (removed)

   accept() is INTERPRETED: `accept_run` folds a list of Model/AcceptSteps.accept_step; the list the checks use is
   Gen/AcceptOrderGen.accept_steps, read from the source on every check (tools/translators/accept_order.py).
     ASendToSink   write the accepting response to the queue: room -> enqueued; full -> the handler is PARKED inside
                   accept (HAccParked), a waiter (KAcc, carrying the steps still to run) joins the line; closed ->
                   accept fails (the rest is dropped)
     ANotifyCall   the oneshot of the subscribe call: the call future completes with the success response (kind
                   subscription: nothing is written for it) and ARMS the closing-value task; the oneshot sender is
                   consumed (tx := false); it exists until then because it lives inside the PendingSubscriptionSink
     ATableInsert  table of active subscriptions
     ABuildSink    `Ok(SubscriptionSink{..})`: the handler holds a sink (HActive)
   A parked handler command (accept / reject / send) can be CANCELLED (the handler drops the future:
   `tokio::time::timeout(d, pending.accept())`, select!): its waiter leaves the line and the remaining steps never run;
   a cancelled accept/reject drops the PendingSubscriptionSink, hence the oneshot: the call is answered InternalError.

   One step = one script step followed by everything that happens until nothing can move (the harness polls to
   quiescence after every step).  Somebody waits only while the channel is open and the queue is full (proved:
   Proofs/ConnQueueFacts.v waits_only_when_full), so one W wakes exactly the first of the line.

   Left out: the subscribe-call future being dropped (abandoned call: engine subhist), clones of the sink, send_timeout
   and the messages a failed send hands back (engine sinkbp), several connections, the permit of
   BoundedSubscriptions (never exhausted), max_response_size, payloads other than decimal numbers, batches; after
   Close the frames still queued are kept in `q` (they are never written: W answers OWGone).  *)
From JV Require Import Base.Bytes Base.Dec Json.Json Json.JsonSer Model.Wire Model.AcceptSteps Gen.AcceptOrderGen.

Inductive closing := CNone | CNotif (x : N) | CErr (x : N).

Inductive frame :=
| FResp (c : N)                             (* answer of the ordinary call c *)
| FUnsub (c : N) (b : bool)                 (* answer of the unsubscribe call c *)
| FSubOk (c : N) (sd : N)                   (* {"id":c,"result":sd}: the response that accepts *)
| FRejected (c : N) (code : N)              (* MethodResponse::subscription_error: written by reject itself *)
| FInternal (c : N)                         (* MethodResponse::error(id, InternalError): written by the transport *)
| FNotif (sd : N) (x : N)                   (* an item the handler sent *)
| FClosing (sd : N) (is_err : bool) (x : N). (* the closing value of the handler *)

(* the subscription a notification names *)
Definition notif_sid (f : frame) : option N :=
  match f with FNotif sd _ | FClosing sd _ _ => Some sd | _ => None end.
(* the subscription a frame names at all *)
Definition frame_sid (f : frame) : option N :=
  match f with FNotif sd _ | FClosing sd _ _ | FSubOk _ sd => Some sd | _ => None end.
Definition plain_item (sd : N) (f : frame) : option N :=
  match f with FNotif s x => if N.eqb s sd then Some x else None | _ => None end.
Fixpoint filter_map {A B} (f : A -> option B) (l : list A) : list B :=
  match l with [] => [] | a :: l' => match f a with Some b => b :: filter_map f l' | None => filter_map f l' end end.

(* the text of a frame; me = name of the notification method *)
Definition internal_error : errobj := {| e_code := (-32603)%Z; e_message := b#"Internal error"; e_data := None |}.
Definition rejected_error (code : N) : errobj := {| e_code := Z.of_N code; e_message := b#"rejected"; e_data := None |}.
Definition render (me : bytes) (f : frame) : bytes :=
  match f with
  | FResp c => ser_response {| rs_jsonrpc := true; rs_payload := PResult b#"""pong"""; rs_id := IdNum c |}
  | FUnsub c b => ser_response {| rs_jsonrpc := true; rs_payload := PResult (if b then b#"true" else b#"false"); rs_id := IdNum c |}
  | FSubOk c sd => ser_response {| rs_jsonrpc := true; rs_payload := PResult (print_N sd); rs_id := IdNum c |}
  | FRejected c code => ser_response {| rs_jsonrpc := true; rs_payload := PError (rejected_error code); rs_id := IdNum c |}
  | FInternal c => ser_response {| rs_jsonrpc := true; rs_payload := PError internal_error; rs_id := IdNum c |}
  | FNotif sd x => ser_sub_notif me (SubNum sd) false (print_N x)
  | FClosing sd e x => ser_sub_notif me (SubNum sd) e (print_N x)
  end.

(* ---------- handlers and subscriptions ---------- *)
Inductive hstate :=
| HPending                                 (* holds the PendingSubscriptionSink *)
| HAccParked (tx : bool)                   (* inside accept, waiting in ASendToSink; tx: the oneshot is still unused *)
| HRejParked                               (* inside reject, waiting in its send *)
| HActive                                  (* holds the SubscriptionSink *)
| HSendParked (x : N)                      (* inside SubscriptionSink::send *)
| HIdle                                    (* alive, holds nothing (accept failed / was cancelled, reject cancelled) *)
| HGone.                                   (* returned, or the future was dropped by the library *)

Record sub := mkSub {
  s_call : N;                 (* id of the subscribe call *)
  s_h : hstate;
  s_armed : bool;             (* accepted_tx.send(()) has happened: the closing value will be written *)
  s_ret : option closing      (* the handler has returned this closing value *)
}.

Definition set_h (x : hstate) (b : sub) : sub := mkSub (s_call b) x (s_armed b) (s_ret b).
Definition set_armed (b : sub) : sub := mkSub (s_call b) (s_h b) true (s_ret b).
Definition set_ret (cv : closing) (b : sub) : sub := mkSub (s_call b) HGone (s_armed b) (Some cv).

(* who waits for a place in the queue *)
Inductive wkind :=
| KAcc (h : nat) (c : N) (tx : bool) (rest : list accept_step)
                                           (* handler h inside accept: the steps still to run once the answer is in
                                              the queue, and whether the oneshot of the call is still unused *)
| KRej (h : nat) (c : N) (code : N)        (* handler h inside reject *)
| KSend (h : nat) (x : N)                  (* handler h inside sink.send *)
| KPlain (f : frame).                      (* the transport writing an answer / the closing-value task *)

Record st := mkSt {
  q : list frame;             (* frames in the channel, oldest first *)
  popped : list frame;        (* frames the writer has taken, oldest first *)
  closed : bool;              (* the receiving end is gone *)
  waiters : list wkind;       (* the line of waiting sends, first come first *)
  subs : list sub;            (* by handle = number of the subscribe call *)
  table : list nat            (* handles of the active subscriptions (the `Subscribers` map) *)
}.

Definition init : st := mkSt [] [] false [] [] [].
Definition frames (s : st) : list frame := popped s ++ q s.

Definition enq (f : frame) (s : st) : st := mkSt (q s ++ [f]) (popped s) (closed s) (waiters s) (subs s) (table s).
Definition park (k : wkind) (s : st) : st := mkSt (q s) (popped s) (closed s) (waiters s ++ [k]) (subs s) (table s).
Definition with_waiters (w : list wkind) (s : st) : st := mkSt (q s) (popped s) (closed s) w (subs s) (table s).
Definition with_table (t : list nat) (s : st) : st := mkSt (q s) (popped s) (closed s) (waiters s) (subs s) t.
Fixpoint upd {A} (l : list A) (n : nat) (g : A -> A) : list A :=
  match l, n with
  | [], _ => []
  | a :: l', O => g a :: l'
  | a :: l', S n' => a :: upd l' n' g
  end.
Definition with_sub (h : nat) (g : sub -> sub) (s : st) : st :=
  mkSt (q s) (popped s) (closed s) (waiters s) (upd (subs s) h g) (table s).
Definition get (s : st) (h : nat) : option sub := nth_error (subs s) h.

Definition in_table (h : nat) (s : st) : bool := existsb (Nat.eqb h) (table s).
Definition rm (h : nat) (t : list nat) : list nat := filter (fun k => negb (Nat.eqb h k)) t.

Definition waits_for (h : nat) (k : wkind) : bool :=
  match k with KAcc h' _ _ _ | KRej h' _ _ | KSend h' _ => Nat.eqb h h' | KPlain _ => false end.
Definition leave (h : nat) (s : st) : st := with_waiters (filter (fun k => negb (waits_for h k)) (waiters s)) s.

(* ---------- what a step reports ---------- *)
Inductive res := RParked | ROk | RErr | RDone | RFull | RClosed | RBusy | RNa | RGone | RNosub.
Inductive out :=
| OAcc (h : nat) (r : res)
| ORej (h : nat) (r : res)
| OSend (h : nat) (x : N) (r : res)
| OTry (h : nat) (x : N) (r : res)
| OCancel (h : nat) (r : res)
| ORet (h : nat) (r : res)
| OCall (c : N) (subkind : bool) (f : frame)   (* the call future of call c completed with answer f (kind subscription?) *)
| OFrame (f : frame)                           (* the writer took f *)
| OEmpty | OWGone | OClosed.

Inductive op :=
| Subscribe (c : N)
| Acc (h : nat)
| Rej (h : nat) (code : N)
| Send (h : nat) (x : N)
| Try (h : nat) (x : N)
| Cancel (h : nat) (ret : option closing)      (* drop the parked future; Some cv: and return cv in the same poll *)
| Ret (h : nat) (cv : closing)
| Unsub (c : N) (h : nat)
| Call (c : N)
| W
| Close.

Section Conn.
Variables (cap : nat) (base : N).

Definition sid (h : nat) : N := (base + N.of_nat h)%N.
Definition room (s : st) : bool := Nat.ltb (length (q s)) cap.

Definition wframe (k : wkind) : frame :=
  match k with
  | KAcc h c _ _ => FSubOk c (sid h)
  | KRej _ c code => FRejected c code
  | KSend h x => FNotif (sid h) x
  | KPlain f => f
  end.

(* MethodSink::send at quiescence: fails on a closed channel, takes a place, or joins the line *)
Inductive sendres := SFail | SDone | SPark.
Definition post (k : wkind) (s : st) : st * sendres :=
  if closed s then (s, SFail)
  else if room s then (enq (wframe k) s, SDone)
  else (park k s, SPark).
(* a send whose outcome nobody looks at: the transport's `sink.send(json)`, the closing-value task *)
Definition forward (f : frame) (s : st) : st := fst (post (KPlain f) s).

Definition closing_frame (sd : N) (cv : closing) : option frame :=
  match cv with CNone => None | CNotif x => Some (FClosing sd false x) | CErr x => Some (FClosing sd true x) end.
(* the spawned task of register_subscription after try_join succeeded *)
Definition fire (h : nat) (cv : closing) (s : st) : st :=
  match closing_frame (sid h) cv with Some f => forward f s | None => s end.

(* the oneshot of the subscribe call carried the answer f: the call future completes with it (kind subscription, the
   transport writes nothing).  success -> accepted_tx.send(()): armed, and if the handler has already returned the
   closing value is written now.  Otherwise accepted_tx is dropped: try_join fails, the handler future is dropped. *)
Definition call_answered (h : nat) (success : bool) (f : frame) (s : st) : st * list out :=
  match get s h with
  | None => (s, [])
  | Some b =>
    let s1 := if success then let s0 := with_sub h set_armed s in
                              match s_ret b with Some cv => fire h cv s0 | None => s0 end
              else with_sub h (set_h HGone) s in
    (s1, [OCall (s_call b) true f])
  end.

(* the oneshot sender was dropped unanswered (the PendingSubscriptionSink is gone): InternalError, a method-call-kind
   answer, which the transport writes through the queue; accepted_tx dropped: the handler future is dropped *)
Definition call_dropped (h : nat) (s : st) : st * list out :=
  match get s h with
  | None => (s, [])
  | Some b =>
    (forward (FInternal (s_call b)) (with_sub h (set_h HGone) s), [OCall (s_call b) false (FInternal (s_call b))])
  end.

(* the handler future completes with cv: what it still holds is dropped *)
Definition do_return (h : nat) (cv : closing) (s : st) : st * list out :=
  match get s h with
  | None => (s, [])
  | Some b =>
    let s1 := with_sub h (set_ret cv) s in
    let s2 := match s_h b with HActive => with_table (rm h (table s1)) s1 | _ => s1 end in
    let s3 := if s_armed b then fire h cv s2 else s2 in
    match s_h b with HPending => call_dropped h s3 | _ => (s3, []) end
  end.

(* accept returns Err: the PendingSubscriptionSink died inside it (tx: with the oneshot still unused) *)
Definition accept_fail (h : nat) (tx : bool) (s : st) : st * list out :=
  let s1 := with_sub h (set_h HIdle) s in
  let r := if tx then call_dropped h s1 else (s1, []) in
  (fst r, OAcc h RErr :: snd r).

Fixpoint accept_run (l : list accept_step) (h : nat) (c : N) (tx : bool) (s : st) : st * list out :=
  match l with
  | [] => accept_fail h tx s
  | ASendToSink :: l' =>
    match post (KAcc h c tx l') s with
    | (s1, SDone) => accept_run l' h c tx s1
    | (s1, SPark) => (with_sub h (set_h (HAccParked tx)) s1, [OAcc h RParked])
    | (s1, SFail) => accept_fail h tx s1
    end
  | ANotifyCall :: l' =>
    if tx then
      let r1 := call_answered h true (FSubOk c (sid h)) s in
      let r2 := accept_run l' h c false (fst r1) in
      (fst r2, snd r1 ++ snd r2)
    else accept_fail h tx s             (* the oneshot can be used once *)
  | ATableInsert :: l' => accept_run l' h c tx (with_table (h :: rm h (table s)) s)
  | ABuildSink :: _ => (with_sub h (set_h HActive) s, [OAcc h ROk])
  end.

(* reject after its send: `_ = self.subscribe.send(err)` *)
Definition rej_finish (h : nat) (c : N) (code : N) (s : st) : st * list out :=
  let r := call_answered h false (FRejected c code) (with_sub h (set_h HIdle) s) in
  (fst r, ORej h RDone :: snd r).

(* a waiter got its place (ok = true) or the channel was closed under it (ok = false) *)
Definition resume (k : wkind) (ok : bool) (s : st) : st * list out :=
  match k with
  | KAcc h c tx rest => if ok then accept_run rest h c tx s else accept_fail h tx s
  | KRej h c code => rej_finish h c code s
  | KSend h x => (with_sub h (set_h HActive) s, [OSend h x (if ok then ROk else RClosed)])
  | KPlain _ => (s, [])
  end.

(* one place became free: the first of the line takes it *)
Definition wake (s : st) : st * list out :=
  match waiters s with
  | [] => (s, [])
  | k :: ws =>
    if negb (closed s) && room s then resume k true (enq (wframe k) (with_waiters ws s))
    else (s, [])
  end.

(* the channel was closed: every waiting send fails, in the order of the line *)
Fixpoint fail_all (ws : list wkind) (s : st) : st * list out :=
  match ws with
  | [] => (s, [])
  | k :: ws' =>
    let r1 := resume k false s in
    let r2 := fail_all ws' (fst r1) in
    (fst r2, snd r1 ++ snd r2)
  end.

Definition parked_state (x : hstate) : bool :=
  match x with HAccParked _ | HRejParked | HSendParked _ => true | _ => false end.

Definition step_with (steps : list accept_step) (s : st) (o : op) : st * list out :=
  match o with
  | Subscribe c =>
    (mkSt (q s) (popped s) (closed s) (waiters s) (subs s ++ [mkSub c HPending false None]) (table s), [])
  | Acc h =>
    match get s h with
    | None => (s, [OAcc h RNosub])
    | Some b =>
      match s_h b with
      | HPending => accept_run steps h (s_call b) true s
      | HGone => (s, [OAcc h RGone])
      | x => (s, [OAcc h (if parked_state x then RBusy else RNa)])
      end
    end
  | Rej h code =>
    match get s h with
    | None => (s, [ORej h RNosub])
    | Some b =>
      match s_h b with
      | HPending =>
        match post (KRej h (s_call b) code) s with
        | (s1, SPark) => (with_sub h (set_h HRejParked) s1, [ORej h RParked])
        | (s1, _) => rej_finish h (s_call b) code s1       (* `_ = self.inner.send(..)`: a failure is ignored *)
        end
      | HGone => (s, [ORej h RGone])
      | x => (s, [ORej h (if parked_state x then RBusy else RNa)])
      end
    end
  | Send h x =>
    match get s h with
    | None => (s, [OSend h x RNosub])
    | Some b =>
      match s_h b with
      | HActive =>
        if closed s || negb (in_table h s) then (s, [OSend h x RClosed])      (* is_closed() *)
        else match post (KSend h x) s with
             | (s1, SDone) => (s1, [OSend h x ROk])
             | (s1, SPark) => (with_sub h (set_h (HSendParked x)) s1, [OSend h x RParked])
             | (s1, SFail) => (s1, [OSend h x RClosed])
             end
      | HGone => (s, [OSend h x RGone])
      | y => (s, [OSend h x (if parked_state y then RBusy else RNa)])
      end
    end
  | Try h x =>
    match get s h with
    | None => (s, [OTry h x RNosub])
    | Some b =>
      match s_h b with
      | HActive =>
        if closed s || negb (in_table h s) then (s, [OTry h x RClosed])
        else if room s then (enq (FNotif (sid h) x) s, [OTry h x ROk])
        else (s, [OTry h x RFull])
      | HGone => (s, [OTry h x RGone])
      | y => (s, [OTry h x (if parked_state y then RBusy else RNa)])
      end
    end
  | Cancel h ret =>
    match get s h with
    | None => (s, [OCancel h RNosub])
    | Some b =>
      match s_h b with
      | HAccParked _ | HRejParked =>
        (* the future owned the PendingSubscriptionSink *)
        let s1 := with_sub h (set_h HIdle) (leave h s) in
        let r1 := match ret with Some cv => do_return h cv s1 | None => (s1, []) end in
        let r2 := match s_h b with HAccParked false => (fst r1, []) | _ => call_dropped h (fst r1) end in
        (fst r2, OCancel h RDone :: snd r1 ++ snd r2)
      | HSendParked _ =>
        let s1 := with_sub h (set_h HActive) (leave h s) in
        let r1 := match ret with Some cv => do_return h cv s1 | None => (s1, []) end in
        (fst r1, OCancel h RDone :: snd r1)
      | HGone => (s, [OCancel h RGone])
      | _ => (s, [OCancel h RNa])
      end
    end
  | Ret h cv =>
    match get s h with
    | None => (s, [ORet h RNosub])
    | Some b =>
      match s_h b with
      | HGone => (s, [ORet h RGone])
      | x =>
        if parked_state x then (s, [ORet h RBusy])
        else let r := do_return h cv s in (fst r, ORet h RDone :: snd r)
      end
    end
  | Unsub c h =>
    let f := FUnsub c (in_table h s) in
    (forward f (with_table (rm h (table s)) s), [OCall c false f])
  | Call c => (forward (FResp c) s, [OCall c false (FResp c)])
  | W =>
    if closed s then (s, [OWGone])
    else match q s with
         | [] => (s, [OEmpty])
         | f :: q' =>
           let r := wake (mkSt q' (popped s ++ [f]) (closed s) (waiters s) (subs s) (table s)) in
           (fst r, OFrame f :: snd r)
         end
  | Close =>
    let r := fail_all (waiters s) (mkSt (q s) (popped s) true [] (subs s) (table s)) in
    (fst r, OClosed :: snd r)
  end.

(* a history: final state and what each step reported *)
Fixpoint run_with (steps : list accept_step) (s : st) (ops : list op) : st * list (list out) :=
  match ops with
  | [] => (s, [])
  | o :: ops' =>
    let sr := step_with steps s o in
    let rest := run_with steps (fst sr) ops' in
    (fst rest, snd sr :: snd rest)
  end.

End Conn.

(* the code as it is: accept's steps in the order read from the source *)
Definition step (cap : nat) (base : N) : st -> op -> st * list out := step_with cap base accept_steps.
Definition run (cap : nat) (base : N) : st -> list op -> st * list (list out) := run_with cap base accept_steps.

(* ---------- observations on the reports alone ---------- *)
(* payloads of handler h's sends that reported ok (at once, or when the parked send completed), in that order *)
Definition ok_item (h : nat) (o : out) : option N :=
  match o with
  | OSend h' x ROk | OTry h' x ROk => if Nat.eqb h' h then Some x else None
  | _ => None
  end.
Definition oklog (h : nat) (outs : list (list out)) : list N := filter_map (ok_item h) (concat outs).
