(* The library's fixed error objects as SHAPES read from the source (Gen/ErrorConstsGen.v, regenerated on every check
   by tools/translators/error_consts.py from types/src/error.rs and core/src/server/method_response.rs).

     shape = (code, message, data prefix)
       (C, M, None)      ErrorObject::borrowed(C, M, None) / ErrorObject::from(ErrorCode::X) with X.code() = C, X.message() = M
       (C, M, Some p)    ErrorObject::owned(C, M, Some(format!("<p>{limit}")))  -- the reject_* helpers and the -32008
                         construction: `data` is the JSON string `"<p><limit in decimal>"` (serde_json::to_raw_value of
                         the formatted String)

   No protocol constant is written in coq/Model: a model builds its error objects with `shape_err <generated shape>`.
   Stdlib only, definitions only. *)
From JV Require Import Base.Bytes Base.Dec Json.JsonSer Model.Wire.

Definition shape := (Z * bytes * option bytes)%type.

Definition sh_code (s : shape) : Z := fst (fst s).
Definition sh_msg (s : shape) : bytes := snd (fst s).
Definition sh_prefix (s : shape) : option bytes := snd s.

(* to_raw_value(&format!("<prefix>{limit}")) *)
Definition limit_data (prefix : bytes) (limit : N) : bytes := ser_str (prefix ++ print_N limit).

Definition shape_err (s : shape) (limit : N) : errobj :=
  {| e_code := sh_code s;
     e_message := sh_msg s;
     e_data := match sh_prefix s with Some p => Some (limit_data p limit) | None => None end |}.

(* a shape without a limit (the argument is not used) *)
Definition fixed_err (s : shape) : errobj := shape_err s 0.
