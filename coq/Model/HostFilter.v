(* C14 -- host filter.  Executable model of
     server/src/middleware/http/authority.rs   (Authority::inner_from_str, Authority::from_http_request)
     server/src/middleware/http/host_filter.rs (WhitelistedHosts::from, ::recognize, HostFilter::call)
     core/src/http_helpers.rs                  (read_header_value)
   and of the slices of two third-party crates they rest on (modelled, NOT verified; tied to the compiled code
   by the `hostfilter` differential run only):
     http 1.5.0   Uri::from_shared / parse_full, Scheme2::parse, validate_authority_bytes, uri::authority::host,
                  scan_path_and_query (only as far as it decides whether a URI parses), HeaderValue::to_str
     route-recognizer 0.3.1   Router::add / recognize over its NFA.

   route-recognizer is modelled one level above its state vector: an NFA state is identified with the sequence of
   character classes on its path from the root (that is what `NFA::put` implements: a child with an equal class is
   reused), so a thread is represented by the routes through its state with the classes they still have to read.
   The order of `next_states` (self-loop first, then children in order of first insertion) and hence the order of
   the final threads is kept, because the library breaks ties of the (statics, dynamics, wildcards) ranking by
   that order.  Two host strings with the same class sequence (they differ only in parameter names after a
   leading `*` / `:`) share one end state: the later `Router::add` (BTreeMap order of the host strings) replaces
   the handler, as in the library.

   Left out:
   * the leading-'/' strip of Router::add / Router::recognize: hosts are slices of a URI authority, which ends
     before the first '/', '?' or '#' (HostFilterFacts.parse_authority_host_no_slash), so it is unreachable;
   * non-ASCII route/host characters (CharSet): an authority is ASCII-only (URI_CHARS), likewise unreachable;
   * NFA::process returns early when no thread is left; the model keeps folding over an empty thread list, which
     yields the same "no match";
   * response bodies/headers of the 403 / 400 answers (only the status and "did the inner service run");
   * poll_ready (forwarded unchanged). *)
From JV Require Import Base.Bytes Base.Dec Base.Utf8 Gen.PortsGen.
Local Open Scope N_scope.

(* ------------------------------------------------------------------ http::Uri *)

(* uri/mod.rs URI_CHARS: non-zero entries *)
Definition uri_char (b : byte) : bool :=
  let n := bN b in
  (n =? 33) || (n =? 35) || (n =? 36) || ((38 <=? n) && (n <=? 59)) || (n =? 61) || ((63 <=? n) && (n <=? 91))
  || (n =? 93) || (n =? 95) || ((97 <=? n) && (n <=? 122)) || (n =? 126).

(* uri/scheme.rs SCHEME_CHARS: non-zero entries other than ':' *)
Definition scheme_char (b : byte) : bool :=
  let n := bN b in
  (n =? 43) || (n =? 45) || (n =? 46) || ((48 <=? n) && (n <=? 57)) || ((65 <=? n) && (n <=? 90))
  || ((97 <=? n) && (n <=? 122)) || (n =? 126).

Definition max_uri_len : N := 65534.     (* MAX_LEN = u16::MAX - 1 *)
Definition max_scheme_len : N := 64.

Definition to_lower (b : byte) : byte :=
  let n := bN b in if (65 <=? n) && (n <=? 90) then Nb (n + 32) else b.

(* s[..len p].eq_ignore_ascii_case(p), p lower-case; returns the rest *)
Fixpoint starts_with_ic (p s : bytes) : option bytes :=
  match p, s with
  | [], _ => Some s
  | x :: p', y :: s' => if beqb x (to_lower y) then starts_with_ic p' s' else None
  | _ :: _, [] => None
  end.

Inductive scheme2 := ScNone | ScHttp | ScHttps | ScOther (n : nat).

(* the generic loop of Scheme2::parse; i = index of the byte at the head of s *)
Fixpoint scheme_loop (s : bytes) (i : nat) : option scheme2 :=
  match s with
  | [] => Some ScNone
  | b :: s' =>
    if beqb b x3a then
      match s' with
      | c1 :: c2 :: _ =>
        if beqb c1 x2f && beqb c2 x2f
        then (if max_scheme_len <? N.of_nat i then None (* SchemeTooLong *) else Some (ScOther i))
        else Some ScNone                      (* "not a scheme" *)
      | _ => Some ScNone                      (* "not enough data remaining" *)
      end
    else if scheme_char b then scheme_loop s' (S i)
    else Some ScNone
  end.

Definition scheme_parse (s : bytes) : option scheme2 :=
  match starts_with_ic b#"http://" s with
  | Some _ => Some ScHttp
  | None =>
    match starts_with_ic b#"https://" s with
    | Some _ => Some ScHttps
    | None => if 3 <? blen s then scheme_loop s 0 else Some ScNone
    end
  end.

(* validate_authority_bytes *)
Record vstate := { v_colon : N; v_sb : bool; v_eb : bool; v_pct : bool; v_at : option nat }.

Fixpoint vloop (s : bytes) (i : nat) (st : vstate) : option (nat * vstate) :=
  match s with
  | [] => Some (i, st)
  | b :: s' =>
    if beqb b x2f || beqb b x3f || beqb b x23 then Some (i, st)          (* '/', '?', '#': end of the authority *)
    else if negb (uri_char b) then
      if beqb b x25 then vloop s' (S i) {| v_colon := v_colon st; v_sb := v_sb st; v_eb := v_eb st; v_pct := true; v_at := v_at st |}
      else None                                                          (* InvalidUriChar *)
    else if beqb b x3a then
      if 8 <=? v_colon st then None                                      (* TooManyColons *)
      else vloop s' (S i) {| v_colon := v_colon st + 1; v_sb := v_sb st; v_eb := v_eb st; v_pct := v_pct st; v_at := v_at st |}
    else if beqb b x5b then
      if v_pct st || v_sb st then None                                   (* InvalidBracketUsage *)
      else vloop s' (S i) {| v_colon := v_colon st; v_sb := true; v_eb := v_eb st; v_pct := v_pct st; v_at := v_at st |}
    else if beqb b x5d then
      if negb (v_sb st) || v_eb st then None
      else vloop s' (S i) {| v_colon := 0; v_sb := v_sb st; v_eb := true; v_pct := false; v_at := v_at st |}
    else if beqb b x40 then
      vloop s' (S i) {| v_colon := 0; v_sb := v_sb st; v_eb := v_eb st; v_pct := false; v_at := Some i |}
    else vloop s' (S i) st
  end.

Definition nat_opt_eqb (a : option nat) (n : nat) : bool :=
  match a with Some m => Nat.eqb m n | None => false end.

(* Ok(end) | Err *)
Definition validate_authority (s : bytes) : option nat :=
  match s with
  | [] => None                                                           (* Empty *)
  | _ =>
    match vloop s 0 {| v_colon := 0; v_sb := false; v_eb := false; v_pct := false; v_at := None |} with
    | None => None
    | Some (e, st) =>
      if negb (Bool.eqb (v_sb st) (v_eb st)) then None                   (* MismatchedBrackets *)
      else if 1 <? v_colon st then None                                  (* InvalidAuthority *)
      else if negb (Nat.eqb e 0) && nat_opt_eqb (v_at st) (e - 1) then None  (* EmptyAfterAt *)
      else if v_pct st then None                                         (* InvalidPercent *)
      else Some e
    end
  end.

(* uri/path.rs: PATH_MAP / QUERY_MAP classes *)
Inductive pclass := PcValid | PcQuery | PcFragment | PcHigh | PcInvalid.

Definition path_class (b : byte) : pclass :=
  let n := bN b in
  if n =? 63 then PcQuery else if n =? 35 then PcFragment
  else if (n =? 33) || ((36 <=? n) && (n <=? 59)) || (n =? 61) || ((64 <=? n) && (n <=? 95))
          || ((97 <=? n) && (n <=? 122)) || (n =? 124) || (n =? 126) || (n =? 34) || (n =? 123) || (n =? 125)
  then PcValid
  else if 128 <=? n then PcHigh else PcInvalid.

Definition query_class (b : byte) : pclass :=
  let n := bN b in
  if n =? 35 then PcFragment
  else if (n =? 33) || ((36 <=? n) && (n <=? 59)) || (n =? 61) || ((63 <=? n) && (n <=? 126)) then PcValid
  else if 128 <=? n then PcHigh else PcInvalid.

(* the scanners return the part kept after truncation at the fragment *)
Fixpoint scan_query (s : bytes) : option bytes :=
  match s with
  | [] => Some []
  | b :: s' =>
    match query_class b with
    | PcValid | PcHigh | PcQuery => option_map (cons b) (scan_query s')
    | PcFragment => Some []
    | PcInvalid => None
    end
  end.

Fixpoint scan_path (s : bytes) : option bytes :=
  match s with
  | [] => Some []
  | b :: s' =>
    match path_class b with
    | PcValid | PcHigh => option_map (cons b) (scan_path s')
    | PcQuery => option_map (cons b) (scan_query s')
    | PcFragment => Some []
    | PcInvalid => None
    end
  end.

(* PathAndQuery::from_shared(p).is_ok() *)
Definition path_and_query_ok (p : bytes) : bool :=
  match p with
  | [] => false
  | b :: p' =>
    if max_uri_len <? blen p then false
    else if beqb b x2a && match p' with [] => true | _ => false end then true
    else if negb (beqb b x2f || beqb b x3f || beqb b x23) then false
    else match scan_path p with
         | Some kept => utf8_valid kept       (* from_utf8 runs only when a high byte was seen; ASCII is valid anyway *)
         | None => false
         end
  end.

Record uri := { u_scheme : option bytes   (* Uri::scheme_str *);
                u_auth : bytes            (* authority data; [] = Uri::authority() is None *) }.

Definition parse_full (s : bytes) : option uri :=
  match scheme_parse s with
  | None => None
  | Some sc =>
    let '(scheme, rest) :=
      match sc with
      | ScNone => (None, s)
      | ScHttp => (Some b#"http", skipn 7 s)
      | ScHttps => (Some b#"https", skipn 8 s)
      | ScOther n => (Some (firstn n s), skipn (n + 3) s)
      end in
    match validate_authority rest with
    | None => None
    | Some e =>
      match scheme with
      | None => if Nat.eqb e (length rest) then Some {| u_scheme := None; u_auth := rest |} else None
      | Some _ =>
        if Nat.eqb e 0 then None
        else
          let p := skipn e rest in
          if match p with [] => true | _ => path_and_query_ok p end
          then Some {| u_scheme := scheme; u_auth := firstn e rest |}
          else None
      end
    end
  end.

(* Uri::from_shared *)
Definition uri_parse (s : bytes) : option uri :=
  if max_uri_len <? blen s then None
  else
    match s with
    | [] => None
    | [b] =>
      if beqb b x2f || beqb b x2a then Some {| u_scheme := None; u_auth := [] |}
      else match validate_authority s with                       (* Authority::from_shared *)
           | Some e => if Nat.eqb e 1 then Some {| u_scheme := None; u_auth := s |} else None
           | None => None
           end
    | b :: _ =>
      if beqb b x2f then (if path_and_query_ok s then Some {| u_scheme := None; u_auth := [] |} else None)
      else parse_full s
    end.

(* uri::authority::host *)
Fixpoint last_at (s : bytes) : option bytes :=
  match s with
  | [] => None
  | c :: s' =>
    match last_at s' with
    | Some r => Some r
    | None => if beqb c x40 then Some s' else None
    end
  end.

Fixpoint through_bracket (s : bytes) : bytes :=     (* &s[0..=find(']')] *)
  match s with
  | [] => []
  | c :: s' => if beqb c x5d then [c] else c :: through_bracket s'
  end.

Definition host_of (auth : bytes) : bytes :=
  let host_port := match last_at auth with Some r => r | None => auth end in
  match host_port with
  | c :: _ => if beqb c x5b then through_bracket host_port
              else take_while (fun b => negb (beqb b x3a)) host_port
  | [] => []                                        (* unreachable: validation rejects "nothing after @" *)
  end.

(* ------------------------------------------------------------------ authority.rs *)

Inductive port := PDefault | PAny | PFixed (n : N).
Record authority := { a_host : bytes; a_port : port }.

Definition port_eqb (a b : port) : bool :=
  match a, b with
  | PDefault, PDefault => true
  | PAny, PAny => true
  | PFixed x, PFixed y => N.eqb x y
  | _, _ => false
  end.
Definition authority_eqb (a b : authority) : bool :=
  bytes_eqb (a_host a) (a_host b) && port_eqb (a_port a) (a_port b).

(* str::split_once(':'): the part after the first ':' *)
Fixpoint after_colon (s : bytes) : option bytes :=
  match s with
  | [] => None
  | c :: s' => if beqb c x3a then Some s' else after_colon s'
  end.

(* <u16 as FromStr>::from_str *)
Definition parse_u16 (s : bytes) : option N :=
  let digits := match s with
                | [] => None
                | [c] => if beqb c x2b || beqb c x2d then None else Some s
                | c :: r => if beqb c x2b then Some r else Some s
                end in
  match digits with
  | None => None
  | Some ds =>
    if forallb is_digit ds then
      let n := digits_val ds in if n <=? 65535 then Some n else None
    else None
  end.

(* Authority::inner_from_str *)
Definition parse_authority (value : bytes) : option authority :=
  match uri_parse value with
  | None => None                                               (* InvalidUri *)
  | Some u =>
    match u_auth u with
    | [] => None                                               (* MissingHost *)
    | auth =>
      let host := host_of auth in
      let maybe_port := skipn (length host) auth in
      match after_colon maybe_port with
      | None => Some {| a_host := host; a_port := PDefault |}
      | Some p =>
        if bytes_eqb p [x2a] then Some {| a_host := host; a_port := PAny |}
        else
          match parse_u16 p with
          | None => None                                       (* InvalidPort *)
          | Some n =>
            match default_port (u_scheme u) with
            | Some d => if N.eqb d n then Some {| a_host := host; a_port := PDefault |}
                        else Some {| a_host := host; a_port := PFixed n |}
            | None => Some {| a_host := host; a_port := PFixed n |}
            end
          end
      end
    end
  end.

(* a request as far as the filter looks at it *)
Record request := { q_hosts : list bytes   (* values of the Host header lines, as HeaderValues *);
                    q_uri_auth : bytes     (* authority of the request-target; [] when it has none *) }.

(* HeaderValue::to_str *)
Definition visible_ascii (b : byte) : bool := let n := bN b in ((32 <=? n) && (n <? 127)) || (n =? 9).
(* HeaderValue::from_bytes accepts *)
Definition header_byte_ok (b : byte) : bool := let n := bN b in ((32 <=? n) && negb (n =? 127)) || (n =? 9).

(* http_helpers::read_header_value: exactly one value, and it is visible ASCII *)
Definition read_header_value (vals : list bytes) : option bytes :=
  match vals with
  | [v] => if forallb visible_ascii v then Some v else None
  | _ => None
  end.

(* the two sources: None = absent, Some None = present but does not parse *)
Definition host_source (q : request) : option (option authority) :=
  option_map parse_authority (read_header_value (q_hosts q)).
Definition uri_source (q : request) : option (option authority) :=
  match q_uri_auth q with [] => None | a => Some (parse_authority a) end.

(* Authority::from_http_request *)
Definition authority_of (q : request) : option authority :=
  match host_source q, uri_source q with
  | Some (Some a1), Some (Some a2) => if authority_eqb a1 a2 then Some a1 else None
  | Some (Some a), _ => Some a
  | _, Some (Some a) => Some a
  | _, _ => None
  end.

(* ------------------------------------------------------------------ route-recognizer *)

Definition is_sep (c : byte) : bool := beqb c x2e || beqb c x2f.        (* '.' or '/' *)

(* lib.rs segments(): (separator, segment) pairs; a segment is a maximal separator-free run (possibly empty) *)
Fixpoint segments (s : bytes) : list (option byte * bytes) :=
  match s with
  | [] => []
  | c :: s' =>
    if is_sep c then
      match segments s' with
      | (None, seg) :: r => (Some c, seg) :: r
      | r => (Some c, []) :: r
      end
    else
      match segments s' with
      | (None, seg) :: r => (None, c :: seg) :: r
      | r => (None, [c]) :: r
      end
  end.

(* nfa.rs CharacterClass as used by Router::add: valid_char(c), any(), invalid_char('/') *)
Inductive cls := CLit (c : byte) | CAny | CNotSlash.

Definition cls_matches (k : cls) (c : byte) : bool :=
  match k with
  | CLit d => beqb c d
  | CAny => true
  | CNotSlash => negb (beqb c x2f)
  end.
Definition is_loop (k : cls) : bool := match k with CLit _ => false | _ => true end.   (* put_state(state, state) *)
Definition cls_eqb (a b : cls) : bool :=
  match a, b with
  | CLit x, CLit y => beqb x y
  | CAny, CAny => true
  | CNotSlash, CNotSlash => true
  | _, _ => false
  end.

Inductive segkind := SegStatic | SegDynamic | SegWildcard.
Definition seg_kind (seg : bytes) : segkind :=
  match seg with
  | c :: _ => if beqb c x3a then SegDynamic else if beqb c x2a then SegWildcard else SegStatic
  | [] => SegStatic
  end.

Definition seg_cls (seg : bytes) : list cls :=
  match seg_kind seg with
  | SegDynamic => [CNotSlash]            (* process_dynamic_segment *)
  | SegWildcard => [CAny]                (* process_star_state *)
  | SegStatic => map CLit seg            (* process_static_segment *)
  end.

(* the class sequence Router::add walks/creates for a route = the identity of its end state *)
Definition compile (route : bytes) : list cls :=
  flat_map (fun p => match fst p with Some c => [CLit c] | None => [] end ++ seg_cls (snd p)) (segments route).

(* Metadata: (statics, dynamics, wildcards) *)
Definition meta := (N * N * N)%type.
Definition route_meta (route : bytes) : meta :=
  fold_left (fun m p => let '(s, d, w) := m in
                        match seg_kind (snd p) with
                        | SegStatic => (s + 1, d, w) | SegDynamic => (s, d + 1, w) | SegWildcard => (s, d, w + 1)
                        end) (segments route) (0, 0, 0).
(* Ord for Metadata: lexicographic *)
Definition meta_ltb (a b : meta) : bool :=
  let '(s1, d1, w1) := a in let '(s2, d2, w2) := b in
  if s1 <? s2 then true else if s2 <? s1 then false
  else if d1 <? d2 then true else if d2 <? d1 then false
  else w1 <? w2.

Record route := { r_host : bytes; r_cls : list cls; r_meta : meta; r_ports : list port }.
Definition router := list route.            (* in order of Router::add *)

(* a thread = an NFA state, given by the class it was entered with and the routes through it *)
Record thread := { t_cur : option cls; t_items : list (route * list cls) }.

Fixpoint cls_mem (k : cls) (l : list cls) : bool :=
  match l with [] => false | x :: l' => cls_eqb k x || cls_mem k l' end.

(* next_states other than the self-loop: distinct next classes in order of first insertion *)
Fixpoint heads (items : list (route * list cls)) (seen : list cls) : list cls :=
  match items with
  | [] => []
  | (_, k :: _) :: items' => if cls_mem k seen then heads items' seen else k :: heads items' (k :: seen)
  | (_, []) :: items' => heads items' seen
  end.

Fixpoint advance (k : cls) (items : list (route * list cls)) : list (route * list cls) :=
  match items with
  | [] => []
  | (r, k' :: rest) :: items' => if cls_eqb k' k then (r, rest) :: advance k items' else advance k items'
  | (_, []) :: items' => advance k items'
  end.

(* NFA::process_char for one thread *)
Definition step_thread (c : byte) (t : thread) : list thread :=
  match t_cur t with
  | Some k => if is_loop k && cls_matches k c then [t] else []
  | None => []
  end ++
  map (fun k => {| t_cur := Some k; t_items := advance k (t_items t) |})
      (filter (fun k => cls_matches k c) (heads (t_items t) [])).

Definition step (c : byte) (ts : list thread) : list thread := flat_map (step_thread c) ts.

Definition root_thread (rt : router) : thread :=
  {| t_cur := None; t_items := map (fun r => (r, r_cls r)) rt |}.

Definition run_threads (rt : router) (path : bytes) : list thread :=
  fold_left (fun ts c => step c ts) path [root_thread rt].

(* acceptance + handler of a thread's state: the LAST added route that ends here (handlers.insert overwrites) *)
Fixpoint ends_here (items : list (route * list cls)) : option route :=
  match items with
  | [] => None
  | (r, rest) :: items' =>
    match ends_here items' with
    | Some r' => Some r'
    | None => match rest with [] => Some r | _ => None end
    end
  end.

Definition candidates (ts : list thread) : list route :=
  flat_map (fun t => match ends_here (t_items t) with Some r => [r] | None => [] end) ts.

(* the fold of NFA::process: greatest Metadata, the earlier thread on ties *)
Definition lib_select (l : list route) : option route :=
  fold_left (fun best y => match best with
                           | None => Some y
                           | Some x => if meta_ltb (r_meta x) (r_meta y) then Some y else Some x
                           end) l None.

(* Router::recognize with the choice among accepting threads abstracted *)
Definition recognize_with (sel : list route -> option route) (rt : router) (path : bytes) : option route :=
  sel (candidates (run_threads rt path)).

(* ------------------------------------------------------------------ host_filter.rs *)

Fixpoint bytes_cmp (a b : bytes) : comparison :=            (* Ord for String: bytewise lexicographic *)
  match a, b with
  | [], [] => Eq
  | [], _ :: _ => Lt
  | _ :: _, [] => Gt
  | x :: a', y :: b' => match N.compare (bN x) (bN y) with Eq => bytes_cmp a' b' | o => o end
  end.

(* BTreeMap<String, Vec<Port>> as a sorted association list; entry().and_modify(push).or_insert(vec![port]) *)
Fixpoint group_insert (h : bytes) (p : port) (m : list (bytes * list port)) : list (bytes * list port) :=
  match m with
  | [] => [(h, [p])]
  | (k, ps) :: m' =>
    match bytes_cmp h k with
    | Eq => (k, ps ++ [p]) :: m'
    | Lt => (h, [p]) :: m
    | Gt => (k, ps) :: group_insert h p m'
    end
  end.

Definition group (al : list authority) : list (bytes * list port) :=
  fold_left (fun m a => group_insert (a_host a) (a_port a) m) al [].

(* WhitelistedHosts::from *)
Definition mk_route (hp : bytes * list port) : route :=
  {| r_host := fst hp; r_cls := compile (fst hp); r_meta := route_meta (fst hp); r_ports := snd hp |}.
Definition mk_router (al : list authority) : router := map mk_route (group al).

Definition port_allows (entry req : port) : bool :=
  match entry, req with
  | PAny, _ => true
  | PDefault, PDefault => true
  | PFixed p1, PFixed p2 => N.eqb p1 p2
  | _, _ => false
  end.

(* WhitelistedHosts::recognize *)
Definition wl_recognize_with sel (rt : router) (a : authority) : bool :=
  match recognize_with sel rt (a_host a) with
  | Some r => existsb (fun p => port_allows p (a_port a)) (r_ports r)
  | None => false
  end.

Inductive decision := Forward | Reject403 | Reject400.

(* HostFilter::call up to the point where it either calls the inner service or answers itself;
   filter = None is HostFilterLayer::disable() *)
Definition decide_with sel (filter : option (list authority)) (q : request) : decision :=
  match authority_of q with
  | None => Reject400
  | Some a =>
    match filter with
    | None => Forward
    | Some al => if wl_recognize_with sel (mk_router al) a then Forward else Reject403
    end
  end.

Definition decide := decide_with lib_select.

(* the service: `inner` is the wrapped RPC service (user-supplied), the second component is the log of requests
   it was called with *)
Section Service.
  Variable inner : request -> N.             (* status it answers with *)
  Definition call_with sel (filter : option (list authority)) (q : request) : N * list request :=
    match decide_with sel filter q with
    | Forward => (inner q, [q])
    | Reject403 => (403, [])
    | Reject400 => (400, [])
    end.
End Service.

(* ------------------------------------------------------------------ the correspondence protocol *)

Fixpoint parse_all (l : list bytes) : option (list authority) :=
  match l with
  | [] => Some []
  | e :: l' =>
    match parse_authority e, parse_all l' with
    | Some a, Some r => Some (a :: r)
    | _, _ => None
    end
  end.

Inductive outcome := ONoStr | ONoHdr | ONoUri | OBadList | OOut (status : N) (ran : bool) (a : option authority).

(* filter: None = disabled, Some entries (strings); hosts: Host header lines; target: request-target bytes *)
Definition run_req (filter : option (list bytes)) (hosts : list bytes) (target : option bytes) : outcome :=
  if negb (match filter with Some es => forallb utf8_valid es | None => true end) then ONoStr
  else if negb (forallb (forallb header_byte_ok) hosts) then ONoHdr
  else
    match (match target with Some t => uri_parse t | None => Some {| u_scheme := None; u_auth := [] |} end) with
    | None => ONoUri
    | Some u =>
      match (match filter with Some es => option_map Some (parse_all es) | None => Some None end) with
      | None => OBadList
      | Some f =>
        let q := {| q_hosts := hosts; q_uri_auth := u_auth u |} in
        let '(st, log) := call_with (fun _ => 200) lib_select f q in
        OOut st (match log with [] => false | _ => true end) (authority_of q)
      end
    end.

Definition run_auth (s : bytes) : option (option authority) :=
  if utf8_valid s then Some (parse_authority s) else None.
