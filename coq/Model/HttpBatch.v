(* The HTTP client's batch call (client/http-client/src/client.rs `batch_request`, rpc_service.rs `batch`) as it is
   NOW in /repo (result sized by the request's id range; counts derived from the returned entries):

     ids lo .. lo+n are taken from the id manager, the requests are sent in one POST, the body of the answer is read
     as `Vec<Response<Box<RawValue>>>`, a vector of n placeholder errors (code 0, message "") is created, and the
     replies are visited in the order of the server's array: the id is normalised with `try_parse_inner_as_number`
     (failure: the whole call fails, InvalidRequestId::Invalid), the slot is `id - lo` (checked_sub, usize, get_mut;
     no slot: the whole call fails, InvalidRequestId::NotPendingRequest), and the slot is overwritten.

   An entry is modelled as a `response` (payload + the id it came with; the placeholder carries id null); the real
   entry `Result<R, ErrorObject>` is its payload.  Left out: the request guard, the timeout, transport errors, and
   decoding of the result into the caller's type R (the harness uses R = Box<RawValue>, which cannot fail).
   The body goes through `http_helpers::read_body` first (Model/HttpGate.v: leading ASCII whitespace is skipped and
   the first other byte must be '{' or '[' within the sniff window, else HttpError::Malformed = a transport error);
   the response body is taken as one data frame. *)
From JV Require Import Base.Bytes Base.Dec Base.Utf8 Json.Json Json.JsonSer Json.JsonParse Model.Wire Model.ClientMgr.
From JV Require Model.HttpGate.
Local Open Scope N_scope.

Inductive herr :=
| HTransport        (* read_body refuses the body (empty, or not starting with '{' / '['): Error::Transport *)
| HParse            (* the body is not an array of responses: Error::ParseError *)
| HBadId            (* InvalidRequestId::Invalid: null / non-numeric string id *)
| HNotPending.      (* InvalidRequestId::NotPendingRequest: id outside lo .. lo+n *)

Inductive hres := HOk (entries : list response) | HErr (e : herr).

(* the fill loop; acc has n entries *)
Fixpoint http_fill (lo n : N) (rs : list response) (acc : list response) : hres :=
  match rs with
  | [] => HOk acc
  | r :: rs' =>
    match id_as_number (rs_id r) with
    | None => HErr HBadId
    | Some k =>
      if (lo <=? k) && (k - lo <? n)
      then http_fill lo n rs' (set_nth (N.to_nat (k - lo)) r acc)
      else HErr HNotPending
    end
  end.

Definition http_batch_r (lo n : N) (rs : list response) : hres :=
  http_fill lo n rs (repeat placeholder (N.to_nat n)).

(* None = the whole call fails *)
Definition http_batch (lo n : N) (rs : list response) : option (list response) :=
  match http_batch_r lo n rs with HOk l => Some l | HErr _ => None end.

(* the counts reported next to the entries (both clients: BatchResponse::new(success, entries, failed)) *)
Definition is_success (r : response) : bool := match rs_payload r with PResult _ => true | PError _ => false end.
Definition count_ok (l : list response) : nat := length (filter is_success l).
Definition count_err (l : list response) : nat := length l - count_ok l.

(* from the bytes of the HTTP body *)
Fixpoint parse_all (ts : list bytes) : option (list response) :=
  match ts with
  | [] => Some []
  | t :: ts' =>
    match parse_response t, parse_all ts' with
    | Some r, Some rs => Some (r :: rs)
    | _, _ => None
    end
  end.

(* HttpClientBuilder default max_response_size: TEN_MB_SIZE_BYTES *)
Definition http_max_response : N := 10485760.

Definition http_parse (lo n : N) (text : bytes) : hres :=
  match raw_array text with
  | Some ts => match parse_all ts with Some rs => http_batch_r lo n rs | None => HErr HParse end
  | None => HErr HParse
  end.

Definition http_reply (lo n : N) (body : bytes) : hres :=
  match HttpGate.read_body [] [HttpGate.FData body] http_max_response with
  | HttpGate.RbOk text _ => http_parse lo n text
  | _ => HErr HTransport
  end.

(* the ids the client puts on the wire *)
Definition http_mk_id (idstr : bool) (k : N) : id := if idstr then IdStr (print_N k) else IdNum k.

(* ---------- the single call (client.rs `request`, rpc_service.rs `call`) ----------
   The body goes through read_body, is parsed as ONE Response; an error object is returned as the call's error
   (ResponseSuccess::try_from, BEFORE the id is looked at); otherwise the result is decoded and only then the id of the
   reply is compared (derived PartialEq on Id: number vs string are different) with the id of the request. *)
Inductive sres := SOk (raw : bytes) | SCall (e : errobj) | SErr (e : herr).

Definition http_single_resp (i : id) (r : response) : sres :=
  match rs_payload r with
  | PError e => SCall e
  | PResult raw => if id_eqb (rs_id r) i then SOk raw else SErr HNotPending
  end.

Definition http_single (i : id) (body : bytes) : sres :=
  match HttpGate.read_body [] [HttpGate.FData body] http_max_response with
  | HttpGate.RbOk text _ =>
    match parse_response text with
    | Some r => http_single_resp i r
    | None => SErr HParse
    end
  | _ => SErr HTransport
  end.
