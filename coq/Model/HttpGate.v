(* C19 -- the HTTP branch of the server: method / content-type gate and `read_body`.

   Transcribed from
     server/src/transport/http.rs   is_json, content_type_is_json, call_with_service
     core/src/http_helpers.rs       read_body, read_header_content_length, read_header_value
     http-body-util 0.1.5           Limited::poll_frame (the running length limit)
   Tables (accepted content-type spellings, the gate method, the status of every response helper, the sniff
   window and the two accepted first bytes) come from Gen/HttpGateGen.v and Gen/SniffGen.v, regenerated from
   the sources on every run.

   `read_body` is the REPAIRED function (fixes/C19.patch: the "still sniffing" state and the window are carried
   across frames).  `read_body_old` is the function as it stood before the repair (first-chunk test
   `received_data.is_empty()`); it is kept for the refutation witness and so that the correspondence run can
   tell "the tree is not repaired" from any other disagreement.

   Modelled: header values as byte strings (`HeaderValue::to_str` = visible ASCII or TAB), the first
   Content-Type value, Content-Length = exactly one value that parses as u32 (Rust `str::parse::<u32>`: optional
   `+`, decimal digits, no overflow), the pre-check against the limit, the frame loop over data / non-data
   frames with Limited's running remainder, the final `is_single` test, the mapping of every outcome to its
   response helper's status.
   Left out: the RPC layer itself (a Section variable: any function of the body bytes and the single/batch
   flag), response headers and the fixed error texts, errors produced by the request body stream itself (our
   frames never fail), the pre-allocation, tracing, the WebSocket-upgrade / http-disabled branches of the tower
   service that come before this gate, request extensions. *)
From JV Require Import Base.Bytes Base.Dec Gen.HttpGateGen Gen.SniffGen.

(* ------------------------------------------------------------------ header values *)

(* http::HeaderValue::to_str succeeds iff every byte is visible ASCII (32..=126) or TAB *)
Definition is_visible_ascii (b : byte) : bool := in_range 32 126 b || Byte.eqb b x09.
Definition to_str_ok (v : bytes) : bool := forallb is_visible_ascii v.

(* u8::to_ascii_lowercase / str::eq_ignore_ascii_case *)
Definition ascii_lower (b : byte) : byte := if in_range 65 90 b then Nb (bN b + 32) else b.
Definition eq_ignore_ascii_case (a b : bytes) : bool := bytes_eqb (map ascii_lower a) (map ascii_lower b).

(* is_json(content_type: Option<&HeaderValue>) *)
Definition is_json (ct : option bytes) : bool :=
  match ct with
  | Some v => to_str_ok v && existsb (eq_ignore_ascii_case v) accepted_content_types
  | None => false
  end.

(* content_type_is_json: request.headers().get(CONTENT_TYPE) is the first value of the header *)
Definition content_type_is_json (cts : list bytes) : bool := is_json (hd_error cts).

(* read_header_value: Some only when there is exactly one value and it is a str *)
Definition read_header_value (vals : list bytes) : option bytes :=
  match vals with
  | [v] => if to_str_ok v then Some v else None
  | _ => None
  end.

Definition u32_max : N := 4294967295%N.

(* str::parse::<u32> *)
Definition parse_u32 (s : bytes) : option N :=
  let ds := match s with c :: r => if Byte.eqb c x2b then r else s | [] => s end in   (* one leading `+` *)
  match ds with
  | [] => None
  | _ => if forallb is_digit ds
         then (let n := digits_val ds in if (n <=? u32_max)%N then Some n else None)
         else None
  end.

Definition read_header_content_length (cls : list bytes) : option N :=
  match read_header_value cls with
  | Some v => parse_u32 v
  | None => None
  end.

(* ------------------------------------------------------------------ read_body *)

Inductive frame := FData (d : bytes) | FTrailers.

(* the bytes of a body, however it is framed *)
Fixpoint payload (fs : list frame) : bytes :=
  match fs with
  | [] => []
  | FData d :: fs' => d ++ payload fs'
  | FTrailers :: fs' => payload fs'
  end.

Inductive rb_result :=
| RbOk (body : bytes) (single : bool)
| RbTooLarge
| RbMalformed
| RbStream.          (* HttpError::Stream(LengthLimitError) from Limited *)

Record rb := { received : bytes; is_single : option bool; sniffed : nat }.

Definition rb_init : rb := {| received := []; is_single := None; sniffed := 0 |}.

(* data.chunk().iter().enumerate().take(w).find(|(_, byte)| !byte.is_ascii_whitespace()) *)
Fixpoint find_nonws (w : nat) (d : bytes) (idx : nat) : option (nat * byte) :=
  match w, d with
  | S w', c :: d' => if http_sniff_ws c then find_nonws w' d' (S idx) else Some (idx, c)
  | _, _ => None
  end.

Inductive step := Continue (s : rb) | Return (r : rb_result).

(* one data frame, repaired loop body *)
Definition on_data (s : rb) (d : bytes) : step :=
  match is_single s with
  | None =>
    match find_nonws (http_sniff_window - sniffed s) d 0 with
    | Some (idx, c) =>
      if Byte.eqb c http_single_byte
      then Continue {| received := received s ++ skipn idx d; is_single := Some true; sniffed := sniffed s |}
      else if Byte.eqb c http_batch_byte
      then Continue {| received := received s ++ skipn idx d; is_single := Some false; sniffed := sniffed s |}
      else Return RbMalformed
    | None =>
      if (sniffed s + length d <? http_sniff_window)%nat
      then Continue {| received := received s; is_single := None; sniffed := (sniffed s + length d)%nat |}
      else Return RbMalformed
    end
  | Some _ => Continue {| received := received s ++ d; is_single := is_single s; sniffed := sniffed s |}
  end.

(* one data frame, loop body before the repair: "first chunk" = nothing received yet *)
Definition on_data_old (s : rb) (d : bytes) : step :=
  match received s with
  | [] =>
    match find_nonws http_sniff_window d 0 with
    | Some (idx, c) =>
      if Byte.eqb c http_single_byte
      then Continue {| received := received s ++ skipn idx d; is_single := Some true; sniffed := sniffed s |}
      else if Byte.eqb c http_batch_byte
      then Continue {| received := received s ++ skipn idx d; is_single := Some false; sniffed := sniffed s |}
      else Return RbMalformed
    | None => Return RbMalformed
    end
  | _ :: _ => Continue {| received := received s ++ d; is_single := is_single s; sniffed := sniffed s |}
  end.

(* after the loop *)
Definition rb_finish (s : rb) : rb_result :=
  match is_single s with
  | Some single => match received s with [] => RbMalformed | _ :: _ => RbOk (received s) single end
  | None => RbMalformed
  end.

(* `while let Some(frame) = limited_body.frame().await`; `remaining` is Limited's counter *)
Fixpoint read_frames (body_step : rb -> bytes -> step) (s : rb) (remaining : N) (fs : list frame) : rb_result :=
  match fs with
  | [] => rb_finish s
  | FTrailers :: fs' => read_frames body_step s remaining fs'        (* data_ref() is None: continue *)
  | FData d :: fs' =>
    if (remaining <? blen d)%N then RbStream                         (* Limited: LengthLimitError *)
    else match body_step s d with
         | Continue s' => read_frames body_step s' (remaining - blen d)%N fs'
         | Return r => r
         end
  end.

Definition read_body_with (body_step : rb -> bytes -> step) (cls : list bytes) (fs : list frame) (max : N) : rb_result :=
  let body_size := match read_header_content_length cls with Some n => n | None => 0%N end in
  if (max <? body_size)%N then RbTooLarge
  else read_frames body_step rb_init max fs.

Definition read_body := read_body_with on_data.
Definition read_body_old := read_body_with on_data_old.

(* ------------------------------------------------------------------ call_with_service *)

Inductive gate_class := GRpc | GBadContentType | GBadMethod.

(* match *request.method() { POST if content_type_is_json => .., POST => 415, _ => 405 } *)
Definition gate (method : bytes) (cts : list bytes) : gate_class :=
  if bytes_eqb method gate_method
  then (if content_type_is_json cts then GRpc else GBadContentType)
  else GBadMethod.

Section Service.
  (* the RPC layer: the answer (response body, and whatever handlers did) as a function of the body bytes
     handed over by read_body and of the single/batch flag *)
  Variable A : Type.
  Variable rpc : bytes -> bool -> A.

  Inductive outcome :=
  | Answered (status : N) (a : A)      (* the RPC layer ran on (body, single) *)
  | Refused (status : N).              (* fixed response; the RPC layer is not entered *)

  Definition after_read_body (r : rb_result) : outcome :=
    match r with
    | RbOk body single => Answered status_answered (rpc body single)
    | RbTooLarge => Refused status_too_large
    | RbMalformed => Refused status_malformed
    | RbStream => Refused status_stream_error
    end.

  Definition call_with_service_with (rbf : list bytes -> list frame -> N -> rb_result)
             (method : bytes) (cts cls : list bytes) (fs : list frame) (max : N) : outcome :=
    match gate method cts with
    | GRpc => after_read_body (rbf cls fs max)
    | GBadContentType => Refused status_unsupported_content_type
    | GBadMethod => Refused status_method_not_allowed
    end.

  Definition call_with_service := call_with_service_with read_body.
  Definition call_with_service_old := call_with_service_with read_body_old.
End Service.

Arguments Answered {A} _ _.
Arguments Refused {A} _.

(* what the correspondence driver prints: status and whether the RPC layer was entered *)
Definition outcome_status {A} (o : outcome A) : N :=
  match o with Answered st _ => st | Refused st => st end.
