(* The client's request-id allocator (core/src/client/mod.rs: `RequestIdManager`, `CurrentId`), seen at the level of
   THREADS.  The allocator is one shared counter (`CurrentId(AtomicUsize)`), used through `&self` by every front-end call
   of the async/WebSocket client and of the HTTP client, which may run on different threads.

   HOW each id-taking path touches the counter is not written here: tools/translators/id_alloc.py reads
   `RequestIdManager::{next_request_id, next_batch_id_range}`, the `CurrentId` methods they call and
   `generate_batch_id_range` on every check and emits `Gen/IdAllocGen.id_alloc_gen`:

     RAtomicRmw            the path performs ONE atomic read-modify-write on the counter (fetch_add / fetch_update /
                           a compare_exchange loop) and the ids handed out are computed from the value that RMW returned:
                           the reservation is ONE step of the transition system below
     RLoadThenStore adv    the path first LOADS the counter, computes (and validates) its range from the loaded value and
                           only then advances the counter (adv = AdvFetchAdd: `fetch_add(len)`; AdvStore: `store(v+len)`):
                           TWO steps, and the steps of other threads may come in between
   plus the overflow rules (how the counter advance and the range end `lo + len` overflow) and the memory ordering
   (information: an RMW on one atomic object is atomic whatever its ordering; nothing else is published through the counter).

   The transition system: a state is the shared counter + per-thread "loaded, not yet stored" registers + what has been
   handed out so far; a SCHEDULE is a list of (thread, step): `SReserve r` = the thread starts reservation r (and, on an
   RAtomicRmw path, completes it in the same step), `SFinish` = the thread performs the second step of its pending
   two-step reservation.  A thread is sequential: `SReserve` on a thread that is between its two steps, and `SFinish` on a
   thread with nothing pending, do nothing (stutter), so every list is a schedule.  Single-thread use = all entries carry
   the same thread.

   Left out: what happens to the ids afterwards (Model/ClientMgr.v); the `IdKind` (number / string) of the id, which is a
   pure function of the number; usize narrower than 64 bits (`usize::try_from(n).unwrap_or(usize::MAX)` is the identity on
   the 64-bit targets the harness runs on; counter_bits is read from the type of the field). *)
From Coq Require Import List NArith Bool.
Import ListNotations.
Local Open Scope N_scope.

(* ---------- the alphabet emitted by the translator ---------- *)
Inductive advance := AdvFetchAdd | AdvStore.
Inductive rmw_class := RAtomicRmw | RLoadThenStore (adv : advance).
Inductive ovf_rule :=
| OvWrap          (* wraps silently: AtomicUsize::fetch_add, wrapping_add *)
| OvChecked.      (* checked_add: the reservation fails with an error *)
Inductive mem_order := ORelaxed | OAcquire | ORelease | OAcqRel | OSeqCst.

Record id_alloc := mkIdAlloc {
  single_path : rmw_class;       (* RequestIdManager::next_request_id *)
  batch_path : rmw_class;        (* RequestIdManager::next_batch_id_range *)
  counter_bits : N;              (* width of the atomic counter *)
  counter_ovf : ovf_rule;        (* the counter advance *)
  range_end_ovf : ovf_rule;      (* `lo + len` of a batch range (generate_batch_id_range) *)
  rmw_order : mem_order }.

(* how many ids each front-end call of the async client takes, in order (also read from the source) *)
Inductive take := TSingle | TBatchLen.
Record front_takes := mkFront {
  fe_request : list take;
  fe_notification : list take;
  fe_batch : list take;
  fe_subscribe : list take }.

(* ---------- reservations, steps, schedules ---------- *)
Inductive req := QSingle | QBatch (n : N).
Definition req_len (r : req) : N := match r with QSingle => 1 | QBatch n => n end.
Definition reqs_of_takes (n : N) (ts : list take) : list req :=
  map (fun t => match t with TSingle => QSingle | TBatchLen => QBatch n end) ts.

Inductive alloc_step := SReserve (r : req) | SFinish.
Definition thread := nat.
Definition sched := list (thread * alloc_step).

Record ast := mkAst {
  counter : N;                               (* the shared atomic *)
  pend : list (thread * (N * req));          (* thread -> (value it loaded, what it is reserving): between the two steps *)
  handed : list (thread * (N * N));          (* ranges [lo, hi) returned to callers, in the order they were returned *)
  failed : list (thread * req) }.            (* reservations that returned an error *)

Definition alloc_init (start : N) : ast := mkAst start [] [] [].

Definition path_of (a : id_alloc) (r : req) : rmw_class :=
  match r with QSingle => single_path a | QBatch _ => batch_path a end.
Definition modulus (a : id_alloc) : N := 2 ^ counter_bits a.
Definition wrap (a : id_alloc) (x : N) : N := x mod modulus a.

(* the range computed from the counter value v the path has read *)
Definition range_of (a : id_alloc) (v : N) (r : req) : option (N * N) :=
  match r with
  | QSingle => Some (v, v + 1)
  | QBatch n =>
    match range_end_ovf a with
    | OvChecked => if v + n <? modulus a then Some (v, v + n) else None
    | OvWrap => Some (v, wrap a (v + n))
    end
  end.

(* counter + n according to the rule; None = the advance itself fails and leaves the counter untouched *)
Definition bump (a : id_alloc) (c n : N) : option N :=
  match counter_ovf a with
  | OvWrap => Some (wrap a (c + n))
  | OvChecked => if c + n <? modulus a then Some (c + n) else None
  end.

Fixpoint pend_of (t : thread) (p : list (thread * (N * req))) : option (N * req) :=
  match p with
  | [] => None
  | (t', x) :: p' => if Nat.eqb t t' then Some x else pend_of t p'
  end.
Definition pend_remove (t : thread) (p : list (thread * (N * req))) : list (thread * (N * req)) :=
  filter (fun x => negb (Nat.eqb t (fst x))) p.

(* the caller gets its answer *)
Definition deliver (a : id_alloc) (st : ast) (c' : N) (t : thread) (v : N) (r : req) : ast :=
  match range_of a v r with
  | Some rg => mkAst c' (pend_remove t (pend st)) (handed st ++ [(t, rg)]) (failed st)
  | None => mkAst c' (pend_remove t (pend st)) (handed st) (failed st ++ [(t, r)])
  end.

Definition alloc_step1 (a : id_alloc) (st : ast) (x : thread * alloc_step) : ast :=
  let t := fst x in
  match snd x with
  | SReserve r =>
    match pend_of t (pend st) with
    | Some _ => st                                  (* the thread is between its two steps *)
    | None =>
      match path_of a r with
      | RAtomicRmw =>
        (* ONE step: the RMW returns the old value and advances the counter *)
        match bump a (counter st) (req_len r) with
        | Some c' => deliver a st c' t (counter st) r
        | None => mkAst (counter st) (pend st) (handed st) (failed st ++ [(t, r)])
        end
      | RLoadThenStore _ =>
        (* first step: load *)
        mkAst (counter st) ((t, (counter st, r)) :: pend st) (handed st) (failed st)
      end
    end
  | SFinish =>
    match pend_of t (pend st) with
    | None => st
    | Some (v, r) =>
      (* second step: the range was computed and validated from v; a range that failed validation returns without
         advancing ("a failed reservation no longer consumes ids"); otherwise advance *)
      match range_of a v r with
      | None => deliver a st (counter st) t v r
      | Some _ =>
        match path_of a r with
        | RLoadThenStore AdvFetchAdd =>
          match bump a (counter st) (req_len r) with
          | Some c' => deliver a st c' t v r
          | None => mkAst (counter st) (pend_remove t (pend st)) (handed st) (failed st ++ [(t, r)])
          end
        | RLoadThenStore AdvStore =>
          match bump a v (req_len r) with
          | Some c' => deliver a st c' t v r
          | None => mkAst (counter st) (pend_remove t (pend st)) (handed st) (failed st ++ [(t, r)])
          end
        | RAtomicRmw => mkAst (counter st) (pend_remove t (pend st)) (handed st) (failed st)   (* no such pending entry exists *)
        end
      end
    end
  end.

Definition alloc_run (a : id_alloc) (st : ast) (sc : sched) : ast := fold_left (alloc_step1 a) sc st.

(* ---------- vocabulary of the theorems ---------- *)
(* ids asked for by a schedule *)
Fixpoint total (sc : sched) : N :=
  match sc with
  | [] => 0
  | (_, SReserve r) :: sc' => req_len r + total sc'
  | (_, SFinish) :: sc' => total sc'
  end.
(* the reservations of a schedule in schedule order: (thread, how many ids) *)
Fixpoint reservations (sc : sched) : list (thread * N) :=
  match sc with
  | [] => []
  | (t, SReserve r) :: sc' => (t, req_len r) :: reservations sc'
  | (_, SFinish) :: sc' => reservations sc'
  end.
(* one thread performing the reservations rs one after the other *)
Definition seq_sched (t : thread) (rs : list req) : sched := map (fun r => (t, SReserve r)) rs.
(* the same steps in the same order, all on one thread *)
Definition on_one_thread (sc : sched) : sched := map (fun x => (0%nat, snd x)) sc.
(* what a single thread is handed when it reserves rs starting from c: consecutive ranges *)
Fixpoint seq_ranges (c : N) (rs : list req) : list (N * N) :=
  match rs with
  | [] => []
  | r :: rs' => (c, c + req_len r) :: seq_ranges (c + req_len r) rs'
  end.
Fixpoint total_reqs (rs : list req) : N :=
  match rs with [] => 0 | r :: rs' => req_len r + total_reqs rs' end.

(* the source as it is meant to be; compared with the generated record in Props/C12.v *)
Definition id_alloc_atomic : id_alloc := mkIdAlloc RAtomicRmw RAtomicRmw 64 OvWrap OvChecked ORelaxed.
(* "validate the batch range first, then take it": the hypothetical the two-step alphabet exists for *)
Definition id_alloc_load_then_store (adv : advance) : id_alloc :=
  mkIdAlloc RAtomicRmw (RLoadThenStore adv) 64 OvWrap OvChecked ORelaxed.
