(* C17 -- the code EMITTED by the `#[rpc(client, server, ..)]` proc-macro (proc-macros/src/render_client.rs,
   render_server.rs, rpc_macro.rs), as a function of an API description, composed with the models of the library code
   it calls: the params builders (Model/Builder.v, C20), the request/response wire types (Model/Wire.v, C15), the method
   registry (Model/Registry.v, C13) and the params reader (Model/Params.v, C16).

   Transcribed:
     RpcDescription::rpc_identifier          namespace ++ separator (default "_") ++ name; no namespace: the name
     render_into_rpc                         the registrations performed on a fresh RpcModule, in the emitted order:
                                             methods (register_method / register_async_method / register_blocking_method),
                                             subscriptions (register_subscription / register_subscription_raw with the
                                             namespaced subscribe and unsubscribe names), method aliases, then per
                                             subscription its aliases and its unsubscribe aliases (register_alias with
                                             the alias AS WRITTEN: aliases are not namespaced); results are ignored
     build_unsubscribe_method                "subscribe.." -> "unsubscribe.." when no `unsubscribe =` is given
     RpcFnArg::name                          the `#[argument(rename = ..)]` string, else the identifier's text
                                             (syn::Ident::to_string(): a raw identifier keeps its `r#`, so an un-renamed
                                             `r#type` is "r#type" on the wire, with aliases "r_type" / "rType"; names are
                                             arbitrary byte strings here, nothing assumes [a-z_][a-z0-9_]* )
     encode_params (client stub)             no parameters: ArrayParams::new() (=> no `params` member);
                                             param_kind = array: ArrayParams, insert in declaration order;
                                             param_kind = map: ObjectParams, insert(name, value) in declaration order
     render_method / render_sub (client)     request(rpc_identifier(name), params) /
                                             subscribe(rpc_identifier(name), params, rpc_identifier(unsubscribe))
     render_params_decoding (server)         no parameters: params are not looked at;
                                             params.is_object(): `params.parse::<ParamsObject>()`, a derived struct with one
                                             field per parameter, `rename = name`, `alias = snake_case(name)`,
                                             `alias = lowerCamelCase(name)` (heck): the first field (declaration order)
                                             one of whose three keys equals a member key owns the member, a second member
                                             for the same field is an error, other members are ignored, a missing field is
                                             None for an `Option` parameter and an error otherwise;
                                             else `params.sequence()` and one `next()` per parameter, `optional_next()` for
                                             the parameters whose declared type is syntactically `Option<..>`;
                                             the first failure answers with its -32602 error object and runs no handler
     heck 0.5 `transform`                    word splitting of to_snake_case / to_lower_camel_case, char by char; Unicode
                                             classes and case mappings transcribed for U+0000..U+00FF
   Typed values.  serde's typed (de)serialisation of the argument and result TYPES is a parameter of the model (Section
   Codec): `enc t v` is the JSON value `Serialize` writes (the text is its compact serialisation, Json/JsonSer.v),
   `dec t j` is what `Deserialize` makes of a JSON value.  A typed read of a text is modelled as the strict parse of the
   text followed by `dec` (the same modelling as C16): the sequence reads go through `Params.next / optional_next` at the
   type `serde_json::Value` and then `dec`; `Option<T>` is handled by the model (null <-> None), T by the codec.
   The concrete instance used by the extracted driver (types `jty`, values = JSON, `dec t j` = "j is the canonical
   encoding of a value of type t") is at the end of the file.

   Left out / modelled, not verified:
     - the macro's own parsing and expansion (syn/quote): the model is of the emitted code, the descriptions of the
       compiled family are produced by tools/translators/macroapi.py from the same trait text, and the two are tied by the
       differential run;
     - a `Serialize` impl that fails (the stub panics, as documented), `with_extensions`, generics/bounds, doc attributes,
       `deprecated`, the compile-time checks (duplicate names, `__RpcParams__`);
     - parameter names with chars from U+0100 on in the heck transcription (treated as caseless alphanumerics; Unicode
       classes and case mappings are transcribed for ASCII and the Latin-1 Supplement only);
     - serde's leniency on by-name calls beyond the strict JSON parse: unknown members are skipped by serde without
       interpreting them (lone surrogate escapes and nesting deeper than the recursion limit pass there), here the whole
       object is read by the strict parser; which serde message the -32602 error object carries in `data`;
     - BY-NAME decoding of a parameter declared `Option<T>` that helpers::is_option does not take for optional (p_opt = false,
       p_ty = Option<T>): serde's derived ParamsObject fills a missing member of an Option-typed field with None (by the type,
       not by the spelling) where this model answers -32602; positional decoding of such a parameter (seq.next::<Option<T>>():
       null and values accepted, an omitted tail is an error) IS modelled.  The case cannot arise for the compiled family once
       Props/C17.v C17_option_spellings_are_optional compiles (every std spelling of Option has p_opt = true);
     - the response size limit and a failing `Serialize` of the result (C08); notifications (a method without a return
       type makes the stub send a notification, which a jsonrpsee server never dispatches to a handler);
     - how the subscription id is chosen; closing of subscriptions (C04/C06). *)
From JV Require Import Base.Bytes Base.Dec Base.Utf8 Json.Json Json.JsonSer Json.JsonParse Json.JsonWf.
From JV Require Model.Params Model.Builder Model.Wire Model.Registry.
From JV Require Gen.ErrorConstsGen.     (* the library's messages and codes, regenerated from types/src/error.rs *)
Local Open Scope N_scope.

(* ================================================================ 1. heck 0.5: snake_case / lowerCamelCase *)

(* heck works on `char`s.  A name (a Rust String: valid UTF-8) is cut into the UTF-8 sequences of its chars: a byte together
   with the continuation bytes (10xxxxxx) that follow it.  The Unicode classes and case mappings heck asks for
   (char::is_alphanumeric / is_lowercase / is_uppercase / to_lowercase / to_uppercase) are transcribed for U+0000..U+00FF
   (ASCII and the Latin-1 Supplement, incl. the mappings that leave the block or one char: U+00B5 MICRO SIGN -> U+039C, U+00DF
   sharp s -> "SS", U+00FF -> U+0178); every char from U+0100 on is taken for a caseless alphanumeric. *)
Definition is_lower (c : byte) : bool := in_range 97 122 c.
Definition is_upper (c : byte) : bool := in_range 65 90 c.
Definition to_lower (c : byte) : byte := if is_upper c then Nb (bN c + 32) else c.
Definition to_upper (c : byte) : byte := if is_lower c then Nb (bN c - 32) else c.

Definition uchar := bytes.                   (* the UTF-8 sequence of one char *)

Fixpoint utf8_chars (s : bytes) : list uchar :=
  match s with
  | [] => []
  | b :: s' =>
    match utf8_chars s' with
    | (c0 :: crest) :: rs => if is_cont c0 then (b :: c0 :: crest) :: rs else [b] :: (c0 :: crest) :: rs
    | r => [b] :: r
    end
  end.

(* the code point of a char of U+0080..U+00FF: C2 80..BF, C3 80..BF *)
Definition latin1 (ch : uchar) : option N :=
  match ch with
  | [a; b] => if bN a =? 194 then Some (bN b) else if bN a =? 195 then Some (bN b + 64) else None
  | _ => None
  end.

(* Lowercase: a-z; U+00AA, U+00B5, U+00BA, U+00DF..U+00FF without U+00F7 *)
Definition ch_is_lower (ch : uchar) : bool :=
  match ch with
  | [c] => is_lower c
  | _ => match latin1 ch with
         | Some n => (n =? 170) || (n =? 181) || (n =? 186) || ((223 <=? n) && (n <=? 255) && negb (n =? 247))
         | None => false
         end
  end.
(* Uppercase: A-Z; U+00C0..U+00DE without U+00D7 *)
Definition ch_is_upper (ch : uchar) : bool :=
  match ch with
  | [c] => is_upper c
  | _ => match latin1 ch with
         | Some n => (192 <=? n) && (n <=? 222) && negb (n =? 215)
         | None => false
         end
  end.
(* Alphabetic or Numeric: ASCII letters and digits; U+00AA, U+00B2, U+00B3, U+00B5, U+00B9, U+00BA, U+00BC..U+00BE,
   U+00C0..U+00FF without U+00D7 and U+00F7; (not transcribed: from U+0100 on every char; a stray byte >= 0x80) *)
Definition ch_is_alnum (ch : uchar) : bool :=
  match ch with
  | [c] => is_lower c || is_upper c || is_digit c || (128 <=? bN c)
  | _ => match latin1 ch with
         | Some n => (n =? 170) || (n =? 178) || (n =? 179) || (n =? 181) || (n =? 185) || (n =? 186) ||
                     ((188 <=? n) && (n <=? 190)) || ((192 <=? n) && negb (n =? 215) && negb (n =? 247))
         | None => true
         end
  end.
Definition ch_to_lower (ch : uchar) : bytes :=
  match ch with
  | [c] => [to_lower c]
  | _ => match latin1 ch with
         | Some n => if ch_is_upper ch then utf8_encode (n + 32) else ch
         | None => ch
         end
  end.
Definition ch_to_upper (ch : uchar) : bytes :=
  match ch with
  | [c] => [to_upper c]
  | _ => match latin1 ch with
         | Some n =>
           if n =? 181 then utf8_encode 924                          (* U+00B5 -> U+039C GREEK CAPITAL LETTER MU *)
           else if n =? 223 then [x53; x53]                          (* U+00DF -> "SS" *)
           else if n =? 255 then utf8_encode 376                     (* U+00FF -> U+0178 *)
           else if (224 <=? n) && (n <=? 254) && negb (n =? 247) then utf8_encode (n - 32)
           else ch
         | None => ch
         end
  end.

(* s.split(|c| !c.is_alphanumeric()) ; cur = the piece being collected, reversed *)
Fixpoint split_alnum (cur : list uchar) (s : list uchar) : list (list uchar) :=
  match s with
  | [] => [rev cur]
  | c :: s' => if ch_is_alnum c then split_alnum (c :: cur) s' else rev cur :: split_alnum [] s'
  end.

Inductive wmode := WBoundary | WLower | WUpper.
Definition wmode_eqb (a b : wmode) : bool :=
  match a, b with WBoundary, WBoundary | WLower, WLower | WUpper, WUpper => true | _, _ => false end.

(* the `while let Some((i, c)) = char_indices.next()` loop over one piece: the words it hands to with_word.
   cur = word[init..i] reversed *)
Fixpoint split_word (mode : wmode) (cur : list uchar) (w : list uchar) : list (list uchar) :=
  match w with
  | [] => []                                             (* an empty piece: the loop body never runs *)
  | c :: rest =>
    match rest with
    | [] => [rev (c :: cur)]                             (* "Collect trailing characters as a word" *)
    | next :: _ =>
      let next_mode := if ch_is_lower c then WLower else if ch_is_upper c then WUpper else mode in
      if wmode_eqb next_mode WLower && ch_is_upper next then
        rev (c :: cur) :: split_word WBoundary [] rest   (* boundary after c *)
      else if wmode_eqb mode WUpper && ch_is_upper c && ch_is_lower next then
        rev cur :: split_word WBoundary [c] rest         (* boundary before c *)
      else split_word next_mode (c :: cur) rest
    end
  end.

Definition heck_words (s : bytes) : list (list uchar) := flat_map (split_word WBoundary []) (split_alnum [] (utf8_chars s)).

(* heck's lowercase / capitalize of a word (its final-sigma rule concerns U+03A3, outside the transcribed range) *)
Definition lowercase (w : list uchar) : bytes := concat (map ch_to_lower w).
Definition capitalize (w : list uchar) : bytes :=
  match w with [] => [] | c :: r => ch_to_upper c ++ lowercase r end.

(* transform(s, lowercase, |f| write!(f, "_")) *)
Definition snake_case (s : bytes) : bytes := join [x5f] (map lowercase (heck_words s)).
(* transform(s, |w| if first { lowercase } else { capitalize }, |_| Ok(())) *)
Definition lower_camel_case (s : bytes) : bytes :=
  match heck_words s with
  | [] => []
  | w :: ws => lowercase w ++ concat (map capitalize ws)
  end.

(* ================================================================ 2. API descriptions *)

Inductive pkind := PArray | PMap.
Inductive mkind := MSync | MAsync | MBlocking.

(* one `name: Type` of a trait method; p_opt = helpers::is_option(ty) and then p_ty is the T of Option<T> (a declared
   Option<T> for which is_option says no is an ordinary parameter of type Option<T>: p_opt = false, p_ty = TyOption T) *)
Record param (ty : Type) := Param {
  p_ident : bytes;
  p_rename : option bytes;
  p_opt : bool;
  p_ty : ty }.
Arguments Param {ty}. Arguments p_ident {ty}. Arguments p_rename {ty}. Arguments p_opt {ty}. Arguments p_ty {ty}.

(* #[method(name = .., aliases = [..], param_kind = .., blocking)] [async] fn ..(&self, params) [-> Result<ret, _>] *)
Record method (ty : Type) := Method {
  m_name : bytes;
  m_aliases : list bytes;
  m_params : list (param ty);
  m_pkind : pkind;
  m_kind : mkind;
  m_ret : option ty }.                 (* None: no return type, the stub sends a notification *)
Arguments Method {ty}. Arguments m_name {ty}. Arguments m_aliases {ty}. Arguments m_params {ty}.
Arguments m_pkind {ty}. Arguments m_kind {ty}. Arguments m_ret {ty}.

(* #[subscription(name = .. [=> ..], unsubscribe = .., item = .., aliases, unsubscribe_aliases, param_kind)] *)
Record subscription (ty : Type) := Subscription {
  s_name : bytes;
  s_notif : option bytes;              (* name = "sub" => "override" *)
  s_unsub : option bytes;              (* unsubscribe = ".." *)
  s_aliases : list bytes;
  s_unsub_aliases : list bytes;
  s_params : list (param ty);
  s_pkind : pkind;
  s_async : bool;
  s_item : ty }.
Arguments Subscription {ty}. Arguments s_name {ty}. Arguments s_notif {ty}. Arguments s_unsub {ty}.
Arguments s_aliases {ty}. Arguments s_unsub_aliases {ty}. Arguments s_params {ty}. Arguments s_pkind {ty}.
Arguments s_async {ty}. Arguments s_item {ty}.

(* #[rpc(client, server, namespace = .., namespace_separator = ..)] trait .. *)
Record api (ty : Type) := Api {
  a_namespace : option bytes;
  a_separator : option bytes;
  a_methods : list (method ty);
  a_subs : list (subscription ty) }.
Arguments Api {ty}. Arguments a_namespace {ty}. Arguments a_separator {ty}. Arguments a_methods {ty}. Arguments a_subs {ty}.

(* How a parameter type that is std's Option may be SPELLED in a trait (the path segments as syn sees them: a leading `::`
   is not a segment, generic arguments belong to the last segment): `Option<T>`, `option::Option<T>` (with `use std::option`
   in scope), `std::option::Option<T>`, `core::option::Option<T>`.  The macro decides optionality from the spelling
   (helpers::is_option); p_opt is its decision, `is_std_option` says for which spellings the decision has to be `true`
   (Props/C17.v C17_option_spellings_are_optional, on the decisions generated for the compiled family). *)
Definition std_option_paths : list (list bytes) :=
  [ [b#"Option"]; [b#"option"; b#"Option"]; [b#"std"; b#"option"; b#"Option"]; [b#"core"; b#"option"; b#"Option"] ].
Fixpoint path_eqb (a b : list bytes) : bool :=
  match a, b with
  | [], [] => true
  | x :: a', y :: b' => bytes_eqb x y && path_eqb a' b'
  | _, _ => false
  end.
Definition is_std_option (segs : list bytes) : bool := existsb (path_eqb segs) std_option_paths.

(* ================================================================ 3. names and the registrations of into_rpc *)

(* key lists (one per parameter of a method) no two of which have a key in common: whatever member key a by-name request
   carries, at most one parameter accepts it *)
Definition keys_disjoint (kss : list (list bytes)) : Prop :=
  forall i j ki kj k, nth_error kss i = Some ki -> nth_error kss j = Some kj -> In k ki -> In k kj -> i = j.

Section Names.
Context {ty : Type}.

(* RpcFnArg::name *)
Definition p_name (p : param ty) : bytes := match p_rename p with Some r => r | None => p_ident p end.

(* RpcDescription::rpc_identifier *)
Definition rpc_identifier (a : api ty) (name : bytes) : bytes :=
  match a_namespace a with
  | Some ns => ns ++ match a_separator a with Some sep => sep | None => [x5f] end ++ name
  | None => name
  end.

(* build_unsubscribe_method: name.strip_prefix("subscribe").map(|s| format!("unsubscribe{s}")) *)
Definition build_unsubscribe (name : bytes) : option bytes :=
  match starts_with b#"subscribe" name with Some r => Some (b#"unsubscribe" ++ r) | None => None end.

(* the unsubscribe name of a subscription; the macro panics (no expansion) when neither source gives one: [] *)
Definition unsub_name (s : subscription ty) : bytes :=
  match s_unsub s with
  | Some u => u
  | None => match build_unsubscribe (s_name s) with Some u => u | None => [] end
  end.

(* the `method` member of the notifications of a subscription *)
Definition notif_name (a : api ty) (s : subscription ty) : bytes :=
  match s_notif s with Some n => rpc_identifier a n | None => rpc_identifier a (s_name s) end.

(* handlers are identified by their position: methods 0.., then subscriptions *)
Definition method_tag (i : nat) : N := N.of_nat i.
Definition sub_tag (a : api ty) (j : nat) : N := N.of_nat (length (a_methods a) + j).

Definition method_reg (a : api ty) (i : nat) (m : method ty) : Registry.op :=
  let n := rpc_identifier a (m_name m) in
  Registry.Reg 0 match m_kind m with
                 | MAsync => Registry.RAsync n (method_tag i)
                 | MBlocking => Registry.RBlocking n (method_tag i)
                 | MSync => Registry.RMethod n (method_tag i)
                 end.

Definition sub_reg (a : api ty) (j : nat) (s : subscription ty) : Registry.op :=
  Registry.Reg 0 (Registry.RSub (negb (s_async s)) (rpc_identifier a (s_name s)) (rpc_identifier a (unsub_name s)) (sub_tag a j)).

Definition method_alias_regs (a : api ty) (m : method ty) : list Registry.op :=
  map (fun al => Registry.Alias 0 al (rpc_identifier a (m_name m))) (m_aliases m).

Definition sub_alias_regs (a : api ty) (s : subscription ty) : list Registry.op :=
  map (fun al => Registry.Alias 0 al (rpc_identifier a (s_name s))) (s_aliases s) ++
  map (fun al => Registry.Alias 0 al (rpc_identifier a (unsub_name s))) (s_unsub_aliases s).

Fixpoint mapi_from {A B : Type} (f : nat -> A -> B) (i : nat) (l : list A) : list B :=
  match l with [] => [] | x :: r => f i x :: mapi_from f (S i) r end.
Definition mapi {A B : Type} (f : nat -> A -> B) (l : list A) : list B := mapi_from f 0 l.

(* the body of the generated `into_rpc`: #(#methods)* #(#subscriptions)* #(#method_aliases)* #(#subscription_aliases)* *)
Definition into_rpc_ops (a : api ty) : list Registry.op :=
  mapi (method_reg a) (a_methods a) ++
  mapi (sub_reg a) (a_subs a) ++
  flat_map (method_alias_regs a) (a_methods a) ++
  flat_map (sub_alias_regs a) (a_subs a).

(* the callbacks of `RpcModule::new(ctx)` after these registrations (their results are dropped by the emitted code) *)
Definition registry (a : api ty) : Registry.methods :=
  Registry.get (Registry.exec Registry.init (into_rpc_ops a)) 0.

(* Methods::method(name) *)
Definition resolve (a : api ty) (name : bytes) : option Registry.binding := Registry.lookup name (registry a).

(* what each name is expected to be bound to *)
Definition kind_of (k : mkind) : Registry.kind :=
  match k with MSync => Registry.KSync | MAsync => Registry.KAsync | MBlocking => Registry.KBlocking end.
Definition method_binding (i : nat) (m : method ty) : Registry.binding := Registry.Bind (method_tag i) (kind_of (m_kind m)).
Definition sub_binding (a : api ty) (j : nat) : Registry.binding := Registry.Bind (sub_tag a j) Registry.KSub.
Definition unsub_binding (a : api ty) (j : nat) : Registry.binding := Registry.Bind (sub_tag a j) Registry.KUnsub.

(* every name handed to a register_* call with the handler it is meant for, in registration order *)
Definition method_entry (a : api ty) (i : nat) (m : method ty) : bytes * Registry.binding :=
  (rpc_identifier a (m_name m), method_binding i m).
Definition sub_entries (a : api ty) (j : nat) (s : subscription ty) : list (bytes * Registry.binding) :=
  [(rpc_identifier a (unsub_name s), unsub_binding a j); (rpc_identifier a (s_name s), sub_binding a j)].
Definition method_alias_entries (i : nat) (m : method ty) : list (bytes * Registry.binding) :=
  map (fun al => (al, method_binding i m)) (m_aliases m).
Definition sub_alias_entries (a : api ty) (j : nat) (s : subscription ty) : list (bytes * Registry.binding) :=
  map (fun al => (al, sub_binding a j)) (s_aliases s) ++ map (fun al => (al, unsub_binding a j)) (s_unsub_aliases s).
Definition expected_table (a : api ty) : Registry.methods :=
  mapi (method_entry a) (a_methods a) ++
  concat (mapi (sub_entries a) (a_subs a)) ++
  concat (mapi method_alias_entries (a_methods a)) ++
  concat (mapi (sub_alias_entries a) (a_subs a)).
Definition registered_names (a : api ty) : list bytes := map fst (expected_table a).

(* the keys under which the generated ParamsObject accepts parameter p: rename, alias snake, alias lowerCamel *)
Definition keys_of (p : param ty) : list bytes := [p_name p; snake_case (p_name p); lower_camel_case (p_name p)].
Definition has_key (k : bytes) (p : param ty) : bool := existsb (bytes_eqb k) (keys_of p).

(* the field a member key selects: the first arm of serde's generated `match` that has the key *)
Fixpoint key_owner (ps : list (param ty)) (k : bytes) : option nat :=
  match ps with
  | [] => None
  | p :: r => if has_key k p then Some 0%nat else match key_owner r k with Some i => Some (S i) | None => None end
  end.

(* "no two parameters of a method share a wire name, snake_case alias or lowerCamelCase alias" *)
Fixpoint params_distinct (ps : list (param ty)) : bool :=
  match ps with
  | [] => true
  | p :: r => forallb (fun k => forallb (fun q => negb (has_key k q)) r) (keys_of p) && params_distinct r
  end.

(* the parameter lists of the trait's functions: methods, then subscriptions, in declaration order (the row order of
   Gen.MacroApiGen.family_keys) *)
Definition item_params (a : api ty) : list (list (param ty)) := map m_params (a_methods a) ++ map s_params (a_subs a).

Definition nth_method (a : api ty) (t : N) : option (method ty) := nth_error (a_methods a) (N.to_nat t).
Definition nth_sub (a : api ty) (t : N) : option (subscription ty) :=
  if (N.to_nat t <? length (a_methods a))%nat then None else nth_error (a_subs a) (N.to_nat t - length (a_methods a)).

(* the parameters of the trait method behind a binding *)
Definition params_of (a : api ty) (b : Registry.binding) : option (list (param ty)) :=
  match Registry.b_kind b with
  | Registry.KSub => match nth_sub a (Registry.b_tag b) with Some s => Some (s_params s) | None => None end
  | Registry.KUnsub => None
  | _ => match nth_method a (Registry.b_tag b) with Some m => Some (m_params m) | None => None end
  end.

End Names.

(* ================================================================ 4. argument encoding and decoding *)

Inductive dres (val : Type) :=
| DOk (args : list (option val))       (* the tuple handed to the trait method; None/Some for Option parameters *)
| DErr (code : Z).                     (* `return ResponsePayload::error(e)` / `pending.reject(e)` *)
Arguments DOk {val}. Arguments DErr {val}.

Fixpoint set_nth {A : Type} (i : nat) (x : A) (l : list A) : list A :=
  match l, i with
  | [], _ => []
  | _ :: r, O => x :: r
  | y :: r, S i' => y :: set_nth i' x r
  end.

Section Codec.
Variable ty : Type.                          (* Rust types of parameters, results and items *)
Variable val : Type.                         (* their values *)
Variable enc : ty -> val -> json.            (* Serialize, as a JSON value *)
Variable dec : ty -> json -> option val.     (* Deserialize of a JSON value; None = serde error *)

(* ---------- client stub: encode_params ---------- *)

(* an argument: `Some v` for a plain parameter; for an `Option<T>` parameter the Option itself *)
Definition arg_json (p : param ty) (a : option val) : json :=
  match a with Some v => enc (p_ty p) v | None => JNull end.
Definition arg_text (p : param ty) (a : option val) : Builder.sres := Builder.SOk (ser (arg_json p a)).

Definition client_params (k : pkind) (ps : list (param ty)) (args : list (option val)) : Builder.tres :=
  match ps with
  | [] => Builder.builder_to_rpc_params Builder.positional                      (* ArrayParams::new() *)
  | _ :: _ =>
    match k with
    | PArray =>
      Builder.builder_to_rpc_params
        (fst (Builder.inserts Builder.positional (map (fun pa => arg_text (fst pa) (snd pa)) (combine ps args))))
    | PMap =>
      Builder.builder_to_rpc_params
        (fst (Builder.inserts_named Builder.named
                (map (fun pa => (p_name (fst pa), arg_text (fst pa) (snd pa))) (combine ps args))))
    end
  end.

(* ---------- generated server closure: render_params_decoding ---------- *)

(* Option<T>: null is None *)
Definition typed (p : param ty) (j : json) : option (option val) :=
  if p_opt p then
    match j with
    | JNull => Some None
    | _ => match dec (p_ty p) j with Some v => Some (Some v) | None => None end
    end
  else match dec (p_ty p) j with Some v => Some (Some v) | None => None end.

(* let mut seq = params.sequence(); then per parameter seq.next() / seq.optional_next() *)
Definition read_op (p : param ty) : Params.op :=
  if p_opt p then Params.OOpt Params.TValue else Params.ONext Params.TValue.

(* the results of the reads, up to the first failure (`Err(e) => { ..; return error(e) }`) *)
Fixpoint collect (ps : list (param ty)) (outs : list Params.out) : dres val :=
  match ps with
  | [] => DOk []
  | p :: ps' =>
    match outs with
    | [] => DErr Params.invalid_params
    | o :: outs' =>
      match o with
      | Params.OErr c => DErr c
      | Params.OAbsent =>
        match collect ps' outs' with DOk l => DOk (None :: l) | DErr c => DErr c end
      | Params.OVal (Params.VValue j) =>
        match typed p j with
        | Some a => match collect ps' outs' with DOk l => DOk (a :: l) | DErr c => DErr c end
        | None => DErr Params.invalid_params
        end
      | Params.OVal _ => DErr Params.invalid_params
      end
    end
  end.

Definition decode_array (ps : list (param ty)) (p : Params.params) : dres val :=
  collect ps (Params.read_seq p (map read_op ps)).

(* serde's visit_map of the derived ParamsObject on the members, in source order: None = duplicate field *)
Fixpoint assign (ps : list (param ty)) (ms : list (bytes * json)) (slots : list (option json)) : option (list (option json)) :=
  match ms with
  | [] => Some slots
  | (k, v) :: ms' =>
    match key_owner ps k with
    | None => assign ps ms' slots                                   (* _ => __ignore *)
    | Some i =>
      match nth i slots None with
      | Some _ => None                                              (* duplicate field *)
      | None => assign ps ms' (set_nth i (Some v) slots)
      end
    end
  end.

(* a field after the map is exhausted: its value typed, or `missing_field` (None only for Option) *)
Definition finish_param (p : param ty) (slot : option json) : option (option val) :=
  match slot with
  | Some j => typed p j
  | None => if p_opt p then Some None else None
  end.

Fixpoint finish (ps : list (param ty)) (slots : list (option json)) : dres val :=
  match ps with
  | [] => DOk []
  | p :: ps' =>
    match finish_param p (hd None slots) with
    | Some a => match finish ps' (tl slots) with DOk l => DOk (a :: l) | DErr c => DErr c end
    | None => DErr Params.invalid_params
    end
  end.

Definition decode_members (ps : list (param ty)) (ms : list (bytes * json)) : dres val :=
  match assign ps ms (repeat None (length ps)) with
  | Some slots => finish ps slots
  | None => DErr Params.invalid_params
  end.

(* params.parse::<ParamsObject>() = serde_json::from_str(params text) *)
Definition decode_map (ps : list (param ty)) (p : Params.params) : dres val :=
  match parse_text (Params.params_text p) with
  | Some (JObj ms) => decode_members ps ms
  | _ => DErr Params.invalid_params
  end.

Definition server_decode (ps : list (param ty)) (p : Params.params) : dres val :=
  match ps with
  | [] => DOk []                                                    (* no decoding code is emitted *)
  | _ :: _ => if Params.is_object p then decode_map ps p else decode_array ps p
  end.

(* ---------- vocabulary of the C17 statements ---------- *)

(* a value of type t that serde carries faithfully: well-formed JSON, read back as the same value; nested so that the
   whole params / response text stays within the reader's recursion limit *)
Definition val_ok (t : ty) (v : val) : Prop :=
  wf (enc t v) = true /\ (jdepth (enc t v) < 127)%nat /\ dec t (enc t v) = Some v.

(* an argument fits its parameter: plain parameters carry a value; the payload of an Option parameter is not `null` *)
Definition arg_ok (p : param ty) (a : option val) : Prop :=
  match a with
  | Some v => val_ok (p_ty p) v /\ (p_opt p = true -> enc (p_ty p) v <> JNull)
  | None => p_opt p = true
  end.
Definition args_ok (ps : list (param ty)) (args : list (option val)) : Prop := Forall2 arg_ok ps args.

Definition args_json (ps : list (param ty)) (args : list (option val)) : list json :=
  map (fun pa => arg_json (fst pa) (snd pa)) (combine ps args).
Definition args_members (ps : list (param ty)) (args : list (option val)) : list (bytes * json) :=
  map (fun pa => (p_name (fst pa), arg_json (fst pa) (snd pa))) (combine ps args).

(* the values of the members the generated ParamsObject assigns to its i-th field *)
Definition owner_is (ps : list (param ty)) (i : nat) (kv : bytes * json) : bool :=
  match key_owner ps (fst kv) with Some j => Nat.eqb i j | None => false end.
Definition owned (ps : list (param ty)) (i : nat) (ms : list (bytes * json)) : list json :=
  map snd (filter (owner_is ps i) ms).

(* a member list that presents the arguments by name: under any of its keys, in any order, among unknown members; an
   absent Option argument is left out or given as null *)
Definition presents (ps : list (param ty)) (args : list (option val)) (ms : list (bytes * json)) : Prop :=
  forall i p a, nth_error ps i = Some p -> nth_error args i = Some a ->
    match a with
    | Some _ => owned ps i ms = [arg_json p a]
    | None => owned ps i ms = [] \/ owned ps i ms = [JNull]
    end.

(* ---------- the request on the wire and its dispatch ---------- *)

(* what the generated stub hands to ClientT::request / SubscriptionClientT::subscribe, serialised as the clients do:
   {"jsonrpc":"2.0","id":..,"method":..[,"params":..]}.  None: a `Serialize` impl failed (not modelled) *)
Definition stub_request (i : Wire.id) (name : bytes) (k : pkind) (ps : list (param ty)) (args : list (option val)) : option bytes :=
  match client_params k ps args with
  | Builder.TOk p => Some (Wire.ser_request {| Wire.rq_id := i; Wire.rq_method := name; Wire.rq_params := p |})
  | _ => None
  end.

Inductive received :=
| RCall (b : Registry.binding) (args : list (option val))     (* the trait method behind b runs with these arguments *)
| RInvalid (b : Registry.binding) (code : Z)                  (* answered by the generated closure, no trait method runs *)
| RUnsub (t : N) (params : option bytes)                      (* the library's unsubscribe callback of subscription t *)
| RNotFound                                                   (* -32601 *)
| RBadRequest.                                                (* not a Request *)

Definition server_receive (a : api ty) (text : bytes) : received :=
  match Wire.parse_request text with
  | None => RBadRequest
  | Some r =>
    match resolve a (Wire.rq_method r) with
    | None => RNotFound
    | Some b =>
      match params_of a b with
      | None => match Registry.b_kind b with
                | Registry.KUnsub => RUnsub (Registry.b_tag b) (Wire.rq_params r)
                | _ => RNotFound
                end
      | Some ps =>
        match server_decode ps (Params.params_new (Wire.rq_params r)) with
        | DOk args => RCall b args
        | DErr c => RInvalid b c
        end
      end
    end
  end.

(* ---------- the answer ---------- *)

Inductive hres := HOk (v : val) | HErr (e : Wire.errobj).         (* what the trait method returns *)
Inductive cres := COk (v : val) | CErr (e : Wire.errobj) | CBad.  (* what the stub's future resolves to *)

(* IntoResponse + MethodResponse::response: {"jsonrpc":"2.0","id":..,"result":<ser>} / "error":{..} *)
Definition server_response (i : Wire.id) (rt : ty) (r : hres) : bytes :=
  Wire.ser_response {| Wire.rs_jsonrpc := true;
                       Wire.rs_payload := match r with
                                          | HOk v => Wire.PResult (ser (enc rt v))
                                          | HErr e => Wire.PError e
                                          end;
                       Wire.rs_id := i |}.

(* Response<&RawValue>, then serde_json::from_str::<R>(result) *)
Definition client_result (rt : ty) (text : bytes) : option (Wire.id * cres) :=
  match Wire.parse_response text with
  | None => None
  | Some r =>
    Some (Wire.rs_id r,
          match Wire.rs_payload r with
          | Wire.PError e => CErr e
          | Wire.PResult raw =>
            match parse_text raw with
            | Some j => match dec rt j with Some v => COk v | None => CBad end
            | None => CBad
            end
          end)
  end.

(* a subscription item: sink.send(to_raw_value(item)) -> {"jsonrpc":"2.0","method":<notif>,"params":{"subscription":..,"result":..}} *)
Definition item_notification (name : bytes) (sid : Wire.subid) (it : ty) (v : val) : bytes :=
  Wire.ser_sub_notif name sid false (ser (enc it v)).
(* the client side: the notification's payload, typed at the item type *)
Definition client_item (it : ty) (text : bytes) : option (bytes * Wire.subid * option val) :=
  match Wire.parse_sub_notif Wire.k_result text with
  | Some (name, sid, raw) =>
    Some (name, sid, match parse_text raw with Some j => dec it j | None => None end)
  | None => None
  end.

End Codec.

Arguments HOk {val}. Arguments HErr {val}.
Arguments COk {val}. Arguments CErr {val}. Arguments CBad {val}.
Arguments RCall {val}. Arguments RInvalid {val}. Arguments RUnsub {val}. Arguments RNotFound {val}. Arguments RBadRequest {val}.

(* ================================================================ 5. the concrete instance run by the driver *)

(* the Rust types occurring in the compiled family; a value is its canonical JSON encoding *)
Inductive jty :=
| TyUInt (max : N)                               (* u8 .. u64 *)
| TyInt (minabs max : N)                         (* i8 .. i64 *)
| TyBool
| TyStr
| TyUnit                                         (* () *)
| TyAny                                          (* serde_json::Value *)
| TyOption (t : jty)
| TyVec (t : jty)
| TyMap (t : jty)                                (* BTreeMap<String, T> *)
| TyTuple (ts : list jty)
| TyStruct (fields : list (bytes * jty))         (* #[derive] struct with named fields *)
| TyEnum (units : list bytes) (tagged : list (bytes * jty)).   (* externally tagged enum *)

Fixpoint bytes_ltb (a b : bytes) : bool :=
  match a, b with
  | _, [] => false
  | [], _ :: _ => true
  | x :: a', y :: b' => if bN x <? bN y then true else if bN y <? bN x then false else bytes_ltb a' b'
  end.

(* BTreeMap iteration: keys strictly increasing *)
Fixpoint keys_sorted (ms : list (bytes * json)) : bool :=
  match ms with
  | [] => true
  | (k, _) :: r => match r with [] => true | (k', _) :: _ => bytes_ltb k k' && keys_sorted r end
  end.

(* j is what serde_json writes for some value of the type *)
Fixpoint conforms (t : jty) (j : json) {struct t} : bool :=
  match t with
  | TyUInt max => match j with JNum (NPos n) => n <=? max | _ => false end
  | TyInt minabs max =>
    match j with
    | JNum (NPos n) => n <=? max
    | JNum (NNeg n) => (0 <? n) && (n <=? minabs)
    | _ => false
    end
  | TyBool => match j with JBool _ => true | _ => false end
  | TyStr => match j with JStr _ => true | _ => false end
  | TyUnit => match j with JNull => true | _ => false end
  | TyAny => true
  | TyOption t' => match j with JNull => true | _ => conforms t' j end
  | TyVec t' => match j with JArr l => forallb (conforms t') l | _ => false end
  | TyMap t' => match j with JObj ms => forallb (fun kv => conforms t' (snd kv)) ms && keys_sorted ms | _ => false end
  | TyTuple ts =>
    match j with
    | JArr l =>
      (fix go (ts : list jty) (l : list json) {struct ts} : bool :=
         match ts, l with
         | [], [] => true
         | t' :: ts', x :: l' => conforms t' x && go ts' l'
         | _, _ => false
         end) ts l
    | _ => false
    end
  | TyStruct fs =>
    match j with
    | JObj ms =>
      (fix go (fs : list (bytes * jty)) (ms : list (bytes * json)) {struct fs} : bool :=
         match fs, ms with
         | [], [] => true
         | (k, t') :: fs', (k', x) :: ms' => bytes_eqb k k' && conforms t' x && go fs' ms'
         | _, _ => false
         end) fs ms
    | _ => false
    end
  | TyEnum units tagged =>
    match j with
    | JStr s => existsb (bytes_eqb s) units
    | JObj [(k, x)] =>
      (fix find (tg : list (bytes * jty)) {struct tg} : bool :=
         match tg with
         | [] => false
         | (k', t') :: tg' => if bytes_eqb k k' then conforms t' x else find tg'
         end) tagged
    | _ => false
    end
  end.

Definition jenc (t : jty) (v : json) : json := v.
Definition jdec (t : jty) (j : json) : option json := if conforms t j then Some j else None.

(* ---------- one case of the differential run ---------- *)

Inductive behaviour :=                     (* what the recording trait method is told to do *)
| BReturn (ret : json)                     (* Ok(ret); for a subscription ret is the JSON array of the items it sends *)
| BFail (e : Wire.errobj).                 (* Err(e) / pending.reject(e) *)

Inductive client_view :=
| VOk (j : json)
| VErr (e : Wire.errobj)
| VNotif                                   (* the stub sent a notification *)
| VSub (notif : option bytes) (items : list json) (unsub : bytes) (unsub_res : option (option bool))
                                           (* unsub_res: None = -32601, Some None = not an unsubscribe method, Some (Some b) = answered b *)
| VFail.

Record case_out := CaseOut {
  co_wire : option (bytes * option bytes);               (* method and params text of the first frame the stub sent *)
  co_handler : option Registry.binding;                  (* the trait method that ran *)
  co_args : option (list (option json));                 (* .. and what it received *)
  co_client : client_view }.

Definition japi := api jty.

(* the typed argument tuple of a stub call, given as a JSON array (null = None for Option parameters) *)
Definition args_of_json (ps : list (param jty)) (js : list json) : list (option json) :=
  map (fun pj => if p_opt (fst pj) then match snd pj with JNull => None | j => Some j end else Some (snd pj)) (combine ps js).

Definition the_id : Wire.id := Wire.IdNum 0.
Definition the_sid : Wire.subid := Wire.SubNum 1.

Definition err_invalid_params (c : Z) : Wire.errobj :=
  {| Wire.e_code := c; Wire.e_message := ErrorConstsGen.invalid_params_msg; Wire.e_data := None |}.
Definition err_not_found : Wire.errobj :=
  {| Wire.e_code := ErrorConstsGen.method_not_found_code; Wire.e_message := ErrorConstsGen.method_not_found_msg; Wire.e_data := None |}.

(* result of a call through the response round trip *)
Definition answer_view (rt : jty) (r : hres json) : client_view :=
  match client_result jty json jdec rt (server_response jty json jenc the_id rt r) with
  | Some (_, COk v) => VOk v
  | Some (_, CErr e) => VErr e
  | _ => VFail
  end.

(* the items of an accepted subscription through the notification round trip *)
Definition items_view (name : bytes) (it : jty) (items : list json) : option (list json) :=
  Params.map_opt (fun v => match client_item jty json jdec it (item_notification jty json jenc name the_sid it v) with
                           | Some (_, _, Some x) => Some x
                           | _ => None
                           end) items.

(* calling `unsub` with the id of a subscription made through handler tag t *)
Definition unsub_view (a : japi) (t : N) (unsub : bytes) : option (option bool) :=
  match resolve a unsub with
  | None => None
  | Some b =>
    match Registry.b_kind b with
    | Registry.KUnsub => Some (Some (Registry.b_tag b =? t))
    | _ => Some None
    end
  end.

(* the server side of one request text, and what comes back *)
Definition serve (a : japi) (text : bytes) (beh : behaviour) (unsub : bytes) : option Registry.binding * option (list (option json)) * client_view :=
  match server_receive jty json jdec a text with
  | RCall b args =>
    match Registry.b_kind b with
    | Registry.KSub =>
      match nth_sub a (Registry.b_tag b), beh with
      | Some s, BReturn (JArr items) =>
        (Some b, Some args,
         match items_view (notif_name a s) (s_item s) items with
         | Some xs => VSub (match xs with [] => None | _ => Some (notif_name a s) end) xs unsub (unsub_view a (Registry.b_tag b) unsub)
         | None => VFail
         end)
      | Some _, BFail e => (Some b, Some args, answer_view TyAny (HErr e))
      | _, _ => (Some b, Some args, VFail)
      end
    | _ =>
      match nth_method a (Registry.b_tag b) with
      | Some m =>
        let rt := match m_ret m with Some t => t | None => TyUnit end in
        (Some b, Some args, answer_view rt (match beh with BReturn j => HOk j | BFail e => HErr e end))
      | None => (Some b, Some args, VFail)
      end
    end
  | RInvalid b c => (None, None, answer_view TyAny (HErr (err_invalid_params c)))
  | RUnsub _ _ => (None, None, VOk (JBool false))       (* not an active subscription id *)
  | RNotFound => (None, None, answer_view TyAny (HErr err_not_found))
  | RBadRequest => (None, None, VFail)
  end.

(* `stub`: the generated client method is_sub/idx of api a called with the typed arguments js *)
Definition run_stub (a : japi) (is_sub : bool) (idx : nat) (js : list json) (beh : behaviour) : case_out :=
  let none := CaseOut None None None VFail in
  if is_sub then
    match nth_error (a_subs a) idx with
    | None => none
    | Some s =>
      let name := rpc_identifier a (s_name s) in
      let unsub := rpc_identifier a (unsub_name s) in
      match client_params jty json jenc (s_pkind s) (s_params s) (args_of_json (s_params s) js) with
      | Builder.TOk p =>
        let text := Wire.ser_request {| Wire.rq_id := the_id; Wire.rq_method := name; Wire.rq_params := p |} in
        let '(h, args, v) := serve a text beh unsub in
        CaseOut (Some (name, p)) h args v
      | _ => none
      end
    end
  else
    match nth_error (a_methods a) idx with
    | None => none
    | Some m =>
      let name := rpc_identifier a (m_name m) in
      match client_params jty json jenc (m_pkind m) (m_params m) (args_of_json (m_params m) js) with
      | Builder.TOk p =>
        match m_ret m with
        | None => CaseOut (Some (name, p)) None None VNotif       (* self.notification(name, params) *)
        | Some _ =>
          let text := Wire.ser_request {| Wire.rq_id := the_id; Wire.rq_method := name; Wire.rq_params := p |} in
          let '(h, args, v) := serve a text beh [] in
          CaseOut (Some (name, p)) h args v
        end
      | _ => none
      end
    end.

(* `raw`: {"jsonrpc":"2.0","id":1,"method":name[,"params":params]} handed to the module *)
Definition run_raw (a : japi) (name : bytes) (params : option bytes) (beh : behaviour) (unsub : bytes) : case_out :=
  let text := b#"{""jsonrpc"":""2.0"",""id"":1,""method"":" ++ ser_str name ++
              match params with Some p => b#",""params"":" ++ p | None => [] end ++ b#"}" in
  let '(h, args, v) := serve a text beh unsub in
  CaseOut None h args v.
