(* C16 -- jsonrpsee-types `Params` / `ParamsSequence` (types/src/params.rs), transcribed:
     Params::new (str::trim), is_object, sequence (the "[]" shortcut), ParamsSequence::next_inner
     (first byte ']' / '[' / ',' / other; after '[' JSON whitespace is skipped and ']' ends the sequence;
      one value is read with serde_json's StreamDeserializer: leading ws, value, peek_end_of_value for
      values that are not self-delineated; self.0 = json[byte_offset..].trim_start()), next, optional_next,
     parse, one.
   Typed reads are modelled over a small universe of Rust types
     u64 | i64 | bool | String | serde_json::Value | Option<T> | Vec<T> | (T,U)
   as "parse one value with the strict parser (Json/JsonParse.v), then `decode` it at the type".
   Left out / modelled, not verified:
     - serde's typed deserialisation is modelled as strict-parse-then-decode (same accepted language and
       same consumed span for this universe: none of these types skips input leniently); which of several
       serde errors is reported is not modelled (every failure is the same -32602 error object; the `data`
       string of the error object is not modelled);
     - floats are lexemes (never interpreted): float literals outside the f64 range (1e999), which serde
       rejects, are outside the model;
     - rust_trim_end is the image of str::trim_end on VALID UTF-8 (a Rust &str always is);
     - borrowing (&str / Cow) and into_owned, len_bytes, as_str: no behaviour of interest. *)
From JV Require Import Base.Bytes Base.Dec Base.Utf8 Json.Json Json.JsonParse Gen.ErrorCodesGen.
Local Open Scope N_scope.

(* ---------- Unicode White_Space (char::is_whitespace) on UTF-8 ----------
   U+0009..000D, 0020 | 0085, 00A0 | 1680, 2000..200A, 2028, 2029, 202F, 205F, 3000 *)
Definition is_uws1 (c : byte) : bool := in_range 9 13 c || beqb c x20.
Definition is_uws2 (c d : byte) : bool := beqb c xc2 && (beqb d x85 || beqb d xa0).
Definition is_uws3 (c d e : byte) : bool :=
  (beqb c xe1 && beqb d x9a && beqb e x80)
  || (beqb c xe2 && beqb d x80 && (in_range 128 138 e || beqb e xa8 || beqb e xa9 || beqb e xaf))
  || (beqb c xe2 && beqb d x81 && beqb e x9f)
  || (beqb c xe3 && beqb d x80 && beqb e x80).

(* str::trim_start *)
Fixpoint rust_trim_start (s : bytes) : bytes :=
  match s with
  | [] => []
  | c :: s1 =>
    if is_uws1 c then rust_trim_start s1
    else
      match s1 with
      | [] => s
      | d :: s2 =>
        if is_uws2 c d then rust_trim_start s2
        else
          match s2 with
          | [] => s
          | e :: s3 => if is_uws3 c d e then rust_trim_start s3 else s
          end
      end
  end.

(* the same on the reversed text: the last char is White_Space iff its encoding is a suffix (valid UTF-8) *)
Fixpoint rev_trim (s : bytes) : bytes :=
  match s with
  | [] => []
  | c :: s1 =>
    if is_uws1 c then rev_trim s1
    else
      match s1 with
      | [] => s
      | d :: s2 =>
        if is_uws2 d c then rev_trim s2
        else
          match s2 with
          | [] => s
          | e :: s3 => if is_uws3 e d c then rev_trim s3 else s
          end
      end
  end.
Definition rust_trim_end (s : bytes) : bytes := rev (rev_trim (rev s)).
(* str::trim *)
Definition rust_trim (s : bytes) : bytes := rust_trim_end (rust_trim_start s).

(* ---------- the type universe and typed decoding of a parsed value ---------- *)
Inductive ty := TU64 | TI64 | TBool | TStr | TValue | TOpt (t : ty) | TVec (t : ty) | TPair (a b : ty).

Inductive val :=
| VU64 (n : N) | VI64 (z : Z) | VBool (b : bool) | VStr (s : bytes) | VValue (j : json)
| VNone | VSome (v : val) | VVec (l : list val) | VPair (a b : val).

Definition i64_max : N := 9223372036854775807%N.

Fixpoint map_opt {A B} (f : A -> option B) (l : list A) : option (list B) :=
  match l with
  | [] => Some []
  | x :: l' =>
    match f x with
    | Some y => match map_opt f l' with Some ys => Some (y :: ys) | None => None end
    | None => None
    end
  end.

Fixpoint decode (t : ty) (j : json) {struct t} : option val :=
  match t with
  | TU64 => match j with JNum (NPos n) => if n <=? u64_max then Some (VU64 n) else None | _ => None end
  | TI64 =>
    match j with
    | JNum (NPos n) => if n <=? i64_max then Some (VI64 (Z.of_N n)) else None
    | JNum (NNeg n) => if n <=? i64_min_abs then Some (VI64 (- Z.of_N n)) else None
    | _ => None
    end
  | TBool => match j with JBool b => Some (VBool b) | _ => None end
  | TStr => match j with JStr s => Some (VStr s) | _ => None end
  | TValue => Some (VValue j)
  | TOpt t' =>
    match j with
    | JNull => Some VNone                    (* deserialize_option: `null` is None, for every T *)
    | _ => match decode t' j with Some v => Some (VSome v) | None => None end
    end
  | TVec t' =>
    match j with
    | JArr l => match map_opt (decode t') l with Some vs => Some (VVec vs) | None => None end
    | _ => None
    end
  | TPair a b =>
    match j with
    | JArr [x; y] =>
      match decode a x, decode b y with
      | Some u, Some w => Some (VPair u w)
      | _, _ => None
      end
    | _ => None
    end
  end.

(* ---------- outcomes ---------- *)
Definition invalid_params : Z := code_of_kind KInvalidParams.   (* ErrorCode::InvalidParams.code() *)

Inductive out :=
| OVal (v : val)          (* Ok(v) / Ok(Some(v)) *)
| OAbsent                 (* optional_next: Ok(None) *)
| OErr (code : Z).        (* Err(ErrorObject { code, .. }) *)

(* ---------- serde_json::StreamDeserializer::next, first call ---------- *)
Definition self_delineated (c : byte) : bool := beqb c x5b || beqb c x22 || beqb c x7b.

(* peek_end_of_value: EOF, JSON whitespace or one of: double quote, [ ] { } comma, colon *)
Definition peek_end_ok (r : bytes) : bool :=
  match r with
  | [] => true
  | c :: _ =>
    is_json_ws c || beqb c x22 || beqb c x5b || beqb c x5d || beqb c x7b || beqb c x7d || beqb c x2c || beqb c x3a
  end.

Inductive sres :=
| SEnd                               (* only whitespace left: the iterator yields None *)
| SErr                               (* Some(Err(_)) *)
| SVal (v : val) (rest : bytes).     (* Some(Ok(v)); rest = json[byte_offset..] *)

Definition stream_next (t : ty) (json : bytes) : sres :=
  match skip_ws json with
  | [] => SEnd
  | c :: _ =>
    match parse_value (S (length json)) depth_limit json with
    | Some (j, r) =>
      match decode t j with
      | Some v => if self_delineated c || peek_end_ok r then SVal v r else SErr
      | None => SErr
      end
    | None => SErr
    end
  end.

(* ---------- ParamsSequence ---------- *)
Inductive inner :=
| INone                   (* None *)
| IErr                    (* Some(Err(invalid_params(..))) *)
| IOk (v : val).          (* Some(Ok(v)) *)

Definition after_delim (t : ty) (s json : bytes) : inner * bytes :=
  match stream_next t json with
  | SEnd => (INone, s)                         (* `iter.next()?` : self.0 is left untouched *)
  | SVal v r => (IOk v, rust_trim_start r)     (* self.0 = json[iter.byte_offset()..].trim_start() *)
  | SErr => (IErr, [])                         (* self.0 = "" *)
  end.

Definition next_inner (t : ty) (s : bytes) : inner * bytes :=
  match s with
  | [] => (INone, [])                                      (* json.as_bytes().first()? *)
  | c :: s1 =>
    if beqb c x5d then (INone, [])                         (* b']' => self.0 = ""; None *)
    else if beqb c x5b then                                (* b'[' *)
      match skip_ws s1 with                                (* trim_start_matches(JSON ws).starts_with(']') *)
      | c2 :: _ => if beqb c2 x5d then (INone, []) else after_delim t s s1
      | [] => after_delim t s s1
      end
    else if beqb c x2c then after_delim t s s1             (* b',' *)
    else (IErr, s)                                         (* "Expected one of '[', ']' or ','": self.0 untouched *)
  end.

(* next::<T> *)
Definition next (t : ty) (s : bytes) : out * bytes :=
  match next_inner t s with
  | (IOk v, s') => (OVal v, s')
  | (IErr, s') => (OErr invalid_params, s')
  | (INone, s') => (OErr invalid_params, s')               (* "No more params" *)
  end.

(* optional_next::<T> = next_inner::<Option<T>> *)
Definition optional_next (t : ty) (s : bytes) : out * bytes :=
  match next_inner (TOpt t) s with
  | (IOk (VSome v), s') => (OVal v, s')
  | (IOk _, s') => (OAbsent, s')                           (* Ok(None): the element is `null` *)
  | (IErr, s') => (OErr invalid_params, s')
  | (INone, s') => (OAbsent, s')
  end.

(* ---------- Params ---------- *)
Definition params := option bytes.        (* Params(Option<Cow<str>>) *)

Definition params_new (raw : option bytes) : params :=
  match raw with Some r => Some (rust_trim r) | None => None end.

Definition is_object (p : params) : bool :=
  match p with Some (c :: _) => beqb c x7b | _ => false end.

Definition sequence (p : params) : bytes :=
  match p with
  | Some j => if bytes_eqb j b#"[]" then [] else j
  | None => []
  end.

Definition result_of (o : option val) : out :=
  match o with Some v => OVal v | None => OErr invalid_params end.

Definition params_text (p : params) : bytes := match p with Some j => j | None => b#"null" end.

(* parse::<T> = serde_json::from_str(params or "null") *)
Definition parse (t : ty) (p : params) : out :=
  match parse_text (params_text p) with
  | Some j => result_of (decode t j)
  | None => OErr invalid_params
  end.

(* one::<T> = parse::<[T; 1]>().map(|[x]| x) *)
Definition one (t : ty) (p : params) : out :=
  match parse_text (params_text p) with
  | Some (JArr [x]) => result_of (decode t x)
  | _ => OErr invalid_params
  end.

(* ---------- read scripts: what a handler does with one Params ---------- *)
Inductive op := ONext (t : ty) | OOpt (t : ty).

Definition step (o : op) (s : bytes) : out * bytes :=
  match o with ONext t => next t s | OOpt t => optional_next t s end.

Fixpoint run (ops : list op) (s : bytes) : list out :=
  match ops with
  | [] => []
  | o :: ops' => let '(r, s') := step o s in r :: run ops' s'
  end.

(* params.sequence() followed by the reads *)
Definition read_seq (p : params) (ops : list op) : list out := run ops (sequence p).

(* the state after the reads (for the stickiness statement) *)
Fixpoint run_state (ops : list op) (s : bytes) : bytes :=
  match ops with
  | [] => s
  | o :: ops' => run_state ops' (snd (step o s))
  end.

(* ---------- reference semantics: reading the element list of a plain JSON parse ---------- *)
(* what a read yields once the sequence is exhausted (or dead) *)
Definition exhausted (o : op) : out :=
  match o with ONext _ => OErr invalid_params | OOpt _ => OAbsent end.

(* what a read yields at element v; None = the element does not have the requested type *)
Definition read_elem (o : op) (v : json) : option out :=
  match o with
  | ONext t => match decode t v with Some x => Some (OVal x) | None => None end
  | OOpt t =>
    match v with
    | JNull => Some OAbsent
    | _ => match decode t v with Some x => Some (OVal x) | None => None end
    end
  end.

(* reads against the remaining elements; after a failed read nothing is left *)
Fixpoint spec (ops : list op) (vs : list json) : list out :=
  match ops with
  | [] => []
  | o :: ops' =>
    match vs with
    | [] => exhausted o :: spec ops' []
    | v :: vs' =>
      match read_elem o v with
      | Some r => r :: spec ops' vs'
      | None => OErr invalid_params :: spec ops' []
      end
    end
  end.

Definition is_value (o : out) : bool := match o with OVal _ => true | _ => false end.
Definition is_error (o : out) : bool := match o with OErr _ => true | _ => false end.
