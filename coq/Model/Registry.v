(* C13 -- the method registry of core/src/server/rpc_module.rs: `Methods` (an `Arc<FxHashMap<&'static str,
   MethodCallback>>` with copy-on-write through `Arc::make_mut`) and the registration API of `RpcModule`.

   Transcribed (definitions only, proofs are in Proofs/RegistryFacts.v):
     Methods::verify_method_name, verify_and_insert, mut_callbacks (= Arc::make_mut), merge (verify every name of
     `other`, then move every entry), method / method_with_name / inner_call's lookup;
     RpcModule::register_method / register_async_method / register_blocking_method (all three are
     `verify_and_insert`), register_subscription / register_subscription_raw (verify_and_register_unsubscribe:
     `sub == unsub` first, then verify(sub), verify(unsub), insert(unsub), then verify_and_insert(sub)),
     register_alias (verify(alias), lookup(existing), insert(alias, clone of the callback)), remove_method,
     Clone for RpcModule (Arc clone: a new handle on the SAME allocation), RpcModule::new.

   Representation.
     * A handler is whatever closure the caller supplies: it is an INPUT of the registration call, represented by a
       natural `tag` (the harness registers closures that answer with their tag).  The two handlers a subscription
       registration installs (subscribe / unsubscribe) carry the same tag and the kinds KSub / KUnsub.
     * The hash map is an association list in insertion order; `hm_insert` is HashMap::insert (overwrite, or add).
       The iteration order of FxHashMap is NOT modelled: `method_names()` is compared after sorting, and the name
       carried by the AlreadyRegistered error of a failed `merge` (the first clash met in hash order) is compared only
       up to "is a name both modules have" (the model reports the first clash in its own order).
     * Sharing is explicit: `heap` holds the Arc allocations, a module is an index into it, the strong count of an
       allocation is the number of handles on it (+1 while `merge` holds the temporary clone of the other module).
       `make_mut` mutates in place when the count is 1 and otherwise copies into a fresh allocation and re-points the
       handle.  Note `verify_and_insert` and `remove_method` call `mut_callbacks()` BEFORE looking at the entry, so a
       failed `register_*` on a shared module still un-shares it (not observable through the API).

   Left out: what handlers do when called (C01/C04/C06), `Extensions`, the `ctx` Arc, dropping modules (allocations
   are never freed here: garbage is unobservable), `Methods::call/subscribe` decoding of the answer, weak counts
   (no `Weak` is ever created), the private drain of the consumed `other` map in `merge`. *)
From JV Require Import Base.Bytes.

Definition name := bytes.

Inductive kind := KSync | KAsync | KBlocking | KSub | KUnsub.
Record binding := Bind { b_tag : N; b_kind : kind }.

(* ---------- FxHashMap<&'static str, MethodCallback> ---------- *)
Definition methods := list (name * binding).

Fixpoint lookup (n : name) (ms : methods) : option binding :=
  match ms with
  | [] => None
  | (k, b) :: r => if bytes_eqb n k then Some b else lookup n r
  end.

Definition contains_key (n : name) (ms : methods) : bool :=
  match lookup n ms with Some _ => true | None => false end.

(* HashMap::insert: replaces the value of an existing key, adds otherwise *)
Fixpoint hm_insert (n : name) (b : binding) (ms : methods) : methods :=
  match ms with
  | [] => [(n, b)]
  | (k, v) :: r => if bytes_eqb n k then (k, b) :: r else (k, v) :: hm_insert n b r
  end.

(* HashMap::remove *)
Fixpoint hm_remove (n : name) (ms : methods) : methods :=
  match ms with
  | [] => []
  | (k, v) :: r => if bytes_eqb n k then hm_remove n r else (k, v) :: hm_remove n r
  end.

(* `for (name, callback) in other.drain() { callbacks.insert(name, callback) }` *)
Definition hm_extend (ms other : methods) : methods :=
  fold_left (fun acc e => hm_insert (fst e) (snd e) acc) other ms.

(* ---------- errors / requests / observations ---------- *)
Inductive rerr :=
| AlreadyRegistered (n : name)
| SubscriptionNameConflict (n : name)
| MethodNotFound (n : name).

Inductive reg :=
| RMethod (n : name) (h : N)                      (* register_method *)
| RAsync (n : name) (h : N)                       (* register_async_method *)
| RBlocking (n : name) (h : N)                    (* register_blocking_method *)
| RSub (raw : bool) (sub unsub : name) (h : N).   (* register_subscription / register_subscription_raw *)

Inductive op :=
| Reg (m : nat) (r : reg)
| Alias (m : nat) (alias existing : name)
| MergeMod (m : nat) (other : nat)          (* mods[m].merge(mods[other].clone()) *)
| MergeNew (m : nat) (rs : list reg)        (* mods[m].merge(fresh module built by rs) *)
| Remove (m : nat) (n : name)
| Clone (m : nat)
| New
| Call (m : nat) (n : name).

Inductive obs :=
| ORes (r : option rerr)                              (* Result<_, RegisterMethodError> *)
| OMergeNew (built : list (option rerr)) (r : option rerr)
| ORemoved (b : option binding)                       (* Option<MethodCallback> *)
| OHandle (i : nat)                                   (* index of the module just created *)
| OCall (b : option binding)                          (* None = -32601 method not found *)
| OBad.                                               (* the op names a module that does not exist *)

(* ---------- the Arc heap ---------- *)
Record state := State { heap : list methods; mods : list nat }.

Definition init : state := State [[]] [0%nat].       (* one RpcModule::new(()) *)

Definition nmods (s : state) : nat := length (mods s).
Definition cell_of (s : state) (m : nat) : nat := nth m (mods s) 0%nat.
Definition cell (s : state) (c : nat) : methods := nth c (heap s) [].
(* what module m holds; [] for a module that does not exist *)
Definition get (s : state) (m : nat) : methods :=
  if (m <? nmods s)%nat then cell s (cell_of s m) else [].
Definition view (s : state) : list methods := map (cell s) (mods s).

Fixpoint upd {A : Type} (i : nat) (f : A -> A) (l : list A) : list A :=
  match l, i with
  | [], _ => []
  | x :: r, O => f x :: r
  | x :: r, S i' => x :: upd i' f r
  end.

Fixpoint count (c : nat) (l : list nat) : nat :=
  match l with
  | [] => O
  | x :: r => if (x =? c)%nat then S (count c r) else count c r
  end.

(* Arc::strong_count; tmp = allocation held by a temporary handle that is not in `mods` *)
Definition refcount (s : state) (tmp : option nat) (c : nat) : nat :=
  (count c (mods s) + match tmp with Some c' => if (c' =? c)%nat then 1 else 0 | None => 0 end)%nat.

(* Arc::make_mut(&mut mods[m].callbacks): returns the (possibly new) state and the allocation now uniquely held *)
Definition make_mut (s : state) (m : nat) (tmp : option nat) : state * nat :=
  let c := cell_of s m in
  if (refcount s tmp c =? 1)%nat then (s, c)
  else (State (heap s ++ [cell s c]) (upd m (fun _ => length (heap s)) (mods s)), length (heap s)).

Definition set_cell (s : state) (c : nat) (v : methods) : state :=
  State (upd c (fun _ => v) (heap s)) (mods s).

(* ---------- Methods ---------- *)
Definition verify_method_name (s : state) (m : nat) (n : name) : option rerr :=
  if contains_key n (get s m) then Some (AlreadyRegistered n) else None.

Definition verify_and_insert (s : state) (m : nat) (n : name) (b : binding) : state * option rerr :=
  let (s1, c) := make_mut s m None in
  match lookup n (cell s1 c) with
  | Some _ => (s1, Some (AlreadyRegistered n))                       (* Entry::Occupied *)
  | None => (set_cell s1 c (hm_insert n b (cell s1 c)), None)        (* Entry::Vacant(v) => v.insert(callback) *)
  end.

(* self.mut_callbacks().insert(n, b) *)
Definition mut_insert (s : state) (m : nat) (n : name) (b : binding) : state :=
  let (s1, c) := make_mut s m None in set_cell s1 c (hm_insert n b (cell s1 c)).

Fixpoint first_clash (ms : methods) (names : list name) : option name :=
  match names with
  | [] => None
  | n :: r => if contains_key n ms then Some n else first_clash ms r
  end.

(* Methods::merge; `other` is owned by the call, `tmp` is the allocation it still shares (None for a fresh module) *)
Definition merge (s : state) (m : nat) (other : methods) (tmp : option nat) : state * option rerr :=
  match first_clash (get s m) (map fst other) with
  | Some n => (s, Some (AlreadyRegistered n))
  | None =>
    let (s1, c) := make_mut s m tmp in
    (set_cell s1 c (hm_extend (cell s1 c) other), None)
  end.

(* ---------- RpcModule ---------- *)
Definition register (s : state) (m : nat) (r : reg) : state * option rerr :=
  match r with
  | RMethod n h => verify_and_insert s m n (Bind h KSync)
  | RAsync n h => verify_and_insert s m n (Bind h KAsync)
  | RBlocking n h => verify_and_insert s m n (Bind h KBlocking)
  | RSub _ sn un h =>
    (* verify_and_register_unsubscribe *)
    if bytes_eqb sn un then (s, Some (SubscriptionNameConflict sn)) else
    match verify_method_name s m sn with
    | Some e => (s, Some e)
    | None =>
      match verify_method_name s m un with
      | Some e => (s, Some e)
      | None =>
        let s1 := mut_insert s m un (Bind h KUnsub) in
        verify_and_insert s1 m sn (Bind h KSub)
      end
    end
  end.

Definition register_alias (s : state) (m : nat) (a e : name) : state * option rerr :=
  match verify_method_name s m a with
  | Some er => (s, Some er)
  | None =>
    match lookup e (get s m) with
    | None => (s, Some (MethodNotFound e))
    | Some b => (mut_insert s m a b, None)
    end
  end.

Definition remove_method (s : state) (m : nat) (n : name) : state * option binding :=
  let (s1, c) := make_mut s m None in
  (set_cell s1 c (hm_remove n (cell s1 c)), lookup n (cell s1 c)).

Definition clone_module (s : state) (m : nat) : state := State (heap s) (mods s ++ [cell_of s m]).
Definition new_module (s : state) : state := State (heap s ++ [[]]) (mods s ++ [length (heap s)]).

(* a module built on the side: RpcModule::new(()) followed by the registrations rs (errors kept, as a caller
   that ignores them would) *)
Fixpoint build_from (s : state) (rs : list reg) : state * list (option rerr) :=
  match rs with
  | [] => (s, [])
  | r :: rs' =>
    let (s1, e) := register s 0%nat r in
    let (s2, es) := build_from s1 rs' in (s2, e :: es)
  end.
Definition build (rs : list reg) : methods * list (option rerr) :=
  let (s, es) := build_from init rs in (get s 0%nat, es).

Definition valid (s : state) (m : nat) : bool := (m <? nmods s)%nat.

Definition step (s : state) (o : op) : state * obs :=
  match o with
  | Reg m r => if valid s m then let (s1, e) := register s m r in (s1, ORes e) else (s, OBad)
  | Alias m a e => if valid s m then let (s1, r) := register_alias s m a e in (s1, ORes r) else (s, OBad)
  | MergeMod m j =>
    if valid s m && valid s j then
      let (s1, r) := merge s m (get s j) (Some (cell_of s j)) in (s1, ORes r)
    else (s, OBad)
  | MergeNew m rs =>
    if valid s m then
      let (other, es) := build rs in
      let (s1, r) := merge s m other None in (s1, OMergeNew es r)
    else (s, OBad)
  | Remove m n => if valid s m then let (s1, b) := remove_method s m n in (s1, ORemoved b) else (s, OBad)
  | Clone m => if valid s m then (clone_module s m, OHandle (nmods s)) else (s, OBad)
  | New => (new_module s, OHandle (nmods s))
  | Call m n => if valid s m then (s, OCall (lookup n (get s m))) else (s, OBad)
  end.

Definition exec (s : state) (os : list op) : state := fold_left (fun s o => fst (step s o)) os s.

(* ---------- what the drivers print ---------- *)
(* &str ordering = lexicographic on bytes *)
Fixpoint bytes_leb (a b : bytes) : bool :=
  match a, b with
  | [], _ => true
  | _ :: _, [] => false
  | x :: a', y :: b' =>
    if (bN x <? bN y)%N then true else if (bN y <? bN x)%N then false else bytes_leb a' b'
  end.

Fixpoint ins_sorted (e : name * binding) (l : methods) : methods :=
  match l with
  | [] => [e]
  | x :: r => if bytes_leb (fst e) (fst x) then e :: l else x :: ins_sorted e r
  end.
Definition sort_methods (ms : methods) : methods := fold_right ins_sorted [] ms.

(* every module, entries sorted by name *)
Definition dump (s : state) : list methods := map sort_methods (view s).

(* the whole trace of a sequence from the initial module: per op its observation and the dump after it *)
Fixpoint trace_from (s : state) (os : list op) : list (obs * list methods) :=
  match os with
  | [] => []
  | o :: os' => let (s1, ob) := step s o in (ob, dump s1) :: trace_from s1 os'
  end.
Definition run_trace (os : list op) : list (obs * list methods) := trace_from init os.
