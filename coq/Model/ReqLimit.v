(* C07 -- the request-size gate of the server, per entry point and transport.

   Which configuration value reaches which check is NOT written here: `ws_limit_of`, `http_limit_of`,
   `ws_reported_limit`, `http_reported_of` come from Gen/LimitsWiringGen.v, regenerated from the Rust sources on
   every run.  Hand-written here, transcribed from the code:

   * soketto 0.8 `Receiver::receive` (connection.rs:240-250): the accumulated payload length of a message is compared
     with `length > self.max_message_size`; on excess the payload is discarded from the socket and
     `Err(MessageTooLarge)` is returned, the receiver stays usable.  Only single-frame messages are modelled
     (fragmented messages: soketto discards the ACCUMULATED length although only the last frame is unread, which
     desynchronises the stream -- outside the property's quantifier and outside jsonrpsee, noted in the report);
   * server/src/transport/ws.rs `background_task` loop: on `MessageTooLarge` it sends the -32007 error with id null
     through the connection sink and `continue`s (breaks only when the sink is closed); any other message is
     handed to `handle_rpc_call` (= parsed and dispatched: that part is C01's model, here it is the event
     `EvDispatched`);
   * core/src/http_helpers.rs `read_body`: Content-Length (one header value that parses as u32, else 0) is
     compared with `body_size > max` -> `TooLarge` (413); then `http_body_util::Limited` (limited.rs:44-55):
     per data frame `if data.remaining() > remaining { error } else { remaining -= len }` -> `Stream` (500).
     Only the size decision is modelled; the first-frame sniffing / malformed bodies belong to C19 (HttpGate.v).
   * the bytes of the rejection: -32007 frame on WS, 413 body and 500 body on HTTP.

   Left out: ping/pong, connection close, graceful stop, the HTTP method / content-type gate (C19), hyper. *)
From JV Require Import Base.Bytes Base.Dec Json.Json Json.JsonSer Model.Wire Gen.LimitsWiringGen.
Local Open Scope N_scope.

Definition u32_max : N := 4294967295.

(* ---------- WebSocket ---------- *)

(* soketto: `if length > self.max_message_size { discard; return Err(MessageTooLarge) }` *)
Definition soketto_accepts (max_message_size length : N) : bool := negb (max_message_size <? length).

Inductive ws_ev :=
| EvDispatched (n : N)          (* message of n bytes handed to handle_rpc_call *)
| EvTooBig (reported : N)       (* -32007 "Request is too big" frame, data "Exceeded max limit of <reported>" *)
| EvClosed.                     (* loop left: Shutdown::ConnectionClosed *)

(* the receive loop of background_task over the sizes of the incoming (single-frame) messages *)
Fixpoint ws_loop (limit reported : N) (sink_open : bool) (msgs : list N) : list ws_ev :=
  match msgs with
  | [] => []
  | n :: rest =>
    if soketto_accepts limit n then EvDispatched n :: ws_loop limit reported sink_open rest
    else if sink_open then EvTooBig reported :: ws_loop limit reported sink_open rest   (* send_error ok; continue *)
    else [EvClosed]                                                                     (* send_error failed; break *)
  end.

Definition ws_session (e : ep) (c : cfg) (msgs : list N) : option (list ws_ev) :=
  match ws_limit_of e c with
  | Some l => Some (ws_loop l (ws_reported_limit c) true msgs)
  | None => None
  end.

(* is a single message of n bytes processed (parsed + dispatched) on this entry point? *)
Definition ws_processed (e : ep) (c : cfg) (n : N) : option bool :=
  match ws_limit_of e c with Some l => Some (soketto_accepts l n) | None => None end.

(* ---------- HTTP ---------- *)

Inductive http_res := HProcessed | HTooLarge413 (reported : N) | HStream500.

(* read_header_content_length: parse::<u32>() or 0 *)
Definition cl_value (cl : option N) : N :=
  match cl with Some n => if n <=? u32_max then n else 0 | None => 0 end.

(* Limited over the data-frame sizes *)
Fixpoint limited (remaining : N) (frames : list N) : bool :=
  match frames with
  | [] => true
  | f :: fs => if remaining <? f then false else limited (remaining - f) fs
  end.

Definition read_body_size (cl : option N) (frames : list N) (max reported : N) : http_res :=
  if read_body_precheck_limit max <? cl_value cl then HTooLarge413 reported
  else if limited (read_body_stream_limit max) frames then HProcessed
  else HStream500.

Definition http_result (e : ep) (c : cfg) (cl : option N) (frames : list N) : option http_res :=
  match http_limit_of e c, http_reported_of e c with
  | Some l, Some r => Some (read_body_size cl frames l r)
  | _, _ => None
  end.

Definition http_processed (e : ep) (c : cfg) (cl : option N) (frames : list N) : option bool :=
  match http_result e c cl frames with
  | Some HProcessed => Some true
  | Some _ => Some false
  | None => None
  end.

Definition sum_frames (frames : list N) : N := fold_right N.add 0 frames.

(* ---------- the bytes of the rejections ---------- *)
Definition exceeded_data (limit : N) : bytes := ser_str (b#"Exceeded max limit of " ++ print_N limit).

Definition too_big_request_error (limit : N) : errobj :=
  {| e_code := (-32007)%Z; e_message := b#"Request is too big"; e_data := Some (exceeded_data limit) |}.

Definition null_error_response (e : errobj) : bytes :=
  ser_response {| rs_jsonrpc := true; rs_payload := PError e; rs_id := IdNull |}.

(* MethodSink::send_error(Id::Null, reject_too_big_request(limit)) and http::response::too_large(limit) *)
Definition too_big_request_frame (limit : N) : bytes := null_error_response (too_big_request_error limit).
(* http::response::internal_error() *)
Definition internal_error_body : bytes :=
  null_error_response {| e_code := (-32603)%Z; e_message := b#"Internal error"; e_data := None |}.

Definition http_status (r : http_res) : N :=
  match r with HProcessed => 200 | HTooLarge413 _ => 413 | HStream500 => 500 end.
Definition http_reject_body (r : http_res) : option bytes :=
  match r with HProcessed => None | HTooLarge413 l => Some (too_big_request_frame l) | HStream500 => Some internal_error_body end.
