(* C07 -- the request-size gate of the server, per entry point and transport.

   Which configuration value reaches which check is NOT written here: `ws_limit_of`, `http_limit_of`,
   `ws_reported_limit`, `http_reported_of` come from Gen/LimitsWiringGen.v, regenerated from the Rust sources on
   every run.  Hand-written here, transcribed from the code:

   * soketto 0.8 `Receiver::receive` (connection.rs:240-250): the accumulated payload length of a message is compared
     with `length > self.max_message_size`; on excess the payload is discarded from the socket and
     `Err(MessageTooLarge)` is returned, the receiver stays usable.  `ws_loop` below is about single-frame
     messages; fragmented messages (soketto discards the ACCUMULATED length although only the last frame is unread)
     are the subject of the frame-level reader `ws_step` / `ws_read` at the end of this file;
   * server/src/transport/ws.rs `background_task` loop: on `MessageTooLarge` it sends the -32007 error with id null
     through the connection sink and `continue`s (breaks only when the sink is closed); any other message is
     handed to `handle_rpc_call` (= parsed and dispatched: that part is C01's model, here it is the event
     `EvDispatched`);
   * core/src/http_helpers.rs `read_body`: Content-Length (one header value that parses as u32, else 0) is
     compared with `body_size > max` -> `TooLarge` (413); then `http_body_util::Limited` (limited.rs:44-55):
     per data frame `if data.remaining() > remaining { error } else { remaining -= len }` -> `Stream` (500).
     Only the size decision is modelled; the first-frame sniffing / malformed bodies belong to C19 (HttpGate.v).
   * the bytes of the rejection: the reject_too_big_request frame on WS, 413 body and 500 body on HTTP; code, message
     and data prefix of the error objects are NOT written here: `reject_too_big_request_shape` /
     `from_internal_error_shape` of Gen/ErrorConstsGen.v (regenerated from types/src/error.rs), through Model/ErrShape.v.

   Left out: ping/pong, connection close, graceful stop, the HTTP method / content-type gate (C19), hyper. *)
From JV Require Import Base.Bytes Base.Dec Json.Json Json.JsonSer Model.Wire Model.ErrShape Gen.LimitsWiringGen
  Gen.ErrorConstsGen.
Local Open Scope N_scope.

Definition u32_max : N := 4294967295.

(* ---------- WebSocket ---------- *)

(* soketto: `if length > self.max_message_size { discard; return Err(MessageTooLarge) }` *)
Definition soketto_accepts (max_message_size length : N) : bool := negb (max_message_size <? length).

Inductive ws_ev :=
| EvDispatched (n : N)          (* message of n bytes handed to handle_rpc_call *)
| EvTooBig (reported : N)       (* the reject_too_big_request(reported) frame, id null *)
| EvClosed.                     (* loop left: Shutdown::ConnectionClosed *)

(* the receive loop of background_task over the sizes of the incoming (single-frame) messages *)
Fixpoint ws_loop (limit reported : N) (sink_open : bool) (msgs : list N) : list ws_ev :=
  match msgs with
  | [] => []
  | n :: rest =>
    if soketto_accepts limit n then EvDispatched n :: ws_loop limit reported sink_open rest
    else if sink_open then EvTooBig reported :: ws_loop limit reported sink_open rest   (* send_error ok; continue *)
    else [EvClosed]                                                                     (* send_error failed; break *)
  end.

Definition ws_session (e : ep) (c : cfg) (msgs : list N) : option (list ws_ev) :=
  match ws_limit_of e c with
  | Some l => Some (ws_loop l (ws_reported_limit c) true msgs)
  | None => None
  end.

(* is a single message of n bytes processed (parsed + dispatched) on this entry point? *)
Definition ws_processed (e : ep) (c : cfg) (n : N) : option bool :=
  match ws_limit_of e c with Some l => Some (soketto_accepts l n) | None => None end.

(* ---------- HTTP ---------- *)

Inductive http_res := HProcessed | HTooLarge413 (reported : N) | HStream500.

(* read_header_content_length: parse::<u32>() or 0 *)
Definition cl_value (cl : option N) : N :=
  match cl with Some n => if n <=? u32_max then n else 0 | None => 0 end.

(* Limited over the data-frame sizes *)
Fixpoint limited (remaining : N) (frames : list N) : bool :=
  match frames with
  | [] => true
  | f :: fs => if remaining <? f then false else limited (remaining - f) fs
  end.

Definition read_body_size (cl : option N) (frames : list N) (max reported : N) : http_res :=
  if read_body_precheck_limit max <? cl_value cl then HTooLarge413 reported
  else if limited (read_body_stream_limit max) frames then HProcessed
  else HStream500.

Definition http_result (e : ep) (c : cfg) (cl : option N) (frames : list N) : option http_res :=
  match http_limit_of e c, http_reported_of e c with
  | Some l, Some r => Some (read_body_size cl frames l r)
  | _, _ => None
  end.

Definition http_processed (e : ep) (c : cfg) (cl : option N) (frames : list N) : option bool :=
  match http_result e c cl frames with
  | Some HProcessed => Some true
  | Some _ => Some false
  | None => None
  end.

Definition sum_frames (frames : list N) : N := fold_right N.add 0 frames.

(* ---------- the bytes of the rejections ---------- *)
(* reject_too_big_request(limit) *)
Definition too_big_request_error (limit : N) : errobj := shape_err reject_too_big_request_shape limit.

Definition null_error_response (e : errobj) : bytes :=
  ser_response {| rs_jsonrpc := true; rs_payload := PError e; rs_id := IdNull |}.

(* MethodSink::send_error(Id::Null, reject_too_big_request(limit)) and http::response::too_large(limit) *)
Definition too_big_request_frame (limit : N) : bytes := null_error_response (too_big_request_error limit).
(* http::response::internal_error() *)
Definition internal_error_body : bytes :=
  null_error_response (fixed_err from_internal_error_shape).   (* ErrorCode::InternalError *)

Definition http_status (r : http_res) : N :=
  match r with HProcessed => 200 | HTooLarge413 _ => 413 | HStream500 => 500 end.
Definition http_reject_body (r : http_res) : option bytes :=
  match r with HProcessed => None | HTooLarge413 l => Some (too_big_request_frame l) | HStream500 => Some internal_error_body end.

(* ---------- pipelined messages and the bounded outgoing queue (the rejection under back-pressure) ----------

   server/src/transport/ws.rs `background_task` with the connection's outgoing channel
   (`mpsc::channel(message_buffer_capacity)`, ServerConfigBuilder::set_message_buffer_capacity, never 0) made explicit:
     * the receive loop reads one message at a time; an accepted message is moved into its own `tokio::spawn`ed task
       (the loop does not wait for it); for a message soketto refused (`MessageTooLarge`) the loop itself does
       `sink.send_error(Id::Null, reject_too_big_request(..)).await` -- it is PARKED until the channel has room, and
       reads nothing meanwhile;
     * a spawned task computes its reply (`handle_rpc_call`, C01's subject: here only "the normal outcome of message
       <id>") and then does `sink.send(json).await` -- parked until the channel has room;
     * `send_task` takes the replies out of the channel in order and writes them to the socket; when the peer does not
       read, the write blocks (= the step `StWrite` is not scheduled).
   Every interleaving is a run of `conn_step`; which parked sender gets a free slot is left open (tokio's semaphore is
   FIFO, nothing here depends on it).  A message is (id, size): the id only names "its" normal outcome. *)

Record pmsg := { pm_id : N; pm_size : N }.

Inductive preply :=
| PRejected (reported : N)      (* the reject_too_big_request(reported) frame, id null *)
| PAnswered (id : N).           (* the normal outcome of the in-limit message <id> *)

(* what one message is answered with, taken alone *)
Definition pipeline_outcome (limit reported : N) (m : pmsg) : preply :=
  if soketto_accepts limit (pm_size m) then PAnswered (pm_id m) else PRejected reported.

(* the per-message outcome for every message *)
Definition ws_pipeline_replies (c : cfg) (msgs : list pmsg) : list preply :=
  map (pipeline_outcome (max_request c) (max_request c)) msgs.

Record conn := {
  k_inbox : list pmsg;          (* written by the peer, not yet read by the receive loop *)
  k_parked : option preply;     (* the receive loop inside `sink.send_error(..).await` *)
  k_running : list preply;      (* spawned tasks that have not reached `sink.send` yet (with the reply they will produce) *)
  k_waiting : list preply;      (* spawned tasks inside `sink.send(..).await` *)
  k_queue : list preply;        (* the bounded channel *)
  k_wire : list preply          (* written to the socket by send_task, in order *)
}.

Definition conn_init (msgs : list pmsg) : conn :=
  {| k_inbox := msgs; k_parked := None; k_running := []; k_waiting := []; k_queue := []; k_wire := [] |}.

Definition queue_has_room (cap : N) (q : list preply) : bool := N.of_nat (length q) <? cap.

Inductive conn_step (limit reported cap : N) : conn -> conn -> Prop :=
| StRecvOk : forall m inbox run wait q w,            (* Receive::Ok -> tokio::spawn *)
    soketto_accepts limit (pm_size m) = true ->
    conn_step limit reported cap
      {| k_inbox := m :: inbox; k_parked := None; k_running := run; k_waiting := wait; k_queue := q; k_wire := w |}
      {| k_inbox := inbox; k_parked := None; k_running := run ++ [PAnswered (pm_id m)]; k_waiting := wait; k_queue := q; k_wire := w |}
| StRecvTooBig : forall m inbox run wait q w,        (* MessageTooLarge -> send_error(..).await begins *)
    soketto_accepts limit (pm_size m) = false ->
    conn_step limit reported cap
      {| k_inbox := m :: inbox; k_parked := None; k_running := run; k_waiting := wait; k_queue := q; k_wire := w |}
      {| k_inbox := inbox; k_parked := Some (PRejected reported); k_running := run; k_waiting := wait; k_queue := q; k_wire := w |}
| StLoopEnqueue : forall r inbox run wait q w,       (* send_error(..).await completes; `continue` *)
    queue_has_room cap q = true ->
    conn_step limit reported cap
      {| k_inbox := inbox; k_parked := Some r; k_running := run; k_waiting := wait; k_queue := q; k_wire := w |}
      {| k_inbox := inbox; k_parked := None; k_running := run; k_waiting := wait; k_queue := q ++ [r]; k_wire := w |}
| StTaskReady : forall r inbox p run1 run2 wait q w, (* a task has its reply: sink.send(..).await begins *)
    conn_step limit reported cap
      {| k_inbox := inbox; k_parked := p; k_running := run1 ++ r :: run2; k_waiting := wait; k_queue := q; k_wire := w |}
      {| k_inbox := inbox; k_parked := p; k_running := run1 ++ run2; k_waiting := wait ++ [r]; k_queue := q; k_wire := w |}
| StTaskEnqueue : forall r inbox p run wait1 wait2 q w,   (* sink.send(..).await completes *)
    queue_has_room cap q = true ->
    conn_step limit reported cap
      {| k_inbox := inbox; k_parked := p; k_running := run; k_waiting := wait1 ++ r :: wait2; k_queue := q; k_wire := w |}
      {| k_inbox := inbox; k_parked := p; k_running := run; k_waiting := wait1 ++ wait2; k_queue := q ++ [r]; k_wire := w |}
| StWrite : forall r inbox p run wait q w,           (* send_task: rx.next() + send_message *)
    conn_step limit reported cap
      {| k_inbox := inbox; k_parked := p; k_running := run; k_waiting := wait; k_queue := r :: q; k_wire := w |}
      {| k_inbox := inbox; k_parked := p; k_running := run; k_waiting := wait; k_queue := q; k_wire := w ++ [r] |}.

Inductive conn_steps (limit reported cap : N) : conn -> conn -> Prop :=
| StepsRefl : forall k, conn_steps limit reported cap k k
| StepsCons : forall k1 k2 k3, conn_step limit reported cap k1 k2 -> conn_steps limit reported cap k2 k3 -> conn_steps limit reported cap k1 k3.

(* nothing can move any more *)
Definition conn_stuck (limit reported cap : N) (k : conn) : Prop := forall k', ~ conn_step limit reported cap k k'.

(* One executable schedule, the one with the most back-pressure: the peer's reader is served (StWrite) only when
   nothing else can move.  Used by the model runner; `None` = nothing can move. *)
Definition conn_next (limit reported cap : N) (k : conn) : option conn :=
  let write :=
    match k_queue k with
    | r :: q => Some {| k_inbox := k_inbox k; k_parked := k_parked k; k_running := k_running k; k_waiting := k_waiting k;
                        k_queue := q; k_wire := k_wire k ++ [r] |}
    | [] => None
    end in
  match k_parked k, k_inbox k, k_running k with
  | None, m :: inbox, _ =>
    if soketto_accepts limit (pm_size m)
    then Some {| k_inbox := inbox; k_parked := None; k_running := k_running k ++ [PAnswered (pm_id m)]; k_waiting := k_waiting k;
                 k_queue := k_queue k; k_wire := k_wire k |}
    else Some {| k_inbox := inbox; k_parked := Some (PRejected reported); k_running := k_running k; k_waiting := k_waiting k;
                 k_queue := k_queue k; k_wire := k_wire k |}
  | _, _, r :: run =>
    Some {| k_inbox := k_inbox k; k_parked := k_parked k; k_running := run; k_waiting := k_waiting k ++ [r];
            k_queue := k_queue k; k_wire := k_wire k |}
  | p, _, [] =>
    if queue_has_room cap (k_queue k) then
      match k_waiting k, p with
      | r :: wait, _ =>       (* the tasks parked first go first: they were parked before the loop (FIFO) *)
        Some {| k_inbox := k_inbox k; k_parked := p; k_running := []; k_waiting := wait; k_queue := k_queue k ++ [r]; k_wire := k_wire k |}
      | [], Some r =>
        Some {| k_inbox := k_inbox k; k_parked := None; k_running := []; k_waiting := []; k_queue := k_queue k ++ [r]; k_wire := k_wire k |}
      | [], None => write
      end
    else write
  end.

Fixpoint conn_run (limit reported cap : N) (fuel : nat) (k : conn) : conn :=
  match fuel with
  | O => k
  | S f => match conn_next limit reported cap k with Some k' => conn_run limit reported cap f k' | None => k end
  end.

Definition conn_idle (k : conn) : bool :=
  match k_inbox k, k_parked k, k_running k, k_waiting k, k_queue k with
  | [], None, [], [], [] => true
  | _, _, _, _, _ => false
  end.

(* the run of a pipelined session on an entry point, under the schedule above: what reached the wire, whether the
   connection came to rest with nothing pending, and whether the receive loop was ever parked behind a full queue *)
Fixpoint conn_run_parked (limit reported cap : N) (fuel : nat) (k : conn) : bool :=
  match fuel with
  | O => false
  | S f =>
    match conn_next limit reported cap k with
    | Some k' =>
      (match k_parked k' with Some _ => negb (queue_has_room cap (k_queue k')) | None => false end)
      || conn_run_parked limit reported cap f k'
    | None => false
    end
  end.

Definition ws_pipeline_session (e : ep) (c : cfg) (cap : N) (msgs : list pmsg) : option (list preply * bool * bool) :=
  match ws_limit_of e c with
  | Some l =>
    let fuel := (4 * length msgs + 4)%nat in
    let k := conn_run l (ws_reported_limit c) cap fuel (conn_init msgs) in
    Some (k_wire k, conn_idle k, conn_run_parked l (ws_reported_limit c) cap fuel (conn_init msgs))
  | None => None
  end.

(* ---------- fragmented messages (RFC 6455 5.4): the frame-level reader ----------

   What the server does with a stream of client FRAMES, transcribed from
     * soketto 0.8.1 `Receiver::receive(&mut self, message: &mut Vec<u8>)` (connection.rs:212-331): per call the locals
       `first_fragment_opcode = None`, `length = 0`; loop { header; control frame: Ping is answered with a Pong and the loop
       goes on, a Pong makes the call RETURN `Incoming::Pong` (the locals are lost -- also between two fragments);
       data frame: `length += payload_len`; `if length > max_message_size { discard_bytes(length, reader); return
       Err(MessageTooLarge) }` -- `length` is the ACCUMULATED length while only this frame's payload is unread, so the
       payload AND `length - payload_len` further bytes of whatever follows on the socket are discarded (the call
       blocks until they have arrived); otherwise the payload is APPENDED to `message` and then the opcode / FIN bits are
       judged: continuation without a started message or a new Text frame inside one -> `Err(UnexpectedOpCode)`,
       FIN -> `Ok(Data)`, else next frame }.  Headers are read with exact sizes: nothing beyond a frame is buffered.
     * server/src/transport/ws.rs `background_task`: the `stream::unfold` closure calls `receive(&mut data)`; whether
       `data` is a Vec allocated inside the closure (per call) is read from the source: `ws_recv_buffer_fresh`
       (Gen/LimitsWiringGen.v).  `Ok(Data)` hands the WHOLE buffer to handle_rpc_call (event FDispatched);
       `Err(MessageTooLarge)` -> -32007 and `continue`; any other error -> `break Err(err)`: the connection is closed
       (FProtoErr); `Incoming::Pong` -> next call.
   `fresh = false` is the other policy: one buffer carried across the calls, emptied only when a message is handed out.
   A frame = what the client wrote: masked, minimal length encoding (header 6 / 8 / 14 bytes); `WRaw n` = n bytes that
   are not a frame (they only make sense while soketto is discarding).
   Left out: Close frames, binary vs text, reserved bits / oversized control frames (codec errors), extensions, what the
   bytes after a desynchronisation are parsed as (FDesync is final).

   Observed on the unchanged tree (replayed by the engine's naive scripts, which are diffed against this model), outside the
   property's single-frame quantifier -- upstream soketto 0.8.1 behaviour, nothing above the limit is dispatched in any of them:
     (1) limit crossed by fragment j > 1: `discard_bytes(length)` discards the ACCUMULATED length, i.e. acc = |f_1|+..+|f_(j-1)|
         bytes more than the unread payload of frame j: the -32007 is withheld until acc further bytes have arrived, those
         bytes (the rest of the message, the client's next messages) are swallowed, and unless exactly acc bytes lie before
         the next frame header the stream is left inside a frame (FDesync; on the code: garbage header, Close 1000, EOF);
     (2) limit crossed by a non-final fragment (also an oversized first fragment): after the -32007 the next continuation
         frame of the same message is `UnexpectedOpCode(Continue)` -> `break Err(err)`: connection closed -- unless that
         fragment is itself above the limit, then it is answered with another -32007 (one per such fragment);
     (3) an unsolicited Pong between two fragments (RFC 6455 5.4 allows it): soketto returns `Incoming::Pong` from inside
         the fragment loop, `first_fragment_opcode` / `length` are lost and -- fresh Vec per receive() call -- so are the
         fragments read so far; the next continuation frame is `UnexpectedOpCode(Continue)`: connection closed, the
         in-limit message is never processed.  (A Ping between fragments is answered inside the loop: harmless.) *)

Inductive wframe :=
| WData (start fin : bool) (payload : bytes)   (* start: opcode Text (or Binary); otherwise Continuation *)
| WPing (payload : bytes)
| WPong (payload : bytes)
| WRaw (n : N).

Definition client_header_len (n : N) : N := if n <? 126 then 6 else if n <=? 65535 then 8 else 14.

Definition wire_len (f : wframe) : N :=
  match f with
  | WData _ _ p | WPing p | WPong p => client_header_len (blen p) + blen p
  | WRaw n => n
  end.

Definition wire_total (fs : list wframe) : N := fold_right (fun f a => wire_len f + a) 0 fs.

Inductive fev :=
| FDispatched (text : bytes)    (* handed to handle_rpc_call: parsed and dispatched *)
| FTooBig (reported : N)        (* the reject_too_big_request(reported) frame, id null *)
| FPong (payload : bytes)       (* soketto's answer to a Ping *)
| FProtoErr                     (* UnexpectedOpCode: `break Err(err)`, the connection is closed *)
| FDesync                       (* the discard ended inside a frame / unframed bytes where a header is expected *)
| FStalled.                     (* the input ended while soketto still waits for bytes to discard: no rejection yet *)

Inductive rstate :=
| RHeader (infrag : bool) (len : N) (msg : bytes)   (* inside receive(), before a frame header: first_fragment_opcode.is_some(), length, message *)
| RDiscard (n : N) (msg : bytes).                   (* inside discard_bytes: n > 0 bytes still to be swallowed, then Err(MessageTooLarge) *)

Definition ws_init : rstate := RHeader false 0 [].

(* what the next receive() call finds in its buffer after a call that did not hand out a message *)
Definition kept (fresh : bool) (msg : bytes) : bytes := if fresh then [] else msg.

Definition ws_step (limit reported : N) (fresh : bool) (st : rstate) (f : wframe) : list fev * option rstate :=
  match st with
  | RDiscard n msg =>
    let w := wire_len f in
    if w <? n then ([], Some (RDiscard (n - w) msg))
    else if w =? n then ([FTooBig reported], Some (RHeader false 0 (kept fresh msg)))
    else ([FTooBig reported; FDesync], None)
  | RHeader infrag len msg =>
    match f with
    | WRaw n => if n =? 0 then ([], Some st) else ([FDesync], None)
    | WPing p => ([FPong p], Some st)
    | WPong _ => ([], Some (RHeader false 0 (kept fresh msg)))
    | WData start fin p =>
      let len' := len + blen p in
      if limit <? len' then
        if len =? 0 then ([FTooBig reported], Some (RHeader false 0 (kept fresh msg)))
        else ([], Some (RDiscard len msg))
      else if Bool.eqb start infrag then ([FProtoErr], None)
      else if fin then ([FDispatched (msg ++ p)], Some (RHeader false 0 []))
      else ([], Some (RHeader true len' (msg ++ p)))
    end
  end.

Fixpoint ws_run (limit reported : N) (fresh : bool) (st : rstate) (fs : list wframe) : list fev * option rstate :=
  match fs with
  | [] => ([], Some st)
  | f :: rest =>
    match ws_step limit reported fresh st f with
    | (evs, Some st') => let (evs', o) := ws_run limit reported fresh st' rest in (evs ++ evs', o)
    | (evs, None) => (evs, None)
    end
  end.

Definition ws_pending (o : option rstate) : list fev :=
  match o with Some (RDiscard _ _) => [FStalled] | _ => [] end.

Definition ws_read (limit reported : N) (fresh : bool) (fs : list wframe) : list fev :=
  let (evs, o) := ws_run limit reported fresh ws_init fs in evs ++ ws_pending o.

Definition ws_frag_session (e : ep) (c : cfg) (fs : list wframe) : option (list fev) :=
  match ws_limit_of e c with
  | Some l => Some (ws_read l (ws_reported_limit c) ws_recv_buffer_fresh fs)
  | None => None
  end.

(* the frames of one message cut into the fragments fr: Text first, Continuation afterwards, FIN on the last *)
Fixpoint cont_frames (ps : list bytes) : list wframe :=
  match ps with
  | [] => []
  | p :: ps' => WData false (match ps' with [] => true | _ => false end) p :: cont_frames ps'
  end.

Definition msg_frames (fr : list bytes) : list wframe :=
  match fr with
  | [] => []
  | p :: ps => WData true (match ps with [] => true | _ => false end) p :: cont_frames ps
  end.

(* the fragment that takes the accumulated length above the limit: (bytes accumulated before it, fragments after it) *)
Fixpoint split_cross (limit acc : N) (fr : list bytes) : option (N * list bytes) :=
  match fr with
  | [] => None
  | f :: rest => if limit <? acc + blen f then Some (acc, rest) else split_cross limit (acc + blen f) rest
  end.

(* the client stays in step with soketto's discard: after the message cut into fr it writes `filler` unframed bytes such
   that exactly the bytes soketto discards in excess of the offending frame (the accumulated length `acc` before it) lie
   between that frame and the next frame header -- the remaining fragments of the message count towards them *)
Definition in_step (limit : N) (fr : list bytes) (filler : N) : bool :=
  match split_cross limit 0 fr with
  | None => filler =? 0
  | Some (acc, post) => wire_total (cont_frames post) + filler =? acc
  end.

(* a run of frames that is one message: Text first, Continuations afterwards, Pings (and empty unframed writes) between
   the fragments allowed; its text and whether the FIN fragment is there *)
Fixpoint block_scan (infrag : bool) (fs : list wframe) : option (bytes * bool) :=
  match fs with
  | [] => if infrag then Some ([], false) else None
  | WData start fin p :: rest =>
    if Bool.eqb start infrag then None
    else if fin then match rest with [] => Some (p, true) | _ => None end
    else match block_scan true rest with Some (t, b) => Some (p ++ t, b) | None => None end
  | WPing _ :: rest => if infrag then block_scan true rest else None
  | WRaw n :: rest => if infrag && (n =? 0) then block_scan true rest else None
  | WPong _ :: _ => None
  end.

(* the text of a complete message *)
Definition block_text (fs : list wframe) : option bytes :=
  match block_scan false fs with Some (t, true) => Some t | _ => None end.
