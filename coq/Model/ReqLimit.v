(* C07 -- the request-size gate of the server, per entry point and transport.

   Which configuration value reaches which check is NOT written here: `ws_limit_of`, `http_limit_of`,
   `ws_reported_limit`, `http_reported_of` come from Gen/LimitsWiringGen.v, regenerated from the Rust sources on
   every run.  Hand-written here, transcribed from the code:

   * soketto 0.8 `Receiver::receive` (connection.rs:240-250): the accumulated payload length of a message is compared
     with `length > self.max_message_size`; on excess the payload is discarded from the socket and
     `Err(MessageTooLarge)` is returned, the receiver stays usable.  Only single-frame messages are modelled
     (fragmented messages: soketto discards the ACCUMULATED length although only the last frame is unread, which
     desynchronises the stream -- outside the property's quantifier and outside jsonrpsee, noted in the report);
   * server/src/transport/ws.rs `background_task` loop: on `MessageTooLarge` it sends the -32007 error with id null
     through the connection sink and `continue`s (breaks only when the sink is closed); any other message is
     handed to `handle_rpc_call` (= parsed and dispatched: that part is C01's model, here it is the event
     `EvDispatched`);
   * core/src/http_helpers.rs `read_body`: Content-Length (one header value that parses as u32, else 0) is
     compared with `body_size > max` -> `TooLarge` (413); then `http_body_util::Limited` (limited.rs:44-55):
     per data frame `if data.remaining() > remaining { error } else { remaining -= len }` -> `Stream` (500).
     Only the size decision is modelled; the first-frame sniffing / malformed bodies belong to C19 (HttpGate.v).
   * the bytes of the rejection: the reject_too_big_request frame on WS, 413 body and 500 body on HTTP; code, message
     and data prefix of the error objects are NOT written here: `reject_too_big_request_shape` /
     `from_internal_error_shape` of Gen/ErrorConstsGen.v (regenerated from types/src/error.rs), through Model/ErrShape.v.

   Left out: ping/pong, connection close, graceful stop, the HTTP method / content-type gate (C19), hyper. *)
From JV Require Import Base.Bytes Base.Dec Json.Json Json.JsonSer Model.Wire Model.ErrShape Gen.LimitsWiringGen
  Gen.ErrorConstsGen.
Local Open Scope N_scope.

Definition u32_max : N := 4294967295.

(* ---------- WebSocket ---------- *)

(* soketto: `if length > self.max_message_size { discard; return Err(MessageTooLarge) }` *)
Definition soketto_accepts (max_message_size length : N) : bool := negb (max_message_size <? length).

Inductive ws_ev :=
| EvDispatched (n : N)          (* message of n bytes handed to handle_rpc_call *)
| EvTooBig (reported : N)       (* the reject_too_big_request(reported) frame, id null *)
| EvClosed.                     (* loop left: Shutdown::ConnectionClosed *)

(* the receive loop of background_task over the sizes of the incoming (single-frame) messages *)
Fixpoint ws_loop (limit reported : N) (sink_open : bool) (msgs : list N) : list ws_ev :=
  match msgs with
  | [] => []
  | n :: rest =>
    if soketto_accepts limit n then EvDispatched n :: ws_loop limit reported sink_open rest
    else if sink_open then EvTooBig reported :: ws_loop limit reported sink_open rest   (* send_error ok; continue *)
    else [EvClosed]                                                                     (* send_error failed; break *)
  end.

Definition ws_session (e : ep) (c : cfg) (msgs : list N) : option (list ws_ev) :=
  match ws_limit_of e c with
  | Some l => Some (ws_loop l (ws_reported_limit c) true msgs)
  | None => None
  end.

(* is a single message of n bytes processed (parsed + dispatched) on this entry point? *)
Definition ws_processed (e : ep) (c : cfg) (n : N) : option bool :=
  match ws_limit_of e c with Some l => Some (soketto_accepts l n) | None => None end.

(* ---------- HTTP ---------- *)

Inductive http_res := HProcessed | HTooLarge413 (reported : N) | HStream500.

(* read_header_content_length: parse::<u32>() or 0 *)
Definition cl_value (cl : option N) : N :=
  match cl with Some n => if n <=? u32_max then n else 0 | None => 0 end.

(* Limited over the data-frame sizes *)
Fixpoint limited (remaining : N) (frames : list N) : bool :=
  match frames with
  | [] => true
  | f :: fs => if remaining <? f then false else limited (remaining - f) fs
  end.

Definition read_body_size (cl : option N) (frames : list N) (max reported : N) : http_res :=
  if read_body_precheck_limit max <? cl_value cl then HTooLarge413 reported
  else if limited (read_body_stream_limit max) frames then HProcessed
  else HStream500.

Definition http_result (e : ep) (c : cfg) (cl : option N) (frames : list N) : option http_res :=
  match http_limit_of e c, http_reported_of e c with
  | Some l, Some r => Some (read_body_size cl frames l r)
  | _, _ => None
  end.

Definition http_processed (e : ep) (c : cfg) (cl : option N) (frames : list N) : option bool :=
  match http_result e c cl frames with
  | Some HProcessed => Some true
  | Some _ => Some false
  | None => None
  end.

Definition sum_frames (frames : list N) : N := fold_right N.add 0 frames.

(* ---------- the bytes of the rejections ---------- *)
(* reject_too_big_request(limit) *)
Definition too_big_request_error (limit : N) : errobj := shape_err reject_too_big_request_shape limit.

Definition null_error_response (e : errobj) : bytes :=
  ser_response {| rs_jsonrpc := true; rs_payload := PError e; rs_id := IdNull |}.

(* MethodSink::send_error(Id::Null, reject_too_big_request(limit)) and http::response::too_large(limit) *)
Definition too_big_request_frame (limit : N) : bytes := null_error_response (too_big_request_error limit).
(* http::response::internal_error() *)
Definition internal_error_body : bytes :=
  null_error_response (fixed_err from_internal_error_shape).   (* ErrorCode::InternalError *)

Definition http_status (r : http_res) : N :=
  match r with HProcessed => 200 | HTooLarge413 _ => 413 | HStream500 => 500 end.
Definition http_reject_body (r : http_res) : option bytes :=
  match r with HProcessed => None | HTooLarge413 l => Some (too_big_request_frame l) | HStream500 => Some internal_error_body end.

(* ---------- pipelined messages and the bounded outgoing queue (the rejection under back-pressure) ----------

   server/src/transport/ws.rs `background_task` with the connection's outgoing channel
   (`mpsc::channel(message_buffer_capacity)`, ServerConfigBuilder::set_message_buffer_capacity, never 0) made explicit:
     * the receive loop reads one message at a time; an accepted message is moved into its own `tokio::spawn`ed task
       (the loop does not wait for it); for a message soketto refused (`MessageTooLarge`) the loop itself does
       `sink.send_error(Id::Null, reject_too_big_request(..)).await` -- it is PARKED until the channel has room, and
       reads nothing meanwhile;
     * a spawned task computes its reply (`handle_rpc_call`, C01's subject: here only "the normal outcome of message
       <id>") and then does `sink.send(json).await` -- parked until the channel has room;
     * `send_task` takes the replies out of the channel in order and writes them to the socket; when the peer does not
       read, the write blocks (= the step `StWrite` is not scheduled).
   Every interleaving is a run of `conn_step`; which parked sender gets a free slot is left open (tokio's semaphore is
   FIFO, nothing here depends on it).  A message is (id, size): the id only names "its" normal outcome. *)

Record pmsg := { pm_id : N; pm_size : N }.

Inductive preply :=
| PRejected (reported : N)      (* the reject_too_big_request(reported) frame, id null *)
| PAnswered (id : N).           (* the normal outcome of the in-limit message <id> *)

(* what one message is answered with, taken alone *)
Definition pipeline_outcome (limit reported : N) (m : pmsg) : preply :=
  if soketto_accepts limit (pm_size m) then PAnswered (pm_id m) else PRejected reported.

(* the per-message outcome for every message *)
Definition ws_pipeline_replies (c : cfg) (msgs : list pmsg) : list preply :=
  map (pipeline_outcome (max_request c) (max_request c)) msgs.

Record conn := {
  k_inbox : list pmsg;          (* written by the peer, not yet read by the receive loop *)
  k_parked : option preply;     (* the receive loop inside `sink.send_error(..).await` *)
  k_running : list preply;      (* spawned tasks that have not reached `sink.send` yet (with the reply they will produce) *)
  k_waiting : list preply;      (* spawned tasks inside `sink.send(..).await` *)
  k_queue : list preply;        (* the bounded channel *)
  k_wire : list preply          (* written to the socket by send_task, in order *)
}.

Definition conn_init (msgs : list pmsg) : conn :=
  {| k_inbox := msgs; k_parked := None; k_running := []; k_waiting := []; k_queue := []; k_wire := [] |}.

Definition queue_has_room (cap : N) (q : list preply) : bool := N.of_nat (length q) <? cap.

Inductive conn_step (limit reported cap : N) : conn -> conn -> Prop :=
| StRecvOk : forall m inbox run wait q w,            (* Receive::Ok -> tokio::spawn *)
    soketto_accepts limit (pm_size m) = true ->
    conn_step limit reported cap
      {| k_inbox := m :: inbox; k_parked := None; k_running := run; k_waiting := wait; k_queue := q; k_wire := w |}
      {| k_inbox := inbox; k_parked := None; k_running := run ++ [PAnswered (pm_id m)]; k_waiting := wait; k_queue := q; k_wire := w |}
| StRecvTooBig : forall m inbox run wait q w,        (* MessageTooLarge -> send_error(..).await begins *)
    soketto_accepts limit (pm_size m) = false ->
    conn_step limit reported cap
      {| k_inbox := m :: inbox; k_parked := None; k_running := run; k_waiting := wait; k_queue := q; k_wire := w |}
      {| k_inbox := inbox; k_parked := Some (PRejected reported); k_running := run; k_waiting := wait; k_queue := q; k_wire := w |}
| StLoopEnqueue : forall r inbox run wait q w,       (* send_error(..).await completes; `continue` *)
    queue_has_room cap q = true ->
    conn_step limit reported cap
      {| k_inbox := inbox; k_parked := Some r; k_running := run; k_waiting := wait; k_queue := q; k_wire := w |}
      {| k_inbox := inbox; k_parked := None; k_running := run; k_waiting := wait; k_queue := q ++ [r]; k_wire := w |}
| StTaskReady : forall r inbox p run1 run2 wait q w, (* a task has its reply: sink.send(..).await begins *)
    conn_step limit reported cap
      {| k_inbox := inbox; k_parked := p; k_running := run1 ++ r :: run2; k_waiting := wait; k_queue := q; k_wire := w |}
      {| k_inbox := inbox; k_parked := p; k_running := run1 ++ run2; k_waiting := wait ++ [r]; k_queue := q; k_wire := w |}
| StTaskEnqueue : forall r inbox p run wait1 wait2 q w,   (* sink.send(..).await completes *)
    queue_has_room cap q = true ->
    conn_step limit reported cap
      {| k_inbox := inbox; k_parked := p; k_running := run; k_waiting := wait1 ++ r :: wait2; k_queue := q; k_wire := w |}
      {| k_inbox := inbox; k_parked := p; k_running := run; k_waiting := wait1 ++ wait2; k_queue := q ++ [r]; k_wire := w |}
| StWrite : forall r inbox p run wait q w,           (* send_task: rx.next() + send_message *)
    conn_step limit reported cap
      {| k_inbox := inbox; k_parked := p; k_running := run; k_waiting := wait; k_queue := r :: q; k_wire := w |}
      {| k_inbox := inbox; k_parked := p; k_running := run; k_waiting := wait; k_queue := q; k_wire := w ++ [r] |}.

Inductive conn_steps (limit reported cap : N) : conn -> conn -> Prop :=
| StepsRefl : forall k, conn_steps limit reported cap k k
| StepsCons : forall k1 k2 k3, conn_step limit reported cap k1 k2 -> conn_steps limit reported cap k2 k3 -> conn_steps limit reported cap k1 k3.

(* nothing can move any more *)
Definition conn_stuck (limit reported cap : N) (k : conn) : Prop := forall k', ~ conn_step limit reported cap k k'.

(* One executable schedule, the one with the most back-pressure: the peer's reader is served (StWrite) only when
   nothing else can move.  Used by the model runner; `None` = nothing can move. *)
Definition conn_next (limit reported cap : N) (k : conn) : option conn :=
  let write :=
    match k_queue k with
    | r :: q => Some {| k_inbox := k_inbox k; k_parked := k_parked k; k_running := k_running k; k_waiting := k_waiting k;
                        k_queue := q; k_wire := k_wire k ++ [r] |}
    | [] => None
    end in
  match k_parked k, k_inbox k, k_running k with
  | None, m :: inbox, _ =>
    if soketto_accepts limit (pm_size m)
    then Some {| k_inbox := inbox; k_parked := None; k_running := k_running k ++ [PAnswered (pm_id m)]; k_waiting := k_waiting k;
                 k_queue := k_queue k; k_wire := k_wire k |}
    else Some {| k_inbox := inbox; k_parked := Some (PRejected reported); k_running := k_running k; k_waiting := k_waiting k;
                 k_queue := k_queue k; k_wire := k_wire k |}
  | _, _, r :: run =>
    Some {| k_inbox := k_inbox k; k_parked := k_parked k; k_running := run; k_waiting := k_waiting k ++ [r];
            k_queue := k_queue k; k_wire := k_wire k |}
  | p, _, [] =>
    if queue_has_room cap (k_queue k) then
      match k_waiting k, p with
      | r :: wait, _ =>       (* the tasks parked first go first: they were parked before the loop (FIFO) *)
        Some {| k_inbox := k_inbox k; k_parked := p; k_running := []; k_waiting := wait; k_queue := k_queue k ++ [r]; k_wire := k_wire k |}
      | [], Some r =>
        Some {| k_inbox := k_inbox k; k_parked := None; k_running := []; k_waiting := []; k_queue := k_queue k ++ [r]; k_wire := k_wire k |}
      | [], None => write
      end
    else write
  end.

Fixpoint conn_run (limit reported cap : N) (fuel : nat) (k : conn) : conn :=
  match fuel with
  | O => k
  | S f => match conn_next limit reported cap k with Some k' => conn_run limit reported cap f k' | None => k end
  end.

Definition conn_idle (k : conn) : bool :=
  match k_inbox k, k_parked k, k_running k, k_waiting k, k_queue k with
  | [], None, [], [], [] => true
  | _, _, _, _, _ => false
  end.

(* the run of a pipelined session on an entry point, under the schedule above: what reached the wire, whether the
   connection came to rest with nothing pending, and whether the receive loop was ever parked behind a full queue *)
Fixpoint conn_run_parked (limit reported cap : N) (fuel : nat) (k : conn) : bool :=
  match fuel with
  | O => false
  | S f =>
    match conn_next limit reported cap k with
    | Some k' =>
      (match k_parked k' with Some _ => negb (queue_has_room cap (k_queue k')) | None => false end)
      || conn_run_parked limit reported cap f k'
    | None => false
    end
  end.

Definition ws_pipeline_session (e : ep) (c : cfg) (cap : N) (msgs : list pmsg) : option (list preply * bool * bool) :=
  match ws_limit_of e c with
  | Some l =>
    let fuel := (4 * length msgs + 4)%nat in
    let k := conn_run l (ws_reported_limit c) cap fuel (conn_init msgs) in
    Some (k_wire k, conn_idle k, conn_run_parked l (ws_reported_limit c) cap fuel (conn_init msgs))
  | None => None
  end.
