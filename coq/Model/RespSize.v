(* C08 -- how a response is bounded by max_response_body_size.
   Transcribed from core/src/server/method_response.rs:

   * `BoundedWriter::write`: `let len = self.buf.len() + buf.len(); if self.max_len >= len { extend } else { Err(io) }`
     -- `bounded_write` runs it over a LIST OF CHUNKS: serde_json decides how the serialisation is split into
     `write` calls; the theorems quantify over every chunking of the same bytes;
   * `MethodResponse::response(id, payload, max)`: serialise `Response::new(payload, id)` into the bounded writer;
     Ok -> those bytes; io error -> the oversized-response error object (code, message and the prefix of its data
     string "<prefix><max>" are `oversized_response_shape`, read from that very arm by tools/translators/error_consts.py)
     with the call's id, built WITHOUT a size check; a non-io serialiser error -> ErrorCode::InternalError with the call's id.  The byte layout `{"jsonrpc":"2.0","id":<id>,"result":<raw>}` /
     `...,"error":{"code":..,"message":..[,"data":..]}}` is `Wire.ser_response` (C15's model, diffed against the code);
   * `MethodResponse::error(id, err)`: the same layout, no size check;
   * `BatchResponseBuilder::{new_with_limit, append, finish}` and the loop of `RpcService::batch`.

   Server level (which limit a call's response is built with) comes from Gen/LimitsWiringGen.v: `callback_limit`
   is generated from the arms of `RpcService::call`, `ws_svc_limit_of`/`sink_limit_of` from the entry points.  The
   subscribe path IS in the model: `PendingSubscriptionSink::accept` builds its response with
   `self.inner.max_response_size()`, the limit of the connection sink (`MethodSink::new` = u32::MAX).

   Payloads are raw JSON texts (what the handler's `Serialize` emits); `RFail partial` is a serialiser that emits
   `partial` and then fails.  Left out: extensions, `on_close` notification, `ResponseKind` flags, subscription
   notifications (not responses to a call).

   No protocol constant is written here: codes, messages and data prefixes of the library's error objects come from
   Gen/ErrorConstsGen.v (regenerated from types/src/error.rs and method_response.rs), through Model/ErrShape.v. *)
From JV Require Import Base.Bytes Base.Dec Json.Json Json.JsonSer Model.Wire Model.ErrShape Gen.LimitsWiringGen
  Gen.ErrorConstsGen.
Local Open Scope N_scope.

(* ---------- BoundedWriter ---------- *)
Fixpoint bw_loop (buf : bytes) (chunks : list bytes) (max : N) : option bytes :=
  match chunks with
  | [] => Some buf
  | c :: cs => if blen buf + blen c <=? max then bw_loop (buf ++ c) cs max else None
  end.

Definition bounded_write (chunks : list bytes) (max : N) : option bytes := bw_loop [] chunks max.

(* ---------- MethodResponse ---------- *)
Inductive rpayload :=
| RResult (raw : bytes)        (* ResponsePayload::Success(t), t serialises to raw *)
| RError (e : errobj)          (* ResponsePayload::Error(e) *)
| RFail (partial : bytes).     (* Success(t) whose Serialize emits `partial`, then fails (non-io error) *)

Inductive flag := FSuccess | FFailed (code : Z).

Definition mk_response (i : id) (p : payload) : bytes :=
  ser_response {| rs_jsonrpc := true; rs_payload := p; rs_id := i |}.

(* everything serde_json hands to the writer for Response::new(payload, id) (up to the failure for RFail) *)
Definition full_ser (i : id) (p : rpayload) : bytes :=
  match p with
  | RResult raw => mk_response i (PResult raw)
  | RError e => mk_response i (PError e)
  | RFail partial => b#"{""jsonrpc"":""2.0"",""id"":" ++ ser_id i ++ b#",""result"":" ++ partial
  end.

(* the io-error arm of MethodResponse::response *)
Definition oversized_response_error (max : N) : errobj := shape_err oversized_response_shape max.
(* ErrorObject::from(ErrorCode::InternalError) / ::InvalidRequest *)
Definition internal_error : errobj := fixed_err from_internal_error_shape.
Definition invalid_request_error : errobj := fixed_err from_invalid_request_shape.
(* reject_too_big_batch_response(max) *)
Definition too_big_batch_response_error (max : N) : errobj := shape_err reject_too_big_batch_response_shape max.

(* MethodResponse::error(id, err) *)
Definition error_response (i : id) (e : errobj) : bytes := mk_response i (PError e).

(* MethodResponse::response, the serialisation arriving at the writer as `chunks` *)
Definition method_response_chunked (chunks : list bytes) (i : id) (p : rpayload) (max : N) : bytes * flag :=
  match bounded_write chunks max with
  | Some b =>
    match p with
    | RResult _ => (b, FSuccess)
    | RError e => (b, FFailed (e_code e))
    | RFail _ => (error_response i internal_error, FFailed (sh_code from_internal_error_shape))
    end
  | None => (error_response i (oversized_response_error max), FFailed (sh_code oversized_response_shape))
  end.

Definition method_response (i : id) (p : rpayload) (max : N) : bytes * flag :=
  method_response_chunked [full_ser i p] i p max.

(* ---------- BatchResponseBuilder ---------- *)
Definition batch_new : bytes := [x5b].

(* `let len = response.len() + self.result.len() + 1; if len > max { Err(-32011) } else { push_str; push(',') }` *)
Definition append (buf : bytes) (max : N) (r : bytes) : option bytes :=
  if max <? blen r + blen buf + 1 then None else Some (buf ++ r ++ [x2c]).

Definition too_big_batch (max : N) : bytes := error_response IdNull (too_big_batch_response_error max).

(* `if self.result.len() == 1 { -32600 id null } else { pop(); push(']') }` *)
Definition finish (buf : bytes) : bytes :=
  match buf with
  | [_] => error_response IdNull invalid_request_error
  | _ => removelast buf ++ [x5d]
  end.

(* the loop of RpcService::batch over the entries' responses (notifications append nothing) *)
Fixpoint batch_loop (buf : bytes) (max : N) (rs : list bytes) : option bytes :=
  match rs with
  | [] => Some buf
  | r :: rs' => match append buf max r with Some b => batch_loop b max rs' | None => None end
  end.

Definition batch_response (max : N) (rs : list bytes) : bytes :=
  match batch_loop batch_new max rs with Some b => finish b | None => too_big_batch max end.

(* the JSON array of the entries' responses *)
Definition array_of (rs : list bytes) : bytes := x5b :: join [x2c] rs ++ [x5d].

(* index of the first entry whose append fails (for the engine's output) *)
Fixpoint batch_fail_index (buf : bytes) (max : N) (rs : list bytes) (k : N) : option N :=
  match rs with
  | [] => None
  | r :: rs' => match append buf max r with Some b => batch_fail_index b max rs' (k + 1) | None => Some k end
  end.

(* ---------- server level: which limit a call's response is built with ---------- *)
(* a call on a WS connection of entry point e, dispatched to a callback of kind k *)
Definition ws_call_limit (e : ep) (c : cfg) (k : cbkind) : option N :=
  match ws_svc_limit_of e c, sink_limit_of e c with
  | Some svc, Some sink => Some (callback_limit k svc sink)
  | _, _ => None
  end.

Definition ws_call_reply (e : ep) (c : cfg) (k : cbkind) (i : id) (p : rpayload) : option (bytes * flag) :=
  match ws_call_limit e c k with Some l => Some (method_response i p l) | None => None end.

Definition http_call_reply (e : ep) (c : cfg) (i : id) (p : rpayload) : option (bytes * flag) :=
  match http_svc_limit_of e c with Some l => Some (method_response i p l) | None => None end.

Definition ws_batch_reply (e : ep) (c : cfg) (rs : list bytes) : option bytes :=
  match ws_svc_limit_of e c with Some svc => Some (batch_response (batch_limit svc) rs) | None => None end.
Definition http_batch_reply (e : ep) (c : cfg) (rs : list bytes) : option bytes :=
  match http_svc_limit_of e c with Some svc => Some (batch_response (batch_limit svc) rs) | None => None end.

(* the library's fixed error objects that are built without a size check (MethodResponse::error) *)
Definition fixed_errors (lim : N) : list errobj :=
  [ fixed_err from_parse_error_shape;
    invalid_request_error;
    fixed_err from_method_not_found_shape;
    internal_error;
    fixed_err (batches_not_supported_code, batches_not_supported_msg, None);
    shape_err reject_too_many_subscriptions_shape lim;
    shape_err reject_too_big_request_shape lim;
    oversized_response_error lim;
    shape_err reject_too_big_batch_request_shape lim;
    too_big_batch_response_error lim ].
