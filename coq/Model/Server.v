(* C01 / C02 -- how the server answers ONE delivered message (a single call or a batch), over HTTP and WebSocket.

   Transcribed from
   * server/src/transport/ws.rs background_task (the per-message task: sniff the first non-whitespace byte in
     a window, `handle_rpc_call(&data[idx..], is_single, ..)`, send the result iff `is_method_call() || is_batch()`),
   * core/src/http_helpers.rs read_body (same sniff on the body) + server/src/transport/http.rs call_with_service
     (unsniffable -> 400 + -32700/null; otherwise 200 with the MethodResponse's json as body -- `null` for a
     notification),
   * server/src/server.rs handle_rpc_call: single = try Request, then Notification, then prepare_error
     (InvalidRequest{id} -> -32600 with that id, else -32700/null); batch = the prologue and epilogue lists of
     Gen/BatchGateGen.v, INTERPRETED here (run_gate / run_epilogue): which check comes first, what each rejects
     with, how the length is compared with the limit and where an empty array gets its answer are read from the
     source on every check by tools/translators/batch_gate.py (alphabet: Model/BatchGate.v); for the source now:
     Disabled gate, `Vec<&RawValue>`, length gate (len > limit), per entry Request / Notification /
     InvalidRequest{id} (else id null) -> -32600, after the loop: only notifications -> nothing, nothing appended
     -> -32600/null, else the closed array,
   * server/src/middleware/rpc.rs RpcService::{call, batch, notification} (a notification runs NO handler; the batch
     loop returns the -32011 error as soon as an append fails, later entries are not executed),
   * core/src/server/rpc_module.rs callbacks (sync / async / blocking: `MethodResponse::response(id, rp, max)`;
     blocking join error -> -32603 with the call's id), register_subscription + PendingSubscriptionSink::
     {accept, reject} (the response is written to the connection sink directly AND returned to the caller),
   * core/src/server/method_response.rs through Model/RespSize.v (C08: bounded writer, batch builder).

   Message classification uses Wire.v's map readers.  serde's derived struct visitors also accept the SEQUENCE
   form `[jsonrpc,id,method,params]` / `[jsonrpc,method,params]` / `[id]` (Wire.v seq_request ...); that was reachable for batch entries
   until the repair "only JSON objects are batch entries" (fixes/C02.patch) put `starts_with('{')` in front of the
   three attempts.  The model is the REPAIRED loop; `classify_old` / `classify_entry_old` keep the former reading
   for the witness lemma C02_seq_refuted_old.

   No protocol constant is written here: the codes and messages of the library's error objects are the constants of
   Gen/ErrorConstsGen.v (tools/translators/error_consts.py, from types/src/error.rs), through Model/ErrShape.v.

   User behaviour is a Section variable: `h method params : hres`.
     HOk raw        the handler's value serialises to `raw`
     HErr c m d     it returned Err(ErrorObject{code c, message m, data d})
     HBadParams d   its params decoding failed (ErrorCode::InvalidParams, data d = the serde message as a JSON string)
     HPanic         it panicked.  ONLY meaningful for KBlocking (spawn_blocking join error -> -32603 with the id);
                    a panic inside a sync/async handler unwinds the task that polls it and is outside the model:
                    every theorem about replies assumes `panics_only_blocking`.
   For KSub, `HOk raw` = the handler accepts (raw = the subscription id as JSON), anything else = it rejects with
   that error.  For KUnsub there is no user handler: the library callback's answer (`true`/`false`, a function of
   the subscription table, C04/C06) is abstracted as `h`'s value and nothing is logged.

   Left out: request-size limit (C07: messages are within max_request_body_size), the too-many-subscriptions
   refusal (C06), a subscription handler that neither accepts nor rejects (-32603 via the normal path), subscription
   notifications after accept (C04), extensions / middleware layers, ping/pong, connection shutdown, HTTP bodies
   arriving in several frames and the method/content-type gate (C19), concurrency between the per-message tasks of
   one WS connection (each message is handled by its own task; replies of different messages may interleave). *)
From JV Require Import Base.Bytes Base.Dec Base.Utf8 Json.Json Json.JsonSer Json.JsonParse Model.Wire Model.ErrShape
  Model.RespSize Model.BatchGate Gen.SniffGen Gen.ErrorConstsGen Gen.BatchGateGen.
Local Open Scope N_scope.

(* ---------- array texts as element spans: Wire.v `array_elems` (Vec<&RawValue>; also what the sequence form of the
   derived structs is read from) ---------- *)

(* serde_json::from_slice::<Vec<&RawValue>>: every element span must be UTF-8 *)
Definition batch_elems (s : bytes) : option (list bytes) :=
  match array_elems s with
  | Some es => if forallb utf8_valid es then Some es else None
  | None => None
  end.

Inductive msgclass := Call (r : request) | Notif | Invalid (i : id) | ParseErr.

(* exactly as the code tries things: Request, then Notification, then InvalidRequest{id}.
   Only ever applied to texts whose first byte is '{' (the sniffed single body; a batch entry that passed the
   `starts_with('{')` guard), where the derived visitors take the map form: Wire.v's object readers. *)
Definition classify (t : bytes) : msgclass :=
  match object_members t with
  | Some m =>
    match as_request m with
    | Some r => Call r
    | None =>
      match as_notification m with
      | Some _ => Notif
      | None => match as_invalid m with Some i => Invalid i | None => ParseErr end
      end
    end
  | None => ParseErr
  end.

(* what serde does with ANY text (map or sequence form: Wire.v parse_request / parse_notification / parse_invalid) --
   the batch loop before the repair "fix: only JSON objects are batch entries" applied this to every entry; kept for
   the historical witness C02_seq_refuted_old.  On the server NOW the sequence forms are unreachable: a message whose
   first byte is '[' is a batch (sniff), a batch entry must start with '{' (classify_entry), and on '{' serde takes
   visit_map -- checked on the running server (engine srvmsg): `["2.0",5,"echo",[1]]` as a message is a batch of four
   invalid entries, `[["2.0",5,"echo",[1]]]` gets one -32600 with id null, over HTTP and WS alike. *)
Definition classify_old (t : bytes) : msgclass :=
  match parse_request t with
  | Some r => Call r
  | None =>
    match parse_notification t with
    | Some _ => Notif
    | None => match parse_invalid t with Some i => Invalid i | None => ParseErr end
    end
  end.

(* ---------- sniffing: first non-whitespace byte within the window ---------- *)
Fixpoint sniff_go (wsp : byte -> bool) (sb bb : byte) (fuel : nat) (b : bytes) : option (bool * bytes) :=
  match fuel with
  | O => None
  | S f =>
    match b with
    | [] => None
    | c :: b' =>
      if wsp c then sniff_go wsp sb bb f b'
      else if beqb c sb then Some (true, b)
      else if beqb c bb then Some (false, b)
      else None
    end
  end.

Inductive transport := Http | Ws.

Definition sniff (t : transport) (b : bytes) : option (bool * bytes) :=
  match t with
  | Ws => sniff_go ws_sniff_ws ws_single_byte ws_batch_byte ws_sniff_window b
  | Http => sniff_go http_sniff_ws http_single_byte http_batch_byte http_sniff_window b
  end.

(* ---------- registry, handlers, configuration ---------- *)
Inductive mkind := KSync | KAsync | KBlocking | KSub | KUnsub.
Inductive hres :=
| HOk (raw : bytes)
| HErr (code : Z) (msg : bytes) (data : option bytes)
| HBadParams (data : option bytes)
| HPanic.
Inductive batchcfg := BDisabled | BLimit (n : N) | BUnlimited.
Record scfg := { sc_max_response : N; sc_batch : batchcfg }.

Definition log := list (bytes * option bytes).

(* the library's fixed error objects *)
Definition mk_err (code : Z) (msg : bytes) (data : option bytes) : errobj :=
  {| e_code := code; e_message := msg; e_data := data |}.
(* ErrorObject::from(ErrorCode::X): X.code(), X.message() *)
Definition parse_error : errobj := mk_err parse_error_code parse_error_msg None.
Definition invalid_request : errobj := mk_err invalid_request_code invalid_request_msg None.
Definition method_not_found : errobj := mk_err method_not_found_code method_not_found_msg None.
Definition internal_err : errobj := mk_err internal_error_code internal_error_msg None.
Definition invalid_params (d : option bytes) : errobj := mk_err invalid_params_code invalid_params_msg d.
(* ErrorObject::borrowed(BATCHES_NOT_SUPPORTED_CODE, BATCHES_NOT_SUPPORTED_MSG, None) *)
Definition batches_not_supported : errobj := mk_err batches_not_supported_code batches_not_supported_msg None.
(* reject_too_big_batch_request(n) *)
Definition too_big_batch_request (n : N) : errobj := shape_err reject_too_big_batch_request_shape n.

(* ---------- the batch prologue, interpreted (Gen/BatchGateGen.batch_gate) ---------- *)
Inductive gate_result :=
| GReject (e : errobj)          (* MethodResponse::error(Id::Null, e); nothing else happens *)
| GAdmit (es : list bytes)      (* the entries go to RpcService::batch *)
| GStuck.                       (* the list is not a program the source could be (Model/BatchGate.v) *)

(* `bc` the configured BatchRequestConfig; `known`: max_len is bound (the `match batch_config` has been passed);
   `elems`: the entries, once the array has been read *)
Fixpoint run_gate_from (g : list gate_step) (bc : batchcfg) (known : bool) (elems : option (list bytes)) (body : bytes)
  : gate_result :=
  match g with
  | [] => GStuck
  | GDisabledRejects e :: g' =>
    if known then GStuck else
    match bc with
    | BDisabled => GReject (fixed_err e)
    | _ => run_gate_from g' bc true elems body
    end
  | GParseArray e :: g' =>
    match elems with
    | Some _ => GStuck
    | None =>
      match batch_elems body with
      | None => GReject (fixed_err e)
      | Some es => run_gate_from g' bc known (Some es) body
      end
    end
  | GTooLong cmp e :: g' =>
    match known, elems with
    | true, Some es =>
      match bc with
      | BLimit l => if len_exceeds cmp (length es) l then GReject (shape_err e l) else run_gate_from g' bc known elems body
      | _ => run_gate_from g' bc known elems body        (* Unlimited: usize::MAX *)
      end
    | _, _ => GStuck
    end
  | GEntriesMustBeObjects :: g' =>
    match known, elems, g' with
    | true, Some es, [] => GAdmit es
    | _, _, _ => GStuck
    end
  end.

Definition run_gate (g : list gate_step) (bc : batchcfg) (body : bytes) : gate_result :=
  run_gate_from g bc false None body.

(* ---------- the batch epilogue, interpreted (Gen/BatchGateGen.batch_epilogue) ---------- *)
Inductive epilogue_result :=
| FinSilent                     (* MethodResponse::notification() *)
| FinJson (json : bytes).       (* MethodResponse::from_batch(..) *)

(* buf: the builder's text after the loop ('[' and every appended response followed by ',') *)
Fixpoint run_epilogue (rules : list epilogue_step) (buf : bytes) (got_notification : bool) : option epilogue_result :=
  match rules with
  | [] => None
  | FAllNotificationsSilent :: r =>     (* is_empty(): self.result.len() <= 1 *)
    if (Nat.leb (length buf) 1) && got_notification then Some FinSilent else run_epilogue r buf got_notification
  | FEmptyIsInvalid e :: r =>           (* self.result.len() == 1 *)
    match buf with
    | [_] => Some (FinJson (error_response IdNull (fixed_err e)))
    | _ => run_epilogue r buf got_notification
    end
  | FCloseArray :: _ => Some (FinJson (removelast buf ++ [x5d]))
  end.

(* MethodResponse kinds that decide what the WS transport does with the value handle_rpc_call returns *)
Inductive rkind := RkCall | RkSub | RkBatch | RkNotif.

Definition null_text : bytes := b#"null".

Section Server.
Variable reg : bytes -> option mkind.
Variable h : bytes -> option bytes -> hres.

Definition err_of (hr : hres) : errobj :=
  match hr with
  | HErr c m d => mk_err c m d
  | HBadParams d => invalid_params d
  | _ => internal_err
  end.

(* sync / async / blocking callbacks: MethodResponse::response(id, into_response(value), max); join error -> error(id2, -32603) *)
Definition handler_response (i : id) (hr : hres) (max : N) : bytes :=
  match hr with
  | HOk raw => fst (method_response i (RResult raw) max)
  | HPanic => error_response i internal_err
  | _ => fst (method_response i (RError (err_of hr)) max)
  end.

(* PendingSubscriptionSink::accept / reject: built against the connection sink's limit (u32::MAX: C08), never replaced *)
Definition sub_response (i : id) (hr : hres) : bytes :=
  match hr with
  | HOk raw => mk_response i (PResult raw)
  | _ => error_response i (err_of hr)
  end.

(* what RpcService::call returns (json, kind) + what the callback wrote to the connection itself + handler log *)
Record callres := { c_json : bytes; c_kind : rkind; c_direct : list bytes; c_log : log }.

Definition call (t : transport) (c : scfg) (r : request) : callres :=
  let i := rq_id r in
  let m := rq_method r in
  let p := rq_params r in
  match reg m with
  | None => {| c_json := error_response i method_not_found; c_kind := RkCall; c_direct := []; c_log := [] |}
  | Some k =>
    match k, t with
    | KSub, Http | KUnsub, Http =>
      (* RpcServiceCfg::OnlyCalls *)
      {| c_json := error_response i internal_err; c_kind := RkCall; c_direct := []; c_log := [] |}
    | KSub, Ws =>
      let rp := sub_response i (h m p) in
      {| c_json := rp; c_kind := RkSub; c_direct := [rp]; c_log := [(m, p)] |}
    | KUnsub, Ws =>
      {| c_json := handler_response i (h m p) (sc_max_response c); c_kind := RkCall; c_direct := []; c_log := [] |}
    | _, _ =>
      {| c_json := handler_response i (h m p) (sc_max_response c); c_kind := RkCall; c_direct := []; c_log := [(m, p)] |}
    end
  end.

(* the value handle_rpc_call returns, with the side effects that happened meanwhile *)
Record mresp := { m_json : bytes; m_kind : rkind; m_direct : list bytes; m_log : log }.

Definition plain (json : bytes) : mresp := {| m_json := json; m_kind := RkCall; m_direct := []; m_log := [] |}.
Definition notification_resp : mresp := {| m_json := null_text; m_kind := RkNotif; m_direct := []; m_log := [] |}.

Definition rpc_single (t : transport) (c : scfg) (body : bytes) : mresp :=
  match classify body with
  | Call r =>
    let cr := call t c r in
    {| m_json := c_json cr; m_kind := c_kind cr; m_direct := c_direct cr; m_log := c_log cr |}
  | Notif => notification_resp
  | Invalid i => plain (error_response i invalid_request)
  | ParseErr => plain (error_response IdNull parse_error)
  end.

(* ---------- batches ---------- *)
Inductive entry := ECall (r : request) | ENotif | EInvalid (i : id).

(* `if !call.get().starts_with('{')` -> -32600 with id null; otherwise the same three attempts as a single message,
   and an entry that is none of them is answered -32600 with id null as well (never -32700) *)
Definition is_object_text (e : bytes) : bool :=
  match e with c :: _ => beqb c x7b | [] => false end.

Definition entry_of_class (k : msgclass) : entry :=
  match k with
  | Call r => ECall r
  | Notif => ENotif
  | Invalid i => EInvalid i
  | ParseErr => EInvalid IdNull
  end.

Definition classify_entry (e : bytes) : entry :=
  if is_object_text e then entry_of_class (classify e) else EInvalid IdNull.

(* before the repair: no guard, serde's sequence forms were read too *)
Definition classify_entry_old (e : bytes) : entry := entry_of_class (classify_old e).

(* None: a notification (nothing is appended) *)
Definition entry_result (t : transport) (c : scfg) (e : bytes) : option callres :=
  match classify_entry e with
  | ECall r => Some (call t c r)
  | ENotif => None
  | EInvalid i => Some {| c_json := error_response i invalid_request; c_kind := RkCall; c_direct := []; c_log := [] |}
  end.

(* RpcService::batch: entries in order; an append that fails ends the loop at once *)
Fixpoint run_entries (t : transport) (c : scfg) (buf : bytes) (es : list bytes)
  : bytes * bool (* an append failed *) * list bytes * log :=
  match es with
  | [] => (buf, false, [], [])
  | e :: es' =>
    match entry_result t c e with
    | None => run_entries t c buf es'
    | Some cr =>
      match append buf (sc_max_response c) (c_json cr) with
      | None => (buf, true, c_direct cr, c_log cr)
      | Some buf' =>
        let '(b, o, d, l) := run_entries t c buf' es' in
        (b, o, c_direct cr ++ d, c_log cr ++ l)
      end
    end
  end.

Definition is_notification_entry (e : bytes) : bool :=
  match classify_entry e with ENotif => true | _ => false end.

(* a list that is not a program (GStuck / no epilogue rule applies): no frame the real server could send *)
Definition stuck_resp : mresp := {| m_json := []; m_kind := RkCall; m_direct := []; m_log := [] |}.

Definition rpc_batch (t : transport) (c : scfg) (body : bytes) : mresp :=
  match run_gate batch_gate (sc_batch c) body with
  | GReject e => plain (error_response IdNull e)
  | GStuck => stuck_resp
  | GAdmit es =>
    (* RpcService::batch *)
    let '(buf, overflow, direct, lg) := run_entries t c batch_new es in
    if overflow then
      {| m_json := too_big_batch (sc_max_response c); m_kind := RkCall; m_direct := direct; m_log := lg |}
    else
      match run_epilogue batch_epilogue buf (existsb is_notification_entry es) with
      | Some FinSilent => {| m_json := null_text; m_kind := RkNotif; m_direct := direct; m_log := lg |}
      | Some (FinJson j) => {| m_json := j; m_kind := RkBatch; m_direct := direct; m_log := lg |}
      | None => stuck_resp
      end
  end.

Definition handle_rpc_call (t : transport) (c : scfg) (is_single : bool) (body : bytes) : mresp :=
  if is_single then rpc_single t c body else rpc_batch t c body.

(* ---------- the two transports ---------- *)
(* o_frames: WS = every frame written to the connection for this message, in order;
             HTTP = the one response body;  o_status: HTTP status *)
Record outcome := { o_status : option N; o_frames : list bytes; o_log : log }.

Definition handle (t : transport) (c : scfg) (b : bytes) : outcome :=
  match sniff t b with
  | None =>
    let e := error_response IdNull parse_error in
    match t with
    | Ws => {| o_status := None; o_frames := [e]; o_log := [] |}      (* sink.send_error(Id::Null, ParseError) *)
    | Http => {| o_status := Some 400; o_frames := [e]; o_log := [] |}   (* HttpError::Malformed -> response::malformed() *)
    end
  | Some (single, body) =>
    let r := handle_rpc_call t c single body in
    match t with
    | Ws =>
      let own := match m_kind r with RkCall | RkBatch => [m_json r] | _ => [] end in
      {| o_status := None; o_frames := m_direct r ++ own; o_log := m_log r |}
    | Http => {| o_status := Some 200; o_frames := [m_json r]; o_log := m_log r |}
    end
  end.

(* what the peer receives as replies: HTTP acknowledges "no reply" with the body `null` *)
Definition replies (t : transport) (o : outcome) : list bytes :=
  match t with
  | Ws => o_frames o
  | Http => filter (fun f => negb (bytes_eqb f null_text)) (o_frames o)
  end.

(* a connection: the receive loop `continue`s after every message in the modelled subset *)
Definition continues (o : outcome) : bool := true.
Fixpoint serve (t : transport) (c : scfg) (alive : bool) (msgs : list bytes) : list outcome :=
  match msgs with
  | [] => []
  | b :: ms =>
    if alive then let o := handle t c b in o :: serve t c (continues o) ms else []
  end.

End Server.

(* ---------- known-finding classes (KNOWN_FINDINGS.json keys) ---------- *)
(* ws-batch-entry-calls-subscription-method *)
Definition KnownClass_C02_sub (reg : bytes -> option mkind) (t : transport) (es : list bytes) : Prop :=
  t = Ws /\ exists e r, In e es /\ classify e = Call r /\ reg (rq_method r) = Some KSub.
(* batch-entry-array-read-as-struct (repaired; the class is kept so that a regression is named): an entry that is
   not an object and was nevertheless read as one of the structs by the unrepaired loop *)
Definition KnownClass_C02_seq (es : list bytes) : Prop :=
  exists e, In e es /\ is_object_text e = false /\ classify_old e <> ParseErr.
