(* Back-pressure on ONE subscription's sink (property C04, engine `sinkbp`), as the code is NOW in /repo:

     core/src/server/subscription.rs   SubscriptionMessage(Inner::{Complete,NeedsData}), From<Box<RawValue>> = NeedsData,
                                       sub_message_to_json, SubscriptionSink::{send, send_timeout, try_send}
     core/src/server/helpers.rs        MethodSink::{send, send_timeout, try_send}  (tokio mpsc::Sender<Box<RawValue>>)
     core/src/server/error.rs          From<mpsc::error::{SendError,TrySendError,SendTimeoutError}>: the message that
                                       comes back out of the channel is the full notification JSON, so it is marked
                                       Complete (from_complete_message) and is NOT wrapped again when it is re-sent
     core/src/server/rpc_module.rs     Methods::inner_call / raw_json_request / subscribe: a bounded mpsc of capacity
                                       buf_size; the answer to the subscribe call is taken out of the channel by
                                       inner_call itself, so the script starts with an empty queue of capacity buf_size

   Every sink operation is transcribed in the order of the code:
     1. `if self.is_closed() { return Err(..(msg)) }`   the message is handed back AS IT WAS GIVEN (a fresh message
        stays NeedsData, a handed-back one stays Complete);
     2. `sub_message_to_json(msg, sub_id, method)`      NeedsData is wrapped, Complete passes through;
     3. the mpsc operation: room -> enqueued; no room -> try_send: Full(Complete json), send_timeout: Timeout(Complete
        json) after the timeout, send: waits (reported as `wouldblock`: the harness gives up after a short wait and
        drops the future, which consumes the message and, the future being cancel-safe, leaves the channel unchanged).
   `held` are the messages handed back to the handler by failed sends, kept under a slot number chosen by the script
   so that the handler can re-send them later through any of the three paths (the documented retry pattern).
   `recv` is the receiving end (mpsc::Receiver::recv / try_recv: pops the oldest frame, which frees one place);
   `close` is mpsc::Receiver::close (Subscription::close, what Drop of the Subscription does; on a server: the
   connection is gone): frames already queued stay receivable, every later send fails with Closed.

   Left out: concurrency (one handler, one receiver, operations strictly one after the other, so the window between
   step 1 and step 3 in which the channel can close -- the only way to get a Closed(Complete ..) out of the mpsc
   layer -- is not reachable; the invariant proved in Proofs/SinkQueueFacts.v covers that shape of message anyway),
   clones of the sink, unsubscribe (closes through IsUnsubscribed: Model/SubBook.v), the closing notification of a
   returning handler, SubscriptionMessage::new (a handler-made Complete message), payloads other than decimal
   numbers, capacity 0 (tokio panics on channel(0); the model simply never has room).

   The subscription id is a `Wire.subid` = SubscriptionId::{Num(u64), Str(String)}: whatever the connection's
   IdProvider returned (numbers from the built-in providers, ANY string from a custom `IdProvider`).  serde writes
   it into every notification through `Wire.ser_subid` (a string id is a JSON string: quotes, backslashes and
   control characters escaped per Json/JsonSer.v).  A plain number n is read as SubNum n (coercion below), so the
   statements about numeric ids keep their text. *)
From JV Require Import Base.Bytes Base.Dec Json.Json Json.JsonSer Model.Wire.

Coercion SubNum : N >-> subid.
Bind Scope N_scope with subid.

(* ---------- messages ---------- *)
Inductive smsg :=
| NeedsData (raw : bytes)      (* a result the library still has to wrap: From<Box<RawValue>> *)
| Complete (json : bytes).     (* the full notification text: from_complete_message *)

(* serde output of SubscriptionResponse { jsonrpc, method, params: SubscriptionPayload { subscription, result } }:
   {"jsonrpc":"2.0","method":<method>,"params":{"subscription":<sid>,"result":<raw>}}  (Wire.ser_sub_notif) *)
Definition wrap (sid : subid) (me : bytes) (raw : bytes) : bytes := ser_sub_notif me sid false raw.

(* sub_message_to_json *)
Definition to_json (sid : subid) (me : bytes) (m : smsg) : bytes :=
  match m with
  | Complete j => j
  | NeedsData raw => wrap sid me raw
  end.

(* what the handler produces: the number x as JSON, given to the sink as Box<RawValue> *)
Definition payload (x : N) : bytes := print_N x.
Definition fresh (x : N) : smsg := NeedsData (payload x).
Definition item (sid : subid) (me : bytes) (x : N) : bytes := wrap sid me (payload x).

(* ---------- association lists keyed by slot ---------- *)
Fixpoint afind {A} (k : N) (l : list (N * A)) : option A :=
  match l with
  | [] => None
  | (k', v) :: t => if N.eqb k k' then Some v else afind k t
  end.
Fixpoint aremove {A} (k : N) (l : list (N * A)) : list (N * A) :=
  match l with
  | [] => []
  | (k', v) :: t => if N.eqb k k' then aremove k t else (k', v) :: aremove k t
  end.
Definition aput {A} (k : N) (v : A) (l : list (N * A)) : list (N * A) := (k, v) :: aremove k l.

(* ---------- the bounded queue ---------- *)
Record sq := mkSq {
  cap : nat;                      (* buf_size of the mpsc channel *)
  q : list bytes;                 (* frames in the channel, oldest first *)
  closed : bool;                  (* the receiver has closed the channel *)
  held : list (N * smsg)          (* messages handed back to the handler, by slot *)
}.

Definition init (c : nat) : sq := mkSq c [] false [].

Inductive path := PSend | PTry | PTimeout.     (* SubscriptionSink::send / try_send / send_timeout *)

Inductive res :=
| ROk
| RFull (m : smsg)        (* TrySendError::Full(m) *)
| RTimeout (m : smsg)     (* SendTimeoutError::Timeout(m) *)
| RClosed (m : smsg)      (* DisconnectError(m) / TrySendError::Closed(m) / SendTimeoutError::Closed(m) *)
| RWouldBlock             (* `send` found no room; the future was dropped *)
| RNa                     (* re-send of a slot that holds nothing *)
| RFrame (f : bytes)      (* recv: the oldest frame *)
| REmpty                  (* recv: nothing queued, channel open *)
| REnd                    (* recv: nothing queued, channel closed (None) *)
| RDone.                  (* close *)

Definition room (s : sq) : bool := Nat.ltb (length (q s)) (cap s).

(* one call of the sink with message m; the handed-back message travels in the result *)
Definition sink_send (p : path) (sid : subid) (me : bytes) (s : sq) (m : smsg) : sq * res :=
  if closed s then (s, RClosed m)
  else
    let j := to_json sid me m in
    if room s then (mkSq (cap s) (q s ++ [j]) (closed s) (held s), ROk)
    else match p with
         | PSend => (s, RWouldBlock)
         | PTry => (s, RFull (Complete j))
         | PTimeout => (s, RTimeout (Complete j))
         end.

Definition handed_back (r : res) : option smsg :=
  match r with
  | RFull m | RTimeout m | RClosed m => Some m
  | _ => None
  end.

(* the handler keeps what it got back under slot k *)
Definition settle (k : N) (sr : sq * res) : sq * res :=
  match handed_back (snd sr) with
  | Some m => (mkSq (cap (fst sr)) (q (fst sr)) (closed (fst sr)) (aput k m (held (fst sr))), snd sr)
  | None => sr
  end.

Inductive op :=
| OSend (p : path) (k : N) (x : N)    (* a fresh message of payload x; if it is handed back it is kept in slot k *)
| OResend (p : path) (k : N)          (* take the message of slot k and send it again through path p *)
| ORecv
| OClose.

Definition step (sid : subid) (me : bytes) (s : sq) (o : op) : sq * res :=
  match o with
  | OSend p k x => settle k (sink_send p sid me s (fresh x))
  | OResend p k =>
    match afind k (held s) with
    | None => (s, RNa)
    | Some m => settle k (sink_send p sid me (mkSq (cap s) (q s) (closed s) (aremove k (held s))) m)
    end
  | ORecv =>
    match q s with
    | f :: q' => (mkSq (cap s) q' (closed s) (held s), RFrame f)
    | [] => (s, if closed s then REnd else REmpty)
    end
  | OClose => (mkSq (cap s) (q s) true (held s), RDone)
  end.

(* a history: final state and the trace of (operation, result) *)
Fixpoint run (sid : subid) (me : bytes) (s : sq) (ops : list op) : sq * list (op * res) :=
  match ops with
  | [] => (s, [])
  | o :: ops' =>
    let sr := step sid me s o in
    let rest := run sid me (fst sr) ops' in
    (fst rest, (o, snd sr) :: snd rest)
  end.

(* ---------- observations defined on the trace alone (what a handler and a receiver can see) ---------- *)
Definition out_frames (r : res) : list bytes := match r with RFrame f => [f] | _ => [] end.
Definition received (tr : list (op * res)) : list bytes := flat_map (fun e => out_frames (snd e)) tr.

Definition produced (ops : list op) : list N :=
  flat_map (fun o => match o with OSend _ _ x => [x] | _ => [] end) ops.

Definition is_send (o : op) : bool := match o with OSend _ _ _ | OResend _ _ => true | _ => false end.
Definition failed (r : res) : bool := match r with RFull _ | RTimeout _ | RClosed _ => true | _ => false end.

(* the handler's own book-keeping: which payload it produced for the message it keeps in each slot, and -- second
   component -- the payload that went in when the call reported Ok *)
Definition gstep (g : list (N * N)) (o : op) (r : res) : list (N * N) * list N :=
  match o with
  | OSend _ k x =>
    match r with
    | ROk => (g, [x])
    | _ => if failed r then (aput k x g, []) else (g, [])
    end
  | OResend _ k =>
    match afind k g with
    | None => (g, [])
    | Some x =>
      match r with
      | ROk => (aremove k g, [x])
      | _ => if failed r then (aput k x (aremove k g), []) else (aremove k g, [])
      end
    end
  | _ => (g, [])
  end.

Fixpoint glog (g : list (N * N)) (tr : list (op * res)) : list (N * N) * list N :=
  match tr with
  | [] => (g, [])
  | (o, r) :: tr' =>
    let gl := gstep g o r in
    let rest := glog (fst gl) tr' in
    (fst rest, snd gl ++ snd rest)
  end.

(* payloads of the sends that succeeded, in the order they succeeded (a re-sent message counts when its re-send succeeds) *)
Definition oklog (tr : list (op * res)) : list N := snd (glog [] tr).
