(* C10 -- graceful stop of the jsonrpsee server, as a labelled transition system.

   Transcribed from (current /repo):
     server/src/future.rs      stop_channel: ServerHandle = Arc<watch::Sender<()>>, StopHandle = watch::Receiver<()>;
                               stop() = Sender::send (Err iff NO receiver is alive); stopped() = Sender::closed()
                               (resolves iff every receiver clone has been dropped); StopHandle::shutdown() =
                               `let _ = changed().await` (resolves on send OR when the sender is dropped).
     server/src/server.rs      start_inner: accept loop `select(accept, stopped)` (accept first), one mpsc
                               `drop_on_completion` sender per connection task, after the loop
                               `drop(drop_on_completion); while recv().await.is_some() {}` and only then the function
                               returns and drops its StopHandle (and the listener).
                               process_connection: task = `select(conn, stopped)`; on stop `graceful_shutdown(); conn.await`;
                               then `drop(drop_on_completion)`; the task owns StopHandle clones until it ends.
                               TowerServiceNoHttp::call: HTTP call runs inside the hyper connection future
                               (`ConnectionState` dropped after the response is built); WS upgrade spawns a detached task
                               that owns `conn: ConnectionState` (a StopHandle clone) and runs ws::background_task.
     server/src/transport/ws.rs background_task: reader loop `try_recv` = select(ws_stream.next(), stopped) (data first);
                               every message is `tokio::spawn`ed; each spawned task owns an Arc<RpcService> whose
                               `_pending_calls` mpsc sender is the pending-call token; it ends after `sink.send(json)`.
                               On Stopped: graceful_shutdown = tokio::select!{ all pending tokens dropped | client stream
                               ended/errored (incoming messages are read and DISCARDED meanwhile) | conn_tx.closed() };
                               on ConnectionClosed/Err: no waiting.  Then `conn_tx.send(())`, `send_task_handle.await`,
                               `drop(conn)`.
                               send_task: `select(rx_item, select(ping, stop))` -- the queue is polled BEFORE stop, so the
                               stop signal is only taken when the queue yields Pending; on send error it ends; finally
                               `ws_sender.close(); rx.close()`.
     server/src/utils.rs       serve_with_graceful_shutdown: same shape as process_connection.
     hyper (http1)             graceful_shutdown: an idle connection is closed at once, an in-flight request is
                               finished (service future polled to completion, response written) and the connection is
                               closed after it (keep-alive off); a client EOF while the service future is pending drops
                               that future (half_close is off).

   One record `conn` covers both kinds.  For HTTP: c_tasks holds at most the in-flight request, c_queue = [],
   c_writer = WFin throughout (there is no send task; hyper writes the response itself: CWrite).

   Call ids are allotted by the model (s_next) in the order of the ClientSend actions, so an id names one message.

   The sink queue is bounded (message_buffer_capacity = s_cap, copied into c_cap): `sink.send(json).await` parks while
   the queue is full.  A task in state TRet is exactly that: its handler has returned, the reply is not in the queue
   yet (it is waiting for room when the queue is full) and the task STILL owns its Arc<RpcService>, i.e. its
   pending-call token -- CEnqueue is enabled only when there is room (or the queue has been closed: the send fails,
   the reply is lost, the task ends).

   Left out (see tools/props/c10.py ASSUMPTIONS): ping/pong and the inactivity check; batches (one task, one reply: same shape
   as a call); subscription notifications (an open subscription owns a MethodSink clone and NO token: c_subs is a
   counter nothing depends on); HTTP/2; the WS handshake (a WS connection starts in its reader loop; the hyper task's
   mpsc token is released by CHyperDone at any time); partial reads of a request; tokio scheduling: CWriterStop is
   enabled only when the queue is empty, i.e. an item enqueued before conn_tx.send(()) is assumed observable by the
   send task's next poll of the queue. *)
From Coq Require Import List NArith Bool Arith.
Import ListNotations.

Inductive kind := KHttp | KWs.
Inductive tstate := TSpawned | TExec | TRet.   (* spawned/read, handler running, handler returned: reply waiting for the queue *)
Inductive phase := PReading | PGraceful | PClosing | PDone.
Inductive wstate := WRun | WFin.
Inductive astate := ARun | ADrain | ADone.

Record conn := mkConn {
  c_kind : kind;
  c_inbox : list N;              (* sent by the client, not yet read by the server *)
  c_tasks : list (N * tstate);   (* WS: per-message tasks (each owns a pending-call token); HTTP: the in-flight request *)
  c_queue : list N;              (* WS: MethodSink mpsc, replies not yet written *)
  c_wire : list N;               (* replies written to the transport while the client was connected *)
  c_phase : phase;               (* WS background task / HTTP hyper task *)
  c_writer : wstate;             (* WS send task (queue is closed iff WFin) *)
  c_wstop : bool;                (* conn_tx.send(()) done *)
  c_closed : bool;               (* client has disconnected *)
  c_tok : bool;                  (* this connection's hyper task still owns its drop_on_completion sender *)
  c_subs : nat;                  (* open subscriptions *)
  c_cap : nat                    (* capacity of the sink queue (message_buffer_capacity) *)
}.

Definition new_conn (k : kind) (cap : nat) : conn :=
  mkConn k [] [] [] [] PReading (match k with KWs => WRun | KHttp => WFin end) false false true 0 cap.

Definition tstate_eqb (a b : tstate) : bool :=
  match a, b with TSpawned, TSpawned | TExec, TExec | TRet, TRet => true | _, _ => false end.
Definition task_eqb (a b : N * tstate) : bool := N.eqb (fst a) (fst b) && tstate_eqb (snd a) (snd b).

(* replace / remove the first occurrence of task t *)
Fixpoint set_first (t : N * tstate) (t' : N * tstate) (l : list (N * tstate)) : option (list (N * tstate)) :=
  match l with
  | [] => None
  | x :: r => if task_eqb x t then Some (t' :: r)
              else match set_first t t' r with Some r' => Some (x :: r') | None => None end
  end.
Fixpoint remove_first (t : N * tstate) (l : list (N * tstate)) : option (list (N * tstate)) :=
  match l with
  | [] => None
  | x :: r => if task_eqb x t then Some r
              else match remove_first t r with Some r' => Some (x :: r') | None => None end
  end.

Definition is_nil {A} (l : list A) : bool := match l with [] => true | _ => false end.

Definition set_inbox x v := mkConn (c_kind x) v (c_tasks x) (c_queue x) (c_wire x) (c_phase x) (c_writer x) (c_wstop x) (c_closed x) (c_tok x) (c_subs x) (c_cap x).
Definition set_tasks x v := mkConn (c_kind x) (c_inbox x) v (c_queue x) (c_wire x) (c_phase x) (c_writer x) (c_wstop x) (c_closed x) (c_tok x) (c_subs x) (c_cap x).
Definition set_queue x v := mkConn (c_kind x) (c_inbox x) (c_tasks x) v (c_wire x) (c_phase x) (c_writer x) (c_wstop x) (c_closed x) (c_tok x) (c_subs x) (c_cap x).
Definition set_wire x v := mkConn (c_kind x) (c_inbox x) (c_tasks x) (c_queue x) v (c_phase x) (c_writer x) (c_wstop x) (c_closed x) (c_tok x) (c_subs x) (c_cap x).
Definition set_phase x v := mkConn (c_kind x) (c_inbox x) (c_tasks x) (c_queue x) (c_wire x) v (c_writer x) (c_wstop x) (c_closed x) (c_tok x) (c_subs x) (c_cap x).
Definition set_writer x v := mkConn (c_kind x) (c_inbox x) (c_tasks x) (c_queue x) (c_wire x) (c_phase x) v (c_wstop x) (c_closed x) (c_tok x) (c_subs x) (c_cap x).
Definition set_wstop x v := mkConn (c_kind x) (c_inbox x) (c_tasks x) (c_queue x) (c_wire x) (c_phase x) (c_writer x) v (c_closed x) (c_tok x) (c_subs x) (c_cap x).
Definition set_closed x v := mkConn (c_kind x) (c_inbox x) (c_tasks x) (c_queue x) (c_wire x) (c_phase x) (c_writer x) (c_wstop x) v (c_tok x) (c_subs x) (c_cap x).
Definition set_tok x v := mkConn (c_kind x) (c_inbox x) (c_tasks x) (c_queue x) (c_wire x) (c_phase x) (c_writer x) (c_wstop x) (c_closed x) v (c_subs x) (c_cap x).
Definition set_subs x v := mkConn (c_kind x) (c_inbox x) (c_tasks x) (c_queue x) (c_wire x) (c_phase x) (c_writer x) (c_wstop x) (c_closed x) (c_tok x) v (c_cap x).

(* a reply reaches the transport only while the client is there *)
Definition put_wire (x : conn) (k : N) : conn := if c_closed x then x else set_wire x (c_wire x ++ [k]).

(* the hyper task of an HTTP connection ends: both of its tokens go *)
Definition http_done (x : conn) : conn := set_tok (set_phase x PDone) false.

Inductive cact :=
| CRead                (* WS reader loop takes a message and spawns its task / graceful: discards it; HTTP: hyper reads the next request *)
| CStart (k : N)       (* handler of call k starts *)
| CFinish (k : N)      (* handler of call k returns *)
| CEnqueue (k : N)     (* WS: sink.send(reply) completes (needs room in the queue) -- the task ends and drops its pending-call token *)
| CWrite               (* WS send task writes the head of the queue; HTTP: hyper writes the response *)
| CSeeStop             (* the connection's select observes the stop signal *)
| CGracefulEnd         (* WS graceful_shutdown's select! completes -> conn_tx.send(()) *)
| CReaderClosed        (* the server side notices that the client is gone *)
| CWriterStop          (* WS send task takes the stop signal (queue polled first: only when it is empty) *)
| CWriterFail          (* WS send task: send error *)
| CBgDone              (* WS background task: send task joined, drop(conn) *)
| CHyperDone           (* WS: the hyper task of the upgraded connection ends, drop(drop_on_completion) *)
| CDisconnect          (* client closes the connection *)
| CSubOpen.            (* a subscription is opened *)

(* one step of connection x; `sig` = the stop signal is up.  None = not enabled. *)
Definition cstep (sig : bool) (x : conn) (a : cact) : option conn :=
  match a with
  | CRead =>
    match c_inbox x with
    | [] => None
    | k :: r =>
      match c_kind x, c_phase x with
      | KWs, PReading => Some (set_tasks (set_inbox x r) (c_tasks x ++ [(k, TSpawned)]))
      | KWs, PGraceful => Some (set_inbox x r)
      | KHttp, PReading => if is_nil (c_tasks x) then Some (set_tasks (set_inbox x r) [(k, TSpawned)]) else None
      | _, _ => None
      end
    end
  | CStart k =>
    match set_first (k, TSpawned) (k, TExec) (c_tasks x) with Some t => Some (set_tasks x t) | None => None end
  | CFinish k =>
    match set_first (k, TExec) (k, TRet) (c_tasks x) with Some t => Some (set_tasks x t) | None => None end
  | CEnqueue k =>
    match c_kind x with
    | KWs =>
      match remove_first (k, TRet) (c_tasks x) with
      | Some t => match c_writer x with
                  | WRun => if Nat.ltb (length (c_queue x)) (c_cap x)
                            then Some (set_queue (set_tasks x t) (c_queue x ++ [k]))
                            else None                        (* queue full: sink.send stays parked, token held *)
                  | WFin => Some (set_tasks x t)             (* channel closed: the send fails, the reply is lost *)
                  end
      | None => None
      end
    | KHttp => None
    end
  | CWrite =>
    match c_kind x with
    | KWs =>
      match c_writer x, c_queue x with
      | WRun, k :: q => Some (put_wire (set_queue x q) k)
      | _, _ => None
      end
    | KHttp =>
      match c_tasks x, c_phase x with
      | [(k, TRet)], PReading =>
        if c_closed x then Some (http_done (set_tasks x [])) else Some (put_wire (set_tasks x []) k)
      | [(k, TRet)], PGraceful => Some (http_done (put_wire (set_tasks x []) k))
      | _, _ => None
      end
    end
  | CSeeStop =>
    if sig then
      match c_kind x, c_phase x with
      | KWs, PReading => Some (set_phase x PGraceful)
      | KHttp, PReading => if is_nil (c_tasks x) then Some (http_done x) else Some (set_phase x PGraceful)
      | _, _ => None
      end
    else None
  | CGracefulEnd =>
    match c_kind x, c_phase x with
    | KWs, PGraceful =>
      if is_nil (c_tasks x) || c_closed x || (match c_writer x with WFin => true | WRun => false end)
      then Some (set_wstop (set_phase x PClosing) true) else None
    | _, _ => None
    end
  | CReaderClosed =>
    if c_closed x then
      match c_kind x, c_phase x with
      | KWs, PReading => Some (set_wstop (set_phase (set_inbox x []) PClosing) true)
      | KHttp, PReading | KHttp, PGraceful => Some (http_done (set_tasks x []))   (* the service future is dropped *)
      | _, _ => None
      end
    else None
  | CWriterStop =>
    match c_kind x, c_writer x with
    | KWs, WRun => if c_wstop x && is_nil (c_queue x) then Some (set_writer x WFin) else None
    | _, _ => None
    end
  | CWriterFail =>
    match c_kind x, c_writer x with
    | KWs, WRun => if c_closed x then Some (set_writer (set_queue x []) WFin) else None
    | _, _ => None
    end
  | CBgDone =>
    match c_kind x, c_phase x, c_writer x with
    | KWs, PClosing, WFin => Some (set_phase x PDone)
    | _, _, _ => None
    end
  | CHyperDone =>
    match c_kind x with
    | KWs => if c_tok x then Some (set_tok x false) else None
    | KHttp => None
    end
  | CDisconnect => if c_closed x then None else Some (set_closed x true)
  | CSubOpen =>
    match c_kind x, c_phase x with
    | KWs, PReading => if c_closed x then None else Some (set_subs x (S (c_subs x)))
    | _, _ => None
    end
  end.

(* the client writes message k into the connection *)
Definition csend (x : conn) (k : N) : option conn :=
  if c_closed x then None else Some (set_inbox x (c_inbox x ++ [k])).

Record state := mkState {
  s_conns : list conn;
  s_accept : astate;      (* start_inner: in the loop / past it, waiting on the mpsc / returned *)
  s_stop : bool;          (* a value has been sent on the watch channel *)
  s_handles : nat;        (* live ServerHandle clones (they share one watch::Sender) *)
  s_resolved : bool;      (* `stopped()` has resolved *)
  s_next : N;             (* next message id *)
  s_cap : nat             (* ServerConfig::message_buffer_capacity *)
}.

Definition init_cap (cap : nat) : state := mkState [] ARun false 1 false 0%N cap.
Definition init : state := init_cap 1024.   (* the default message_buffer_capacity *)

(* what StopHandle::shutdown() waits for *)
Definition sig (s : state) : bool := s_stop s || Nat.eqb (s_handles s) 0.

Definition phase_done (x : conn) : bool := match c_phase x with PDone => true | _ => false end.
Definition accept_done (s : state) : bool := match s_accept s with ADone => true | _ => false end.

(* every watch::Receiver clone is gone: start_inner has returned and every connection task has ended *)
Definition all_dropped (s : state) : bool := accept_done s && forallb phase_done (s_conns s).

Fixpoint upd {A} (n : nat) (v : A) (l : list A) : list A :=
  match l, n with
  | [], _ => []
  | _ :: r, O => v :: r
  | x :: r, S m => x :: upd m v r
  end.

Inductive action :=
| Connect (k : kind)
| ClientSend (c : nat)
| Conn (c : nat) (a : cact)
| AcceptSeeStop
| AcceptDone
| Stop
| CloneHandle
| DropHandle
| StoppedResolves.

Inductive outcome := OOk | OIgnored | ORefused | OStopOk | OStopAlready | ONoHandle.

Definition set_conns s v := mkState v (s_accept s) (s_stop s) (s_handles s) (s_resolved s) (s_next s) (s_cap s).
Definition set_accept s v := mkState (s_conns s) v (s_stop s) (s_handles s) (s_resolved s) (s_next s) (s_cap s).
Definition set_stop s v := mkState (s_conns s) (s_accept s) v (s_handles s) (s_resolved s) (s_next s) (s_cap s).
Definition set_handles s v := mkState (s_conns s) (s_accept s) (s_stop s) v (s_resolved s) (s_next s) (s_cap s).
Definition set_resolved s v := mkState (s_conns s) (s_accept s) (s_stop s) (s_handles s) v (s_next s) (s_cap s).
Definition set_next s v := mkState (s_conns s) (s_accept s) (s_stop s) (s_handles s) (s_resolved s) v (s_cap s).

Definition step (s : state) (a : action) : state * outcome :=
  match a with
  | Connect k =>
    match s_accept s with
    | ARun => (set_conns s (s_conns s ++ [new_conn k (s_cap s)]), OOk)     (* accept is polled before the stop future *)
    | _ => (s, ORefused)
    end
  | ClientSend c =>
    match nth_error (s_conns s) c with
    | Some x => match csend x (s_next s) with
                | Some x' => (set_next (set_conns s (upd c x' (s_conns s))) (N.succ (s_next s)), OOk)
                | None => (s, OIgnored)
                end
    | None => (s, OIgnored)
    end
  | Conn c a =>
    match nth_error (s_conns s) c with
    | Some x => match cstep (sig s) x a with
                | Some x' => (set_conns s (upd c x' (s_conns s)), OOk)
                | None => (s, OIgnored)
                end
    | None => (s, OIgnored)
    end
  | AcceptSeeStop =>
    match s_accept s with
    | ARun => if sig s then (set_accept s ADrain, OOk) else (s, OIgnored)
    | _ => (s, OIgnored)
    end
  | AcceptDone =>
    match s_accept s with
    | ADrain => if forallb (fun x => negb (c_tok x)) (s_conns s) then (set_accept s ADone, OOk) else (s, OIgnored)
    | _ => (s, OIgnored)
    end
  | Stop =>
    match s_handles s with
    | O => (s, ONoHandle)
    | S _ => if all_dropped s then (s, OStopAlready) else (set_stop s true, OStopOk)
    end
  | CloneHandle =>
    match s_handles s with O => (s, ONoHandle) | S n => (set_handles s (S (S n)), OOk) end
  | DropHandle =>
    match s_handles s with O => (s, ONoHandle) | S n => (set_handles s n, OOk) end
  | StoppedResolves =>
    match s_handles s with
    | O => (s, ONoHandle)
    | S _ => if all_dropped s && negb (s_resolved s) then (set_resolved s true, OOk) else (s, OIgnored)
    end
  end.

Definition effective (s : state) (a : action) : bool :=
  match snd (step s a) with OOk | OStopOk => true | _ => false end.

Fixpoint run (s : state) (tr : list action) : state :=
  match tr with [] => s | a :: r => run (fst (step s a)) r end.

(* how many times the handler of call k on connection c started along tr (from s) *)
Fixpoint starts (s : state) (tr : list action) (c : nat) (k : N) : nat :=
  match tr with
  | [] => 0
  | a :: r =>
    (match a with
     | Conn c' (CStart k') => if Nat.eqb c' c && N.eqb k' k && effective s a then 1 else 0
     | _ => 0
     end) + starts (fst (step s a)) r c k
  end.

(* steps of the server's own tasks and of the handlers (everything but the clients and the handle owner) *)
Definition internal (a : action) : bool :=
  match a with
  | Conn _ (CDisconnect | CSubOpen) => false
  | Conn _ _ => true
  | AcceptSeeStop | AcceptDone | StoppedResolves => true
  | _ => false
  end.
