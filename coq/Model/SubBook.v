(* Server-side subscription bookkeeping (C04, C06): an LTS transcribed from
     core/src/server/subscription.rs   PendingSubscriptionSink::{accept,reject}, SubscriptionSink::{send,try_send,
                                       is_closed,closed,Clone}, the drop guard of the sink, BoundedSubscriptions
     core/src/server/rpc_module.rs     register_subscription (the spawned task that awaits the handler's return value
                                       and sends the closing notification; the subscribe-call future), the
                                       unsubscribe callback of verify_and_register_unsubscribe
     core/src/server/helpers.rs        MethodSink (the per-connection mpsc sender)
     server/src/middleware/rpc.rs      permit acquisition, -32006
     server/src/transport/ws.rs        send_task (writer: pops one message at a time), connection close, graceful stop.

   State: per connection an `open` flag (the mpsc receiver has not been closed), the semaphore's free permits, the
   FIFO queue (frames accepted by MethodSink::send, not yet written) and the wire (frames written, in order); one
   global subscriber table keyed (connection, subscription id); per handler invocation a record.
   The code's non-atomic seams are separate steps:
     accept  = Accept1 (the answering part: up to the last fallible step)  THEN  Accept2 (the rest)
               accept() is INTERPRETED: Gen/AcceptOrderGen.accept_steps is the order of its effectful steps as read
               from the source on every check (tools/translators/accept_order.py); `accept_run` folds that list, a
               failing fallible step aborts the rest and keeps what was done before it.  For the order the source has
               now (send to sink, notify the call, insert, build the sink) this is
               Accept1 = enqueue the response, answer the call     Accept2 = insert the table entry, build the sink
     send    = SendCheck (`is_closed()`)                        THEN  SendEnqueue (`inner.send(json)`)
     writer  = WriterStep pops ONE frame
     closing = HandlerReturn (handler future resolves)          THEN  CloseNotify (the spawned task's `method_sink.send`)

   `sent cn = c_wire cn ++ c_queue cn` only ever grows: a connection the client dropped keeps what was queued (it is
   never written: WriterStep needs an open connection); a connection the server ends (graceful stop) writes its queue
   first.  A reject / failed accept / unanswered return makes the library drop the handler future (s_returned).

   An ABANDONED subscribe call (AbandonCall): the future returned by the subscribe callback is dropped before it was
   answered while the connection stays open -- an rpc middleware that gives up on a call (the harness installs one
   that answers code 44 "abandoned").  Dropping it drops `accepted_tx`, so the task spawned by register_subscription
   gives up its try_join and drops the handler future at once.  The pending sink either dies with the handler future
   (keep = false: the handler held it itself; its slot is back) or survives (keep = true: the handler had handed it
   to another task; state SAbandoned, still holding its permit).  On a surviving sink accept() runs its steps in the
   source's order and FAILS at `subscribe.send` (the oneshot's receiver is gone): for the order now the response has
   already been enqueued (the `TODO: #1052` double send: the client reads error 44 and then the success response of
   the same call) and the table has not been touched; reject() enqueues its error and ends; DropPending lets go of it.

   DropSink models the REPAIRED drop (fixes/C06.patch): the table entry is removed by a guard shared by all clones,
   i.e. when the LAST clone goes.  The unrepaired `Drop for SubscriptionSink` (any clone removes the entry) is kept
   as `drop_sink_old` / `step_old` so that the history stays visible (C06_stays_active_refuted_old).

   THREADS.  The subscriber table is one mutex-protected map per method, touched from whatever thread runs the event
   (accept's insert, the unsubscribe callback's remove, the drop guard's remove).  HOW each of the three sites takes the
   mutex is read from the source on every check (tools/translators/table_ops.py -> Gen/TableOpsGen.table_ops_gen, a
   Model/TableOps.table_ops) and INTERPRETED by `step_core_g ops old contended`: `contended` says that another thread is
   inside a critical section of the table while the event runs.  With `TLockThen op` the event waits and carries the
   operation out (contended or not); with `TTryLockThen op` a contended event SKIPS it (accept: no entry; unsubscribe:
   answers false, entry stays; guard drop: entry stays although the last sink is gone).  `step` / `step_old` / `run` are
   the uncontended instances (one thread: what the extracted model and the harness-sequenced engine run);
   `step_c` / `run_c` take events `(act, contended)` with arbitrary flags.  Proofs/SubBookFacts.v proves that for the
   generated record (every site `TLockThen`) the flags make no difference (contended_erasure), which is false -- and
   does not build -- as soon as one site is a try_lock.

   Left out (stated as ASSUMPTIONS in tools/props/c04.py, c06.py):
   * back-pressure: the queue is unbounded here (message_buffer_capacity); a sender blocked on a full buffer is a
     step that has not happened yet.  try_send's `Full` error is therefore not modelled;
   * calls are read only while the connection is open and the server is not stopped; a call already spawned that
     races with the close of its connection is tokio scheduling, not a model step;
   * the unsubscribe callback's table removal and the enqueueing of its answer are one step;
   * one subscription method (one subscriber table); ids come from a counting IdProvider (base + handle);
   * subscribe calls inside batches (C02); payload sizes (C08); ping/pong;
   * a subscribe call abandoned while its handler is suspended INSIDE accept().await (needs a full outgoing buffer, see the
     first item): AbandonCall applies to a call whose pending sink has not been used yet; the steps of accept() before
     the model's seam (Accept1) are one atomic step;
   * who abandons a call and what it answers is the environment's business: the model enqueues the answer of the
     harness's middleware (error 44) on the connection, nothing else about the middleware is modelled. *)
From Coq Require Import List NArith ZArith Bool Arith.
From JV Require Import Model.AcceptSteps Gen.AcceptOrderGen Model.TableOps Gen.TableOpsGen.
Import ListNotations.

(* ---------- frames ---------- *)
Inductive errkind := ETooMany | EInternal | ERejected (code : Z) | EAbandoned.   (* EAbandoned: the answer of the harness's middleware *)
Inductive frame :=
| FSubOk (req : N) (sid : N)                                (* {"id":req,"result":sid}: the response that accepts *)
| FErr (req : N) (e : errkind)                              (* error response to a subscribe call *)
| FUnsub (req : N) (b : bool)                               (* answer of the unsubscribe call *)
| FNotif (meth : N) (sid : N) (item : N) (closing : bool)   (* {"method":meth,"params":{"subscription":sid,"result":item}} *)
| FNotifErr (meth : N) (sid : N) (item : N).                (* {... "params":{"subscription":sid,"error":item}}; always closing *)

Definition is_notif (f : frame) : bool :=
  match f with FNotif _ _ _ _ | FNotifErr _ _ _ => true | _ => false end.
Definition frame_sid (f : frame) : N :=
  match f with FNotif _ s _ _ | FNotifErr _ s _ => s | FSubOk _ s => s | _ => 0%N end.
Definition frame_meth (f : frame) : N :=
  match f with FNotif m _ _ _ | FNotifErr m _ _ => m | _ => 0%N end.
Definition is_closing (f : frame) : bool :=
  match f with FNotif _ _ _ c => c | FNotifErr _ _ _ => true | _ => false end.
(* payload of an ordinary (handler `send`) notification of subscription sid *)
Definition plain_item (sid : N) (f : frame) : option N :=
  match f with FNotif _ s x false => if N.eqb s sid then Some x else None | _ => None end.
Fixpoint filter_map {A B} (f : A -> option B) (l : list A) : list B :=
  match l with [] => [] | a :: l' => match f a with Some b => b :: filter_map f l' | None => filter_map f l' end end.

(* ---------- state ---------- *)
Record conn := mkConn {
  c_open : bool;          (* rx of the connection's mpsc not closed *)
  c_ended : bool;         (* closed by the server (graceful stop), as opposed to dropped by the client *)
  c_permits : nat;        (* free permits of BoundedSubscriptions *)
  c_cap : nat;            (* max_subscriptions_per_connection *)
  c_queue : list frame;
  c_wire : list frame }.
Definition sent (cn : conn) : list frame := c_wire cn ++ c_queue cn.

Inductive sstate :=
| SPending      (* the handler holds the PendingSubscriptionSink *)
| SAccepting    (* inside accept(): response enqueued, entry not yet inserted *)
| SActive       (* accept() returned Ok(sink) *)
| SRejected     (* reject() *)
| SDone         (* accept() failed, or the pending sink was dropped unanswered *)
| SAbandoned.   (* the subscribe call was dropped unanswered; the pending sink is alive in a task of its own *)
Inductive closeval := CNone | CNotif (x : N) | CNotifErr (x : N).

Record sub := mkSub {
  s_conn : nat; s_id : N; s_req : N; s_meth : N;
  s_state : sstate;
  s_sinks : list N;               (* live clones of the SubscriptionSink *)
  s_inflight : list (N * N);      (* (clone, item): sends that passed the is_closed() check and have not enqueued yet *)
  s_has_permit : bool;            (* the pending sink / the clones' shared Arc<permit> is alive *)
  s_unsubscribed : bool;          (* liveness channel closed: the table entry (owner of its receiver) is gone *)
  s_returned : bool;              (* the handler future has resolved, or was dropped by the library: once the subscribe
                                     call is answered with an error (reject, failed accept) the task spawned by
                                     register_subscription gives up its try_join and the handler future with it *)
  s_ret : option closeval }.      (* closing value handed to the spawned task, not yet sent *)

Record st := mkSt {
  conns : list conn;
  table : list (nat * N);
  subs : list sub;
  stopped : bool;
  id_base : N;
  notif_meth : N }.

Inductive act :=
| SubscribeCall (c : nat) (req : N)
| Accept1 (h : nat) | Accept2 (h : nat) | Reject (h : nat) (code : Z)
| AbandonCall (h : nat) (keep : bool)        (* the subscribe call future is dropped unanswered *)
| DropPending (h : nat)                      (* the pending sink is dropped unanswered, by whoever holds it *)
| CloneSink (h : nat) (src k : N) | DropSink (h : nat) (k : N)
| SendCheck (h : nat) (k : N) (item : N) | SendEnqueue (h : nat) (k : N)
| IsClosed (h : nat) (k : N)
| HandlerReturn (h : nat) (v : closeval) | CloseNotify (h : nat)
| UnsubscribeCall (c : nat) (req : N) (target : N)
| WriterStep (c : nat) | ConnDrop (c : nat) | ServerStop.

Inductive obs :=
| OHandler (h c : nat) (req : N)                   (* the handler was invoked; h = its handle *)
| ORefused (c : nat) (req : N)                     (* -32006 *)
| OUnsubAnswer (c : nat) (req target : N) (b : bool)
| OAccept (h : nat) (ok : bool)
| OSendResult (h : nat) (k item : N) (ok : bool)
| OClosed (h : nat) (k : N) (b : bool)
| OFrameOut (c : nat) (f : frame)
| OConnEnd (c : nat)                               (* the server closed the connection *)
| OAck.                                            (* an enabled step without a result of its own *)

(* ---------- small list helpers ---------- *)
Fixpoint upd {A} (n : nat) (f : A -> A) (l : list A) : list A :=
  match l, n with
  | [], _ => []
  | a :: l', O => f a :: l'
  | a :: l', S n' => a :: upd n' f l'
  end.
Definition memN (k : N) (l : list N) : bool := existsb (N.eqb k) l.
Definition removeN (k : N) (l : list N) : list N := filter (fun x => negb (N.eqb x k)) l.
Definition key_eqb (a b : nat * N) : bool := Nat.eqb (fst a) (fst b) && N.eqb (snd a) (snd b).
Definition mem_key (k : nat * N) (t : list (nat * N)) : bool := existsb (key_eqb k) t.
Definition remove_key (k : nat * N) (t : list (nat * N)) : list (nat * N) := filter (fun x => negb (key_eqb x k)) t.
Definition inflight_of (k : N) (l : list (N * N)) : option N :=
  match find (fun p => N.eqb (fst p) k) l with Some p => Some (snd p) | None => None end.
Definition remove_inflight (k : N) (l : list (N * N)) : list (N * N) := filter (fun p => negb (N.eqb (fst p) k)) l.

(* ---------- setters ---------- *)
Definition set_conns (s : st) (cs : list conn) : st := mkSt cs (table s) (subs s) (stopped s) (id_base s) (notif_meth s).
Definition set_table (s : st) (t : list (nat * N)) : st := mkSt (conns s) t (subs s) (stopped s) (id_base s) (notif_meth s).
Definition set_subs (s : st) (l : list sub) : st := mkSt (conns s) (table s) l (stopped s) (id_base s) (notif_meth s).
Definition set_stopped (s : st) : st := mkSt (conns s) (table s) (subs s) true (id_base s) (notif_meth s).
Definition upd_conn (s : st) (c : nat) (f : conn -> conn) : st := set_conns s (upd c f (conns s)).
Definition upd_sub (s : st) (h : nat) (f : sub -> sub) : st := set_subs s (upd h f (subs s)).

Definition c_enq (f : frame) (cn : conn) : conn :=
  mkConn (c_open cn) (c_ended cn) (c_permits cn) (c_cap cn) (c_queue cn ++ [f]) (c_wire cn).
Definition c_close (cn : conn) : conn :=
  mkConn false (c_ended cn) (c_permits cn) (c_cap cn) (c_queue cn) (c_wire cn).
Definition c_set_permits (p : nat) (cn : conn) : conn :=
  mkConn (c_open cn) (c_ended cn) p (c_cap cn) (c_queue cn) (c_wire cn).
Definition c_give_permit (cn : conn) : conn := c_set_permits (S (c_permits cn)) cn.
Definition c_pop (cn : conn) : conn :=
  match c_queue cn with
  | [] => cn
  | f :: q => mkConn (c_open cn) (c_ended cn) (c_permits cn) (c_cap cn) q (c_wire cn ++ [f])
  end.
(* the writer drains what is queued, then the connection is closed by the server *)
Definition c_end (cn : conn) : conn :=
  mkConn false true (c_permits cn) (c_cap cn) [] (c_wire cn ++ c_queue cn).

Definition sb_state (x : sstate) (b : sub) : sub :=
  mkSub (s_conn b) (s_id b) (s_req b) (s_meth b) x (s_sinks b) (s_inflight b) (s_has_permit b) (s_unsubscribed b) (s_returned b) (s_ret b).
Definition sb_sinks (l : list N) (b : sub) : sub :=
  mkSub (s_conn b) (s_id b) (s_req b) (s_meth b) (s_state b) l (s_inflight b) (s_has_permit b) (s_unsubscribed b) (s_returned b) (s_ret b).
Definition sb_inflight (l : list (N * N)) (b : sub) : sub :=
  mkSub (s_conn b) (s_id b) (s_req b) (s_meth b) (s_state b) (s_sinks b) l (s_has_permit b) (s_unsubscribed b) (s_returned b) (s_ret b).
Definition sb_permit (p : bool) (b : sub) : sub :=
  mkSub (s_conn b) (s_id b) (s_req b) (s_meth b) (s_state b) (s_sinks b) (s_inflight b) p (s_unsubscribed b) (s_returned b) (s_ret b).
Definition sb_unsub (u : bool) (b : sub) : sub :=
  mkSub (s_conn b) (s_id b) (s_req b) (s_meth b) (s_state b) (s_sinks b) (s_inflight b) (s_has_permit b) u (s_returned b) (s_ret b).
Definition sb_returned (r : option closeval) (b : sub) : sub :=
  mkSub (s_conn b) (s_id b) (s_req b) (s_meth b) (s_state b) (s_sinks b) (s_inflight b) (s_has_permit b) (s_unsubscribed b) true r.
Definition sb_ret (r : option closeval) (b : sub) : sub :=
  mkSub (s_conn b) (s_id b) (s_req b) (s_meth b) (s_state b) (s_sinks b) (s_inflight b) (s_has_permit b) (s_unsubscribed b) (s_returned b) r.

(* ---------- queries ---------- *)
Definition conn_open (s : st) (c : nat) : bool :=
  match nth_error (conns s) c with Some cn => c_open cn | None => false end.
(* SubscriptionSink::is_closed: inner.is_closed() || unsubscribe.is_unsubscribed() *)
Definition sink_closed (s : st) (b : sub) : bool := negb (conn_open s (s_conn b)) || s_unsubscribed b.
Definition key_of (b : sub) : nat * N := (s_conn b, s_id b).
Definition is_pending_on (c : nat) (b : sub) : bool :=
  Nat.eqb (s_conn b) c && match s_state b with SPending => true | _ => false end.

(* MethodSink::send with the error ignored: enqueue when the connection is open, else nothing *)
Definition c_push (f : frame) (cn : conn) : conn := if c_open cn then c_enq f cn else cn.
Definition c_push_opt (fo : option frame) (cn : conn) : conn := match fo with Some f => c_push f cn | None => cn end.
Definition push (s : st) (c : nat) (f : frame) : st := upd_conn s c (c_push f).
(* the owner of the permit (pending sink, or the last clone) goes away: the subscription loses it, the
   connection's semaphore gets it back *)
Definition rel_sub (r : bool) (x : sub) : sub := if r then sb_permit false x else x.
Definition rel_conn (r : bool) (cn : conn) : conn := if r then c_give_permit cn else cn.

(* Every handler-side step touches one subscription record, its own connection, and possibly the table. *)
Definition apply (s : st) (h : nat) (b : sub) (fs : sub -> sub) (fc : conn -> conn) (t : list (nat * N)) : st :=
  mkSt (upd (s_conn b) fc (conns s)) t (upd h fs (subs s)) (stopped s) (id_base s) (notif_meth s).

Definition is_nil {A} (l : list A) : bool := match l with [] => true | _ => false end.

(* ---------- the drop of one clone ---------- *)
(* repaired (fixes/C06.patch): only the last clone's drop runs the shared guard, which removes the entry unless the
   subscription was unsubscribed already; the Arc<permit> goes with the last clone too *)
Definition drop_sink (s : st) (h : nat) (b : sub) (k : N) : st :=
  let rest := removeN k (s_sinks b) in
  let last := is_nil rest in
  let r := last && s_has_permit b in
  apply s h b
    (fun x => rel_sub r (if last then sb_unsub true (sb_sinks [] x) else sb_sinks rest x))
    (rel_conn r)
    (if last && negb (s_unsubscribed b) then remove_key (key_of b) (table s) else table s).
(* the guard's removal SKIPPED (a `try_lock` that found the table's mutex held by another thread): the last clone and
   the permit go as in drop_sink, the table is not touched, and the entry -- owner of the liveness receiver -- stays *)
Definition drop_sink_skipped (s : st) (h : nat) (b : sub) (k : N) : st :=
  let rest := removeN k (s_sinks b) in
  let last := is_nil rest in
  let r := last && s_has_permit b in
  apply s h b
    (fun x => rel_sub r (sb_sinks rest x))
    (rel_conn r)
    (table s).
(* unrepaired tree: `impl Drop for SubscriptionSink` removes the entry when ANY clone is dropped while the
   subscription is active, which closes the liveness channel the remaining clones look at *)
Definition drop_sink_old (s : st) (h : nat) (b : sub) (k : N) : st :=
  let rest := removeN k (s_sinks b) in
  let last := is_nil rest in
  let r := last && s_has_permit b in
  apply s h b
    (fun x => rel_sub r (sb_unsub true (sb_sinks rest x)))
    (rel_conn r)
    (if negb (s_unsubscribed b) then remove_key (key_of b) (table s) else table s).

Definition close_frame (b : sub) (v : closeval) : option frame :=
  match v with
  | CNone => None
  | CNotif x => Some (FNotif (s_meth b) (s_id b) x true)
  | CNotifErr x => Some (FNotifErr (s_meth b) (s_id b) x)
  end.

(* the pending sink goes away without a successful accept: the handler future is finished or dropped *)
Definition sb_fail (x : sstate) (r : bool) (b : sub) : sub := rel_sub r (sb_returned None (sb_state x b)).

(* ---------- accept(), interpreted over the order read from the source ---------- *)
Definition accept_phase1 : list accept_step := fst (split_answer accept_steps).
Definition accept_phase2 : list accept_step := snd (split_answer accept_steps).

(* who can still call accept / reject: the pending sink is alive *)
Definition holds_pending (x : sstate) : bool := match x with SPending | SAbandoned => true | _ => false end.
(* the subscribe-call future is still waiting on its oneshot *)
Definition call_waiting (x : sstate) : bool := match x with SPending => true | _ => false end.

Record accept_result := mkAR {
  ar_ok : bool;                   (* no fallible step failed *)
  ar_sub : sub -> sub;            (* what was done to the subscription's record, *)
  ar_conn : conn -> conn;         (* to its connection, *)
  ar_table : list (nat * N) }.    (* and to the subscriber table, up to the end or up to the failing step *)

(* op: the connection's outgoing channel is open; call: the subscribe-call future waits for the answer *)
Fixpoint accept_run (op call : bool) (b : sub) (l : list accept_step)
                    (fs : sub -> sub) (fc : conn -> conn) (t : list (nat * N)) : accept_result :=
  match l with
  | [] => mkAR true fs fc t
  | ASendToSink :: l' =>      (* self.inner.send(response.to_json()).await.map_err(..)? *)
      if op then accept_run op call b l' fs (fun cn => c_enq (FSubOk (s_req b) (s_id b)) (fc cn)) t
      else mkAR false fs fc t
  | ANotifyCall :: l' =>      (* self.subscribe.send(response).map_err(..)? *)
      if call then accept_run op call b l' fs fc t else mkAR false fs fc t
  | ATableInsert :: l' =>     (* self.subscribers.lock().insert(uniq_sub, ..) *)
      accept_run op call b l' fs fc (key_of b :: t)
  | ABuildSink :: l' =>       (* Ok(SubscriptionSink { .. }) *)
      accept_run op call b l' (fun x => sb_sinks [0%N] (sb_state SActive (fs x))) fc t
  end.

(* ---------- one step, before the graceful-stop bookkeeping ---------- *)
(* ops: how each site takes the table's mutex (read from the source); contended: another thread holds it right now *)
Definition step_core_g (ops : table_ops) (old contended : bool) (s : st) (a : act) : st * list obs :=
  match a with
  | SubscribeCall c req =>
      match nth_error (conns s) c with
      | Some cn =>
          if c_open cn && negb (stopped s) then
            match c_permits cn with
            | S p =>        (* bounded_subscriptions.acquire() = Some(permit): the callback runs *)
                let h := length (subs s) in
                let b := mkSub c (id_base s + N.of_nat h)%N req (notif_meth s) SPending [] [] true false false None in
                (upd_conn (set_subs s (subs s ++ [b])) c (c_set_permits p), [OHandler h c req])
            | O => (push s c (FErr req ETooMany), [ORefused c req])
            end
          else (s, [])
      | None => (s, [])
      end
  | Accept1 h =>
      match nth_error (subs s) h with
      | Some b =>
          if holds_pending (s_state b) then
            let r := accept_run (conn_open s (s_conn b)) (call_waiting (s_state b)) b accept_phase1
                                (fun x => x) (fun cn => cn) (table s) in
            (* the only step of accept() that touches the table is its insert: skipped = table as it was *)
            if ar_ok r then
              (apply s h b (fun x => sb_state SAccepting (ar_sub r x)) (ar_conn r)
                 (when_performed contended (at_accept ops) (ar_table r) (table s)), [OAck])
            else    (* Err(PendingSubscriptionAcceptError): what was done stays done; the pending sink and its permit are gone *)
              (apply s h b (fun x => sb_fail SDone (s_has_permit b) (ar_sub r x))
                 (fun cn => rel_conn (s_has_permit b) (ar_conn r cn))
                 (when_performed contended (at_accept ops) (ar_table r) (table s)), [OAccept h false])
          else (s, [])
      | None => (s, [])
      end
  | Accept2 h =>
      match nth_error (subs s) h with
      | Some b =>
          match s_state b with
          | SAccepting =>
              let r := accept_run (conn_open s (s_conn b)) true b accept_phase2 (fun x => x) (fun cn => cn) (table s) in
              (apply s h b (ar_sub r) (ar_conn r) (when_performed contended (at_accept ops) (ar_table r) (table s)),
               [OAccept h true])
          | _ => (s, [])
          end
      | None => (s, [])
      end
  | Reject h code =>
      match nth_error (subs s) h with
      | Some b =>
          (* reject(): `_ = inner.send(err)`, `_ = subscribe.send(err)`: on an abandoned call the second is lost *)
          if holds_pending (s_state b) then
              (apply s h b (sb_fail SRejected (s_has_permit b))
                 (fun cn => rel_conn (s_has_permit b) (c_push (FErr (s_req b) (ERejected code)) cn)) (table s), [OAck])
          else (s, [])
      | None => (s, [])
      end
  | AbandonCall h keep =>
      match nth_error (subs s) h with
      | Some b =>
          match s_state b with
          | SPending =>
              (* the middleware answers the call itself; the library drops the handler future *)
              if keep then
                (apply s h b (fun x => sb_returned None (sb_state SAbandoned x))
                   (c_push (FErr (s_req b) EAbandoned)) (table s), [OAck])
              else
                (apply s h b (sb_fail SDone (s_has_permit b))
                   (fun cn => rel_conn (s_has_permit b) (c_push (FErr (s_req b) EAbandoned) cn)) (table s), [OAck])
          | _ => (s, [])
          end
      | None => (s, [])
      end
  | DropPending h =>
      match nth_error (subs s) h with
      | Some b =>
          match s_state b with
          | SPending =>   (* as when the handler returns without answering: the call future answers -32603 *)
              (apply s h b (sb_fail SDone (s_has_permit b))
                 (fun cn => rel_conn (s_has_permit b) (c_push (FErr (s_req b) EInternal) cn)) (table s), [OAck])
          | SAbandoned => (* nobody is waiting for an answer *)
              (apply s h b (sb_fail SDone (s_has_permit b)) (rel_conn (s_has_permit b)) (table s), [OAck])
          | _ => (s, [])
          end
      | None => (s, [])
      end
  | CloneSink h src k =>
      match nth_error (subs s) h with
      | Some b =>
          if memN src (s_sinks b) && negb (memN k (s_sinks b))
          then (apply s h b (sb_sinks (k :: s_sinks b)) (fun cn => cn) (table s), [OAck])
          else (s, [])
      | None => (s, [])
      end
  | DropSink h k =>
      match nth_error (subs s) h with
      | Some b =>
          (* a clone with a send in flight is borrowed by that future and cannot be dropped *)
          if memN k (s_sinks b) && negb (memN k (map fst (s_inflight b))) then
            ((if old then drop_sink_old
              else when_performed contended (at_guard_drop ops) drop_sink drop_sink_skipped) s h b k, [OAck])
          else (s, [])
      | None => (s, [])
      end
  | SendCheck h k x =>
      match nth_error (subs s) h with
      | Some b =>
          if memN k (s_sinks b) && negb (memN k (map fst (s_inflight b))) then
            if sink_closed s b then (s, [OSendResult h k x false])
            else (apply s h b (sb_inflight ((k, x) :: s_inflight b)) (fun cn => cn) (table s), [OAck])
          else (s, [])
      | None => (s, [])
      end
  | SendEnqueue h k =>
      match nth_error (subs s) h with
      | Some b =>
          match inflight_of k (s_inflight b) with
          | Some x =>     (* inner.send(json): Ok when the connection is still open *)
              (apply s h b (sb_inflight (remove_inflight k (s_inflight b))) (c_push (FNotif (s_meth b) (s_id b) x false)) (table s),
               [OSendResult h k x (conn_open s (s_conn b))])
          | None => (s, [])
          end
      | None => (s, [])
      end
  | IsClosed h k =>
      match nth_error (subs s) h with
      | Some b => if memN k (s_sinks b) then (s, [OClosed h k (sink_closed s b)]) else (s, [])
      | None => (s, [])
      end
  | HandlerReturn h v =>
      match nth_error (subs s) h with
      | Some b =>
          if s_returned b then (s, []) else
          match s_state b with
          | SPending =>   (* the pending sink is dropped unanswered: the call future answers -32603 *)
              (apply s h b (sb_fail SDone (s_has_permit b))
                 (fun cn => rel_conn (s_has_permit b) (c_push (FErr (s_req b) EInternal) cn)) (table s), [OAck])
          | SAccepting => (s, [])     (* the handler is inside accept().await *)
          | SActive => (apply s h b (sb_returned (match v with CNone => None | _ => Some v end)) (fun cn => cn) (table s), [OAck])
          | _ => (apply s h b (sb_returned None) (fun cn => cn) (table s), [OAck])    (* not accepted: the closing value is discarded *)
          end
      | None => (s, [])
      end
  | CloseNotify h =>
      match nth_error (subs s) h with
      | Some b =>
          match s_ret b with
          | Some v => (apply s h b (sb_ret None) (c_push_opt (close_frame b v)) (table s), [OAck])
          | None => (s, [])
          end
      | None => (s, [])
      end
  | UnsubscribeCall c req target =>
      match nth_error (conns s) c with
      | Some cn =>
          if c_open cn && negb (stopped s) then
           if when_performed contended (at_unsubscribe ops) true false then
            let r := mem_key (c, target) (table s) in
            (* subscribers.lock().remove(&key).is_some(): dropping the entry closes the liveness channel of that
               subscription (there is at most one with this key) *)
            let s1 := set_table s (remove_key (c, target) (table s)) in
            let s2 := set_subs s1 (map (fun b => if key_eqb (key_of b) (c, target) &&
                                                     match s_state b with SActive => true | _ => false end
                                                 then sb_unsub true b else b) (subs s1)) in
            (upd_conn s2 c (c_enq (FUnsub req r)), [OUnsubAnswer c req target r])
           else   (* the table was not looked at: the callback answers false and nothing changes *)
            (upd_conn s c (c_enq (FUnsub req false)), [OUnsubAnswer c req target false])
          else (s, [])
      | None => (s, [])
      end
  | WriterStep c =>
      match nth_error (conns s) c with
      | Some cn =>
          if c_open cn then
            match c_queue cn with
            | f :: _ => (upd_conn s c c_pop, [OFrameOut c f])
            | [] => (s, [])
            end
          else (s, [])
      | None => (s, [])
      end
  | ConnDrop c =>
      match nth_error (conns s) c with
      | Some cn => if c_open cn then (upd_conn s c c_close, [OAck]) else (s, [])
      | None => (s, [])
      end
  | ServerStop => if stopped s then (s, []) else (set_stopped s, [OAck])
  end.

(* ---------- graceful stop ----------
   After ServerHandle::stop() a connection stops reading; it is closed once every call it has in flight has been
   answered (here: no subscribe call whose handler still holds the pending sink).  The send task writes what is
   queued, then closes the socket and the mpsc receiver. *)
Definition has_pending (s : st) (c : nat) : bool := existsb (is_pending_on c) (subs s).

Fixpoint settle_from (s : st) (c : nat) (cs : list conn) : list conn * list obs :=
  match cs with
  | [] => ([], [])
  | cn :: rest =>
      let '(rest', o) := settle_from s (S c) rest in
      if c_open cn && negb (has_pending s c)
      then (c_end cn :: rest', map (OFrameOut c) (c_queue cn) ++ OConnEnd c :: o)
      else (cn :: rest', o)
  end.
Definition settle (s : st) : st * list obs :=
  if stopped s then let '(cs, o) := settle_from s 0 (conns s) in (set_conns s cs, o) else (s, []).

(* one thread: no event is ever contended *)
Definition step_core (old : bool) (s : st) (a : act) : st * list obs := step_core_g table_ops_gen old false s a.

Definition step_gen (old : bool) (s : st) (a : act) : st * list obs :=
  let '(s1, o1) := step_core old s a in
  let '(s2, o2) := settle s1 in
  (s2, o1 ++ o2).

(* thread-level: the event carries its `contended` bit *)
Definition step_x (ops : table_ops) (contended : bool) (s : st) (a : act) : st * list obs :=
  let '(s1, o1) := step_core_g ops false contended s a in
  let '(s2, o2) := settle s1 in
  (s2, o1 ++ o2).

Definition step : st -> act -> st * list obs := step_gen false.        (* repaired tree *)
Definition step_old : st -> act -> st * list obs := step_gen true.     (* unrepaired Drop *)

Definition init_conn (cap : nat) : conn := mkConn true false cap cap [] [].
Definition init (caps : list nat) (base meth : N) : st := mkSt (map init_conn caps) [] [] false base meth.

(* a run accumulates the observations; `fold_left` over the trace *)
Definition run_step (stp : st -> act -> st * list obs) (so : st * list obs) (a : act) : st * list obs :=
  let '(s', o') := stp (fst so) a in (s', snd so ++ o').
Definition run_gen (stp : st -> act -> st * list obs) (s : st) (tr : list act) : st * list obs :=
  fold_left (run_step stp) tr (s, []).
Definition run : st -> list act -> st * list obs := run_gen step.
Definition run_old : st -> list act -> st * list obs := run_gen step_old.

(* the writer drains every queue: what "poll to quiescence" amounts to on the real side *)
Fixpoint drain_from (c : nat) (cs : list conn) : list act :=
  match cs with
  | [] => []
  | cn :: rest => repeat (WriterStep c) (length (c_queue cn)) ++ drain_from (S c) rest
  end.
Definition drain_trace (s : st) : list act := drain_from 0 (conns s).

(* ---------- thread-level traces: every event with its `contended` bit ---------- *)
Definition cact : Type := (act * bool)%type.
Definition run_x (ops : table_ops) (s : st) (tr : list cact) : st * list obs :=
  fold_left (fun so e => let '(s', o') := step_x ops (snd e) (fst so) (fst e) in (s', snd so ++ o')) tr (s, []).
Definition step_c (s : st) (e : cact) : st * list obs := step_x table_ops_gen (snd e) s (fst e).
Definition run_c : st -> list cact -> st * list obs := run_x table_ops_gen.
