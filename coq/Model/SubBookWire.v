(* C04 / C06 -- the wire form of Model/SubBook.v's abstract error kinds (what the engine `subhist` prints for an
   `FErr req e` frame).  SubBook.v itself never looks at codes or messages; the driver used to carry the two library
   constants by hand.  They are the constants of Gen/ErrorConstsGen.v now (regenerated from types/src/error.rs):

     ETooMany     server/src/middleware/rpc.rs: `MethodResponse::error(id, reject_too_many_subscriptions(max))`
                  -> reject_too_many_subscriptions_shape (the harness compares code and message only)
     EInternal    ErrorCode::InternalError (handler returned / pending sink dropped without an answer)
     ERejected c  the handler's own error object (the harness rejects with code c, message "rejected")
     EAbandoned   the answer of the harness's middleware (code 44 "abandoned"), not a library constant *)
From JV Require Import Base.Bytes Model.ErrShape Model.SubBook Gen.ErrorConstsGen.

Definition errkind_wire (e : errkind) : Z * bytes :=
  match e with
  | ETooMany => (sh_code reject_too_many_subscriptions_shape, sh_msg reject_too_many_subscriptions_shape)
  | EInternal => (sh_code from_internal_error_shape, sh_msg from_internal_error_shape)
  | ERejected c => (c, b#"rejected")
  | EAbandoned => (44%Z, b#"abandoned")
  end.
