(* The accesses to the per-method subscriber table `Subscribers = Arc<Mutex<FxHashMap<SubscriptionKey, ..>>>`
   (core/src/server/subscription.rs), as an alphabet.  WHICH access the source performs at each of its sites is not
   written here: tools/translators/table_ops.py enumerates every mention of the table in
   core/src/server/{subscription,rpc_module}.rs on every check, classifies each one, and emits the sites that touch the
   table as `Gen/TableOpsGen.table_ops_gen`; Model/SubBook.v interprets that record (step_core_g).

     TLockThen op      `<table>.lock().<op>(..)`: the operation is carried out UNCONDITIONALLY; when another thread holds
                       the mutex the caller waits for it (parking_lot::Mutex::lock), then carries it out
     TTryLockThen op   `if let Some(mut g) = <table>.try_lock() { g.<op>(..) }`: the operation is carried out only when the
                       mutex happens to be free at that instant; when another thread holds it (the event is CONTENDED)
                       the operation is silently SKIPPED

   The three sites:
     at_accept        PendingSubscriptionSink::accept            insert(uniq_sub, (sink, rx))        TInsert
     at_unsubscribe   the unsubscribe callback (rpc_module.rs)   remove(&key).is_some() -> answer    TRemoveIsSome
     at_guard_drop    impl Drop for SubscriptionGuard            remove(&uniq_sub), last clone gone  TRemove
   A thread-level interleaving is a trace in which every event carries one more bit: `contended` = some other thread
   is inside a critical section of the same table while this event runs.  On one thread that bit is always false. *)
From Coq Require Import List Bool.
Import ListNotations.

Inductive table_op := TInsert | TRemove | TRemoveIsSome.
Inductive table_access := TLockThen (op : table_op) | TTryLockThen (op : table_op).

Definition blocking (a : table_access) : bool :=
  match a with TLockThen _ => true | TTryLockThen _ => false end.
Definition op_of (a : table_access) : table_op :=
  match a with TLockThen op | TTryLockThen op => op end.

Record table_ops := mkTableOps {
  at_accept : table_access;
  at_unsubscribe : table_access;
  at_guard_drop : table_access }.

Definition sites_of (o : table_ops) : list table_access := [at_accept o; at_unsubscribe o; at_guard_drop o].
Definition all_blocking (o : table_ops) : bool := forallb blocking (sites_of o).

(* `done` when the access is carried out, `skipped` when it is not.  Written so that an uncontended event
   (contended = false, the only kind a single thread produces) reduces to `done` without looking at the access. *)
Definition when_performed {A} (contended : bool) (a : table_access) (done skipped : A) : A :=
  if contended then (if blocking a then done else skipped) else done.

(* the source as it is meant to be; compared with the generated record in Props/C06.v *)
Definition table_ops_locked : table_ops :=
  mkTableOps (TLockThen TInsert) (TLockThen TRemoveIsSome) (TLockThen TRemove).
(* a guard that "never blocks in Drop": the hypothetical the contended flag exists for *)
Definition table_ops_trylock_guard : table_ops :=
  mkTableOps (TLockThen TInsert) (TLockThen TRemoveIsSome) (TTryLockThen TRemove).
