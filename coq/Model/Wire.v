(* jsonrpsee-types wire formats: Id, SubscriptionId, ErrorObject, Request, Notification,
   InvalidRequest, Response (hand-written visitor), subscription payloads.
   Payloads (params / result / data) are raw JSON texts, as in the library (RawValue).

   MAP FORM AND SEQUENCE FORM.  serde_json's `deserialize_struct` looks at the first non-whitespace byte:
   '{' -> the visitor's visit_map, '[' -> its visit_seq, anything else -> invalid type (`de_struct` below).
   The visitors that `#[derive(Deserialize)]` generates implement BOTH, so the derived types
       ErrorObject                  [code, message, data]
       Request                      [jsonrpc, id, method, params]          (extensions: #[serde(skip)], takes no slot)
       Notification<T>              [jsonrpc, method, params]              (extensions skipped)
       InvalidRequest               [id]
       SubscriptionPayload<T>       [subscription, result]
       SubscriptionPayloadError<T>  [subscription, error]
   are also read from a JSON array holding the fields in declaration order.  visit_seq takes the elements by position;
   EVERY non-skipped field must be present (a missing trailing Option field is `invalid_length`, there is no
   #[serde(default)] in these types; in the map form a missing Option member is None), `null` in an Option slot is
   None, and serde_json's `end_seq` rejects anything after the last field: the array has EXACTLY as many elements as
   the struct has non-skipped fields.  deny_unknown_fields (ErrorObject) and duplicate-member checks have no
   counterpart in the sequence form.  Sequence forms nest: the params of a sequence-form Notification may be a
   sequence-form SubscriptionPayload.  All of this was measured on the compiled library (engine `wire`).
   `Response` has a hand-written visitor with visit_map only: an array is never a Response (but its `error` member
   is an ErrorObject, map or sequence form).  TwoPointZero / ErrorCode are hand-written scalars, Id / SubscriptionId
   untagged enums: no sequence form.  The serialisers never write a sequence form.

   Where the sequence forms are reachable in the library: the async client (elements of an array frame; `params` of a
   subscription notification; the `error` member of a response), the HTTP client (`error` member), and
   `Methods::raw_json_request` (serde_json::from_str::<Request> on the caller's text).  The server sniffs '{' before
   it reads a single message and (since "fix: only JSON objects are read as batch entries") requires '{' at the head
   of every batch entry, so Model/Server.v applies the MAP readers (`as_request` ...) directly.

   Not modelled: serde_json's recursion limit (128) for the struct nesting itself (at most 2 levels here; payload
   spans are RawValue and are skipped without a depth limit), and error MESSAGES (a failed parse is None). *)
From JV Require Import Base.Bytes Base.Dec Base.Utf8 Json.Json Json.JsonSer Json.JsonParse.
Local Open Scope N_scope.

(* ---------- ids ---------- *)
Inductive id := IdNull | IdNum (n : N) | IdStr (s : bytes).

Definition id_eqb (a b : id) : bool :=
  match a, b with
  | IdNull, IdNull => true
  | IdNum x, IdNum y => N.eqb x y
  | IdStr x, IdStr y => bytes_eqb x y
  | _, _ => false
  end.

(* untagged enum Id { Null, Number(u64), Str }: variants tried in order on the buffered value *)
Definition id_of_json (v : json) : option id :=
  match v with
  | JNull => Some IdNull
  | JNum (NPos n) => Some (IdNum n)
  | JStr s => Some (IdStr s)
  | _ => None
  end.
Definition json_of_id (i : id) : json :=
  match i with IdNull => JNull | IdNum n => JNum (NPos n) | IdStr s => JStr s end.
Definition ser_id (i : id) : bytes := ser (json_of_id i).
Definition parse_id (t : bytes) : option id :=
  match parse_text t with Some v => id_of_json v | None => None end.

(* SubscriptionId { Num(u64), Str } *)
Inductive subid := SubNum (n : N) | SubStr (s : bytes).
Definition subid_eqb (a b : subid) : bool :=
  match a, b with
  | SubNum x, SubNum y => N.eqb x y
  | SubStr x, SubStr y => bytes_eqb x y
  | _, _ => false
  end.
Definition subid_of_json (v : json) : option subid :=
  match v with JNum (NPos n) => Some (SubNum n) | JStr s => Some (SubStr s) | _ => None end.
Definition json_of_subid (i : subid) : json :=
  match i with SubNum n => JNum (NPos n) | SubStr s => JStr s end.
Definition ser_subid (i : subid) : bytes := ser (json_of_subid i).
Definition parse_subid (t : bytes) : option subid :=
  match parse_text t with Some v => subid_of_json v | None => None end.

(* ---------- top-level object as a member list with raw value spans ---------- *)
Definition members := list (bytes * bytes).

(* s: positioned where a key is expected (after '{' with at least one member, or after ',') *)
Fixpoint members_loop (fuel : nat) (s : bytes) : option (members * bytes) :=
  match fuel with
  | O => None
  | S f =>
    match skip_ws s with
    | q :: s1 =>
      if beqb q x22 then
        match scan_str_valid s1 with
        | Some (k, r0) =>
          match skip_ws r0 with
          | col :: r1 =>
            if beqb col x3a then
              let r1' := skip_ws r1 in
              match skip_value (S (length r1')) r1' with
              | Some (span, r) =>
                match skip_ws r with
                | c :: r2 =>
                  if beqb c x2c then
                    match members_loop f r2 with Some (ms, r3) => Some ((k, span) :: ms, r3) | None => None end
                  else if beqb c x7d then Some ([(k, span)], r2)
                  else None
                | [] => None
                end
              | None => None
              end
            else None
          | [] => None
          end
        | None => None
        end
      else None
    | [] => None
    end
  end.

(* ws* '{' members '}' ws* eof *)
Definition object_members (s : bytes) : option members :=
  match skip_ws s with
  | c :: s1 =>
    if beqb c x7b then
      match skip_ws s1 with
      | c2 :: r =>
        if beqb c2 x7d then match skip_ws r with [] => Some [] | _ => None end
        else match members_loop (S (length s1)) s1 with
             | Some (ms, r') => match skip_ws r' with [] => Some ms | _ => None end
             | None => None
             end
      | [] => None
      end
    else None
  | [] => None
  end.

Fixpoint get_all (k : bytes) (m : members) : list bytes :=
  match m with
  | [] => []
  | (k', v) :: m' => if bytes_eqb k k' then v :: get_all k m' else get_all k m'
  end.

(* field presence: absent / exactly once / duplicated *)
Inductive field := FAbsent | FOne (span : bytes) | FDup.
Definition field_of (k : bytes) (m : members) : field :=
  match get_all k m with [] => FAbsent | [v] => FOne v | _ => FDup end.

(* ---------- top-level array as a list of raw element spans (Vec<&RawValue>; the sequence form of a struct) ---------- *)

(* after '[' with at least one element: skip one value, expect ',' or ']'; spans have their leading whitespace dropped *)
Fixpoint elems_loop (fuel : nat) (s : bytes) : option (list bytes * bytes) :=
  match fuel with
  | O => None
  | S f =>
    let s' := skip_ws s in
    match skip_value (S (length s')) s' with
    | Some (t, r) =>
      match skip_ws r with
      | c :: r1 =>
        if beqb c x2c then
          match elems_loop f r1 with Some (ts, r2) => Some (t :: ts, r2) | None => None end
        else if beqb c x5d then Some ([t], r1)
        else None
      | [] => None
      end
    | None => None
    end
  end.

(* ws* '[' elems ']' ws* eof *)
Definition array_elems_fuel (fuel : nat) (s : bytes) : option (list bytes) :=
  match skip_ws s with
  | c :: s1 =>
    if beqb c x5b then
      match skip_ws s1 with
      | c2 :: r =>
        if beqb c2 x5d then match skip_ws r with [] => Some [] | _ :: _ => None end
        else match elems_loop fuel s1 with
             | Some (ts, r') => match skip_ws r' with [] => Some ts | _ :: _ => None end
             | None => None
             end
      | [] => None
      end
    else None
  | [] => None
  end.

Definition array_elems (s : bytes) : option (list bytes) := array_elems_fuel (S (length s)) s.

(* ---------- serde_json::Deserializer::deserialize_struct ----------
   first non-whitespace byte '{' -> visit_map on the members, '[' -> visit_seq on the elements (followed by end_seq:
   nothing but ']' may remain), anything else -> Err(invalid_type).  A hand-written visitor without visit_seq
   (Response) is `de_struct vmap (fun _ => None)`, i.e. just the map reader. *)
Definition de_struct {A : Type} (vmap : members -> option A) (vseq : list bytes -> option A) (t : bytes) : option A :=
  match skip_ws t with
  | c :: _ =>
    if beqb c x7b then match object_members t with Some m => vmap m | None => None end
    else if beqb c x5b then match array_elems t with Some els => vseq els | None => None end
    else None
  | [] => None
  end.

(* ---------- typed field readers on a span ---------- *)
Definition k_jsonrpc := Eval cbv in b#"jsonrpc".
Definition k_id := Eval cbv in b#"id".
Definition k_method := Eval cbv in b#"method".
Definition k_params := Eval cbv in b#"params".
Definition k_result := Eval cbv in b#"result".
Definition k_error := Eval cbv in b#"error".
Definition k_code := Eval cbv in b#"code".
Definition k_message := Eval cbv in b#"message".
Definition k_data := Eval cbv in b#"data".
Definition k_subscription := Eval cbv in b#"subscription".
Definition v_two := Eval cbv in b#"2.0".

Definition is_two (span : bytes) : bool :=
  match parse_text span with Some (JStr s) => bytes_eqb s v_two | _ => false end.
Definition as_str (span : bytes) : option bytes :=
  match parse_text span with Some (JStr s) => Some s | _ => None end.
Definition is_null_span (span : bytes) : bool := bytes_eqb span b#"null".
(* Option<RawValue>: null -> None; otherwise the span (must be UTF-8 when read from a slice) *)
Definition as_opt_raw (span : bytes) : option (option bytes) :=
  if is_null_span span then Some None
  else if utf8_valid span then Some (Some span) else None.
Definition as_raw (span : bytes) : option bytes := if utf8_valid span then Some span else None.

(* i32 *)
Definition i32_of_json (v : json) : option Z :=
  match v with
  | JNum (NPos n) => if n <=? 2147483647 then Some (Z.of_N n) else None
  | JNum (NNeg n) => if n <=? 2147483648 then Some (- Z.of_N n)%Z else None
  | _ => None
  end.

(* ---------- ErrorObject (deny_unknown_fields) ---------- *)
Record errobj := { e_code : Z; e_message : bytes; e_data : option bytes }.

Definition all_known (known : list bytes) (m : members) : bool :=
  forallb (fun kv => existsb (bytes_eqb (fst kv)) known) m.

Definition parse_errobj_members (m : members) : option errobj :=
  if negb (all_known [k_code; k_message; k_data] m) then None else
  match field_of k_code m, field_of k_message m with
  | FOne c, FOne msg =>
    match parse_text c, as_str msg with
    | Some cv, Some ms =>
      match i32_of_json cv with
      | Some code =>
        match field_of k_data m with
        | FAbsent => Some {| e_code := code; e_message := ms; e_data := None |}
        | FOne d => match as_opt_raw d with
                    | Some od => Some {| e_code := code; e_message := ms; e_data := od |}
                    | None => None end
        | FDup => None
        end
      | None => None
      end
    | _, _ => None
    end
  | _, _ => None
  end.

(* visit_seq: [code, message, data], all three present; data `null` -> None *)
Definition seq_errobj (els : list bytes) : option errobj :=
  match els with
  | [c; msg; d] =>
    match parse_text c, as_str msg with
    | Some cv, Some ms =>
      match i32_of_json cv with
      | Some code =>
        match as_opt_raw d with
        | Some od => Some {| e_code := code; e_message := ms; e_data := od |}
        | None => None
        end
      | None => None
      end
    | _, _ => None
    end
  | _ => None
  end.

Definition parse_errobj (t : bytes) : option errobj := de_struct parse_errobj_members seq_errobj t.

Definition ser_errobj (e : errobj) : bytes :=
  b#"{""code"":" ++ print_Z (e_code e) ++ b#",""message"":" ++ ser_str (e_message e) ++
  match e_data e with Some d => b#",""data"":" ++ d | None => [] end ++ b#"}".

(* ---------- Request / Notification / InvalidRequest ---------- *)
Record request := { rq_id : id; rq_method : bytes; rq_params : option bytes }.

Definition opt_field_raw (k : bytes) (m : members) : option (option bytes) :=
  match field_of k m with
  | FAbsent => Some None
  | FOne p => as_opt_raw p
  | FDup => None
  end.

Definition as_request (m : members) : option request :=
  match field_of k_jsonrpc m, field_of k_id m, field_of k_method m with
  | FOne j, FOne i, FOne me =>
    if is_two j then
      match parse_id i, as_str me, opt_field_raw k_params m with
      | Some i', Some me', Some p => Some {| rq_id := i'; rq_method := me'; rq_params := p |}
      | _, _, _ => None
      end
    else None
  | _, _, _ => None
  end.

(* Notification<Option<RawValue>> as the server reads it: id is just an ignored member *)
Definition as_notification (m : members) : option (bytes * option bytes) :=
  match field_of k_jsonrpc m, field_of k_method m with
  | FOne j, FOne me =>
    if is_two j then
      match as_str me, opt_field_raw k_params m with
      | Some me', Some p => Some (me', p)
      | _, _ => None
      end
    else None
  | _, _ => None
  end.

Definition as_invalid (m : members) : option id :=
  match field_of k_id m with FOne i => parse_id i | _ => None end.

(* the sequence forms (visit_seq of the derived visitors): exactly the non-skipped fields, in declaration order;
   an Option slot must be there (`null` = None) *)
Definition seq_request (els : list bytes) : option request :=
  match els with
  | [j; i; me; p] =>
    if is_two j then
      match parse_id i, as_str me, as_opt_raw p with
      | Some i', Some me', Some p' => Some {| rq_id := i'; rq_method := me'; rq_params := p' |}
      | _, _, _ => None
      end
    else None
  | _ => None
  end.

Definition seq_notification (els : list bytes) : option (bytes * option bytes) :=
  match els with
  | [j; me; p] =>
    if is_two j then
      match as_str me, as_opt_raw p with
      | Some me', Some p' => Some (me', p')
      | _, _ => None
      end
    else None
  | _ => None
  end.

Definition seq_invalid (els : list bytes) : option id :=
  match els with [i] => parse_id i | _ => None end.

(* serde_json::from_slice::<Request> / <Notification<Option<&RawValue>>> / <InvalidRequest> on ANY text *)
Definition parse_request (t : bytes) : option request := de_struct as_request seq_request t.
Definition parse_notification (t : bytes) : option (bytes * option bytes) := de_struct as_notification seq_notification t.
Definition parse_invalid (t : bytes) : option id := de_struct as_invalid seq_invalid t.

Definition ser_request (r : request) : bytes :=
  b#"{""jsonrpc"":""2.0"",""id"":" ++ ser_id (rq_id r) ++ b#",""method"":" ++ ser_str (rq_method r) ++
  match rq_params r with Some p => b#",""params"":" ++ p | None => [] end ++ b#"}".

(* Notification<T> with T = Option<RawValue> serialises params always (null when None) *)
Definition ser_notification (me : bytes) (p : option bytes) : bytes :=
  b#"{""jsonrpc"":""2.0"",""method"":" ++ ser_str me ++ b#",""params"":" ++
  match p with Some p' => p' | None => b#"null" end ++ b#"}".

(* ---------- Response ---------- *)
Inductive payload := PResult (raw : bytes) | PError (e : errobj).
Record response := { rs_jsonrpc : bool (* Some(TwoPointZero)? *); rs_payload : payload; rs_id : id }.

(* jsonrpc: Option<TwoPointZero> read with next_value: null -> None *)
Definition as_opt_two (span : bytes) : option bool :=
  if is_null_span span then Some false else if is_two span then Some true else None.

Definition parse_response_members (m : members) : option response :=
  match field_of k_id m with
  | FOne i =>
    match parse_id i with
    | Some i' =>
      let j := match field_of k_jsonrpc m with
               | FAbsent => Some false
               | FOne s => as_opt_two s
               | FDup => None end in
      match j with
      | None => None
      | Some jv =>
        match field_of k_result m, field_of k_error m with
        | FOne r, FAbsent =>
          match as_raw r with Some r' => Some {| rs_jsonrpc := jv; rs_payload := PResult r'; rs_id := i' |} | None => None end
        | FAbsent, FOne e =>
          match parse_errobj e with Some e' => Some {| rs_jsonrpc := jv; rs_payload := PError e'; rs_id := i' |} | None => None end
        | _, _ => None
        end
      end
    | None => None
    end
  | _ => None
  end.

(* the hand-written visitor has visit_map only: an array text is never a Response (this is
   `de_struct parse_response_members (fun _ => None)`, Proofs/WireFacts.v parse_response_de_struct); its `error`
   member is an ErrorObject and goes through parse_errobj: map OR sequence form *)
Definition parse_response (t : bytes) : option response :=
  match object_members t with Some m => parse_response_members m | None => None end.

Definition ser_response (r : response) : bytes :=
  b#"{" ++ (if rs_jsonrpc r then b#"""jsonrpc"":""2.0""," else []) ++ b#"""id"":" ++ ser_id (rs_id r) ++
  match rs_payload r with
  | PResult raw => b#",""result"":" ++ raw
  | PError e => b#",""error"":" ++ ser_errobj e
  end ++ b#"}".

(* ---------- subscription notification: {"jsonrpc":"2.0","method":m,"params":{"subscription":id,"result"|"error":raw}} ---------- *)
Definition ser_sub_notif (me : bytes) (sid : subid) (is_err : bool) (raw : bytes) : bytes :=
  b#"{""jsonrpc"":""2.0"",""method"":" ++ ser_str me ++ b#",""params"":{""subscription"":" ++ ser_subid sid ++
  (if is_err then b#",""error"":" else b#",""result"":") ++ raw ++ b#"}}".

(* SubscriptionPayload / SubscriptionPayloadError (derived, unknown fields ignored); `key` = "result" / "error".
   T = RawValue (not an Option): `null` is an ordinary payload *)
Definition as_sub_payload (key : bytes) (m : members) : option (subid * bytes) :=
  match field_of k_subscription m, field_of key m with
  | FOne s, FOne r =>
    match parse_subid s, as_raw r with
    | Some s', Some r' => Some (s', r')
    | _, _ => None
    end
  | _, _ => None
  end.

(* [subscription, result] / [subscription, error] *)
Definition seq_sub_payload (els : list bytes) : option (subid * bytes) :=
  match els with
  | [s; r] =>
    match parse_subid s, as_raw r with
    | Some s', Some r' => Some (s', r')
    | _, _ => None
    end
  | _ => None
  end.

Definition parse_sub_payload (key : bytes) (t : bytes) : option (subid * bytes) :=
  de_struct (as_sub_payload key) seq_sub_payload t.

(* Notification<SubscriptionPayload>: jsonrpc, method, params required; params in either form *)
Definition as_sub_notif (key : bytes) (m : members) : option (bytes * subid * bytes) :=
  match field_of k_jsonrpc m, field_of k_method m, field_of k_params m with
  | FOne j, FOne me, FOne p =>
    if is_two j then
      match as_str me, parse_sub_payload key p with
      | Some me', Some (s, r) => Some (me', s, r)
      | _, _ => None
      end
    else None
  | _, _, _ => None
  end.

(* [jsonrpc, method, params] *)
Definition seq_sub_notif (key : bytes) (els : list bytes) : option (bytes * subid * bytes) :=
  match els with
  | [j; me; p] =>
    if is_two j then
      match as_str me, parse_sub_payload key p with
      | Some me', Some (s, r) => Some (me', s, r)
      | _, _ => None
      end
    else None
  | _ => None
  end.

Definition parse_sub_notif (key : bytes) (t : bytes) : option (bytes * subid * bytes) :=
  de_struct (as_sub_notif key) (seq_sub_notif key) t.
