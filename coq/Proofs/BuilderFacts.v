(* Proofs for Model/Builder.v (C20). *)
From JV Require Import Base.Bytes Base.Dec Base.Utf8 Json.Json Json.JsonSer Json.JsonParse Json.JsonWf.
From JV Require Import Proofs.BytesFacts Proofs.Utf8Facts Proofs.LexFacts Proofs.JsonScan Model.Builder.
Local Arguments ser_str : simpl never.

(* ====================================================================== *)
(* 1. the buffer as a list of pieces                                      *)
(* ====================================================================== *)

Definition body (ps : list bytes) : bytes := concat (map (fun p => p ++ [x2c]) ps).
(* the buffer after the pieces ps went in: empty, or start byte and every piece followed by ',' *)
Definition state (s : byte) (ps : list bytes) : bytes :=
  match ps with [] => [] | _ :: _ => s :: body ps end.
Definition piece (k t : bytes) : bytes := ser_str k ++ x3a :: t.

Lemma body_app ps qs : body (ps ++ qs) = body ps ++ body qs.
Proof. unfold body. rewrite map_app, concat_app. reflexivity. Qed.

Lemma body_snoc ps p : body (ps ++ [p]) = body ps ++ p ++ [x2c].
Proof. rewrite body_app. unfold body at 2. cbn. rewrite app_nil_r. reflexivity. Qed.

Lemma state_snoc s ps p : state s (ps ++ [p]) = s :: body ps ++ p ++ [x2c].
Proof.
  unfold state. destruct (ps ++ [p]) eqn:E.
  - apply app_eq_nil in E as [_ E]. discriminate E.
  - rewrite <- E, body_snoc. reflexivity.
Qed.

Lemma firstn_length_app {A} (l p : list A) : firstn (length l) (l ++ p) = l.
Proof. induction l as [|x l IH]; cbn; [reflexivity | rewrite IH; reflexivity]. Qed.

Lemma join_head sep p ps : exists Y, join sep (p :: ps) = p ++ Y.
Proof.
  destruct ps as [|q ps].
  - exists []. cbn. rewrite app_nil_r. reflexivity.
  - exists (sep ++ join sep (q :: ps)). reflexivity.
Qed.

Lemma body_join qs p : body qs ++ p = join [x2c] (qs ++ [p]).
Proof.
  induction qs as [|q qs IH]; [reflexivity|].
  cbn [app]. destruct (qs ++ [p]) as [|y l] eqn:E.
  - apply app_eq_nil in E as [_ E]. discriminate E.
  - rewrite join_cons2, <- IH. unfold body. cbn [map concat]. rewrite <- !app_assoc. reflexivity.
Qed.

Lemma join_concat p ps : join [x2c] (p :: ps) = p ++ concat (map (cons x2c) ps).
Proof.
  revert p. induction ps as [|q ps IH]; intro p.
  - cbn. rewrite app_nil_r. reflexivity.
  - rewrite join_cons2, IH. reflexivity.
Qed.

Lemma snoc_cases {A} (l : list A) : l = [] \/ exists qs p, l = qs ++ [p].
Proof.
  destruct l as [|x l]; [left; reflexivity|]. right.
  destruct (@exists_last A (x :: l)) as (qs & p & E); [discriminate|]. exists qs, p. exact E.
Qed.

(* ====================================================================== *)
(* 2. one insert                                                          *)
(* ====================================================================== *)

Lemma insert_fail b p : insert b (SFail p) = (b, false).
Proof.
  destruct b as [bf s e]. unfold insert, insert_old, maybe_initialize, to_writer, truncate, set_buf.
  destruct bf as [|c l]; cbn.
  - reflexivity.
  - rewrite firstn_length_app. reflexivity.
Qed.

Lemma insert_named_fail b k p : insert_named b k (SFail p) = (b, false).
Proof.
  destruct b as [bf s e]. unfold insert_named, insert_named_old, maybe_initialize, to_writer, truncate, push, set_buf.
  destruct bf as [|c l]; cbn.
  - reflexivity.
  - rewrite <- !app_assoc. rewrite firstn_length_app. reflexivity.
Qed.

Lemma insert_ok_snd b t : snd (insert b (SOk t)) = true.
Proof. reflexivity. Qed.
Lemma insert_named_ok_snd b k t : snd (insert_named b k (SOk t)) = true.
Proof. reflexivity. Qed.

Lemma insert_ok_state s e ps t :
  insert {| buf := state s ps; b_start := s; b_end := e |} (SOk t) =
  ({| buf := state s (ps ++ [t]); b_start := s; b_end := e |}, true).
Proof.
  rewrite state_snoc.
  unfold insert, insert_old, maybe_initialize, to_writer, push, set_buf. destruct ps as [|p ps]; cbn.
  - repeat rewrite <- app_assoc. reflexivity.
  - repeat rewrite <- app_assoc. reflexivity.
Qed.

Lemma insert_named_ok_state s e ps k t :
  insert_named {| buf := state s ps; b_start := s; b_end := e |} k (SOk t) =
  ({| buf := state s (ps ++ [piece k t]); b_start := s; b_end := e |}, true).
Proof.
  rewrite state_snoc.
  unfold insert_named, insert_named_old, maybe_initialize, to_writer, push, set_buf, piece. destruct ps as [|p ps]; cbn.
  - repeat rewrite <- app_assoc. reflexivity.
  - repeat rewrite <- app_assoc. reflexivity.
Qed.

(* ====================================================================== *)
(* 3. sequences of inserts                                                *)
(* ====================================================================== *)

Fixpoint ok_texts (ops : list sres) : list bytes :=
  match ops with
  | [] => []
  | SOk t :: r => t :: ok_texts r
  | SFail _ :: r => ok_texts r
  end.
Fixpoint ok_pieces (ops : list (bytes * sres)) : list (bytes * bytes) :=
  match ops with
  | [] => []
  | (k, SOk t) :: r => (k, t) :: ok_pieces r
  | (_, SFail _) :: r => ok_pieces r
  end.
Definition piece_of (kt : bytes * bytes) : bytes := piece (fst kt) (snd kt).

Lemma inserts_state s e ops : forall ps,
  inserts {| buf := state s ps; b_start := s; b_end := e |} ops =
  ({| buf := state s (ps ++ ok_texts ops); b_start := s; b_end := e |}, map sres_is_ok ops).
Proof.
  unfold inserts. induction ops as [|[t|p] ops IH]; intro ps; cbn [inserts_with ok_texts map sres_is_ok].
  - rewrite app_nil_r. reflexivity.
  - rewrite insert_ok_state, IH, <- app_assoc. reflexivity.
  - rewrite insert_fail, IH. reflexivity.
Qed.

Lemma inserts_named_state s e ops : forall ps,
  inserts_named {| buf := state s ps; b_start := s; b_end := e |} ops =
  ({| buf := state s (ps ++ map piece_of (ok_pieces ops)); b_start := s; b_end := e |},
   map (fun kv => sres_is_ok (snd kv)) ops).
Proof.
  unfold inserts_named. induction ops as [|[k [t|p]] ops IH]; intro ps; cbn [inserts_named_with ok_pieces map sres_is_ok snd].
  - rewrite app_nil_r. reflexivity.
  - rewrite insert_named_ok_state, IH, <- app_assoc. reflexivity.
  - rewrite insert_named_fail, IH. reflexivity.
Qed.

(* ====================================================================== *)
(* 4. build on such a buffer                                              *)
(* ====================================================================== *)

Lemma build_nil s e : build {| buf := []; b_start := s; b_end := e |} = BNone.
Proof. reflexivity. Qed.

Lemma build_state s e qs p :
  build {| buf := state s (qs ++ [p]); b_start := s; b_end := e |} =
  match raw_text (s :: join [x2c] (qs ++ [p]) ++ [e]) with Some t' => BSome t' | None => BPanic end.
Proof.
  rewrite state_snoc, <- body_join. unfold build. cbn [buf b_end].
  replace (s :: body qs ++ p ++ [x2c]) with ((s :: body qs ++ p) ++ [x2c])
    by (cbn [app]; rewrite <- app_assoc; reflexivity).
  rewrite rev_unit. rewrite (beqb_refl x2c), rev_involutive. reflexivity.
Qed.

(* ====================================================================== *)
(* 5. assembling '[' t1 ',' .. ',' tn ']' and '{' k1 ':' t1 ',' .. '}'    *)
(* ====================================================================== *)

(* a text the lenient scanner reads as one value followed by whitespace only *)
Definition lenient_piece (p : bytes) : Prop :=
  exists f c r, skip_value f p = Some (c, r) /\ skip_ws r = [].
(* ... and the strict reader, with d levels left, as the value v *)
Definition strict_piece (d : nat) (p : bytes) (v : json) : Prop :=
  exists f r, parse_value f d p = Some (v, r) /\ skip_ws r = [].

Lemma strict_piece_lenient d p v : strict_piece d p v -> lenient_piece p.
Proof.
  intros (f & r & H & Hr). destruct (strict_is_lenient _ _ _ _ _ H) as [c Hc]. exists f, c, r. split; assumption.
Qed.

Lemma skip_ws_tail r X : skip_ws r = [] -> hd_not is_json_ws X = true -> skip_ws (r ++ X) = X.
Proof. intros H1 H2. unfold skip_ws in *. rewrite drop_while_app_hd by exact H2. rewrite H1. reflexivity. Qed.

Lemma skip_value_head f s t r : skip_value f s = Some (t, r) ->
  exists c s1, skip_ws s = c :: s1 /\ beqb c x5d = false /\ beqb c x7d = false.
Proof.
  destruct f as [|f]; [discriminate|]. rewrite skip_value_S. cbv zeta.
  destruct (skip_ws s) as [|c s1]; [discriminate|]. intro H. exists c, s1. split; [reflexivity|]. split.
  - destruct (beqb c x5d) eqn:E; [|reflexivity]. apply beqb_true in E. subst c. vm_compute in H. discriminate H.
  - destruct (beqb c x7d) eqn:E; [|reflexivity]. apply beqb_true in E. subst c. vm_compute in H. discriminate H.
Qed.

Lemma lenient_piece_head p Y : lenient_piece p ->
  exists c s1, skip_ws (p ++ Y) = c :: s1 /\ beqb c x5d = false /\ beqb c x7d = false.
Proof.
  intros (f & t & r & H & _). destruct (skip_value_head _ _ _ _ H) as (c & s1 & E & H1 & H2).
  exists c, (s1 ++ Y). split; [apply skip_ws_app_cons, E | split; assumption].
Qed.

Lemma lenient_piece_len p f c r : skip_value f p = Some (c, r) -> (length c <= length p)%nat.
Proof. intro H. apply skip_value_split in H. apply (f_equal (@length byte)) in H. rewrite app_length in H. lia. Qed.

(* ---- lenient, arrays *)
Lemma skip_elems_join ps : Forall lenient_piece ps -> ps <> [] ->
  forall F rest, (length (join [x2c] ps) < F)%nat ->
  exists c, skip_elems F (join [x2c] ps ++ x5d :: rest) = Some (c, rest).
Proof.
  induction 1 as [|p ps Hp Hps IH]; [congruence|]. intros _ F rest HF.
  destruct Hp as (f & c & r & Hs & Hr).
  pose proof (lenient_piece_len _ _ _ _ Hs) as Hl.
  destruct F as [|F]; [lia|]. rewrite skip_elems_S.
  destruct ps as [|p' ps'].
  - cbn [join] in *.
    assert (Hs' : skip_value F p = Some (c, r)) by (apply (skip_value_fuel_len _ _ _ _ Hs); lia).
    rewrite (skip_value_extend _ _ _ _ (x5d :: rest) Hs') by (right; reflexivity).
    rewrite (skip_ws_tail r (x5d :: rest) Hr eq_refl). eexists. reflexivity.
  - rewrite join_cons2 in *. rewrite !app_length in HF. cbn [length] in HF.
    replace ((p ++ [x2c] ++ join [x2c] (p' :: ps')) ++ x5d :: rest)
      with (p ++ x2c :: join [x2c] (p' :: ps') ++ x5d :: rest) by (rewrite <- !app_assoc; reflexivity).
    assert (Hs' : skip_value F p = Some (c, r)) by (apply (skip_value_fuel_len _ _ _ _ Hs); lia).
    rewrite (skip_value_extend _ _ _ _ (x2c :: join [x2c] (p' :: ps') ++ x5d :: rest) Hs') by (right; reflexivity).
    rewrite (skip_ws_tail r (x2c :: _) Hr eq_refl). cbv beta iota. rewrite (beqb_refl x2c).
    destruct (IH ltac:(discriminate) F rest ltac:(lia)) as [c2 Hc2]. rewrite Hc2. eexists. reflexivity.
Qed.

Lemma skip_value_arr_step f s1 c2 r t r' :
  skip_ws s1 = c2 :: r -> beqb c2 x5d = false -> skip_elems f s1 = Some (t, r') ->
  skip_value (S f) (x5b :: s1) = Some (x5b :: t, r').
Proof.
  intros H1 H2 H3. rewrite skip_value_S, (skip_ws_cons_nws x5b) by reflexivity.
  cbv beta iota zeta. rewrite H1, H2, H3. reflexivity.
Qed.

Lemma skip_value_obj_step f s1 c2 r t r' :
  skip_ws s1 = c2 :: r -> beqb c2 x7d = false -> skip_members f s1 = Some (t, r') ->
  skip_value (S f) (x7b :: s1) = Some (x7b :: t, r').
Proof.
  intros H1 H2 H3. rewrite skip_value_S, (skip_ws_cons_nws x7b) by reflexivity.
  cbv beta iota zeta. rewrite H1, H2, H3. reflexivity.
Qed.

Lemma utf8_join ps : Forall (fun p => utf8_valid p = true) ps -> utf8_valid (join [x2c] ps) = true.
Proof.
  induction 1 as [|p ps Hp Hps IH]; [reflexivity|].
  destruct ps as [|q ps]; [exact Hp|].
  rewrite join_cons2. apply utf8_valid_app; [exact Hp|].
  cbn [app]. rewrite utf8_valid_ascii_cons by reflexivity. exact IH.
Qed.

Lemma utf8_wrap s e J : ascii s = true -> ascii e = true -> utf8_valid J = true -> utf8_valid (s :: J ++ [e]) = true.
Proof.
  intros Hs He HJ. rewrite utf8_valid_ascii_cons by exact Hs. apply utf8_valid_app; [exact HJ|].
  rewrite utf8_valid_ascii_cons by exact He. reflexivity.
Qed.

Lemma raw_text_of_skip W : utf8_valid W = true -> skip_ws W = W ->
  (exists c, skip_value (S (length W)) W = Some (c, [])) -> raw_text W = Some W.
Proof.
  intros U E [c H]. pose proof (skip_value_split _ _ _ _ H) as HS. rewrite app_nil_r in HS. subst c.
  unfold raw_text, raw_value. rewrite E, H, U. reflexivity.
Qed.

Theorem raw_text_array ps : Forall (fun p => utf8_valid p = true /\ lenient_piece p) ps -> ps <> [] ->
  raw_text (x5b :: join [x2c] ps ++ [x5d]) = Some (x5b :: join [x2c] ps ++ [x5d]).
Proof.
  intros HF Hne.
  assert (HU : Forall (fun p => utf8_valid p = true) ps) by (eapply Forall_impl; [|exact HF]; intros a [H _]; exact H).
  assert (HL : Forall lenient_piece ps) by (eapply Forall_impl; [|exact HF]; intros a [_ H]; exact H).
  apply raw_text_of_skip.
  - apply utf8_wrap; [reflexivity | reflexivity | apply utf8_join, HU].
  - apply skip_ws_cons_nws. reflexivity.
  - destruct (skip_elems_join ps HL Hne (length (x5b :: join [x2c] ps ++ [x5d])) []) as [c Hc].
    { cbn [length]. rewrite app_length. cbn [length]. lia. }
    destruct ps as [|p ps']; [congruence|].
    destruct (join_head [x2c] p ps') as [Y EY].
    destruct (lenient_piece_head p (Y ++ [x5d]) (Forall_inv HL)) as (c2 & s1 & E & H1 & _).
    exists (x5b :: c). eapply skip_value_arr_step; [|exact H1|exact Hc].
    rewrite EY, <- app_assoc. exact E.
Qed.

(* ---- lenient, objects *)
Lemma piece_app k t X : piece k t ++ X = x22 :: escape_body k ++ x22 :: x3a :: t ++ X.
Proof. unfold piece, ser_str. cbn [app]. rewrite <- !app_assoc. reflexivity. Qed.

Lemma piece_len k t : (length t < length (piece k t))%nat.
Proof. unfold piece. rewrite app_length. cbn [length]. lia. Qed.

Lemma skip_members_join kts : Forall (fun kt => lenient_piece (snd kt)) kts -> kts <> [] ->
  forall F rest, (length (join [x2c] (map piece_of kts)) < F)%nat ->
  exists c, skip_members F (join [x2c] (map piece_of kts) ++ x7d :: rest) = Some (c, rest).
Proof.
  induction 1 as [|[k t] kts Hp Hps IH]; [congruence|]. intros _ F rest HF.
  destruct Hp as (f & c & r & Hs & Hr). cbn [snd] in Hs.
  pose proof (lenient_piece_len _ _ _ _ Hs) as Hl. pose proof (piece_len k t) as Hpl.
  destruct F as [|F]; [lia|]. rewrite skip_members_S.
  cbn [map]. unfold piece_of at 1. cbn [fst snd].
  destruct kts as [|kt' kts'].
  - cbn [map join] in *. change (piece_of (k, t)) with (piece k t) in HF.
    assert (Hs' : skip_value F t = Some (c, r)) by (apply (skip_value_fuel_len _ _ _ _ Hs); lia).
    rewrite piece_app, (skip_ws_cons_nws x22) by reflexivity. cbv beta iota. rewrite (beqb_refl x22).
    rewrite skip_str_escape, (skip_ws_cons_nws x3a) by reflexivity. cbv beta iota. rewrite (beqb_refl x3a).
    rewrite (skip_value_extend _ _ _ _ (x7d :: rest) Hs') by (right; reflexivity).
    rewrite (skip_ws_tail r (x7d :: rest) Hr eq_refl). eexists. reflexivity.
  - cbn [map] in *. rewrite join_cons2 in *. rewrite !app_length in HF. cbn [length] in HF.
    unfold piece_of at 1 in HF. cbn [fst snd] in HF.
    set (J := join [x2c] (piece_of kt' :: map piece_of kts')) in *.
    replace ((piece k t ++ [x2c] ++ J) ++ x7d :: rest)
      with (piece k t ++ x2c :: J ++ x7d :: rest) by (rewrite <- !app_assoc; reflexivity).
    assert (Hs' : skip_value F t = Some (c, r)) by (apply (skip_value_fuel_len _ _ _ _ Hs); lia).
    rewrite piece_app, (skip_ws_cons_nws x22) by reflexivity. cbv beta iota. rewrite (beqb_refl x22).
    rewrite skip_str_escape, (skip_ws_cons_nws x3a) by reflexivity. cbv beta iota. rewrite (beqb_refl x3a).
    rewrite (skip_value_extend _ _ _ _ (x2c :: J ++ x7d :: rest) Hs') by (right; reflexivity).
    rewrite (skip_ws_tail r (x2c :: _) Hr eq_refl). cbv beta iota zeta. rewrite (beqb_refl x2c).
    destruct (IH ltac:(discriminate) F rest ltac:(lia)) as [c2 Hc2]. rewrite Hc2. eexists. reflexivity.
Qed.

Lemma utf8_piece k t : utf8_valid k = true -> utf8_valid t = true -> utf8_valid (piece k t) = true.
Proof.
  intros Hk Ht. unfold piece. apply utf8_valid_app; [apply ser_str_utf8, Hk|].
  rewrite utf8_valid_ascii_cons by reflexivity. exact Ht.
Qed.

Theorem raw_text_object kts :
  Forall (fun kt => utf8_valid (fst kt) = true /\ utf8_valid (snd kt) = true /\ lenient_piece (snd kt)) kts -> kts <> [] ->
  raw_text (x7b :: join [x2c] (map piece_of kts) ++ [x7d]) = Some (x7b :: join [x2c] (map piece_of kts) ++ [x7d]).
Proof.
  intros HF Hne.
  assert (HU : Forall (fun p => utf8_valid p = true) (map piece_of kts)).
  { apply Forall_map. eapply Forall_impl; [|exact HF]. intros [k t] (H1 & H2 & _). apply utf8_piece; assumption. }
  assert (HL : Forall (fun kt => lenient_piece (snd kt)) kts) by (eapply Forall_impl; [|exact HF]; intros a (_ & _ & H); exact H).
  apply raw_text_of_skip.
  - apply utf8_wrap; [reflexivity | reflexivity | apply utf8_join, HU].
  - apply skip_ws_cons_nws. reflexivity.
  - destruct (skip_members_join kts HL Hne (length (x7b :: join [x2c] (map piece_of kts) ++ [x7d])) []) as [c Hc].
    { cbn [length]. rewrite app_length. cbn [length]. lia. }
    destruct kts as [|[k t] kts']; [congruence|]. cbn [map] in *.
    destruct (join_head [x2c] (piece_of (k, t)) (map piece_of kts')) as [Y EY].
    exists (x7b :: c). eapply skip_value_obj_step; [| |exact Hc].
    + rewrite EY. unfold piece_of. cbn [fst snd]. rewrite <- app_assoc, piece_app.
      apply skip_ws_cons_nws. reflexivity.
    + reflexivity.
Qed.

(* ---- strict, arrays *)
Lemma parse_elems_join d ps vs : Forall2 (strict_piece d) ps vs -> ps <> [] ->
  forall F rest, (length (join [x2c] ps) < F)%nat ->
  parse_elems F d (join [x2c] ps ++ x5d :: rest) = Some (vs, rest).
Proof.
  induction 1 as [|p v ps vs Hp Hps IH]; [congruence|]. intros _ F rest HF.
  destruct Hp as (f & r & Hs & Hr).
  destruct F as [|F]; [lia|]. rewrite parse_elems_S.
  destruct ps as [|p' ps'].
  - inversion Hps; subst. cbn [join] in *.
    assert (Hs' : parse_value F d p = Some (v, r)) by (apply (parse_value_fuel_len _ _ _ _ _ Hs); lia).
    rewrite (parse_value_extend _ _ _ _ _ (x5d :: rest) Hs') by (right; reflexivity).
    rewrite (skip_ws_tail r (x5d :: rest) Hr eq_refl). reflexivity.
  - rewrite join_cons2 in *. rewrite !app_length in HF. cbn [length] in HF.
    replace ((p ++ [x2c] ++ join [x2c] (p' :: ps')) ++ x5d :: rest)
      with (p ++ x2c :: join [x2c] (p' :: ps') ++ x5d :: rest) by (rewrite <- !app_assoc; reflexivity).
    assert (Hs' : parse_value F d p = Some (v, r)) by (apply (parse_value_fuel_len _ _ _ _ _ Hs); lia).
    rewrite (parse_value_extend _ _ _ _ _ (x2c :: join [x2c] (p' :: ps') ++ x5d :: rest) Hs') by (right; reflexivity).
    rewrite (skip_ws_tail r (x2c :: _) Hr eq_refl). cbv beta iota. rewrite (beqb_refl x2c).
    rewrite (IH ltac:(discriminate) F rest ltac:(lia)). reflexivity.
Qed.

Lemma parse_value_arr_step f d s1 c2 r vs r' :
  skip_ws s1 = c2 :: r -> beqb c2 x5d = false -> parse_elems f (S d) s1 = Some (vs, r') ->
  parse_value (S f) (S (S d)) (x5b :: s1) = Some (JArr vs, r').
Proof.
  intros H1 H2 H3. rewrite parse_value_S, (skip_ws_cons_nws x5b) by reflexivity.
  cbv beta iota. rewrite H1, H2, H3. reflexivity.
Qed.

Lemma parse_value_obj_step f d s1 c2 r ms r' :
  skip_ws s1 = c2 :: r -> beqb c2 x7d = false -> parse_members f (S d) s1 = Some (ms, r') ->
  parse_value (S f) (S (S d)) (x7b :: s1) = Some (JObj ms, r').
Proof.
  intros H1 H2 H3. rewrite parse_value_S, (skip_ws_cons_nws x7b) by reflexivity.
  cbv beta iota. rewrite H1, H2, H3. reflexivity.
Qed.

Theorem parse_array d ps vs : Forall2 (strict_piece (S d)) ps vs -> ps <> [] ->
  parse_depth (S (S d)) (x5b :: join [x2c] ps ++ [x5d]) = Some (JArr vs).
Proof.
  intros HF Hne. unfold parse_depth.
  pose proof (parse_elems_join (S d) ps vs HF Hne (length (x5b :: join [x2c] ps ++ [x5d])) []) as Hc.
  destruct ps as [|p ps']; [congruence|]. inversion HF as [|? v ? vs' Hp Hps']; subst.
  destruct (join_head [x2c] p ps') as [Y EY].
  destruct (lenient_piece_head p (Y ++ [x5d]) (strict_piece_lenient _ _ _ Hp)) as (c2 & s1 & E & H1 & _).
  rewrite (parse_value_arr_step _ d _ c2 s1 (v :: vs') []); [reflexivity | | exact H1 | apply Hc].
  - rewrite EY, <- app_assoc. exact E.
  - cbn [length]. rewrite app_length. cbn [length]. lia.
Qed.

(* ---- strict, objects *)
Definition strict_member (d : nat) (kt : bytes * bytes) (kv : bytes * json) : Prop :=
  fst kv = fst kt /\ utf8_valid (fst kt) = true /\ strict_piece d (snd kt) (snd kv).

Lemma scan_str_valid_escape' k X : utf8_valid k = true -> scan_str_valid (escape_body k ++ x22 :: X) = Some (k, X).
Proof. intro H. unfold scan_str_valid. rewrite scan_str_escape, H. reflexivity. Qed.

Lemma parse_members_join d kts kvs : Forall2 (strict_member d) kts kvs -> kts <> [] ->
  forall F rest, (length (join [x2c] (map piece_of kts)) < F)%nat ->
  parse_members F d (join [x2c] (map piece_of kts) ++ x7d :: rest) = Some (kvs, rest).
Proof.
  induction 1 as [|[k t] [k' v] kts kvs Hp Hps IH]; [congruence|]. intros _ F rest HF.
  destruct Hp as (Ek & Uk & (f & r & Hs & Hr)). cbn [fst snd] in *. subst k'.
  pose proof (piece_len k t) as Hpl.
  destruct F as [|F]; [lia|]. rewrite parse_members_S.
  cbn [map]. unfold piece_of at 1. cbn [fst snd].
  destruct kts as [|kt' kts'].
  - inversion Hps; subst. cbn [map join] in *. change (piece_of (k, t)) with (piece k t) in HF.
    assert (Hs' : parse_value F d t = Some (v, r)) by (apply (parse_value_fuel_len _ _ _ _ _ Hs); lia).
    rewrite piece_app, (skip_ws_cons_nws x22) by reflexivity. cbv beta iota. rewrite (beqb_refl x22).
    rewrite (scan_str_valid_escape' k _ Uk), (skip_ws_cons_nws x3a) by reflexivity. cbv beta iota. rewrite (beqb_refl x3a).
    rewrite (parse_value_extend _ _ _ _ _ (x7d :: rest) Hs') by (right; reflexivity).
    rewrite (skip_ws_tail r (x7d :: rest) Hr eq_refl). reflexivity.
  - cbn [map] in *. rewrite join_cons2 in *. rewrite !app_length in HF. cbn [length] in HF.
    unfold piece_of at 1 in HF. cbn [fst snd] in HF.
    set (J := join [x2c] (piece_of kt' :: map piece_of kts')) in *.
    replace ((piece k t ++ [x2c] ++ J) ++ x7d :: rest)
      with (piece k t ++ x2c :: J ++ x7d :: rest) by (rewrite <- !app_assoc; reflexivity).
    assert (Hs' : parse_value F d t = Some (v, r)) by (apply (parse_value_fuel_len _ _ _ _ _ Hs); lia).
    rewrite piece_app, (skip_ws_cons_nws x22) by reflexivity. cbv beta iota. rewrite (beqb_refl x22).
    rewrite (scan_str_valid_escape' k _ Uk), (skip_ws_cons_nws x3a) by reflexivity. cbv beta iota. rewrite (beqb_refl x3a).
    rewrite (parse_value_extend _ _ _ _ _ (x2c :: J ++ x7d :: rest) Hs') by (right; reflexivity).
    rewrite (skip_ws_tail r (x2c :: _) Hr eq_refl). cbv beta iota. rewrite (beqb_refl x2c).
    rewrite (IH ltac:(discriminate) F rest ltac:(lia)). reflexivity.
Qed.

Theorem parse_object d kts kvs : Forall2 (strict_member (S d)) kts kvs -> kts <> [] ->
  parse_depth (S (S d)) (x7b :: join [x2c] (map piece_of kts) ++ [x7d]) = Some (JObj kvs).
Proof.
  intros HF Hne. unfold parse_depth.
  pose proof (parse_members_join (S d) kts kvs HF Hne (length (x7b :: join [x2c] (map piece_of kts) ++ [x7d])) []) as Hc.
  destruct kts as [|[k t] kts']; [congruence|]. cbn [map] in *.
  destruct (join_head [x2c] (piece_of (k, t)) (map piece_of kts')) as [Y EY].
  rewrite (parse_value_obj_step _ d _ x22 (escape_body k ++ x22 :: x3a :: t ++ Y ++ [x7d]) kvs []); [reflexivity | | reflexivity | apply Hc].
  - rewrite EY. unfold piece_of. cbn [fst snd]. rewrite <- app_assoc, piece_app.
    apply skip_ws_cons_nws. reflexivity.
  - cbn [length]. rewrite app_length. cbn [length]. lia.
Qed.

(* ====================================================================== *)
(* 6. from the hypotheses on inserted values to pieces                    *)
(* ====================================================================== *)

Lemma parse_text_depth t : parse_text t = parse_depth depth_limit t.
Proof. reflexivity. Qed.

Lemma value_of_piece t v : value_of t = Some v -> utf8_valid t = true /\ strict_piece item_depth t v.
Proof.
  unfold value_of, parse_depth. destruct (utf8_valid t); [|discriminate]. intro H. split; [reflexivity|].
  destruct (parse_value (S (length t)) item_depth t) as [[v' r]|] eqn:E; [|discriminate].
  destruct (skip_ws r) eqn:Er; [|discriminate]. inversion H; subst. exists (S (length t)), r. split; assumption.
Qed.

Lemma raw_valid_piece t : raw_valid t -> utf8_valid t = true /\ lenient_piece t.
Proof.
  unfold raw_valid, raw_text, raw_value. intro H.
  destruct (skip_value (S (length (skip_ws t))) (skip_ws t)) as [[c r]|] eqn:E; [|discriminate].
  destruct (utf8_valid c) eqn:U; [|discriminate]. destruct (skip_ws r) eqn:Er; [|discriminate].
  inversion H; subst c. split; [exact U|].
  pose proof (skip_value_split _ _ _ _ E) as HS. pose proof (skip_ws_length t) as L.
  assert (r = []) by (apply (f_equal (@length byte)) in HS; rewrite app_length in HS; destruct r; [reflexivity | cbn [length] in HS; lia]).
  subst r. rewrite app_nil_r in HS. rewrite HS in E. exists (S (length t)), t, []. split; [exact E | reflexivity].
Qed.

Lemma values_texts ops : Forall sres_valid ops -> Forall2 (fun t v => value_of t = Some v) (ok_texts ops) (values ops).
Proof.
  induction 1 as [|[t|p] ops Hv _ IH]; cbn [ok_texts values]; [constructor| |exact IH].
  cbn in Hv. destruct (value_of t) as [v|] eqn:E; [|congruence]. constructor; assumption.
Qed.

Lemma members_pieces ops : Forall (fun kv => utf8_valid (fst kv) = true /\ sres_valid (snd kv)) ops ->
  Forall2 (fun kt kv => fst kv = fst kt /\ utf8_valid (fst kt) = true /\ value_of (snd kt) = Some (snd kv))
          (ok_pieces ops) (members ops).
Proof.
  induction 1 as [|[k [t|p]] ops [Hk Hv] _ IH]; cbn [ok_pieces members]; [constructor| |exact IH].
  cbn in Hv, Hk. destruct (value_of t) as [v|] eqn:E; [|congruence]. constructor; [|exact IH]. cbn. auto.
Qed.

Lemma Forall2_left {A B} (P : A -> B -> Prop) (Q : A -> Prop) l l' :
  (forall a b, P a b -> Q a) -> Forall2 P l l' -> Forall Q l.
Proof. intros H F. induction F; constructor; eauto. Qed.

Lemma Forall2_impl' {A B} (P Q : A -> B -> Prop) l l' :
  (forall a b, P a b -> Q a b) -> Forall2 P l l' -> Forall2 Q l l'.
Proof. intros H F. induction F; constructor; eauto. Qed.

Lemma Forall2_nil_r {A B} (P : A -> B -> Prop) l : Forall2 P l [] -> l = [].
Proof. intro H. inversion H. reflexivity. Qed.
Lemma Forall2_nil_l {A B} (P : A -> B -> Prop) l : Forall2 P [] l -> l = [].
Proof. intro H. inversion H. reflexivity. Qed.

(* the text of a built array / object over good pieces *)
Lemma array_text_good ts vs : Forall2 (fun t v => value_of t = Some v) ts vs -> ts <> [] ->
  let W := x5b :: join [x2c] ts ++ [x5d] in
  raw_text W = Some W /\ parse_text W = Some (JArr vs).
Proof.
  intros H Hne W. split.
  - apply raw_text_array; [|exact Hne].
    eapply Forall2_left; [|exact H]. intros t v E. destruct (value_of_piece t v E) as [U HS].
    split; [exact U | eapply strict_piece_lenient, HS].
  - rewrite parse_text_depth. change depth_limit with (S (S 126)). apply parse_array; [|exact Hne].
    eapply Forall2_impl'; [|exact H]. intros t v E. apply (value_of_piece t v E).
Qed.

Lemma object_text_good kts kvs :
  Forall2 (fun kt kv => fst kv = fst kt /\ utf8_valid (fst kt) = true /\ value_of (snd kt) = Some (snd kv)) kts kvs ->
  kts <> [] ->
  let W := x7b :: join [x2c] (map piece_of kts) ++ [x7d] in
  raw_text W = Some W /\ parse_text W = Some (JObj kvs).
Proof.
  intros H Hne W. split.
  - apply raw_text_object; [|exact Hne].
    eapply Forall2_left; [|exact H]. intros kt kv (_ & Uk & E). destruct (value_of_piece _ _ E) as [U HS].
    split; [exact Uk | split; [exact U | eapply strict_piece_lenient, HS]].
  - rewrite parse_text_depth. change depth_limit with (S (S 126)). apply parse_object; [|exact Hne].
    eapply Forall2_impl'; [|exact H]. intros kt kv (Ek & Uk & E). split; [exact Ek | split; [exact Uk|]].
    apply (value_of_piece _ _ E).
Qed.

(* ====================================================================== *)
(* 7. the C20 statements                                                  *)
(* ====================================================================== *)

Lemma positional_state : positional = {| buf := state x5b []; b_start := x5b; b_end := x5d |}.
Proof. reflexivity. Qed.
Lemma named_state : named = {| buf := state x7b []; b_start := x7b; b_end := x7d |}.
Proof. reflexivity. Qed.

Theorem positional_correct : forall ops : list sres,
  Forall sres_valid ops ->
  snd (inserts positional ops) = map sres_is_ok ops /\
  (values ops = [] -> build (fst (inserts positional ops)) = BNone) /\
  (values ops <> [] -> exists t, build (fst (inserts positional ops)) = BSome t /\
                                  parse_text t = Some (JArr (values ops)) /\ raw_valid t).
Proof.
  intros ops Hv. rewrite positional_state, inserts_state. cbn [fst snd app].
  pose proof (values_texts ops Hv) as HT. split; [reflexivity|]. split.
  - intro E. rewrite E in HT. apply Forall2_nil_r in HT. rewrite HT. reflexivity.
  - intro Hne. destruct (snoc_cases (ok_texts ops)) as [E | (qs & p & E)].
    + rewrite E in HT. apply Forall2_nil_l in HT. congruence.
    + destruct (array_text_good _ _ HT) as [HR HP]; [rewrite E; intro X; apply app_eq_nil in X as [_ X]; discriminate X|].
      rewrite E in *. rewrite build_state, HR. eexists. split; [reflexivity|]. split; [exact HP | exact HR].
Qed.

Theorem named_correct : forall ops : list (bytes * sres),
  Forall (fun kv => utf8_valid (fst kv) = true /\ sres_valid (snd kv)) ops ->
  snd (inserts_named named ops) = map (fun kv => sres_is_ok (snd kv)) ops /\
  (members ops = [] -> build (fst (inserts_named named ops)) = BNone) /\
  (members ops <> [] -> exists t, build (fst (inserts_named named ops)) = BSome t /\
                                   parse_text t = Some (JObj (members ops)) /\ raw_valid t).
Proof.
  intros ops Hv. rewrite named_state, inserts_named_state. cbn [fst snd app].
  pose proof (members_pieces ops Hv) as HT. split; [reflexivity|]. split.
  - intro E. rewrite E in HT. apply Forall2_nil_r in HT. rewrite HT. reflexivity.
  - intro Hne. destruct (snoc_cases (ok_pieces ops)) as [E | (qs & p & E)].
    + rewrite E in HT. apply Forall2_nil_l in HT. congruence.
    + destruct (object_text_good _ _ HT) as [HR HP]; [rewrite E; intro X; apply app_eq_nil in X as [_ X]; discriminate X|].
      rewrite E in *. rewrite map_app in *. cbn [map] in *. rewrite build_state, HR.
      eexists. split; [reflexivity|]. split; [exact HP | exact HR].
Qed.

Theorem empty_is_none :
  build positional = BNone /\ build named = BNone /\
  (forall ps, build (fst (inserts positional (map SFail ps))) = BNone) /\
  (forall kps, build (fst (inserts_named named (map (fun kp => (fst kp, SFail (snd kp))) kps))) = BNone).
Proof.
  split; [reflexivity|]. split; [reflexivity|]. split.
  - intro ps. rewrite positional_state, inserts_state. cbn [fst app].
    replace (ok_texts (map SFail ps)) with (@nil bytes) by (induction ps; [reflexivity | assumption]). reflexivity.
  - intro kps. rewrite named_state, inserts_named_state. cbn [fst app].
    replace (ok_pieces (map (fun kp => (fst kp, SFail (snd kp))) kps)) with (@nil (bytes * bytes))
      by (induction kps; [reflexivity | assumption]). reflexivity.
Qed.

Theorem failed_insert_harmless : forall (b : builder) (partial : bytes),
  insert b (SFail partial) = (b, false) /\ (forall k, insert_named b k (SFail partial) = (b, false)).
Proof. intros b p. split; [apply insert_fail | intro k; apply insert_named_fail]. Qed.

Theorem insert_reports : forall (b : builder) (v : sres) (k : bytes),
  snd (insert b v) = sres_is_ok v /\ snd (insert_named b k v) = sres_is_ok v.
Proof.
  intros b [t|p] k; cbn [sres_is_ok].
  - split; reflexivity.
  - rewrite insert_fail, insert_named_fail. split; reflexivity.
Qed.

(* no panic, and whatever is built is a valid raw JSON text: needs only raw validity of the successful texts *)
Theorem positional_total : forall ops : list sres,
  Forall sres_raw_valid ops ->
  build (fst (inserts positional ops)) <> BPanic /\
  (forall t, build (fst (inserts positional ops)) = BSome t -> raw_valid t) /\
  (build (fst (inserts positional ops)) = BNone <-> forallb (fun v => negb (sres_is_ok v)) ops = true).
Proof.
  intros ops Hv. rewrite positional_state, inserts_state. cbn [fst app].
  assert (HT : Forall (fun t => utf8_valid t = true /\ lenient_piece t) (ok_texts ops)).
  { induction Hv as [|[t|p] ops Hx _ IH]; cbn [ok_texts]; [constructor| |exact IH].
    constructor; [apply raw_valid_piece, Hx | exact IH]. }
  assert (HN : ok_texts ops = [] <-> forallb (fun v => negb (sres_is_ok v)) ops = true).
  { clear. induction ops as [|[t|p] ops IH]; cbn; [tauto | split; discriminate | exact IH]. }
  destruct (snoc_cases (ok_texts ops)) as [E | (qs & p & E)].
  - rewrite E in *. cbn [state]. rewrite build_nil. split; [discriminate|]. split; [discriminate|].
    split; intro; [apply HN; reflexivity | reflexivity].
  - rewrite E in *. rewrite build_state.
    rewrite (raw_text_array (qs ++ [p]) HT) by (intro X; apply app_eq_nil in X as [_ X]; discriminate X).
    split; [discriminate|]. split.
    + intros t H. inversion H; subst t. apply raw_text_array; [exact HT|]. intro X; apply app_eq_nil in X as [_ X]; discriminate X.
    + split; [discriminate|]. intro H. apply HN in H. apply app_eq_nil in H as [_ H]. discriminate H.
Qed.

Theorem named_total : forall ops : list (bytes * sres),
  Forall (fun kv => utf8_valid (fst kv) = true /\ sres_raw_valid (snd kv)) ops ->
  build (fst (inserts_named named ops)) <> BPanic /\
  (forall t, build (fst (inserts_named named ops)) = BSome t -> raw_valid t) /\
  (build (fst (inserts_named named ops)) = BNone <-> forallb (fun kv => negb (sres_is_ok (snd kv))) ops = true).
Proof.
  intros ops Hv. rewrite named_state, inserts_named_state. cbn [fst app].
  assert (HT : Forall (fun kt => utf8_valid (fst kt) = true /\ utf8_valid (snd kt) = true /\ lenient_piece (snd kt)) (ok_pieces ops)).
  { induction Hv as [|[k [t|p]] ops [Hk Hx] _ IH]; cbn [ok_pieces]; [constructor| |exact IH].
    constructor; [|exact IH]. cbn [fst snd] in *. split; [exact Hk | apply raw_valid_piece, Hx]. }
  assert (HN : ok_pieces ops = [] <-> forallb (fun kv => negb (sres_is_ok (snd kv))) ops = true).
  { clear. induction ops as [|[k [t|p]] ops IH]; cbn; [tauto | split; discriminate | exact IH]. }
  destruct (snoc_cases (ok_pieces ops)) as [E | (qs & p & E)].
  - rewrite E in *. cbn [state map]. rewrite build_nil. split; [discriminate|]. split; [discriminate|].
    split; intro; [apply HN; reflexivity | reflexivity].
  - rewrite E in *. rewrite map_app. cbn [map]. rewrite build_state.
    change (map piece_of qs ++ [piece_of p]) with (map piece_of qs ++ map piece_of [p]). rewrite <- map_app.
    rewrite (raw_text_object (qs ++ [p]) HT) by (intro X; apply app_eq_nil in X as [_ X]; discriminate X).
    split; [discriminate|]. split.
    + intros t H. inversion H; subst t. apply raw_text_object; [exact HT|]. intro X; apply app_eq_nil in X as [_ X]; discriminate X.
    + split; [discriminate|]. intro H. apply HN in H. apply app_eq_nil in H as [_ H]. discriminate H.
Qed.

(* ====================================================================== *)
(* 8. one-shot conversions: tuples / slices / Vec / arrays / maps         *)
(* ====================================================================== *)

Lemma all_ok_map es : all_ok es = true -> es = map SOk (ok_texts es).
Proof.
  unfold all_ok. induction es as [|[t|p] es IH]; cbn; intro H; [reflexivity | f_equal; apply IH, H | discriminate].
Qed.

Lemma seq_body_false_ok ts : seq_body false (map SOk ts) = SOk (concat (map (cons x2c) ts) ++ [x5d]).
Proof. induction ts as [|t ts IH]; [reflexivity|]. cbn [map seq_body concat]. rewrite IH. cbn [app]. rewrite <- app_assoc. reflexivity. Qed.

Lemma ser_seq_ok ts : ser_seq (map SOk ts) = SOk (match ts with [] => [x5b; x5d] | _ => x5b :: join [x2c] ts ++ [x5d] end).
Proof.
  unfold ser_seq. destruct ts as [|t ts]; [reflexivity|].
  cbn [map seq_body]. rewrite seq_body_false_ok, join_concat. cbn [app]. rewrite <- app_assoc. reflexivity.
Qed.

Lemma seq_body_fail es : forall first, forallb sres_is_ok es = false -> exists p, seq_body first es = SFail p.
Proof.
  induction es as [|[t|p] es IH]; intros first H; [discriminate| |].
  - cbn in H. destruct (IH false H) as [q Hq]. cbn [seq_body]. rewrite Hq. eexists. reflexivity.
  - eexists. reflexivity.
Qed.

Theorem seq_correct : forall es : list sres,
  Forall sres_valid es ->
  (all_ok es = false -> seq_to_rpc_params es = TErr) /\
  (all_ok es = true -> exists t, seq_to_rpc_params es = TOk (Some t) /\
                                 parse_text t = Some (JArr (values es)) /\ raw_valid t).
Proof.
  intros es Hv. split.
  - intro H. unfold seq_to_rpc_params, ser_seq. destruct (seq_body_fail es true H) as [p Hp]. rewrite Hp. reflexivity.
  - intro H. pose proof (values_texts es Hv) as HT. unfold seq_to_rpc_params.
    assert (Hs : ser_seq es = ser_seq (map SOk (ok_texts es))) by (rewrite <- (all_ok_map es H); reflexivity).
    rewrite Hs, ser_seq_ok. cbn [to_raw_value].
    destruct (ok_texts es) as [|t ts] eqn:E.
    + apply Forall2_nil_l in HT. rewrite HT. eexists. split; [reflexivity|]. split; reflexivity.
    + destruct (array_text_good _ _ HT) as [HR HP]; [discriminate|].
      eexists. split; [reflexivity|]. split; [exact HP | exact HR].
Qed.

Lemma all_ok_map_named (es : list (bytes * sres)) : forallb (fun kv => sres_is_ok (snd kv)) es = true ->
  es = map (fun kt => (fst kt, SOk (snd kt))) (ok_pieces es).
Proof.
  induction es as [|[k [t|p]] es IH]; cbn; intro H; [reflexivity | f_equal; apply IH, H | discriminate].
Qed.

Lemma map_body_false_ok kts :
  map_body false (map (fun kt => (fst kt, SOk (snd kt))) kts) = SOk (concat (map (fun kt => x2c :: piece_of kt) kts) ++ [x7d]).
Proof.
  induction kts as [|[k t] kts IH]; [reflexivity|]. cbn [map map_body concat fst snd]. rewrite IH.
  unfold piece_of, piece. cbn [fst snd app]. repeat rewrite <- app_assoc. reflexivity.
Qed.

Lemma join_concat_pieces kt kts :
  join [x2c] (map piece_of (kt :: kts)) = piece_of kt ++ concat (map (fun kt => x2c :: piece_of kt) kts).
Proof. cbn [map]. rewrite join_concat, map_map. reflexivity. Qed.

Lemma ser_map_ok kts : ser_map (map (fun kt => (fst kt, SOk (snd kt))) kts) =
  SOk (match kts with [] => [x7b; x7d] | _ => x7b :: join [x2c] (map piece_of kts) ++ [x7d] end).
Proof.
  unfold ser_map. destruct kts as [|[k t] kts]; [reflexivity|].
  rewrite join_concat_pieces. cbn [map map_body fst snd]. rewrite map_body_false_ok.
  unfold piece_of at 2, piece. cbn [fst snd app]. repeat rewrite <- app_assoc. reflexivity.
Qed.

Lemma map_body_fail es : forall first, forallb (fun kv => sres_is_ok (snd kv)) es = false -> exists p, map_body first es = SFail p.
Proof.
  induction es as [|[k [t|p]] es IH]; intros first H; [discriminate| |].
  - cbn in H. destruct (IH false H) as [q Hq]. cbn [map_body]. rewrite Hq. eexists. reflexivity.
  - eexists. reflexivity.
Qed.

Theorem map_correct : forall es : list (bytes * sres),
  Forall (fun kv => utf8_valid (fst kv) = true /\ sres_valid (snd kv)) es ->
  (forallb (fun kv => sres_is_ok (snd kv)) es = false -> map_to_rpc_params es = TErr) /\
  (forallb (fun kv => sres_is_ok (snd kv)) es = true ->
     exists t, map_to_rpc_params es = TOk (Some t) /\ parse_text t = Some (JObj (members es)) /\ raw_valid t).
Proof.
  intros es Hv. split.
  - intro H. unfold map_to_rpc_params, ser_map. destruct (map_body_fail es true H) as [p Hp]. rewrite Hp. reflexivity.
  - intro H. pose proof (members_pieces es Hv) as HT. unfold map_to_rpc_params.
    assert (Hs : ser_map es = ser_map (map (fun kt => (fst kt, SOk (snd kt))) (ok_pieces es))) by (rewrite <- (all_ok_map_named es H); reflexivity).
    rewrite Hs, ser_map_ok. cbn [to_raw_value].
    destruct (ok_pieces es) as [|kt kts] eqn:E.
    + apply Forall2_nil_l in HT. rewrite HT. eexists. split; [reflexivity|]. split; reflexivity.
    + destruct (object_text_good _ _ HT) as [HR HP]; [discriminate|].
      eexists. split; [reflexivity|]. split; [exact HP | exact HR].
Qed.

(* ====================================================================== *)
(* 9. rpc_params! and the batch builder                                   *)
(* ====================================================================== *)

Lemma inserts_cons b v vs : fst (inserts b (v :: vs)) = fst (inserts (fst (insert b v)) vs).
Proof.
  unfold inserts. cbn [inserts_with]. destruct (insert b v) as [b1 ok]. cbn [fst].
  destruct (inserts_with insert b1 vs). reflexivity.
Qed.

Theorem rpc_params_correct : forall vs : list sres,
  rpc_params vs = if all_ok vs then Some (fst (inserts positional vs)) else None.
Proof.
  unfold rpc_params, all_ok. generalize positional as b.
  intros b vs. revert b. induction vs as [|[t|p] vs IH]; intro b.
  - reflexivity.
  - cbn [rpc_params_from forallb sres_is_ok andb]. rewrite inserts_cons.
    pose proof (insert_ok_snd b t) as Hs. destruct (insert b (SOk t)) as [b1 ok]. cbn [snd fst] in *. subst ok. apply IH.
  - cbn [rpc_params_from forallb sres_is_ok andb]. rewrite insert_fail. reflexivity.
Qed.

Definition batch_entries (es : list (bytes * tres)) : batch :=
  flat_map (fun e => match snd e with TOk p => [(fst e, p)] | _ => [] end) es.
Definition outcome_of (r : tres) : outcome := match r with TOk _ => OOk | TErr => OErr | TPanic => OPanic end.

Theorem batch_correct : forall (l : batch) (es : list (bytes * tres)),
  batch_inserts l es = (l ++ batch_entries es, map (fun e => outcome_of (snd e)) es).
Proof.
  intros l es. revert l. induction es as [|[m [p| |]] es IH]; intro l; cbn [batch_inserts batch_insert batch_entries flat_map map snd fst outcome_of].
  - rewrite app_nil_r. reflexivity.
  - rewrite IH. unfold batch_entries. rewrite <- app_assoc. reflexivity.
  - rewrite IH. reflexivity.
  - rewrite IH. reflexivity.
Qed.

(* ====================================================================== *)
(* 10. the code before the repair                                         *)
(* ====================================================================== *)

(* a struct serialiser that wrote `{"a":` and then failed: the insert returns Err, build() panics *)
Theorem failed_insert_refuted_old :
  exists partial : bytes,
    snd (insert_old positional (SFail partial)) = false /\
    build (fst (insert_old positional (SFail partial))) = BPanic.
Proof. exists b#"{""a"":". vm_compute. split; reflexivity. Qed.
