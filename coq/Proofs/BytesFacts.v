(* Generic facts about byte strings: take_while / drop_while / starts_with / skip_ws / join. *)
From JV Require Import Base.Bytes.

Lemma bytes_len_ind (P : bytes -> Prop) :
  (forall s, (forall s', (length s' < length s)%nat -> P s') -> P s) -> forall s, P s.
Proof.
  intros H s. remember (length s) as n eqn:En.
  revert s En. induction n as [n IH] using lt_wf_ind. intros s En. subst n.
  apply H. intros s' Hlt. apply (IH (length s') Hlt s' eq_refl).
Qed.

(* "X is empty or its head does not satisfy p" *)
Definition hd_not (p : byte -> bool) (X : bytes) : bool :=
  match X with [] => true | c :: _ => negb (p c) end.

Lemma take_drop_while p s : take_while p s ++ drop_while p s = s.
Proof.
  induction s as [|c s IH]; cbn; [reflexivity|].
  destruct (p c); cbn; [rewrite IH|]; reflexivity.
Qed.

Lemma take_while_all p s : forallb p (take_while p s) = true.
Proof.
  induction s as [|c s IH]; cbn; [reflexivity|].
  destruct (p c) eqn:E; cbn; [rewrite E, IH|]; reflexivity.
Qed.

Lemma drop_while_stop p s : hd_not p (drop_while p s) = true.
Proof.
  induction s as [|c s IH]; cbn; [reflexivity|].
  destruct (p c) eqn:E; cbn; [exact IH | rewrite E; reflexivity].
Qed.

Lemma take_while_app_stop p a X :
  forallb p a = true -> hd_not p X = true -> take_while p (a ++ X) = a.
Proof.
  induction a as [|c a IH]; cbn; intros Ha HX.
  - destruct X as [|x X]; cbn in *; [reflexivity|].
    destruct (p x); [discriminate | reflexivity].
  - apply andb_true_iff in Ha as [Hc Ha]. rewrite Hc, IH by assumption. reflexivity.
Qed.

Lemma drop_while_app_stop p a X :
  forallb p a = true -> hd_not p X = true -> drop_while p (a ++ X) = X.
Proof.
  induction a as [|c a IH]; cbn; intros Ha HX.
  - destruct X as [|x X]; cbn in *; [reflexivity|].
    destruct (p x); [discriminate | reflexivity].
  - apply andb_true_iff in Ha as [Hc Ha]. rewrite Hc, IH by assumption. reflexivity.
Qed.

Lemma drop_while_hd_not p X : hd_not p X = true -> drop_while p X = X.
Proof. intro H. apply (drop_while_app_stop p [] X eq_refl H). Qed.

Lemma take_while_hd_not p X : hd_not p X = true -> take_while p X = [].
Proof. intro H. apply (take_while_app_stop p [] X eq_refl H). Qed.

Lemma drop_while_idem p s : drop_while p (drop_while p s) = drop_while p s.
Proof. apply drop_while_hd_not, drop_while_stop. Qed.

Lemma take_while_drop_while p s : take_while p (drop_while p s) = [].
Proof. apply take_while_hd_not, drop_while_stop. Qed.

Lemma drop_while_app_ne p s rest :
  drop_while p s <> [] -> drop_while p (s ++ rest) = drop_while p s ++ rest.
Proof.
  induction s as [|c s IH]; cbn; intro H; [congruence|].
  destruct (p c); [apply IH, H | reflexivity].
Qed.

Lemma take_while_app_ne p s rest :
  drop_while p s <> [] -> take_while p (s ++ rest) = take_while p s.
Proof.
  induction s as [|c s IH]; cbn; intro H; [congruence|].
  destruct (p c); [rewrite IH by exact H|]; reflexivity.
Qed.

Lemma drop_while_app_hd p s rest :
  hd_not p rest = true -> drop_while p (s ++ rest) = drop_while p s ++ rest.
Proof.
  intro H. induction s as [|c s IH]; cbn.
  - apply drop_while_hd_not, H.
  - destruct (p c); [exact IH | reflexivity].
Qed.

Lemma take_while_app_hd p s rest :
  hd_not p rest = true -> take_while p (s ++ rest) = take_while p s.
Proof.
  intro H. induction s as [|c s IH]; cbn.
  - apply take_while_hd_not, H.
  - destruct (p c); [rewrite IH|]; reflexivity.
Qed.

Lemma drop_while_length p s : (length (drop_while p s) <= length s)%nat.
Proof.
  induction s as [|c s IH]; cbn; [lia|]. destruct (p c); cbn; lia.
Qed.

(* ---------- skip_ws ---------- *)

Lemma skip_ws_app_cons s c s1 rest : skip_ws s = c :: s1 -> skip_ws (s ++ rest) = c :: s1 ++ rest.
Proof.
  unfold skip_ws. intro H. rewrite drop_while_app_ne by (rewrite H; discriminate).
  rewrite H. reflexivity.
Qed.

Lemma skip_ws_idem s : skip_ws (skip_ws s) = skip_ws s.
Proof. apply drop_while_idem. Qed.

Lemma skip_ws_length s : (length (skip_ws s) <= length s)%nat.
Proof. apply drop_while_length. Qed.

Lemma skip_ws_hd s c s1 : skip_ws s = c :: s1 -> is_json_ws c = false.
Proof.
  intro H. pose proof (drop_while_stop is_json_ws s) as D. unfold skip_ws in H.
  rewrite H in D. cbn in D. destruct (is_json_ws c); [discriminate | reflexivity].
Qed.

Lemma skip_ws_cons_nws c s : is_json_ws c = false -> skip_ws (c :: s) = c :: s.
Proof. intro H. unfold skip_ws. cbn. rewrite H. reflexivity. Qed.

(* ---------- starts_with ---------- *)

Lemma starts_with_split p : forall s r, starts_with p s = Some r -> s = p ++ r.
Proof.
  induction p as [|x p IH]; intros s r H; cbn in *.
  - injection H as ->. reflexivity.
  - destruct s as [|y s]; [discriminate|].
    destruct (Byte.eqb x y) eqn:E; [|discriminate].
    apply byte_eqb_eq in E. subst y. rewrite (IH _ _ H). reflexivity.
Qed.

Lemma starts_with_app p : forall s r rest,
  starts_with p s = Some r -> starts_with p (s ++ rest) = Some (r ++ rest).
Proof.
  induction p as [|x p IH]; intros s r rest H; cbn in *.
  - injection H as ->. reflexivity.
  - destruct s as [|y s]; [discriminate|]. cbn.
    destruct (Byte.eqb x y); [apply IH, H | discriminate].
Qed.

Lemma starts_with_refl p r : starts_with p (p ++ r) = Some r.
Proof.
  induction p as [|x p IH]; cbn; [reflexivity|]. rewrite byte_eqb_refl. exact IH.
Qed.

(* ---------- join ---------- *)

Lemma join_cons2 sep x y l : join sep (x :: y :: l) = x ++ sep ++ join sep (y :: l).
Proof. reflexivity. Qed.

Lemma beqb_true a b : beqb a b = true -> a = b.
Proof. apply byte_eqb_eq. Qed.

Lemma beqb_refl a : beqb a a = true.
Proof. apply byte_eqb_refl. Qed.

(* ---------- proof automation shared by the JSON proofs ---------- *)

(* destruct the head scrutinee of a match inside H *)
Ltac step H :=
  match type of H with
  | context [match ?x with _ => _ end] =>
      let E := fresh "E" in destruct x eqn:E; try discriminate H
  end.

Ltac inv_some H :=
  match type of H with
  | Some _ = Some _ => injection H; clear H; intros; subst
  end.

(* rewrite every remembered scrutinee equation into the goal *)
Ltac rw_eqs :=
  repeat match goal with
  | E : ?x = _ |- context [?x] => rewrite E
  end.
