(* What the dispatch read from the source (Gen/ClientDispatchGen.v, regenerated on every check from
   core/src/client/async_client/mod.rs handle_recv_message) IS at the moment, and what Model/ClientMgr.v's interpreters
   compute on it.  Three files, so that a change of the source breaks what depends on it and nothing else:

     Proofs/ClientDispatchFacts.v (this file)   the first-byte table; WHAT EACH ARM DOES in the single arm and in the
                                 array loop (action per reader, looked up by reader: independent of the order in which the
                                 readers are tried), the close mode of the loop, the `?` on try_parse_inner_as_number, who
                                 sets got_notif, the no-reader rules, the rules after the loop.  Everything that reasons
                                 about frames as `inframe` values (C03, C12, C18, the invariant, most of C05 and C09) rests
                                 on this file only.
     Proofs/ClientReadersSingle.v  the ORDER of the readers tried on a whole message (classify_single_now)
     Proofs/ClientReadersElem.v    the ORDER of the readers tried on an element of an array (classify_elem_now)

   The `*_now` lemmas about the generated constants are proved by computation: they are the only place where the proofs
   look at the generated constants.  Every other lemma here is derived from them; the proofs of the properties use the
   derived equations (classify_frame_now, handle_back_now, array_run_now, handle_elem_single_now) and nothing else about
   the dispatch.  A source with another arm / an early return in the loop / no `?` gives other constants: the `*_now`
   lemma concerned stops building, and with it everything that was proved through it.

   `array_loop`, `handle_elem_single_ref`, `handle_back_ref` are not part of the model: they are the closed forms the
   interpreters are proved equal to (the shape the proofs do their case analysis on). *)
From JV Require Import Base.Bytes Base.Dec Model.Wire Model.ClientMgr Model.ClientDispatch Gen.ClientDispatchGen.
Local Open Scope N_scope.

(* ================= the generated constants, now ================= *)
Lemma first_byte_now : client_first_byte = [(x7b, BSingle); (x5b, BArray)] /\ client_first_byte_default = BError.
Proof. split; reflexivity. Qed.

(* single arm: the action of each reader; whether a close request is returned or pushed makes no difference there
   (nothing follows), so the close modes are left open *)
Lemma single_actions_now : exists c1 c2,
  single_action TryResponse client_single_dispatch = Some (ASingleResponse c1) /\
  single_action TrySubResponse client_single_dispatch = Some (ASubItem c2) /\
  single_action TrySubError client_single_dispatch = Some ASubClose /\
  single_action TryNotification client_single_dispatch = Some ANotification.
Proof. do 2 eexists. repeat split; reflexivity. Qed.

Lemma single_no_reader_now : client_single_no_reader = NoReaderFatal.
Proof. reflexivity. Qed.

(* array loop: the action of each reader -- the `?` on the id of a response, the close mode of a subscription item
   (PUSHED: the loop goes on) -- and who sets got_notif *)
Lemma elem_actions_now :
  elem_action TryResponse client_elem_dispatch = Some (ABatchCollect IdNumberOrFatal, false) /\
  elem_action TrySubResponse client_elem_dispatch = Some (ASubItem ClosePushed, true) /\
  elem_action TrySubError client_elem_dispatch = Some (ASubClose, true) /\
  elem_action TryNotification client_elem_dispatch = Some (ANotification, true).
Proof. repeat split; reflexivity. Qed.

Lemma elem_no_reader_now : client_elem_no_reader = NoReaderFatal.
Proof. reflexivity. Qed.

Lemma epilogue_now : client_array_epilogue = [PBatchResponse; PEmptyIsFatal].
Proof. reflexivity. Qed.

(* ================= the first byte ================= *)
Lemma classify_frame_now raw :
  classify_frame raw =
  match drop_while is_ascii_ws raw with
  | c :: _ =>
    if beqb c x7b then FSingle (classify_single raw)
    else if beqb c x5b then
      match raw_array raw with
      | Some ts => FArray (map classify_elem ts)
      | None => FGarbage
      end
    else FGarbage
  | [] => FGarbage
  end.
Proof.
  unfold classify_frame, classify_frame_with. cbn [d_first d_first_default client_dispatch].
  destruct first_byte_now as [-> ->].
  fold (classify_single raw). fold classify_elem.
  destruct (drop_while is_ascii_ws raw) as [|c tl]; [reflexivity|].
  cbn [first_byte_arm]. destruct (beqb c x7b); [reflexivity|]. destruct (beqb c x5b); reflexivity.
Qed.

(* ================= the frame handler ================= *)
Definition handle_elem_single_ref (s : st) (x : inmsg) : rres :=
  match x with
  | IResp r => single_response s r
  | ISubNotif _ sid p => ROk (sub_deliver s sid p) []
  | ISubErr _ sid _ => ROk (sub_close s sid) []
  | INotif me p => ROk (notif_deliver s me p) []
  | IBad => RFatal s [] FUnparseable
  end.

Lemma handle_elem_single_now s x : handle_elem_single s x = handle_elem_single_ref s x.
Proof.
  unfold handle_elem_single, handle_single_with. cbn [d_single d_single_no_reader client_dispatch].
  rewrite single_no_reader_now. destruct single_actions_now as (c1 & c2 & E1 & E2 & E3 & E4).
  destruct x; cbn [reader_of]; rewrite ?E1, ?E2, ?E3, ?E4; reflexivity.
Qed.

(* the array loop as it is now: nothing but a fatal error leaves it early *)
Fixpoint array_loop (s : st) (ms : list inmsg) (acc : list response) (rng : option (N * N)) (got : bool)
  : (st * list response * option (N * N) * bool) + (st * fatal) :=
  match ms with
  | [] => inl (s, acc, rng, got)
  | x :: ms' =>
    match x with
    | IResp r =>
      match id_as_number (rs_id r) with
      | None => inr (s, FBadBatchId)
      | Some n =>
        let rng' := match rng with
                    | None => (n, n)
                    | Some (lo, hi) => (if n <? lo then n else lo, if hi <? n then n else hi)
                    end in
        array_loop s ms' (acc ++ [r]) (Some rng') got
      end
    | ISubNotif _ sid p => array_loop (sub_deliver s sid p) ms' acc rng true
    | ISubErr _ sid _ => array_loop (sub_close s sid) ms' acc rng true
    | INotif me p => array_loop (notif_deliver s me p) ms' acc rng true
    | IBad => inr (s, FUnparseable)
    end
  end.

Definition loop_exit (r : (st * list response * option (N * N) * bool) + (st * fatal)) : loop_acc + rres :=
  match r with
  | inl t => inl t
  | inr (s', f) => inr (RFatal s' [] f)
  end.

Lemma array_run_now : forall ms s acc rng got, array_run s ms acc rng got = loop_exit (array_loop s ms acc rng got).
Proof.
  unfold array_run.
  induction ms as [|x ms IH]; intros s acc rng got; [reflexivity|].
  cbn [array_run_with array_loop]. unfold elem_step. cbn [d_elem d_elem_no_reader client_dispatch].
  rewrite elem_no_reader_now. destruct elem_actions_now as (E1 & E2 & E3 & E4).
  destruct x as [r|me sid p|me sid p|me p|]; cbn [reader_of]; rewrite ?E1, ?E2, ?E3, ?E4; cbn [run_elem_action].
  - destruct (id_as_number (rs_id r)); [apply IH | reflexivity].
  - apply IH.
  - apply IH.
  - apply IH.
  - reflexivity.
Qed.

Definition handle_back_ref (s : st) (fr : inframe) : rres :=
  match fr with
  | FGarbage => RFatal s [] FUnparseable
  | FSingle x => handle_elem_single_ref s x
  | FArray ms =>
    match array_loop s ms [] None false with
    | inr (s', f) => RFatal s' [] f
    | inl (s', rs, Some (lo, hi), _) =>
      if hi =? u64_max then RFatal s' [] FNotPending      (* range.end + 1 would overflow *)
      else batch_response s' rs lo (hi + 1)
    | inl (s', _, None, got) => if got then ROk s' [] else RFatal s' [] FEmptyBatch
    end
  end.

Lemma handle_back_now s fr : handle_back s fr = handle_back_ref s fr.
Proof.
  unfold handle_back, handle_back_with. destruct fr as [x|ms|]; cbn [handle_back_ref].
  - apply handle_elem_single_now.
  - fold (array_run s ms [] None false). rewrite array_run_now.
    cbn [d_post client_dispatch]. rewrite epilogue_now.
    destruct (array_loop s ms [] None false) as [[[[s' rs] [[lo hi]|]] got]|[s' f]]; cbn [loop_exit run_post]; reflexivity.
  - reflexivity.
Qed.

(* the old spellings of the unfolding steps, for the proofs *)
Ltac back_now := rewrite ?handle_back_now, ?handle_elem_single_now.
Ltac back_now_in H := rewrite ?handle_back_now, ?handle_elem_single_now in H.
