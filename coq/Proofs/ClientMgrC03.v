(* C03: each client call completes with exactly the response bearing its own id.
   Part A: which outputs each part of a step can emit; keys are fresh; routing (state form); unknown ids.
   Part B: a potential function on pending waiters: every handle completes at most once.
   Part C: origin of table entries in the event history: routing (trace form). *)
From JV Require Import Base.Bytes Base.Dec Base.Utf8 Json.Json Model.Wire Model.ClientMgr Proofs.DecFacts Proofs.ClientMgrInv.
From JV Require Import Proofs.ClientDispatchFacts.
From Coq Require Import Permutation.
Local Open Scope N_scope.
Arguments N.add : simpl never.
Arguments N.sub : simpl never.
Arguments N.mul : simpl never.
Arguments N.ltb : simpl never.
Arguments N.leb : simpl never.
Arguments N.eqb : simpl never.

(* ------------------------------------------------------------------------------------------- *)
(* Part A                                                                                        *)
(* ------------------------------------------------------------------------------------------- *)

Lemma in_complete s h r o : In o (complete s h r) -> o = OComplete h r.
Proof. unfold complete. destruct (alive s h); cbn; [intros [<- | []]; auto | intros []]. Qed.

Definition sub_answer (c : cres) : Prop :=
  match c with CErr (ECall _) | CErr EParse | CErr EInvalidSubId | CSubOk _ => True | _ => False end.

Lemma single_response_outs s r o : In o (rres_out (single_response s r)) ->
  match o with
  | OComplete h (CResp r') => r' = r /\ req_lookup (rs_id r) (m s) = Some (KCall (Some h))
  | OComplete h c => sub_answer c /\ exists u um, req_lookup (rs_id r) (m s) = Some (KPendSub u h um)
  | _ => False
  end.
Proof.
  unfold single_response. destruct (req_lookup (rs_id r) (m s)) as [[w|u w um|u ch um|sub]|] eqn:A; cbn [rres_out]; try contradiction.
  - destruct w as [h|]; [|contradiction]. intros H. apply in_complete in H. subst o. auto.
  - assert (X : forall c, sub_answer c -> In o (complete s w c) ->
              match o with
              | OComplete h (CResp r') => r' = r /\ Some (KPendSub u w um) = Some (KCall (Some h))
              | OComplete h c => sub_answer c /\ exists u0 um0, Some (KPendSub u w um) = Some (KPendSub u0 h um0)
              | _ => False end).
    { intros c Hc H. apply in_complete in H. subst o. destruct c as [| | | | |[]]; try contradiction; split; eauto. }
    destruct (rs_payload r) as [raw|e]; cbn [rres_out]; [|apply X; exact Logic.I].
    destruct (parse_subid raw) as [sid|]; cbn [rres_out]; [|apply X; exact Logic.I].
    destruct (ahas subid_eqb sid _); cbn [rres_out]; [apply X; exact Logic.I|].
    destruct (alive s w); cbn [rres_out]; [|contradiction].
    intros [<- | []]. split; [exact Logic.I | eauto].
Qed.

Lemma handle_back_outs s fr o : In o (rres_out (handle_back s fr)) ->
  match o with
  | OComplete h (CResp r) => fr = FSingle (IResp r) /\ req_lookup (rs_id r) (m s) = Some (KCall (Some h))
  | OComplete h (CBatch _) => exists ms, fr = FArray ms
  | OComplete h c => sub_answer c /\ exists r u um, fr = FSingle (IResp r) /\ req_lookup (rs_id r) (m s) = Some (KPendSub u h um)
  | _ => False
  end.
Proof.
  destruct fr as [x|ms|]; rewrite ?handle_back_now; cbn [handle_back_ref rres_out]; [| |contradiction].
  - destruct x as [r|me sid p|me sid p|me p|]; cbn [handle_elem_single_ref rres_out]; try contradiction.
    intros H. apply single_response_outs in H. destruct o as [|h c|]; auto.
    destruct c as [r'| | | | |e]; try (destruct H as (H1 & u & um & H2); first [exfalso; exact H1 | split; eauto]; fail).
    destruct H as (-> & H). auto.
  - destruct (array_loop s ms [] None false) as [[[[s' rs] [[lo hi]|]] got]|[s' f]]; cbn [rres_out]; try contradiction.
    + destruct (hi =? u64_max); cbn [rres_out]; [contradiction|]. unfold batch_response.
      destruct (alookup range_eqb _ _); cbn [rres_out]; [|contradiction].
      intros H. apply in_complete in H. subst o. eauto.
    + destruct got; cbn [rres_out]; contradiction.
Qed.

(* completions apply itself can emit: never Occupied / AlreadyRegistered / RegOk *)
Definition apply_cres (c : cres) : Prop :=
  match c with CErr EOccupied | CErr EAlreadyRegistered | CRegOk => False | _ => True end.

Lemma apply_outs s e o : In o (snd (fst (apply s e))) ->
  match o with
  | OComplete h (CResp r) =>
      dead s = false /\ dying s = None /\ exists raw, e = Back raw /\ classify_frame raw = FSingle (IResp r) /\
      req_lookup (rs_id r) (m s) = Some (KCall (Some h))
  | OComplete h c => apply_cres c
  | _ => False
  end.
Proof.
  unfold apply. destruct (dead s) eqn:D.
  - destruct e; cbn [fst snd]; try contradiction; try (intros [<- | []]; exact Logic.I).
    + destruct (poll_next s sh); contradiction.
    + destruct (close_msg_of s sh); [|contradiction]. destruct (chan_of s sh); [|contradiction]. intros [<- | []]; exact Logic.I.
    + destruct (close_msg_of s sh); [|contradiction]. destruct (chan_of s sh); contradiction.
  - destruct e; cbn [fst snd]; try contradiction.
    + destruct entries; cbn [fst snd]; [intros [<- | []]; exact Logic.I | contradiction].
    + destruct (bytes_eqb sub unsub); cbn [fst snd]; [intros [<- | []]; exact Logic.I | contradiction].
    + destruct (poll_next s sh); contradiction.
    + destruct (close_msg_of s sh); contradiction.
    + destruct (close_msg_of s sh); [|contradiction]. destruct (chan_of s sh); contradiction.
    + destruct (dying s) eqn:DY; [contradiction|].
      intros H. assert (H' : In o (rres_out (handle_back s (classify_frame raw)))).
      { destruct (handle_back s (classify_frame raw)); exact H. }
      apply handle_back_outs in H'. destruct o as [|h c|]; auto.
      destruct c as [r| | | | |ce]; try exact Logic.I.
      * destruct H' as (H1 & H2). repeat split; auto. exists raw. auto.
      * destruct H' as (H1 & _). exact H1.
      * destruct H' as (H1 & _). destruct ce; try contradiction; exact Logic.I.
Qed.

Lemma step_outs s e o : In o (snd (fst (step s e))) ->
  In o (snd (fst (apply s e))) \/ settle_out o.
Proof.
  unfold step. destruct (apply s e) as [[s1 o1] r]. pose proof (settle_outs s1) as S.
  destruct (settle s1) as [s2 o2]. cbn [fst snd] in *. intros H. apply in_app_iff in H as [H | H]; auto.
  right. rewrite Forall_forall in S. auto.
Qed.

(* routing, for any state: a response completion is emitted only for the waiter stored under the response's id,
   and it carries the parsed frame itself *)
Theorem routing_state s e h r : In (OComplete h (CResp r)) (snd (fst (step s e))) ->
  dead s = false /\ dying s = None /\ req_lookup (rs_id r) (m s) = Some (KCall (Some h)) /\
  exists raw, e = Back raw /\ classify_frame raw = FSingle (IResp r).
Proof.
  intros H. apply step_outs in H as [H | H]; [|contradiction].
  apply apply_outs in H as (D & DY & raw & E & C & L). repeat split; auto. eauto.
Qed.

Theorem payload_exact s e h r : In (OComplete h (CResp r)) (snd (fst (step s e))) ->
  exists raw, e = Back raw /\ classify_frame raw = FSingle (IResp r).
Proof. intros H. exact (proj2 (proj2 (proj2 (routing_state s e h r H)))). Qed.

(* ---------- fresh keys ---------- *)
Definition not_occ (o : out) : Prop := forall h, o <> OComplete h (CErr EOccupied).

Lemma handle_front_fresh s msg : InvC (m s) (msg :: qmsgs s) (next_id s) (id_str s) (unacked s) ->
  Forall not_occ (snd (handle_front s msg)).
Proof.
  intros C. destruct msg as [lo hi h raw | raw | i w raw | si ui um h raw | me h | me | sid]; cbn [handle_front].
  - apply InvC_front_batch in C as (F & _). apply (ahas_false range_eqb range_eqb_ok) in F. rewrite F.
    apply wire_out. discriminate.
  - apply wire_out. discriminate.
  - apply InvC_front_req in C as (F & _). apply (ahas_false id_eqb id_eqb_ok) in F. rewrite F. apply wire_out. discriminate.
  - apply InvC_front_sub in C as (F1 & F2 & F3 & _).
    apply (ahas_false id_eqb id_eqb_ok) in F1. apply (ahas_false id_eqb id_eqb_ok) in F2.
    rewrite F1, F2, (eqb_neq id_eqb id_eqb_ok _ _ F3). cbn [negb andb]. apply wire_out. discriminate.
  - destruct (ahas _ _ _); [apply complete_Forall; discriminate|]. destruct (alive s h); cbn; repeat constructor; discriminate.
  - destruct (alookup _ _ _); constructor.
  - unfold do_unsubscribe. destruct (alookup _ _ _); [|constructor].
    destruct (req_lookup _ _) as [[w|u w um|u ch um|j]|]; try constructor. apply wire_out; discriminate.
Qed.

Theorem keys_fresh_step s e : Inv s -> Inv (fst (fst (step s e))) /\ Forall not_occ (snd (fst (step s e))).
Proof.
  apply (step_lift Inv not_occ).
  - intros f s0 I. apply (admit_waiting_good f s0 I).
  - intros s0 msg q I Q D _ _. destruct (Inv_front s0 msg q I Q D) as (I1 & C). split; auto.
    apply handle_front_fresh. st_simpl. exact C.
  - intros s0 f I _ _ _. split; [apply (kill_good s0 f I) | apply kill_out; discriminate].
  - intros s0 I. split; [apply (finish_unsubs_good s0 I) | apply finish_unsubs_out; discriminate].
  - intros s0 e0 I. split; [apply (apply_good s0 e0 I)|]. apply Forall_forall. intros o Ho.
    apply apply_outs in Ho. intros h ->. exact Ho.
Qed.

Theorem keys_fresh idstr qc bc gate es :
  Forall (fun x => forall h, ~ In (OComplete h (CErr EOccupied)) (fst x)) (snd (run (init idstr qc bc gate) es)).
Proof.
  assert (G : forall es s, Inv s -> Forall (fun x => Forall not_occ (fst x)) (snd (run s es))).
  { induction es0 as [|e es0 IH]; intros s I; [constructor|]. rewrite run_cons. cbn [snd].
    destruct (keys_fresh_step s e I) as (I1 & F). constructor; auto. }
  specialize (G es _ (init_inv idstr qc bc gate)). eapply Forall_impl; [|exact G].
  intros [o r] F h Hi. cbn [fst] in *. rewrite Forall_forall in F. apply (F _ Hi h). reflexivity.
Qed.

(* ---------- an id that matches nothing pending ---------- *)
Definition doomed (s : st) : Prop := dying s <> None \/ dead s = true.

Lemma finish_unsubs_flags s : dying (fst (finish_unsubs s)) = dying s /\ dead (fst (finish_unsubs s)) = dead s.
Proof.
  unfold finish_unsubs. cbn [fst].
  destruct (fold_drop_rx_same (filter (unsub_done s) (unsubw s)) s) as (A & _ & _ & D & _). cbv zeta in *.
  destruct A. st_simpl. auto.
Qed.

Lemma settle_doomed s : doomed s -> doomed (fst (settle s)).
Proof.
  intros H. apply (settle_lift doomed (fun _ => True)); auto.
  - intros f s0. destruct (admit_waiting_flags f s0) as (_ & D & DY). unfold doomed. rewrite D, DY. auto.
  - intros s0 msg q [DY | D] _ D' _ DY'; congruence.
  - intros s0 f _ _ _ _. split; [right; reflexivity | apply Forall_forall; auto].
  - intros s0 J. destruct (finish_unsubs_flags s0) as (DY & D). split; [|apply Forall_forall; auto].
    unfold doomed. rewrite DY, D. exact J.
Qed.

Theorem unknown_id_completes_nothing s raw r :
  classify_frame raw = FSingle (IResp r) -> dying s = None -> dead s = false ->
  (req_lookup (rs_id r) (m s) = None \/ exists u ch um, req_lookup (rs_id r) (m s) = Some (KSub u ch um)) ->
  (forall o, In o (snd (fst (step s (Back raw)))) ->
     match o with OComplete _ (CResp _) | OComplete _ (CBatch _) | OComplete _ (CSubOk _) => False | _ => True end) /\
  doomed (fst (fst (step s (Back raw)))).
Proof.
  intros CF DY D L.
  assert (A : apply s (Back raw) = (upd_dying s FNotPending, [], None)).
  { unfold apply. rewrite D, DY, CF. rewrite ?handle_back_now; cbn [handle_back_ref handle_elem_single_ref]. unfold single_response.
    destruct L as [-> | (u & ch & um & ->)]; reflexivity. }
  unfold step. rewrite A. pose proof (settle_outs (upd_dying s FNotPending)) as S.
  pose proof (settle_doomed (upd_dying s FNotPending)) as Dm.
  destruct (settle (upd_dying s FNotPending)) as [s2 o2]. cbn [fst snd app] in *. split.
  - intros o Ho. rewrite Forall_forall in S. apply S in Ho. destruct o as [|h c|]; auto. destruct c; auto.
  - apply Dm. left. st_simpl. rewrite DY. discriminate.
Qed.

(* ------------------------------------------------------------------------------------------- *)
(* Part B: at most one completion per handle                                                     *)
(* ------------------------------------------------------------------------------------------- *)

Definition cnt (h : handle) (l : list handle) : nat := count_occ N.eq_dec l h.

Lemma cnt_app h l1 l2 : cnt h (l1 ++ l2) = (cnt h l1 + cnt h l2)%nat.
Proof. apply count_occ_app. Qed.
Lemma cnt_nil h : cnt h [] = 0%nat.
Proof. reflexivity. Qed.
Lemma cnt_flat_map_app {A} h (f : A -> list handle) l1 l2 : cnt h (flat_map f (l1 ++ l2)) = (cnt h (flat_map f l1) + cnt h (flat_map f l2))%nat.
Proof. rewrite flat_map_app. apply cnt_app. Qed.

(* handles completed by a list of outputs *)
Definition comps (o : list out) : list handle := flat_map (fun x => match x with OComplete h _ => [h] | _ => [] end) o.
Lemma comps_app o1 o2 : comps (o1 ++ o2) = comps o1 ++ comps o2.
Proof. apply flat_map_app. Qed.

Lemma comps_complete h s h' r : (cnt h (comps (complete s h' r)) <= cnt h [h'])%nat.
Proof. unfold complete. destruct (alive s h'); cbn; auto. destruct (N.eq_dec h' h); lia. Qed.

(* waiters registered anywhere in the state *)
Definition tokens (s : st) : list handle :=
  flat_map waiters_of_kind (requests (m s)) ++ map snd (batches (m s)) ++ flat_map waiters_of_msg (queue s)
  ++ flat_map (fun x => waiters_of_msg (fst x)) (waiting s) ++ map (fun x => fst (fst x)) (unsubw s).
Definition pot (h : handle) (s : st) : nat := cnt h (tokens s).

(* (s, o, s') pays: completions of h are covered by the decrease of the potential, up to a budget *)
Definition Pay (h : handle) (n : nat) (s : st) (o : list out) (s' : st) : Prop := (cnt h (comps o) + pot h s' <= pot h s + n)%nat.

Lemma Pay_trans h n1 n2 s1 o1 s2 o2 s3 : Pay h n1 s1 o1 s2 -> Pay h n2 s2 o2 s3 -> Pay h (n1 + n2) s1 (o1 ++ o2) s3.
Proof. unfold Pay. rewrite comps_app, cnt_app. lia. Qed.

Lemma Pay_same h s s' : tokens s' = tokens s -> Pay h 0 s [] s'.
Proof. unfold Pay, pot. intros ->. cbn. lia. Qed.

Lemma wok_aremove_le h i (R : list (id * kind)) :
  (cnt h (flat_map waiters_of_kind (aremove id_eqb i R)) <= cnt h (flat_map waiters_of_kind R))%nat.
Proof.
  induction R as [|[j k] R IH]; cbn [aremove flat_map]; auto.
  destruct (id_eqb i j); cbn [flat_map]; rewrite ?cnt_app; lia.
Qed.

Lemma wok_aremove h i (R : list (id * kind)) k : alookup id_eqb i R = Some k ->
  (cnt h (flat_map waiters_of_kind (aremove id_eqb i R)) + cnt h (waiters_of_kind (i, k)) <= cnt h (flat_map waiters_of_kind R))%nat.
Proof.
  induction R as [|[j k'] R IH]; cbn [alookup aremove flat_map]; [discriminate|].
  destruct (id_eqb i j).
  - intros [= ->]. rewrite cnt_app. pose proof (wok_aremove_le h i R). unfold waiters_of_kind in *. cbn [snd] in *. lia.
  - intros H. cbn [flat_map]. rewrite !cnt_app. apply IH in H. lia.
Qed.

Lemma bat_aremove_le h k (B : list ((N * N) * handle)) : (cnt h (map snd (aremove range_eqb k B)) <= cnt h (map snd B))%nat.
Proof.
  induction B as [|[j w] B IH]; cbn [aremove map]; auto.
  destruct (range_eqb k j); cbn [map snd cnt count_occ]; destruct (N.eq_dec w h); unfold cnt in *; lia.
Qed.

Lemma bat_aremove h k (B : list ((N * N) * handle)) w : alookup range_eqb k B = Some w ->
  (cnt h (map snd (aremove range_eqb k B)) + cnt h [w] <= cnt h (map snd B))%nat.
Proof.
  induction B as [|[j w'] B IH]; cbn [alookup aremove map]; [discriminate|].
  destruct (range_eqb k j).
  - intros [= ->]. pose proof (bat_aremove_le h k B). cbn [snd cnt count_occ] in *. unfold cnt in *. destruct (N.eq_dec w h); lia.
  - intros H. apply IH in H. cbn [map snd cnt count_occ] in *. unfold cnt in *. destruct (N.eq_dec w' h); lia.
Qed.

Ltac tok := unfold Pay, pot, tokens; st_simpl; cbn [requests subs batches nhandlers set_requests set_subs set_batches set_nhandlers];
            change (comps []) with (@nil handle); rewrite ?cnt_app, ?cnt_flat_map_app, ?cnt_nil.

Lemma tokens_same s s' : SameC s s' -> unsubw s' = unsubw s -> tokens s' = tokens s.
Proof. intros [] U. unfold tokens. congruence. Qed.

Lemma drop_sink_unsubw s h : unsubw (drop_sink s h) = unsubw s.
Proof. unfold drop_sink. destruct (chan_of s h); reflexivity. Qed.
Lemma wire_unsubw s raw : unsubw (fst (wire s raw)) = unsubw s.
Proof. unfold wire. destruct (sendfail s); [|destruct (gated s)]; reflexivity. Qed.

Lemma wire_comps s raw : comps (snd (wire s raw)) = [].
Proof. unfold wire. destruct (sendfail s); reflexivity. Qed.

Lemma Pay_wire h n s o s1 raw : Pay h n s o s1 -> Pay h n s (o ++ snd (wire s1 raw)) (fst (wire s1 raw)).
Proof.
  unfold Pay, pot. rewrite comps_app, wire_comps, app_nil_r.
  rewrite (tokens_same s1 (fst (wire s1 raw)) (wire_same s1 raw) (wire_unsubw s1 raw)). auto.
Qed.

Lemma release_wok_le h u M : (cnt h (flat_map waiters_of_kind (requests (release_reserved u M))) <= cnt h (flat_map waiters_of_kind (requests M)))%nat.
Proof.
  unfold release_reserved. destruct (req_lookup u M) as [[[w|]| | |]|]; auto. cbn. apply wok_aremove_le.
Qed.

(* the send task handles the head of the queue *)
Lemma Pay_front h s0 msg q : queue s0 = msg :: q ->
  Pay h 0 s0 (snd (handle_front (upd_queue s0 q (waiting s0)) msg)) (fst (handle_front (upd_queue s0 q (waiting s0)) msg)).
Proof.
  intros Q. set (s := upd_queue s0 q (waiting s0)).
  assert (P0 : forall o, (cnt h (comps o) <= cnt h (waiters_of_msg msg))%nat -> Pay h 0 s0 o s).
  { intros o Ho. unfold s. tok. rewrite Q. cbn [flat_map]. rewrite cnt_app. lia. }
  destruct msg as [lo hi w raw | raw | i w raw | si ui um w raw | me w | me | sid]; cbn [handle_front].
  - destruct (ahas _ _ _); cbn [fst snd]; [apply P0; apply comps_complete|].
    apply (Pay_wire h 0 s0 [] _ raw). unfold s. tok. rewrite Q. cbn [flat_map map snd]. rewrite !cnt_app.
    change (cnt h (w :: map snd (batches (m s0)))) with (cnt h ([w] ++ map snd (batches (m s0)))). rewrite cnt_app. cbn [waiters_of_msg]. lia.
  - apply (Pay_wire h 0 s0 [] _ raw). apply P0. cbn. lia.
  - destruct (ahas _ _ _); cbn [fst snd].
    + apply P0. destruct w; [apply comps_complete | cbn; lia].
    + apply (Pay_wire h 0 s0 [] _ raw). unfold s. tok. rewrite Q. cbn [flat_map]. rewrite !cnt_app.
      unfold waiters_of_kind at 1. cbn [snd waiters_of_msg]. destruct w; cbn [comps flat_map cnt count_occ]; lia.
  - destruct (_ && _); cbn [fst snd]; [|apply P0; apply comps_complete].
    apply (Pay_wire h 0 s0 [] _ raw). unfold s. tok. rewrite Q. cbn [flat_map]. rewrite !cnt_app.
    unfold waiters_of_kind at 1 2. cbn [snd waiters_of_msg comps flat_map]. cbn [cnt count_occ app]. lia.
  - destruct (ahas _ _ _); cbn [fst snd]; [apply P0; apply comps_complete|].
    destruct (alive s w); cbn [fst snd]; unfold s; tok; rewrite Q; cbn [flat_map waiters_of_msg comps]; rewrite ?cnt_app, ?cnt_nil; cbn [app]; lia.
  - destruct (alookup _ _ _); cbn [fst snd]; [|apply P0; cbn; lia].
    unfold Pay, pot. rewrite (tokens_same _ _ (drop_sink_same _ _) (drop_sink_unsubw _ _)).
    unfold s; tok; rewrite Q; cbn [flat_map waiters_of_msg comps]; rewrite ?cnt_app, ?cnt_nil; cbn [app]; lia.
  - unfold do_unsubscribe. destruct (alookup _ _ _) as [rid|]; cbn [fst snd]; [|apply P0; cbn; lia].
    destruct (req_lookup rid (m s)) as [[w|u w um|u ch um|j]|] eqn:L; cbn [fst snd]; try (apply P0; cbn; lia).
    set (m1 := set_subs _ _). set (s1 := drop_sink (upd_m s m1) ch).
    apply (Pay_wire h 0 s0 [] (upd_unacked s1 (u :: unacked s1))).
    assert (T : tokens (upd_unacked s1 (u :: unacked s1)) = tokens (upd_m s m1)).
    { unfold s1. rewrite <- (tokens_same _ _ (drop_sink_same (upd_m s m1) ch) (drop_sink_unsubw _ _)). reflexivity. }
    unfold Pay, pot. rewrite T. unfold m1, s. tok. rewrite Q. cbn [flat_map waiters_of_msg comps]. rewrite ?cnt_app. cbn [app cnt count_occ].
    unfold aset. cbn [flat_map]. rewrite !cnt_app.
    change (waiters_of_kind (u, KUnsubP rid)) with (@nil handle). rewrite cnt_nil.
    pose proof (wok_aremove_le h u ((rid, KCall None) :: aremove id_eqb rid (requests (m s0)))) as L1.
    cbn [flat_map] in L1. rewrite cnt_app in L1.
    change (waiters_of_kind (rid, KCall None)) with (@nil handle) in L1. rewrite cnt_nil in L1.
    pose proof (wok_aremove_le h rid (requests (m s0))) as L2. lia.
Qed.

Lemma pot_admit h f : forall s, pot h (admit_waiting f s) = pot h s.
Proof.
  induction f as [|f IH]; intros s; cbn [admit_waiting]; auto.
  destruct (waiting s) as [|[msg tag] w] eqn:W; auto.
  destruct (Nat.ltb (length (queue s)) (qcap s)); auto.
  rewrite IH. unfold pot, tokens. rewrite W.
  destruct tag; st_simpl; rewrite ?mark_admitted_fst; cbn [flat_map fst]; rewrite ?cnt_app, ?cnt_flat_map_app; cbn [flat_map];
    rewrite ?cnt_app, ?app_nil_r, ?cnt_nil; lia.
Qed.

Lemma Pay_drain h f : forall s, Pay h 0 s (snd (drain f s)) (fst (drain f s)).
Proof.
  induction f as [|f IH]; intros s; cbn [drain]; [apply Pay_same; auto|].
  pose proof (pot_admit h (length (waiting s)) s) as E. set (s0 := admit_waiting (length (waiting s)) s) in *.
  assert (P0 : Pay h 0 s [] s0) by (unfold Pay; cbn; lia).
  destruct (busy s0 || dead s0 || match dying s0 with Some _ => true | None => false end); [exact P0|].
  destruct (queue s0) as [|msg q] eqn:Q; [exact P0|].
  pose proof (Pay_front h s0 msg q Q) as P1.
  destruct (handle_front (upd_queue s0 q (waiting s0)) msg) as [s1 o1]. cbn [fst snd] in *.
  specialize (IH s1). destruct (drain f s1) as [s2 o2]. cbn [fst snd] in *.
  pose proof (Pay_trans _ _ _ _ _ _ _ _ P0 (Pay_trans _ _ _ _ _ _ _ _ P1 IH)) as X. exact X.
Qed.

Lemma cnt_insert_sorted h x l : cnt h (insert_sorted x l) = cnt h (x :: l).
Proof.
  induction l as [|y l IH]; cbn [insert_sorted]; auto.
  destruct (x <=? y); auto. unfold cnt in *. cbn [count_occ] in *. rewrite IH.
  destruct (N.eq_dec y h), (N.eq_dec x h); lia.
Qed.

Lemma cnt_sort h l : cnt h (sort_handles l) = cnt h l.
Proof.
  induction l as [|x l IH]; cbn [sort_handles fold_right]; auto. fold (sort_handles l).
  rewrite cnt_insert_sorted. unfold cnt in *. cbn [count_occ]. rewrite IH. reflexivity.
Qed.

Lemma comps_flat_complete h s c l : (cnt h (comps (flat_map (fun h' => complete s h' c) l)) <= cnt h l)%nat.
Proof.
  induction l as [|x l IH]; cbn [flat_map]; auto. rewrite comps_app, cnt_app.
  pose proof (comps_complete h s x c). change (x :: l) with ([x] ++ l). rewrite cnt_app. lia.
Qed.

Lemma Pay_kill h s f : Pay h 0 s (snd (kill s f)) (fst (kill s f)).
Proof.
  unfold kill. cbn [fst snd]. unfold Pay, pot, tokens. st_simpl. cbn [requests batches empty_mgr flat_map map app comps].
  rewrite map_map. cbn [fst].
  set (ws := _ ++ _ ++ _ ++ _).
  pose proof (comps_flat_complete h s (CErr EDisconnected) (sort_handles ws)) as L. rewrite cnt_sort in L.
  assert (E : map (fun x : handle * handle * bool => fst (fst (let '(w, c, _) := x in (w, c, true)))) (unsubw s)
              = map (fun x => fst (fst x)) (unsubw s)).
  { apply map_ext. intros [[w c] a]. reflexivity. }
  rewrite E. unfold comps in L. unfold ws in *. rewrite !cnt_app in *. lia.
Qed.

Lemma Pay_try_kill h s : Pay h 0 s (snd (try_kill s)) (fst (try_kill s)).
Proof.
  unfold try_kill. destruct (dying s); [|apply Pay_same; auto]. destruct (busy s || dead s); [apply Pay_same; auto|]. apply Pay_kill.
Qed.

Lemma cnt_filter_split {A} h (f : A -> handle) (p : A -> bool) l :
  (cnt h (map f (filter p l)) + cnt h (map f (filter (fun x => negb (p x)) l)) = cnt h (map f l))%nat.
Proof.
  induction l as [|x l IH]; cbn [filter map]; auto. unfold cnt in *.
  destruct (p x); cbn [negb map count_occ]; destruct (N.eq_dec (f x) h); lia.
Qed.

Lemma comps_done h s (l : list (handle * handle * bool)) :
  (cnt h (comps (flat_map (fun x : handle * handle * bool => let '(w, _, _) := x in complete s w CDone) l))
   <= cnt h (map (fun x => fst (fst x)) l))%nat.
Proof.
  induction l as [|[[w c] a] l IH]; cbn [flat_map map]; auto.
  rewrite comps_app, cnt_app. pose proof (comps_complete h s w CDone).
  change (fst (fst (w, c, a)) :: map (fun x => fst (fst x)) l) with ([w] ++ map (fun x : handle * handle * bool => fst (fst x)) l).
  rewrite cnt_app. lia.
Qed.

Lemma Pay_finish h s : Pay h 0 s (snd (finish_unsubs s)) (fst (finish_unsubs s)).
Proof.
  unfold finish_unsubs. cbn [fst snd].
  destruct (fold_drop_rx_same (filter (unsub_done s) (unsubw s)) s) as (A & _). cbv zeta in A.
  set (s1 := fold_left _ _ s) in *. destruct A as [a1 a2 a3 a4 a5 a6 a7 a8 a9 a10].
  unfold Pay, pot, tokens. st_simpl. rewrite a1, a4, a5. rewrite !cnt_app.
  pose proof (cnt_filter_split h (fun x : handle * handle * bool => fst (fst x)) (unsub_done s) (unsubw s)) as E.
  pose proof (comps_done h s (filter (unsub_done s) (unsubw s))) as L.
  lia.
Qed.

Lemma Pay_settle h s : Pay h 0 s (snd (settle s)) (fst (settle s)).
Proof.
  unfold settle.
  pose proof (Pay_try_kill h s) as P1. destruct (try_kill s) as [s1 o1].
  pose proof (Pay_drain h (S (length (queue s1) + length (waiting s1))) s1) as P2. destruct (drain _ s1) as [s2 o2].
  pose proof (Pay_try_kill h s2) as P3. destruct (try_kill s2) as [s3 o3].
  pose proof (Pay_finish h s3) as P4. destruct (finish_unsubs s3) as [s4 o4]. cbn [fst snd] in *.
  exact (Pay_trans _ _ _ _ _ _ _ _ P1 (Pay_trans _ _ _ _ _ _ _ _ P2 (Pay_trans _ _ _ _ _ _ _ _ P3 P4))).
Qed.

(* enqueueing *)
Lemma pot_enqueue h s msg tag : pot h (enqueue_tagged s msg tag) = (pot h s + cnt h (waiters_of_msg msg))%nat.
Proof.
  unfold enqueue_tagged, pot, tokens.
  destruct (Nat.ltb (length (queue s)) (qcap s) && match waiting s with [] => true | _ => false end);
    [destruct tag|]; st_simpl; rewrite ?mark_admitted_fst, ?cnt_app, ?cnt_flat_map_app; cbn [flat_map fst];
    rewrite ?app_nil_r, ?cnt_app, ?cnt_nil; lia.
Qed.

Lemma pot_try_enqueue h s msg : waiters_of_msg msg = [] -> pot h (try_enqueue s msg) = pot h s.
Proof.
  intros E. unfold try_enqueue, pot, tokens. destruct (Nat.ltb (length (queue s)) (qcap s)); auto.
  st_simpl. rewrite ?cnt_app, ?cnt_flat_map_app. cbn [flat_map]. rewrite E. cbn. lia.
Qed.

Lemma pot_set_chan h s c ch : pot h (set_chan s c ch) = pot h s.
Proof. reflexivity. Qed.
Lemma pot_drop_sink h s c : pot h (drop_sink s c) = pot h s.
Proof. unfold drop_sink. destruct (chan_of s c); reflexivity. Qed.

(* the read task *)
Lemma Pay_single h s r : Pay h 0 s (rres_out (single_response s r)) (rres_st (single_response s r)).
Proof.
  unfold single_response, req_lookup.
  destruct (alookup id_eqb (rs_id r) (requests (m s))) as [[w|u w um|u ch um|sub]|] eqn:A; cbn [rres_out rres_st];
    try (apply Pay_same; reflexivity).
  - pose proof (wok_aremove h _ _ _ A) as L. unfold waiters_of_kind at 2 in L. cbn [snd] in L.
    tok. destruct w as [w|]; [pose proof (comps_complete h s w (CResp r))|]; cbn [comps flat_map] in *; rewrite ?cnt_nil in *; lia.
  - pose proof (wok_aremove h _ _ _ A) as L. unfold waiters_of_kind at 2 in L. cbn [snd] in L.
    set (m1 := set_requests (m s) (aremove id_eqb (rs_id r) (requests (m s)))).
    assert (ERR : forall c, Pay h 0 s (complete s w c) (upd_m s (release_reserved u m1))).
    { intros c. pose proof (release_wok_le h u m1) as L2. destruct (release_frame u m1) as (_ & E2 & _).
      pose proof (comps_complete h s w c). unfold Pay, pot, tokens. st_simpl. rewrite E2. unfold m1 in *. cbn [requests batches set_requests] in *.
      rewrite !cnt_app. lia. }
    destruct (rs_payload r) as [raw|e]; cbn [rres_out rres_st]; [|apply ERR].
    destruct (parse_subid raw) as [sid|]; cbn [rres_out rres_st]; [|apply ERR].
    destruct (ahas subid_eqb sid _); cbn [rres_out rres_st]; [apply ERR|].
    destruct (alive s w) eqn:AL; cbn [rres_out rres_st].
    + unfold m1. tok. cbn [comps flat_map app]. change (waiters_of_kind (rs_id r, KSub u w um)) with (@nil handle). cbn [app]. rewrite ?cnt_nil. lia.
    + unfold forward, enqueue. unfold Pay. rewrite pot_enqueue. unfold m1. tok.
      cbn [comps flat_map app]. change (waiters_of_kind (rs_id r, KSub u w um)) with (@nil handle). cbn [app waiters_of_msg]. rewrite ?cnt_nil. lia.
  - tok. set (r1 := aremove id_eqb (rs_id r) (requests (m s))).
    pose proof (wok_aremove_le h (rs_id r) (requests (m s))) as L1. fold r1 in L1.
    pose proof (wok_aremove_le h sub r1) as L2.
    destruct (alookup id_eqb sub r1) as [[[w|]| | |]|]; lia.
Qed.

Lemma pot_sub_deliver h s sid p : pot h (sub_deliver s sid p) = pot h s.
Proof.
  unfold sub_deliver. destruct (alookup _ _ _); auto. destruct (req_lookup _ _) as [[w|u w um|u ch um|j]|]; auto.
  destruct (chan_of s ch); auto. destruct (chan_send c p) as [c' res].
  destruct res; auto; unfold forward, enqueue; rewrite pot_enqueue; cbn; rewrite pot_set_chan; lia.
Qed.

Lemma pot_sub_close h s sid : (pot h (sub_close s sid) <= pot h s)%nat.
Proof.
  unfold sub_close. destruct (alookup _ _ _) as [rid|]; auto. destruct (req_lookup _ _) as [[w|u w um|u ch um|j]|]; auto.
  rewrite pot_drop_sink. set (m1 := set_subs _ _).
  pose proof (release_wok_le h u m1) as L2. destruct (release_frame u m1) as (_ & E2 & _).
  unfold pot, tokens. st_simpl. rewrite E2. unfold m1 in *. cbn [requests batches set_requests set_subs] in *.
  pose proof (wok_aremove_le h rid (requests (m s))). rewrite !cnt_app. lia.
Qed.

Lemma pot_notif_deliver h s me p : pot h (notif_deliver s me p) = pot h s.
Proof.
  unfold notif_deliver. destruct (alookup _ _ _) as [ch|]; auto. destruct (chan_of s ch); auto.
  destruct (chan_send c _) as [c' res]. destruct res; auto; rewrite pot_drop_sink; reflexivity.
Qed.

Lemma pot_array_loop h ms : forall s acc rng got,
  match array_loop s ms acc rng got with
  | inl (s', _, _, _) => (pot h s' <= pot h s)%nat
  | inr (s', _) => (pot h s' <= pot h s)%nat
  end.
Proof.
  induction ms as [|x ms IH]; intros s acc rng got; cbn [array_loop]; auto.
  destruct x as [r|me sid p|me sid p|me p|]; auto.
  - destruct (id_as_number (rs_id r)); [apply IH | lia].
  - specialize (IH (sub_deliver s sid p) acc rng true). rewrite pot_sub_deliver in IH. exact IH.
  - specialize (IH (sub_close s sid) acc rng true). pose proof (pot_sub_close h s sid).
    destruct (array_loop (sub_close s sid) ms acc rng true) as [[[[s' a] b] c]|[s' f]]; lia.
  - specialize (IH (notif_deliver s me p) acc rng true). rewrite pot_notif_deliver in IH. exact IH.
Qed.

Lemma Pay_batch h s rs lo hi : Pay h 0 s (rres_out (batch_response s rs lo hi)) (rres_st (batch_response s rs lo hi)).
Proof.
  unfold batch_response. destruct (alookup range_eqb (lo, hi) (batches (m s))) as [w|] eqn:A; cbn [rres_out rres_st];
    [|apply Pay_same; reflexivity].
  pose proof (bat_aremove h _ _ _ A) as L. tok. match goal with |- context [complete s w ?c] => pose proof (comps_complete h s w c) end. lia.
Qed.

Lemma Pay_weaken h s o s' s0 : Pay h 0 s o s' -> (pot h s <= pot h s0)%nat -> Pay h 0 s0 o s'.
Proof. unfold Pay. lia. Qed.

Lemma Pay_back h s fr : Pay h 0 s (rres_out (handle_back s fr)) (rres_st (handle_back s fr)).
Proof.
  destruct fr as [x|ms|]; rewrite ?handle_back_now; cbn [handle_back_ref]; [| |apply Pay_same; reflexivity].
  - destruct x as [r|me sid p|me sid p|me p|]; cbn [handle_elem_single_ref rres_out rres_st]; try (apply Pay_same; reflexivity).
    + apply Pay_single.
    + unfold Pay. rewrite pot_sub_deliver. cbn. lia.
    + unfold Pay. pose proof (pot_sub_close h s sid). cbn. lia.
    + unfold Pay. rewrite pot_notif_deliver. cbn. lia.
  - pose proof (pot_array_loop h ms s [] None false) as L.
    destruct (array_loop s ms [] None false) as [[[[s' rs] [[lo hi]|]] got]|[s' f]]; cbn [rres_out rres_st];
      try (unfold Pay; cbn; lia).
    + destruct (hi =? u64_max); cbn [rres_out rres_st]; [unfold Pay; cbn; lia|].
      eapply Pay_weaken; [apply Pay_batch | exact L].
    + destruct got; cbn [rres_out rres_st]; unfold Pay; cbn; lia.
Qed.

(* front-end events: the handle an event introduces *)
Definition front_handle (e : ev) : option handle :=
  match e with
  | FCall h _ _ | FBatch h _ | FSubscribe h _ _ _ | FSubMethod h _ | FUnsub h _ => Some h
  | _ => None
  end.
Definition fh (e : ev) : list handle := match front_handle e with Some h => [h] | None => [] end.
Definition front_handles (es : list ev) : list handle := flat_map fh es.

Lemma pot_poll_next h s sh : pot h (fst (poll_next s sh)) = pot h s.
Proof.
  unfold poll_next. destruct (chan_of s sh) as [c|]; auto. destruct (negb (c_rx c)); auto.
  destruct (c_buf c); [destruct (c_tx c)|]; reflexivity.
Qed.

Lemma cnt_filter_le {A} h (f : A -> list handle) (p : A -> bool) l : (cnt h (flat_map f (filter p l)) <= cnt h (flat_map f l))%nat.
Proof. induction l as [|x l IH]; cbn [filter flat_map]; auto. destruct (p x); cbn [flat_map]; rewrite ?cnt_app; lia. Qed.

Lemma Pay_apply h s e : Pay h (cnt h (fh e)) s (snd (fst (apply s e))) (fst (fst (apply s e))).
Proof.
  unfold apply. destruct (dead s).
  - destruct e; cbn [fst snd fh front_handle]; try (unfold Pay; cbn [comps flat_map app]; lia).
    + unfold Pay. pose proof (pot_poll_next h s sh). destruct (poll_next s sh). cbn [fst snd] in *. cbn. lia.
    + destruct (close_msg_of s sh); [|unfold Pay; cbn; lia]. destruct (chan_of s sh); unfold Pay; cbn [fst snd comps flat_map app]; [|cbn; lia].
      change (pot h (upd_subkind (set_chan s sh (chan_drop_rx c)) (aremove N.eqb sh (subkind s)))) with (pot h s). lia.
    + destruct (close_msg_of s sh); [|unfold Pay; cbn; lia]. destruct (chan_of s sh); unfold Pay; cbn [fst snd comps flat_map app]; [|cbn; lia].
      change (pot h (upd_subkind (set_chan s sh (chan_drop_rx c)) (aremove N.eqb sh (subkind s)))) with (pot h s). cbn. lia.
  - destruct e; cbn [fst snd fh front_handle].
    + unfold Pay, enqueue. rewrite pot_enqueue. cbn [waiters_of_msg comps flat_map]. change (pot h (upd_next s (next_id s + 1))) with (pot h s). cbn [cnt count_occ]. lia.
    + unfold Pay, enqueue. rewrite pot_enqueue. cbn [waiters_of_msg comps flat_map]. change (pot h (upd_next s (next_id s + 1))) with (pot h s). cbn [cnt count_occ]. lia.
    + destruct entries; cbn [fst snd]; [unfold Pay; cbn [comps flat_map app]; lia|].
      unfold Pay, enqueue. rewrite pot_enqueue. cbn [waiters_of_msg comps flat_map].
      match goal with |- context [pot h (upd_next s ?n)] => change (pot h (upd_next s n)) with (pot h s) end. cbn [cnt count_occ]. lia.
    + destruct (bytes_eqb sub unsub); cbn [fst snd]; [unfold Pay; cbn [comps flat_map app]; lia|].
      unfold Pay, enqueue. rewrite pot_enqueue. cbn [waiters_of_msg comps flat_map]. change (pot h (upd_next s (next_id s + 2))) with (pot h s). cbn [cnt count_occ]. lia.
    + unfold Pay, enqueue. rewrite pot_enqueue. cbn [waiters_of_msg comps flat_map cnt count_occ]. lia.
    + unfold Pay. pose proof (pot_poll_next h s sh). destruct (poll_next s sh). cbn [fst snd] in *. cbn. lia.
    + destruct (close_msg_of s sh) as [msg|] eqn:CM; cbn [fst snd]; [|unfold Pay; cbn; lia].
      unfold Pay. rewrite pot_enqueue.
      assert (W : waiters_of_msg msg = []).
      { unfold close_msg_of in CM. destruct (alookup N.eqb sh (subkind s)) as [[sid|me]|]; inv CM; reflexivity. }
      rewrite W. unfold pot, tokens. st_simpl. rewrite map_app, !cnt_app. cbn [map fst comps flat_map]. rewrite ?cnt_nil. lia.
    + destruct (close_msg_of s sh) as [msg|] eqn:CM; cbn [fst snd]; [|unfold Pay; cbn; lia].
      destruct (chan_of s sh); cbn [fst snd]; [|unfold Pay; cbn; lia].
      assert (W : waiters_of_msg msg = []).
      { unfold close_msg_of in CM. destruct (alookup N.eqb sh (subkind s)) as [[sid|me]|]; inv CM; reflexivity. }
      unfold Pay. rewrite pot_try_enqueue; auto. cbn. change (pot h (set_chan (upd_subkind s (aremove N.eqb sh (subkind s))) sh (chan_drop_rx c))) with (pot h s). lia.
    + unfold Pay, pot, tokens. st_simpl. rewrite !cnt_app. cbn [comps flat_map cnt count_occ].
      pose proof (cnt_filter_le h (fun x : f2b * option handle => waiters_of_msg (fst x))
                    (fun x => negb (existsb (N.eqb h0) (waiters_of_msg (fst x)))) (waiting s)). lia.
    + unfold Pay. cbn. change (pot h (upd_busy s false)) with (pot h s). lia.
    + destruct (dying s); cbn [fst snd]; [unfold Pay; cbn; lia|].
      pose proof (Pay_back h s (classify_frame raw)) as P. destruct (handle_back s (classify_frame raw)) as [s' o | s' o f];
        cbn [rres_out rres_st fst snd] in *; unfold Pay in *; [lia|]. change (pot h (upd_dying s' f)) with (pot h s'). lia.
    + unfold Pay. cbn. change (pot h (upd_dying s FTransport)) with (pot h s). lia.
    + unfold Pay. cbn. change (pot h (upd_sendfail s true)) with (pot h s). lia.
Qed.

Lemma Pay_step h s e : Pay h (cnt h (fh e)) s (snd (fst (step s e))) (fst (fst (step s e))).
Proof.
  unfold step. pose proof (Pay_apply h s e) as P1. destruct (apply s e) as [[s1 o1] r].
  pose proof (Pay_settle h s1) as P2. destruct (settle s1) as [s2 o2]. cbn [fst snd] in *.
  pose proof (Pay_trans _ _ _ _ _ _ _ _ P1 P2) as X. rewrite Nat.add_0_r in X. exact X.
Qed.

(* all outputs of a run *)
Definition outs_of (tr : list (list out * option nextres)) : list out := flat_map fst tr.

Lemma Pay_run h es : forall s, Pay h (cnt h (front_handles es)) s (outs_of (snd (run s es))) (fst (run s es)).
Proof.
  induction es as [|e es IH]; intros s; [apply Pay_same; reflexivity|].
  rewrite run_cons. cbn [fst snd]. unfold outs_of, front_handles. cbn [flat_map fst]. rewrite cnt_app.
  exact (Pay_trans _ _ _ _ _ _ _ _ (Pay_step h s e) (IH _)).
Qed.

Lemma NoDup_cnt_le1 h l : NoDup l -> (cnt h l <= 1)%nat.
Proof. intros N. unfold cnt. apply (proj1 (NoDup_count_occ N.eq_dec l) N). Qed.

(* number of completions of handle h in a list of outputs *)
Definition ncompl (h : handle) (o : list out) : nat :=
  length (filter (fun x => match x with OComplete h' _ => N.eqb h' h | _ => false end) o).

Lemma ncompl_cnt h o : ncompl h o = cnt h (comps o).
Proof.
  unfold ncompl, cnt, comps. induction o as [|x o IH]; cbn [filter flat_map]; auto.
  destruct x as [raw|h' c|f]; cbn [app]; auto. cbn [count_occ].
  destruct (N.eqb_spec h' h), (N.eq_dec h' h); cbn [length]; try congruence; auto.
Qed.

Theorem at_most_once idstr qc bc gate es h : NoDup (front_handles es) ->
  (ncompl h (outs_of (snd (run (init idstr qc bc gate) es))) <= 1)%nat.
Proof.
  intros N. rewrite ncompl_cnt. pose proof (Pay_run h es (init idstr qc bc gate)) as P.
  pose proof (NoDup_cnt_le1 h _ N). unfold Pay in P. change (pot h (init idstr qc bc gate)) with 0%nat in P. lia.
Qed.

(* a handle still registered as a waiter has not been completed so far *)
Theorem pending_not_completed idstr qc bc gate es h : NoDup (front_handles es) ->
  (0 < pot h (fst (run (init idstr qc bc gate) es)))%nat ->
  ncompl h (outs_of (snd (run (init idstr qc bc gate) es))) = 0%nat.
Proof.
  intros N L. rewrite ncompl_cnt. pose proof (Pay_run h es (init idstr qc bc gate)) as P.
  pose proof (NoDup_cnt_le1 h _ N). unfold Pay in P. change (pot h (init idstr qc bc gate)) with 0%nat in P. lia.
Qed.

(* ------------------------------------------------------------------------------------------- *)
(* Part C: where table entries come from                                                         *)
(* ------------------------------------------------------------------------------------------- *)

(* a call waiter h registered under id i, in the table or still queued; same for batch waiters *)
Definition tcall (s : st) (h : handle) (i : id) : Prop :=
  In (i, KCall (Some h)) (requests (m s)) \/ exists raw, In (MRequest i (Some h) raw) (qmsgs s).
Definition tbatch (s : st) (h : handle) (lo hi : N) : Prop :=
  In ((lo, hi), h) (batches (m s)) \/ exists raw, In (MBatch lo hi h raw) (qmsgs s).

Definition Sub (s s' : st) : Prop :=
  (forall h i, tcall s' h i -> tcall s h i) /\ (forall h lo hi, tbatch s' h lo hi -> tbatch s h lo hi).

Lemma Sub_refl s : Sub s s.
Proof. split; auto. Qed.
Lemma Sub_trans s1 s2 s3 : Sub s1 s2 -> Sub s2 s3 -> Sub s1 s3.
Proof. intros (a & b) (c & d). split; auto. Qed.

Lemma Sub_same s s' : SameC s s' -> Sub s s'.
Proof.
  intros C. pose proof (SameC_qmsgs _ _ C) as Q. destruct C. unfold Sub, tcall, tbatch. rewrite Q, sc_m. auto.
Qed.

Lemma Sub_build s s' :
  (forall h i, In (i, KCall (Some h)) (requests (m s')) -> tcall s h i) ->
  (forall h lo hi, In ((lo, hi), h) (batches (m s')) -> tbatch s h lo hi) ->
  (forall x, In x (qmsgs s') -> In x (qmsgs s)) -> Sub s s'.
Proof.
  intros A B C. split.
  - intros h i [H | (raw & H)]; auto. right. eauto.
  - intros h lo hi [H | (raw & H)]; auto. right. eauto.
Qed.

Lemma handle_front_q s msg : queue (fst (handle_front s msg)) = queue s /\ waiting (fst (handle_front s msg)) = waiting s.
Proof.
  assert (W : forall s1 raw, queue (fst (wire s1 raw)) = queue s1 /\ waiting (fst (wire s1 raw)) = waiting s1).
  { intros s1 raw. destruct (wire_same s1 raw). auto. }
  assert (DS : forall s1 c, queue (drop_sink s1 c) = queue s1 /\ waiting (drop_sink s1 c) = waiting s1).
  { intros s1 c. destruct (drop_sink_same s1 c). auto. }
  assert (T : forall s1 raw, queue s1 = queue s -> waiting s1 = waiting s ->
               queue (fst (wire s1 raw)) = queue s /\ waiting (fst (wire s1 raw)) = waiting s).
  { intros s1 raw E1 E2. destruct (W s1 raw) as (-> & ->). auto. }
  destruct msg as [lo hi h raw | raw | i w raw | si ui um h raw | me h | me | sid]; cbn [handle_front].
  - destruct (ahas _ _ _); auto.
  - apply W.
  - destruct (ahas _ _ _); auto.
  - destruct (_ && _); auto.
  - destruct (ahas _ _ _); auto. destruct (alive s h); auto.
  - destruct (alookup _ _ _); auto. cbn [fst].
    match goal with |- context [drop_sink ?s1 ?c] => destruct (DS s1 c) as (-> & ->) end; auto.
  - unfold do_unsubscribe. destruct (alookup _ _ _); auto. destruct (req_lookup _ _) as [[w|u w um|u ch um|j]|]; auto.
    apply T; st_simpl; match goal with |- context [drop_sink ?s1 ?c] => destruct (DS s1 c) as (E1 & E2); rewrite ?E1, ?E2 end; auto.
Qed.

Lemma handle_front_m s msg :
  (forall h i, In (i, KCall (Some h)) (requests (m (fst (handle_front s msg)))) ->
     In (i, KCall (Some h)) (requests (m s)) \/ exists raw, msg = MRequest i (Some h) raw) /\
  (forall h lo hi, In ((lo, hi), h) (batches (m (fst (handle_front s msg)))) ->
     In ((lo, hi), h) (batches (m s)) \/ exists raw, msg = MBatch lo hi h raw).
Proof.
  assert (W : forall s1 raw, m (fst (wire s1 raw)) = m s1) by (intros s1 raw; destruct (wire_same s1 raw); auto).
  assert (DS : forall s1 c, m (drop_sink s1 c) = m s1) by (intros s1 c; destruct (drop_sink_same s1 c); auto).
  destruct msg as [lo hi h raw | raw | i w raw | si ui um h raw | me h | me | sid]; cbn [handle_front].
  - destruct (ahas _ _ _); auto. rewrite W. st_simpl. cbn [requests batches set_batches]. split; auto.
    intros h0 lo0 hi0 [E | H]; auto. inv E. eauto.
  - rewrite W. auto.
  - destruct (ahas _ _ _); auto. rewrite W. st_simpl. cbn [requests batches set_requests]. split; auto.
    intros h0 i0 [E | H]; auto. inv E. eauto.
  - destruct (_ && _); auto. rewrite W. st_simpl. cbn [requests batches set_requests]. split; auto.
    intros h0 i0 [E | [E | H]]; auto; inv E.
  - destruct (ahas _ _ _); auto. destruct (alive s h); cbn [fst]; st_simpl; auto.
  - destruct (alookup _ _ _); auto. cbn [fst]. rewrite DS. st_simpl. auto.
  - unfold do_unsubscribe. destruct (alookup _ _ _); auto. destruct (req_lookup _ _) as [[w|u w um|u ch um|j]|]; auto.
    rewrite W. st_simpl. rewrite DS. st_simpl. cbn [requests batches set_requests set_subs]. split; auto.
    intros h0 i0 H. left. apply (In_aset id_eqb id_eqb_ok) in H as [(_ & E) | (H & _)]; [discriminate|].
    apply (In_aset id_eqb id_eqb_ok) in H as [(_ & E) | (H & _)]; [discriminate | auto].
Qed.

Lemma front_sub s0 msg q : queue s0 = msg :: q -> Sub s0 (fst (handle_front (upd_queue s0 q (waiting s0)) msg)).
Proof.
  intros Q. set (s := upd_queue s0 q (waiting s0)).
  destruct (handle_front_q s msg) as (E1 & E2). destruct (handle_front_m s msg) as (A & B).
  assert (QM : qmsgs s0 = msg :: qmsgs s) by (unfold qmsgs, s; st_simpl; rewrite Q; reflexivity).
  apply Sub_build.
  - intros h i H. apply A in H as [H | (raw & ->)]; [left; exact H|]. right. exists raw. rewrite QM. left; auto.
  - intros h lo hi H. apply B in H as [H | (raw & ->)]; [left; exact H|]. right. exists raw. rewrite QM. left; auto.
  - intros x Hx. rewrite QM. right. unfold qmsgs in *. rewrite E1, E2 in Hx. exact Hx.
Qed.

Lemma settle_sub s : Sub s (fst (settle s)).
Proof.
  apply (settle_lift (fun s' => Sub s s') (fun _ => True)).
  - intros f s0 J. eapply Sub_trans; [exact J|]. apply Sub_build; auto.
    + destruct (admit_waiting_sameq f s0). rewrite sq_m. left; auto.
    + destruct (admit_waiting_sameq f s0). rewrite sq_m. left; auto.
    + rewrite admit_waiting_qmsgs. auto.
  - intros s0 msg q J Q _ _ _. split; [|apply Forall_forall; auto]. eapply Sub_trans; [exact J|]. apply front_sub; auto.
  - intros s0 f J _ _ _. split; [|apply Forall_forall; auto]. eapply Sub_trans; [exact J|].
    apply Sub_build; unfold kill; cbn [fst]; st_simpl; cbn; tauto.
  - intros s0 J. split; [|apply Forall_forall; auto]. eapply Sub_trans; [exact J|]. apply Sub_same.
    unfold finish_unsubs. cbn [fst]. destruct (fold_drop_rx_same (filter (unsub_done s0) (unsubw s0)) s0) as (A & _).
    cbv zeta in A. destruct A. constructor; st_simpl; auto.
  - apply Sub_refl.
Qed.

Lemma qmsgs_enqueue s msg tag x : In x (qmsgs (enqueue_tagged s msg tag)) -> x = msg \/ In x (qmsgs s).
Proof.
  intros H. eapply Permutation_in in H; [|symmetry; apply enqueue_tagged_perm]. destruct H; auto.
Qed.

Lemma Sub_add_plain s s' msg : m s' = m s -> (forall x, In x (qmsgs s') -> x = msg \/ In x (qmsgs s)) ->
  (forall i h raw, msg <> MRequest i (Some h) raw) -> (forall lo hi h raw, msg <> MBatch lo hi h raw) -> Sub s s'.
Proof.
  intros E I N1 N2. split.
  - intros h i [H | (raw & H)]; [left; congruence|]. apply I in H as [H | H]; [symmetry in H; apply N1 in H; contradiction|].
    right; eauto.
  - intros h lo hi [H | (raw & H)]; [left; congruence|]. apply I in H as [H | H]; [symmetry in H; apply N2 in H; contradiction|].
    right; eauto.
Qed.

Lemma Sub_enqueue_plain s msg tag : (forall i h raw, msg <> MRequest i (Some h) raw) -> (forall lo hi h raw, msg <> MBatch lo hi h raw) ->
  Sub s (enqueue_tagged s msg tag).
Proof.
  intros N1 N2. apply (Sub_add_plain s _ msg); auto.
  - destruct (enqueue_tagged_sameq s msg tag); auto.
  - apply qmsgs_enqueue.
Qed.

Lemma Sub_try_enqueue_plain s msg : (forall i h raw, msg <> MRequest i (Some h) raw) -> (forall lo hi h raw, msg <> MBatch lo hi h raw) ->
  Sub s (try_enqueue s msg).
Proof.
  intros N1 N2. apply (Sub_add_plain s _ msg); auto.
  - destruct (try_enqueue_sameq s msg); auto.
  - unfold try_enqueue. destruct (Nat.ltb (length (queue s)) (qcap s)); auto. unfold qmsgs. st_simpl.
    intros x. rewrite !in_app_iff. cbn [In]. intuition auto.
Qed.

Lemma Sub_forward s sid : Sub s (forward s (MSubClosed sid)).
Proof. apply Sub_enqueue_plain; discriminate. Qed.

Lemma Sub_shrink s s' : queue s' = queue s -> waiting s' = waiting s ->
  (forall x, In x (requests (m s')) -> In x (requests (m s)) \/ (forall h, snd x <> KCall (Some h))) ->
  (forall x, In x (batches (m s')) -> In x (batches (m s))) -> Sub s s'.
Proof.
  intros E1 E2 A B. apply Sub_build.
  - intros h i H. apply A in H as [H | H]; [left; auto | exfalso; apply (H h); reflexivity].
  - intros h lo hi H. left. auto.
  - unfold qmsgs. rewrite E1, E2. auto.
Qed.

Lemma single_response_sub s r : Sub s (rres_st (single_response s r)).
Proof.
  unfold single_response, req_lookup.
  destruct (alookup id_eqb (rs_id r) (requests (m s))) as [[w|u w um|u ch um|sub]|] eqn:A; cbn [rres_st]; try apply Sub_refl.
  - apply Sub_shrink; st_simpl; auto. cbn. intros [j k] H. apply (In_aremove id_eqb id_eqb_ok) in H. tauto.
  - set (m1 := set_requests (m s) (aremove id_eqb (rs_id r) (requests (m s)))).
    assert (ERR : Sub s (upd_m s (release_reserved u m1))).
    { apply Sub_shrink; st_simpl; auto.
      - intros [j k] H. apply release_sub in H. cbn in H. apply (In_aremove id_eqb id_eqb_ok) in H. tauto.
      - destruct (release_frame u m1) as (_ & -> & _). auto. }
    destruct (rs_payload r) as [raw|e]; cbn [rres_st]; [|exact ERR].
    destruct (parse_subid raw) as [sid|]; cbn [rres_st]; [|exact ERR].
    destruct (ahas subid_eqb sid _); cbn [rres_st]; [exact ERR|].
    set (m2 := set_subs _ _).
    assert (OK : Sub s (upd_m s m2)).
    { apply Sub_shrink; st_simpl; auto. unfold m2, m1. cbn [requests set_requests set_subs].
      intros [j k] [E | H]; [inv E; right; discriminate|]. apply (In_aremove id_eqb id_eqb_ok) in H. tauto. }
    destruct (alive s w); cbn [rres_st].
    + eapply Sub_trans; [exact OK|]. apply Sub_same. constructor; reflexivity.
    + eapply Sub_trans; [exact OK|]. eapply Sub_trans; [|apply Sub_forward]. apply Sub_same. constructor; reflexivity.
  - apply Sub_shrink; st_simpl; auto. cbn [requests set_requests]. intros [j k] H. left.
    destruct (alookup id_eqb sub (aremove id_eqb (rs_id r) (requests (m s)))) as [[[w|]| | |]|];
      repeat (apply (In_aremove id_eqb id_eqb_ok) in H as (H & _)); auto.
Qed.

Lemma sub_deliver_sub s sid p : Sub s (sub_deliver s sid p).
Proof.
  unfold sub_deliver. destruct (alookup _ _ _); [|apply Sub_refl]. destruct (req_lookup _ _) as [[w|u w um|u ch um|j]|]; try apply Sub_refl.
  destruct (chan_of s ch); [|apply Sub_refl]. destruct (chan_send c p) as [c' res].
  destruct res; try (apply Sub_same; apply set_chan_same);
    (eapply Sub_trans; [apply (Sub_same _ _ (set_chan_same s ch c')) | apply Sub_forward]).
Qed.

Lemma sub_close_sub s sid : Sub s (sub_close s sid).
Proof.
  unfold sub_close. destruct (alookup _ _ _) as [rid|]; [|apply Sub_refl].
  destruct (req_lookup _ _) as [[w|u w um|u ch um|j]|]; try apply Sub_refl.
  set (m1 := set_subs _ _). eapply Sub_trans; [|apply Sub_same; apply drop_sink_same].
  apply Sub_shrink; st_simpl; auto.
  - intros [j k] H. apply release_sub in H. cbn in H. apply (In_aremove id_eqb id_eqb_ok) in H. tauto.
  - destruct (release_frame u m1) as (_ & -> & _). auto.
Qed.

Lemma notif_deliver_sub s me p : Sub s (notif_deliver s me p).
Proof.
  unfold notif_deliver. destruct (alookup _ _ _) as [ch|]; [|apply Sub_refl]. destruct (chan_of s ch); [|apply Sub_refl].
  destruct (chan_send c _) as [c' res].
  destruct res; try (apply Sub_same; apply set_chan_same);
    (eapply Sub_trans; [apply (Sub_same _ _ (set_chan_same s ch c'))|]; eapply Sub_trans; [|apply Sub_same; apply drop_sink_same];
     apply Sub_shrink; st_simpl; auto).
Qed.

Lemma array_loop_sub ms : forall s acc rng got,
  match array_loop s ms acc rng got with inl (s', _, _, _) => Sub s s' | inr (s', _) => Sub s s' end.
Proof.
  induction ms as [|x ms IH]; intros s acc rng got; cbn [array_loop]; [apply Sub_refl|].
  destruct x as [r|me sid p|me sid p|me p|]; try apply Sub_refl.
  - destruct (id_as_number (rs_id r)); [apply IH | apply Sub_refl].
  - specialize (IH (sub_deliver s sid p) acc rng true). pose proof (sub_deliver_sub s sid p).
    destruct (array_loop (sub_deliver s sid p) ms acc rng true) as [[[[s' a] b] c]|[s' f]]; eapply Sub_trans; eauto.
  - specialize (IH (sub_close s sid) acc rng true). pose proof (sub_close_sub s sid).
    destruct (array_loop (sub_close s sid) ms acc rng true) as [[[[s' a] b] c]|[s' f]]; eapply Sub_trans; eauto.
  - specialize (IH (notif_deliver s me p) acc rng true). pose proof (notif_deliver_sub s me p).
    destruct (array_loop (notif_deliver s me p) ms acc rng true) as [[[[s' a] b] c]|[s' f]]; eapply Sub_trans; eauto.
Qed.

Lemma handle_back_sub s fr : Sub s (rres_st (handle_back s fr)).
Proof.
  destruct fr as [x|ms|]; rewrite ?handle_back_now; cbn [handle_back_ref]; [| |apply Sub_refl].
  - destruct x as [r|me sid p|me sid p|me p|]; cbn [handle_elem_single_ref rres_st]; try apply Sub_refl.
    + apply single_response_sub.
    + apply sub_deliver_sub.
    + apply sub_close_sub.
    + apply notif_deliver_sub.
  - pose proof (array_loop_sub ms s [] None false) as L.
    destruct (array_loop s ms [] None false) as [[[[s' rs] [[lo hi]|]] got]|[s' f]]; cbn [rres_st]; auto.
    + destruct (hi =? u64_max); cbn [rres_st]; auto. eapply Sub_trans; [exact L|].
      unfold batch_response. destruct (alookup range_eqb _ _); cbn [rres_st]; [|apply Sub_refl].
      apply Sub_shrink; st_simpl; auto. cbn. intros [j k] H. apply (In_aremove range_eqb range_eqb_ok) in H. tauto.
    + destruct got; cbn [rres_st]; auto.
Qed.

(* what a front-end event adds *)
Definition new_call (s : st) (e : ev) (h : handle) (i : id) : Prop :=
  dead s = false /\ exists me p, e = FCall h me p /\ i = mk_id s (next_id s).
Definition new_batch (s : st) (e : ev) (h : handle) (lo hi : N) : Prop :=
  dead s = false /\ exists entries, e = FBatch h entries /\ entries <> [] /\ lo = next_id s /\ hi = lo + N.of_nat (length entries).

Lemma apply_sub s e : let s1 := fst (fst (apply s e)) in
  (forall h i, tcall s1 h i -> tcall s h i \/ new_call s e h i) /\
  (forall h lo hi, tbatch s1 h lo hi -> tbatch s h lo hi \/ new_batch s e h lo hi).
Proof.
  cbv zeta.
  assert (FROM : forall s1, Sub s s1 ->
            (forall h i, tcall s1 h i -> tcall s h i \/ new_call s e h i) /\
            (forall h lo hi, tbatch s1 h lo hi -> tbatch s h lo hi \/ new_batch s e h lo hi)).
  { intros s1 (A & B). split; auto. }
  assert (ENQ : forall s0 msg, m s0 = m s -> qmsgs s0 = qmsgs s ->
            (forall h i raw, msg = MRequest i (Some h) raw -> new_call s e h i) ->
            (forall h lo hi raw, msg = MBatch lo hi h raw -> new_batch s e h lo hi) ->
            (forall h i, tcall (enqueue s0 msg) h i -> tcall s h i \/ new_call s e h i) /\
            (forall h lo hi, tbatch (enqueue s0 msg) h lo hi -> tbatch s h lo hi \/ new_batch s e h lo hi)).
  { intros s0 msg E1 E2 N1 N2. unfold enqueue. destruct (enqueue_tagged_sameq s0 msg None). split.
    - intros h i [H | (raw & H)]; [left; left; congruence|]. apply qmsgs_enqueue in H as [H | H]; [right; eauto|].
      left; right. exists raw. congruence.
    - intros h lo hi [H | (raw & H)]; [left; left; congruence|]. apply qmsgs_enqueue in H as [H | H]; [right; eauto|].
      left; right. exists raw. congruence. }
  unfold apply. destruct (dead s) eqn:D.
  - destruct e; cbn [fst]; try (apply FROM; apply Sub_refl).
    + pose proof (poll_next_same s sh). destruct (poll_next s sh). apply FROM. apply Sub_same; auto.
    + destruct (close_msg_of s sh); [|apply FROM; apply Sub_refl]. destruct (chan_of s sh); apply FROM; [|apply Sub_refl].
      apply Sub_same. constructor; reflexivity.
    + destruct (close_msg_of s sh); [|apply FROM; apply Sub_refl]. destruct (chan_of s sh); apply FROM; [|apply Sub_refl].
      apply Sub_same. constructor; reflexivity.
  - destruct e; cbn [fst].
    + apply ENQ; auto; [|discriminate]. intros h0 i raw E. inv E. split; auto. eauto.
    + apply ENQ; auto; discriminate.
    + destruct entries as [|e0 es]; [apply FROM; apply Sub_refl|]. cbn [fst]. apply ENQ; auto; [discriminate|].
      intros h0 lo hi raw E. inv E. split; auto. exists (e0 :: es). repeat split; auto. discriminate.
    + destruct (bytes_eqb sub unsub); [apply FROM; apply Sub_refl|]. cbn [fst]. apply ENQ; auto; discriminate.
    + apply ENQ; auto; discriminate.
    + pose proof (poll_next_same s sh). destruct (poll_next s sh). apply FROM. apply Sub_same; auto.
    + destruct (close_msg_of s sh) as [msg|] eqn:CM; [|apply FROM; apply Sub_refl]. cbn [fst].
      match goal with |- context [enqueue_tagged ?a msg _] => set (s1 := a) end. apply FROM.
      apply (Sub_trans s s1); [apply Sub_same; constructor; reflexivity|].
      apply Sub_enqueue_plain; unfold close_msg_of in CM; destruct (alookup N.eqb sh (subkind s)) as [[sid|me]|]; inv CM; discriminate.
    + destruct (close_msg_of s sh) as [msg|] eqn:CM; [|apply FROM; apply Sub_refl].
      destruct (chan_of s sh); [|apply FROM; apply Sub_refl]. cbn [fst].
      match goal with |- context [try_enqueue ?a msg] => set (s1 := a) end. apply FROM.
      apply (Sub_trans s s1); [apply Sub_same; constructor; reflexivity|].
      apply Sub_try_enqueue_plain; unfold close_msg_of in CM; destruct (alookup N.eqb sh (subkind s)) as [[sid|me]|]; inv CM; discriminate.
    + apply FROM. apply Sub_build; st_simpl; try (left; auto; fail).
      intros x. unfold qmsgs. st_simpl. rewrite !in_app_iff. intros [H | H]; auto. right. eapply in_map_filter; eauto.
    + apply FROM. apply Sub_same. constructor; reflexivity.
    + destruct (dying s); [apply FROM; apply Sub_refl|].
      pose proof (handle_back_sub s (classify_frame raw)) as B.
      destruct (handle_back s (classify_frame raw)) as [s' o | s' o f]; cbn [rres_st fst] in *; apply FROM; [exact B|].
      apply (Sub_trans s s'); [exact B|]. apply Sub_same. constructor; reflexivity.
    + apply FROM. apply Sub_same. constructor; reflexivity.
    + apply FROM. apply Sub_same. constructor; reflexivity.
Qed.

Lemma step_sub s e : let s2 := fst (fst (step s e)) in
  (forall h i, tcall s2 h i -> tcall s h i \/ new_call s e h i) /\
  (forall h lo hi, tbatch s2 h lo hi -> tbatch s h lo hi \/ new_batch s e h lo hi).
Proof.
  cbv zeta. unfold step. pose proof (apply_sub s e) as (A & B). destruct (apply s e) as [[s1 o1] r].
  pose proof (settle_sub s1) as (C & D). destruct (settle s1) as [s2 o2]. cbn [fst] in *. split; auto.
Qed.

(* the event history *)
Definition s_at (idstr : bool) (qc bc : nat) (gate : bool) (es : list ev) : st := fst (run (init idstr qc bc gate) es).

Section Hist.
  Variables (idstr : bool) (qc bc : nat) (gate : bool).
  Notation at_ := (s_at idstr qc bc gate).

  (* h's call was issued in the history, in a live state, and was given id i *)
  Definition issued_call (hist : list ev) (h : handle) (i : id) : Prop :=
    exists es1 me p es2, hist = es1 ++ FCall h me p :: es2 /\ dead (at_ es1) = false /\ i = mk_id (at_ es1) (next_id (at_ es1)).
  Definition issued_batch (hist : list ev) (h : handle) (lo hi : N) : Prop :=
    exists es1 entries es2, hist = es1 ++ FBatch h entries :: es2 /\ dead (at_ es1) = false /\ entries <> [] /\ lo = next_id (at_ es1) /\ hi = lo + N.of_nat (length entries).

  Lemma at_snoc es e : at_ (es ++ [e]) = fst (fst (step (at_ es) e)).
  Proof. unfold s_at. rewrite run_app. cbn [run]. destruct (step _ e) as [[s1 o] r]. reflexivity. Qed.

  Lemma origin hist : (forall h i, tcall (at_ hist) h i -> issued_call hist h i) /\
                      (forall h lo hi, tbatch (at_ hist) h lo hi -> issued_batch hist h lo hi).
  Proof.
    induction hist as [|e hist IH] using rev_ind.
    - split.
      + intros h i [H | (raw & H)]; cbn in H; contradiction.
      + intros h lo hi [H | (raw & H)]; cbn in H; contradiction.
    - destruct IH as (IH1 & IH2). rewrite at_snoc. destruct (step_sub (at_ hist) e) as (A & B). split.
      + intros h i H. apply A in H as [H | (D & me & p & -> & ->)].
        * apply IH1 in H as (es1 & me & p & es2 & -> & X). exists es1, me, p, (es2 ++ [e]). rewrite <- app_assoc. auto.
        * exists hist, me, p, []. auto.
      + intros h lo hi H. apply B in H as [H | (D & entries & -> & NE & -> & ->)].
        * apply IH2 in H as (es1 & en & es2 & -> & X). exists es1, en, (es2 ++ [e]). rewrite <- app_assoc. auto.
        * exists hist, entries, []. auto.
  Qed.

  (* routing, trace form: the response delivered to h bears the id that h's call put on the wire *)
  Theorem routing_trace es e h r : In (OComplete h (CResp r)) (snd (fst (step (at_ es) e))) ->
    issued_call es h (rs_id r) /\ exists raw, e = Back raw /\ classify_frame raw = FSingle (IResp r).
  Proof.
    intros H. apply routing_state in H as (_ & _ & L & X). split; auto.
    apply (proj1 (origin es)). left. apply (alookup_In id_eqb id_eqb_ok). exact L.
  Qed.

  (* the id a call puts on the wire *)
  Lemma call_wire_id es h me p : dead (at_ es) = false ->
    let s0 := at_ es in let i := mk_id s0 (next_id s0) in
    fst (fst (apply s0 (FCall h me p))) =
      enqueue (upd_next s0 (next_id s0 + 1)) (MRequest i (Some h) (ser_request {| rq_id := i; rq_method := me; rq_params := p |})).
  Proof. intros D. cbv zeta. unfold apply. rewrite D. reflexivity. Qed.

  (* with distinct front handles the issuing event is unique *)
  Lemma call_event_unique es h a me p b a' me' p' b' : NoDup (front_handles es) ->
    es = a ++ FCall h me p :: b -> es = a' ++ FCall h me' p' :: b' -> a = a' /\ me = me' /\ p = p' /\ b = b'.
  Proof.
    intros N E1. revert a' E1. revert a. induction es as [|e es IH] in N |- *; intros a a' E1 E2.
    - destruct a; discriminate.
    - destruct a as [|x a], a' as [|x' a']; cbn [app] in *.
      + inv E1. inv E2. auto.
      + inv E1. inv E2. exfalso. unfold front_handles in N. cbn [flat_map fh front_handle app] in N.
        apply NoDup_cons_iff in N as (N & _). apply N. rewrite flat_map_app. apply in_app_iff. right. cbn. auto.
      + inv E1. inv E2. exfalso. unfold front_handles in N. cbn [flat_map fh front_handle app] in N.
        apply NoDup_cons_iff in N as (N & _). apply N. rewrite flat_map_app. apply in_app_iff. right. cbn. auto.
      + inv E1. inv E2. unfold front_handles in N. cbn [flat_map] in N. apply nodup_app in N as (_ & N & _).
        destruct (IH N a a' eq_refl H1) as (-> & X). auto.
  Qed.
End Hist.
