(* C05: what a client subscription stream yields, over Model/ClientMgr.v.
   Part A  one channel: FIFO, lag is final, the stream is a prefix of the pushes
   Part B  state level: a notification touches only the channel of the subscription it names
   Part C  grouping of notifications into array frames is irrelevant
   Part D  close / connection end / lag end the stream; unsubscribe is sent at most once *)
From Coq Require Import List NArith ZArith Bool Lia.
From JV Require Import Base.Bytes Base.Dec Model.Wire Model.ClientMgr.
From JV Require Import Proofs.ClientDispatchFacts.
Import ListNotations.
Local Open Scope N_scope.
Local Arguments N.add : simpl never.
Local Arguments N.sub : simpl never.
Local Arguments N.eqb : simpl never.

Ltac destr_all :=
  repeat match goal with
         | |- context [match ?x with _ => _ end] => destruct x eqn:?
         | |- context [if ?x then _ else _] => destruct x eqn:?
         end.

(* ================================================================== Part A: one channel *)

(* Subscription::poll_next on the channel alone (the consumer side of `poll_next`) *)
Definition chan_poll (c : chan) : chan * nextres :=
  if negb (c_rx c) then (c, NPending)
  else match c_buf c with
       | x :: b' => ({| c_cap := c_cap c; c_buf := b'; c_tx := c_tx c; c_rx := true; c_lag := c_lag c |}, NItem x)
       | [] => (c, if c_tx c then NPending else if c_lag c then NEndLagged else NEndClosed)
       end.

Definition set_lag (c : chan) : chan :=
  {| c_cap := c_cap c; c_buf := c_buf c; c_tx := c_tx c; c_rx := c_rx c; c_lag := true |}.
Definition push_buf (c : chan) (x : bytes) : chan :=
  {| c_cap := c_cap c; c_buf := c_buf c ++ [x]; c_tx := c_tx c; c_rx := c_rx c; c_lag := c_lag c |}.

Definition accepts (c : chan) : Prop := c_lag c = false /\ c_rx c = true /\ (length (c_buf c) < c_cap c)%nat.

(* chan_send appends at the tail iff not lagged, receiver alive and room; otherwise the buffer is untouched *)
Lemma chan_send_ok_iff c x : snd (chan_send c x) = SentOk <-> accepts c.
Proof.
  unfold chan_send, accepts. destruct (c_lag c), (c_rx c); simpl;
    try (split; [discriminate | intros [? [? ?]]; discriminate]).
  destruct (Nat.ltb (length (c_buf c)) (c_cap c)) eqn:E; simpl.
  - apply Nat.ltb_lt in E. tauto.
  - apply Nat.ltb_ge in E. split; [discriminate|]. intros [_ [_ H]]. lia.
Qed.

Lemma chan_send_accept c x : accepts c -> chan_send c x = (push_buf c x, SentOk).
Proof.
  intros [H1 [H2 H3]]. unfold chan_send, push_buf. apply Nat.ltb_lt in H3.
  destruct (c_lag c); [discriminate|]. destruct (c_rx c); [|discriminate]. simpl. rewrite H3. reflexivity.
Qed.

Lemma chan_send_refuse c x : ~ accepts c ->
  snd (chan_send c x) <> SentOk /\ c_buf (fst (chan_send c x)) = c_buf c /\
  c_rx (fst (chan_send c x)) = c_rx c /\ c_tx (fst (chan_send c x)) = c_tx c /\ c_cap (fst (chan_send c x)) = c_cap c.
Proof.
  intro H. split; [intro E; apply chan_send_ok_iff in E; contradiction|].
  unfold chan_send. destr_all; simpl; auto.
  exfalso. apply H. unfold accepts. apply negb_false_iff in Heqb0. apply Nat.ltb_lt in Heqb1. auto.
Qed.

Lemma chan_send_lagged c x : c_lag c = true -> chan_send c x = (c, SentTooSlow).
Proof. intro H. unfold chan_send. rewrite H. reflexivity. Qed.

Lemma chan_send_closed c x : c_lag c = false -> c_rx c = false -> chan_send c x = (c, SentClosed).
Proof. intros H1 H2. unfold chan_send. rewrite H1, H2. reflexivity. Qed.

Lemma chan_send_full c x :
  c_lag c = false -> c_rx c = true -> (c_cap c <= length (c_buf c))%nat -> chan_send c x = (set_lag c, SentTooSlow).
Proof.
  intros H1 H2 H3. unfold chan_send, set_lag. apply Nat.ltb_ge in H3.
  destruct (c_lag c); [discriminate|]. destruct (c_rx c); [|discriminate]. simpl. rewrite H3. reflexivity.
Qed.

Lemma chan_send_lag_mono c x : c_lag c = true -> c_lag (fst (chan_send c x)) = true.
Proof. intro H. now rewrite chan_send_lagged. Qed.

(* poll yields the head *)
Lemma chan_poll_head c x b : c_rx c = true -> c_buf c = x :: b ->
  chan_poll c = ({| c_cap := c_cap c; c_buf := b; c_tx := c_tx c; c_rx := true; c_lag := c_lag c |}, NItem x).
Proof. intros H1 H2. unfold chan_poll. rewrite H1, H2. reflexivity. Qed.

Lemma chan_poll_item c c' x : chan_poll c = (c', NItem x) ->
  c_rx c = true /\ c_buf c = x :: c_buf c' /\ c_rx c' = true /\ c_tx c' = c_tx c /\ c_lag c' = c_lag c /\ c_cap c' = c_cap c.
Proof.
  unfold chan_poll. destruct (c_rx c); simpl; [|discriminate].
  destruct (c_buf c) as [|y b]; [destruct (c_tx c), (c_lag c); discriminate|].
  intro H. injection H as <- <-. simpl. repeat split; reflexivity.
Qed.

Lemma chan_poll_other c c' r : chan_poll c = (c', r) -> (forall x, r <> NItem x) -> c' = c.
Proof.
  unfold chan_poll. destruct (c_rx c); simpl; [|intro H; now injection H].
  destruct (c_buf c) as [|y b]; [intro H; now injection H|].
  intro H. injection H as <- <-. intro Hn. exfalso. now apply (Hn y).
Qed.

(* an abstract run of one channel: pushes by the read task, polls by the consumer, either end going away *)
Inductive cop := CSend (x : bytes) | CPoll | CDropTx | CDropRx.

Record crun_st := { r_chan : chan; r_pushed : list bytes; r_accepted : list bytes; r_polled : list bytes }.

Definition cstep (t : crun_st) (o : cop) : crun_st :=
  match o with
  | CSend x =>
    let '(c', r) := chan_send (r_chan t) x in
    {| r_chan := c'; r_pushed := r_pushed t ++ [x];
       r_accepted := match r with SentOk => r_accepted t ++ [x] | _ => r_accepted t end; r_polled := r_polled t |}
  | CPoll =>
    let '(c', r) := chan_poll (r_chan t) in
    {| r_chan := c'; r_pushed := r_pushed t; r_accepted := r_accepted t;
       r_polled := match r with NItem x => r_polled t ++ [x] | _ => r_polled t end |}
  | CDropTx => {| r_chan := chan_drop_tx (r_chan t); r_pushed := r_pushed t; r_accepted := r_accepted t; r_polled := r_polled t |}
  | CDropRx => {| r_chan := chan_drop_rx (r_chan t); r_pushed := r_pushed t; r_accepted := r_accepted t; r_polled := r_polled t |}
  end.

Definition crun (t : crun_st) (ops : list cop) : crun_st := fold_left cstep ops t.
Definition cinit (cap : nat) : crun_st := {| r_chan := new_chan cap; r_pushed := []; r_accepted := []; r_polled := [] |}.

Definition prefix {A} (a b : list A) : Prop := exists rest, a ++ rest = b.

Record cinv (cap : nat) (t : crun_st) : Prop := {
  ci_cap : c_cap (r_chan t) = cap;
  ci_len : (length (c_buf (r_chan t)) <= cap)%nat;
  ci_live : c_rx (r_chan t) = true -> r_polled t ++ c_buf (r_chan t) = r_accepted t;
  ci_gone : c_rx (r_chan t) = false -> c_buf (r_chan t) = [];
  ci_pol : prefix (r_polled t) (r_accepted t);
  ci_acc : prefix (r_accepted t) (r_pushed t);
  ci_all : c_lag (r_chan t) = false -> c_rx (r_chan t) = true -> r_accepted t = r_pushed t
}.

Lemma prefix_refl {A} (a : list A) : prefix a a.
Proof. exists []. apply app_nil_r. Qed.
Lemma prefix_snoc_r {A} (a b : list A) x : prefix a b -> prefix a (b ++ [x]).
Proof. intros [r <-]. exists (r ++ [x]). now rewrite app_assoc. Qed.

Lemma cinv_init cap : cinv cap (cinit cap).
Proof. constructor; simpl; auto; try apply prefix_refl. lia. Qed.

Ltac fin := try congruence; try discriminate; try lia; try (now apply prefix_snoc_r); try apply prefix_refl.
Lemma cinv_step cap t o : cinv cap t -> cinv cap (cstep t o).
Proof.
  intros [Hcap Hlen Hlive Hgone Hpol Hacc Hall]. destruct o as [x| | |]; unfold cstep.
  - (* send *)
    destruct (chan_send (r_chan t) x) as [c' r] eqn:E.
    destruct (c_lag (r_chan t)) eqn:Elag.
    { rewrite chan_send_lagged in E by exact Elag. injection E as <- <-.
      constructor; simpl; auto; fin. }
    destruct (c_rx (r_chan t)) eqn:Erx.
    2:{ rewrite chan_send_closed in E by assumption. injection E as <- <-.
        constructor; simpl; auto; fin. }
    destruct (Nat.ltb (length (c_buf (r_chan t))) (c_cap (r_chan t))) eqn:Elt.
    + apply Nat.ltb_lt in Elt. rewrite chan_send_accept in E by (unfold accepts; auto). injection E as <- <-.
      constructor; simpl; auto; fin.
      * rewrite app_length. simpl. lia.
      * intros _. rewrite app_assoc, Hlive by reflexivity. reflexivity.
      * rewrite Hall by reflexivity. apply prefix_refl.
      * intros _ _. now rewrite Hall.
    + apply Nat.ltb_ge in Elt. rewrite chan_send_full in E by assumption. injection E as <- <-.
      constructor; simpl; auto; fin.
  - (* poll *)
    destruct (chan_poll (r_chan t)) as [c' r] eqn:E.
    destruct r as [x| | |];
      try (apply chan_poll_other in E; [|discriminate]; subst c'; constructor; simpl; auto; fin).
    apply chan_poll_item in E as [Erx [Eb [Erx' [Etx [Elag Ecap]]]]].
    specialize (Hlive Erx). rewrite Eb in Hlive, Hlen. simpl in Hlen.
    constructor; simpl; auto; fin.
    + intros _. rewrite <- app_assoc. exact Hlive.
    + exists (c_buf c'). rewrite <- app_assoc. exact Hlive.
    + rewrite Elag. intros H _. now apply Hall.
  - (* the sender goes away *)
    constructor; simpl; auto; fin. 
  - (* the receiver goes away *)
    constructor; simpl; auto; fin.
Qed.

Lemma cinv_run cap ops : forall t, cinv cap t -> cinv cap (crun t ops).
Proof. induction ops as [|o ops IH]; intros t H; [exact H|]. apply IH. now apply cinv_step. Qed.

(* C05_fifo *)
Theorem chan_fifo : forall (cap : nat) (ops : list cop),
  let t := crun (cinit cap) ops in
  (c_rx (r_chan t) = true -> r_polled t ++ c_buf (r_chan t) = r_accepted t) /\
  prefix (r_polled t) (r_accepted t) /\
  prefix (r_accepted t) (r_pushed t) /\
  (c_lag (r_chan t) = false -> c_rx (r_chan t) = true -> r_accepted t = r_pushed t) /\
  (length (c_buf (r_chan t)) <= cap)%nat.
Proof.
  intros cap ops t. destruct (cinv_run cap ops _ (cinv_init cap)). fold t in ci_live0, ci_pol0, ci_acc0, ci_all0, ci_len0.
  auto.
Qed.

(* lag is final in every run: the flag stays, nothing more is accepted, the buffer only shrinks *)
Lemma lag_step t o : c_lag (r_chan t) = true ->
  c_lag (r_chan (cstep t o)) = true /\ r_accepted (cstep t o) = r_accepted t /\
  (forall x, o = CSend x -> r_chan (cstep t o) = r_chan t).
Proof.
  intro H. destruct o as [x| | |]; unfold cstep.
  - rewrite chan_send_lagged by exact H. simpl. split; [exact H|]. split; [reflexivity|]. reflexivity.
  - destruct (chan_poll (r_chan t)) as [c' r] eqn:E. simpl. split; [|split; [reflexivity|discriminate]].
    destruct r as [x| | |]; try (apply chan_poll_other in E; [|discriminate]; now subst c').
    apply chan_poll_item in E. destruct E as [_ [_ [_ [_ [E _]]]]]. congruence.
  - simpl. split; [exact H|]. split; [reflexivity|discriminate].
  - simpl. split; [exact H|]. split; [reflexivity|discriminate].
Qed.

Theorem lag_final : forall t ops, c_lag (r_chan t) = true ->
  c_lag (r_chan (crun t ops)) = true /\ r_accepted (crun t ops) = r_accepted t.
Proof.
  intros t ops; revert t. induction ops as [|o ops IH]; intros t H; [auto|].
  destruct (lag_step t o H) as [H1 [H2 _]]. destruct (IH _ H1) as [H3 H4]. simpl. rewrite H3, H4, H2. auto.
Qed.

(* draining a channel whose sender is gone: the buffered items, then the end with its reason *)
Fixpoint polls (c : chan) (n : nat) : chan * list nextres :=
  match n with
  | O => (c, [])
  | S n' => let '(c1, r) := chan_poll c in let '(c2, rs) := polls c1 n' in (c2, r :: rs)
  end.

Definition end_reason (c : chan) : nextres := if c_lag c then NEndLagged else NEndClosed.

Lemma polls_drain : forall b cap lg,
  snd (polls {| c_cap := cap; c_buf := b; c_tx := false; c_rx := true; c_lag := lg |} (S (length b)))
  = map NItem b ++ [if lg then NEndLagged else NEndClosed].
Proof.
  induction b as [|x b IH]; intros cap lg.
  - reflexivity.
  - change (polls ?c (S (length (x :: b)))) with
      (let '(c1, r) := chan_poll c in let '(c2, rs) := polls c1 (S (length b)) in (c2, r :: rs)).
    unfold chan_poll at 1. cbn [c_rx c_buf negb c_cap c_tx c_lag].
    specialize (IH cap lg). destruct (polls _ (S (length b))) as [c2 rs]. simpl in *. now rewrite IH.
Qed.

Theorem drain_then_end : forall c, c_rx c = true -> c_tx c = false ->
  snd (polls c (S (length (c_buf c)))) = map NItem (c_buf c) ++ [end_reason c].
Proof.
  intros [cap b tx rx lg] H1 H2. simpl in *. subst. apply polls_drain.
Qed.

(* C05_lag_is_final on one channel: with `cap` unread items the next push is dropped and sets the flag; every later
   push is refused and changes nothing; once the sender is dropped (unsubscribe handled) the consumer gets exactly the
   unread items and then NEndLagged *)
Theorem lag_scenario : forall c x,
  c_lag c = false -> c_rx c = true -> length (c_buf c) = c_cap c ->
  chan_send c x = (set_lag c, SentTooSlow) /\
  (forall y, chan_send (set_lag c) y = (set_lag c, SentTooSlow)) /\
  snd (polls (chan_drop_tx (set_lag c)) (S (length (c_buf c)))) = map NItem (c_buf c) ++ [NEndLagged].
Proof.
  intros c x H1 H2 H3. split; [apply chan_send_full; auto; lia|]. split.
  - intro y. now apply chan_send_lagged.
  - apply (drain_then_end (chan_drop_tx (set_lag c))); [exact H2|reflexivity].
Qed.

(* ================================================================== association lists *)
Section AL.
  Context {V : Type}.
  Lemma alookup_aset_same h (v : V) l : alookup N.eqb h (aset N.eqb h v l) = Some v.
  Proof. unfold aset. simpl. now rewrite N.eqb_refl. Qed.

  Lemma alookup_aremove_other h h' (l : list (N * V)) : h <> h' -> alookup N.eqb h (aremove N.eqb h' l) = alookup N.eqb h l.
  Proof.
    intro Hn. induction l as [|[k v] l IH]; [reflexivity|]. simpl.
    destruct (N.eqb h' k) eqn:E1.
    - apply N.eqb_eq in E1. subst k. apply N.eqb_neq in Hn. now rewrite Hn.
    - simpl. now rewrite IH.
  Qed.

  Lemma alookup_aset_other h h' (v : V) l : h <> h' -> alookup N.eqb h (aset N.eqb h' v l) = alookup N.eqb h l.
  Proof.
    intro Hn. unfold aset. simpl. apply N.eqb_neq in Hn as Hn'. rewrite Hn'. now apply alookup_aremove_other.
  Qed.
End AL.

Lemma alookup_aremove_same {K V} (eqb : K -> K -> bool) k (l : list (K * V)) : alookup eqb k (aremove eqb k l) = None.
Proof.
  induction l as [|[k' v] l IH]; [reflexivity|]. simpl. destruct (eqb k k') eqn:E; [exact IH|]. simpl. now rewrite E.
Qed.

Lemma alookup_aremove_none {K V} (eqb : K -> K -> bool) k k' (l : list (K * V)) :
  alookup eqb k l = None -> alookup eqb k (aremove eqb k' l) = None.
Proof.
  induction l as [|[k0 v] l IH]; [reflexivity|]. simpl. destruct (eqb k k0) eqn:E; [discriminate|].
  intro H. destruct (eqb k' k0); [now apply IH|]. simpl. rewrite E. now apply IH.
Qed.

Lemma chan_of_set_same s h c : chan_of (set_chan s h c) h = Some c.
Proof. unfold chan_of, set_chan. simpl. apply alookup_aset_same. Qed.
Lemma chan_of_set_other s h h' c : h <> h' -> chan_of (set_chan s h' c) h = chan_of s h.
Proof. intro H. unfold chan_of, set_chan. simpl. now apply alookup_aset_other. Qed.
Lemma set_chan_m s h c : m (set_chan s h c) = m s. Proof. reflexivity. Qed.

(* the state-level poll is the channel-level poll on that channel, and touches nothing else *)
Theorem poll_next_chan : forall s sh c, chan_of s sh = Some c ->
  snd (poll_next s sh) = snd (chan_poll c) /\
  chan_of (fst (poll_next s sh)) sh = Some (fst (chan_poll c)) /\
  (forall h, h <> sh -> chan_of (fst (poll_next s sh)) h = chan_of s h) /\
  m (fst (poll_next s sh)) = m s.
Proof.
  intros s sh c H. unfold poll_next, chan_poll. rewrite H.
  destruct (c_rx c); simpl; [|auto].
  destruct (c_buf c) as [|x b]; simpl.
  - destruct (c_tx c); simpl; auto.
  - split; [reflexivity|]. split; [apply chan_of_set_same|]. split; [|reflexivity].
    intros h Hn. now apply chan_of_set_other.
Qed.

Lemma poll_next_unknown s sh : chan_of s sh = None -> poll_next s sh = (s, NPending).
Proof. intro H. unfold poll_next. now rewrite H. Qed.

(* ================================================================== Part B: a notification touches only its own channel *)

(* the channel of the subscription named by sid *)
Definition sub_chan (s : st) (sid : subid) : option handle :=
  match alookup subid_eqb sid (subs (m s)) with
  | Some rid => match req_lookup rid (m s) with Some (KSub _ ch _) => Some ch | _ => None end
  | None => None
  end.

Lemma enqueue_m s x : m (enqueue s x) = m s. Proof. unfold enqueue, enqueue_tagged. destr_all; reflexivity. Qed.
Lemma enqueue_chans s x : chans (enqueue s x) = chans s. Proof. unfold enqueue, enqueue_tagged. destr_all; reflexivity. Qed.
Lemma chan_of_enqueue s x h : chan_of (enqueue s x) h = chan_of s h.
Proof. unfold chan_of. now rewrite enqueue_chans. Qed.

Definition pending_msgs (s : st) : list f2b := queue s ++ map fst (waiting s).

Lemma enqueue_pending s x : pending_msgs (enqueue s x) = pending_msgs s ++ [x].
Proof.
  unfold pending_msgs, enqueue, enqueue_tagged.
  destruct (Nat.ltb (length (queue s)) (qcap s) && match waiting s with [] => true | _ => false end)%bool eqn:E; simpl.
  - apply andb_true_iff in E as [_ E]. destruct (waiting s); [|discriminate]. simpl. now rewrite !app_nil_r.
  - rewrite map_app. simpl. now rewrite app_assoc.
Qed.

Theorem sub_deliver_spec : forall s sid p ch c,
  sub_chan s sid = Some ch -> chan_of s ch = Some c ->
  sub_deliver s sid p =
  match snd (chan_send c p) with
  | SentOk => set_chan s ch (fst (chan_send c p))
  | _ => forward (set_chan s ch (fst (chan_send c p))) (MSubClosed sid)
  end.
Proof.
  intros s sid p ch c Hs Hc. unfold sub_chan in Hs. unfold sub_deliver.
  destruct (alookup subid_eqb sid (subs (m s))) as [rid|]; [|discriminate].
  destruct (req_lookup rid (m s)) as [[| | u ch' um|]|]; try discriminate. injection Hs as ->.
  rewrite Hc. destruct (chan_send c p) as [c' r]. reflexivity.
Qed.

Theorem sub_deliver_unknown : forall s sid p, sub_chan s sid = None -> sub_deliver s sid p = s.
Proof.
  intros s sid p Hs. unfold sub_chan in Hs. unfold sub_deliver.
  destruct (alookup subid_eqb sid (subs (m s))) as [rid|]; [|reflexivity].
  destruct (req_lookup rid (m s)) as [[| | u ch' um|]|]; try reflexivity. discriminate.
Qed.

Lemma sub_deliver_no_chan s sid p ch : sub_chan s sid = Some ch -> chan_of s ch = None -> sub_deliver s sid p = s.
Proof.
  intros Hs Hc. unfold sub_chan in Hs. unfold sub_deliver.
  destruct (alookup subid_eqb sid (subs (m s))) as [rid|]; [|discriminate].
  destruct (req_lookup rid (m s)) as [[| | u ch' um|]|]; try discriminate. injection Hs as ->.
  now rewrite Hc.
Qed.

(* C05_own_only, subscriptions *)
Theorem sub_deliver_own_only : forall s sid p,
  m (sub_deliver s sid p) = m s /\
  match sub_chan s sid with
  | None => sub_deliver s sid p = s
  | Some ch =>
    (forall h, h <> ch -> chan_of (sub_deliver s sid p) h = chan_of s h) /\
    chan_of (sub_deliver s sid p) ch = option_map (fun c => fst (chan_send c p)) (chan_of s ch)
  end.
Proof.
  intros s sid p. destruct (sub_chan s sid) as [ch|] eqn:Hs.
  2:{ rewrite sub_deliver_unknown by exact Hs. auto. }
  destruct (chan_of s ch) as [c|] eqn:Hc.
  2:{ rewrite (sub_deliver_no_chan _ _ _ _ Hs Hc). rewrite Hc. auto. }
  rewrite (sub_deliver_spec _ _ _ _ _ Hs Hc). cbn [option_map].
  destruct (chan_send c p) as [c' r]. cbn [fst snd].
  destruct r; unfold forward; rewrite ?enqueue_m, ?set_chan_m; (split; [reflexivity|]); split;
    try (intros h Hn; rewrite ?chan_of_enqueue; now apply chan_of_set_other);
    rewrite ?chan_of_enqueue; apply chan_of_set_same.
Qed.

(* what the subscription's own channel receives is exactly `chan_send payload`; a refused item asks the send task to
   unsubscribe (one MSubClosed naming sid is appended to the messages on their way to the send task) *)
Theorem sub_deliver_refused : forall s sid p ch c,
  sub_chan s sid = Some ch -> chan_of s ch = Some c -> snd (chan_send c p) <> SentOk ->
  pending_msgs (sub_deliver s sid p) = pending_msgs s ++ [MSubClosed sid].
Proof.
  intros s sid p ch c Hs Hc Hr. rewrite (sub_deliver_spec _ _ _ _ _ Hs Hc).
  destruct (snd (chan_send c p)); [contradiction| |]; unfold forward; now rewrite enqueue_pending.
Qed.

Theorem sub_deliver_accepted : forall s sid p ch c,
  sub_chan s sid = Some ch -> chan_of s ch = Some c -> snd (chan_send c p) = SentOk ->
  sub_deliver s sid p = set_chan s ch (push_buf c p).
Proof.
  intros s sid p ch c Hs Hc Hr. rewrite (sub_deliver_spec _ _ _ _ _ Hs Hc). rewrite Hr.
  apply chan_send_ok_iff in Hr. now rewrite chan_send_accept.
Qed.

(* C05_own_only, plain notifications: only the handler channel of that method; requests, subscriptions and batches
   are never touched; an unknown method changes nothing *)
Lemma drop_sink_m s h : m (drop_sink s h) = m s. Proof. unfold drop_sink. destr_all; reflexivity. Qed.
Lemma drop_sink_other s h h' : h <> h' -> chan_of (drop_sink s h') h = chan_of s h.
Proof. intro Hn. unfold drop_sink. destruct (chan_of s h'); [now apply chan_of_set_other|reflexivity]. Qed.
Lemma drop_sink_same s h : chan_of (drop_sink s h) h = option_map chan_drop_tx (chan_of s h).
Proof. unfold drop_sink. destruct (chan_of s h) eqn:E; simpl; [apply chan_of_set_same|exact E]. Qed.

Theorem notif_deliver_own_only : forall s me p,
  requests (m (notif_deliver s me p)) = requests (m s) /\
  subs (m (notif_deliver s me p)) = subs (m s) /\
  batches (m (notif_deliver s me p)) = batches (m s) /\
  match alookup bytes_eqb me (nhandlers (m s)) with
  | None => notif_deliver s me p = s
  | Some ch => forall h, h <> ch -> chan_of (notif_deliver s me p) h = chan_of s h
  end.
Proof.
  intros s me p. unfold notif_deliver.
  destruct (alookup bytes_eqb me (nhandlers (m s))) as [ch|]; [|auto].
  destruct (chan_of s ch) as [c|]; [|auto].
  destruct (chan_send c _) as [c' r].
  destruct r; rewrite ?drop_sink_m; simpl; (repeat split; try reflexivity);
    intros h Hn; rewrite ?drop_sink_other by exact Hn; unfold chan_of; simpl; now apply alookup_aset_other.
Qed.

(* ================================================================== Part C: grouping is irrelevant *)

Definition is_notif (x : inmsg) : bool :=
  match x with ISubNotif _ _ _ | ISubErr _ _ _ | INotif _ _ => true | IResp _ | IBad => false end.

Definition notif_step (s : st) (x : inmsg) : st :=
  match x with
  | ISubNotif _ sid p => sub_deliver s sid p
  | ISubErr _ sid _ => sub_close s sid
  | INotif me p => notif_deliver s me p
  | _ => s
  end.

Lemma handle_single_notif s x : is_notif x = true -> handle_back s (FSingle x) = ROk (notif_step s x) [].
Proof. destruct x; simpl; intro H; try discriminate; reflexivity. Qed.

Lemma array_loop_notifs : forall ms s acc rng got,
  forallb is_notif ms = true ->
  array_loop s ms acc rng got = inl (fold_left notif_step ms s, acc, rng, (got || match ms with [] => false | _ => true end)%bool).
Proof.
  induction ms as [|x ms IH]; intros s acc rng got H.
  - simpl. now rewrite orb_false_r.
  - simpl in H. apply andb_true_iff in H as [Hx Hms].
    destruct x; try discriminate; simpl; rewrite IH by exact Hms; rewrite orb_true_r; simpl; reflexivity.
Qed.

Theorem array_of_notifs : forall s ms,
  forallb is_notif ms = true -> ms <> [] -> handle_back s (FArray ms) = ROk (fold_left notif_step ms s) [].
Proof.
  intros s ms H Hne. rewrite handle_back_now; unfold handle_back_ref. rewrite array_loop_notifs by exact H.
  destruct ms; [contradiction|]. reflexivity.
Qed.

(* a sequence of frames handled one after the other by the read task *)
Fixpoint run_frames (s : st) (frs : list inframe) : rres :=
  match frs with
  | [] => ROk s []
  | fr :: rest =>
    match handle_back s fr with
    | ROk s' o =>
      match run_frames s' rest with
      | ROk s'' o' => ROk s'' (o ++ o')
      | RFatal s'' o' f => RFatal s'' (o ++ o') f
      end
    | RFatal s' o f => RFatal s' o f
    end
  end.

Lemma run_singles : forall ms s, forallb is_notif ms = true ->
  run_frames s (map FSingle ms) = ROk (fold_left notif_step ms s) [].
Proof.
  induction ms as [|x ms IH]; intros s H; [reflexivity|].
  simpl in H. apply andb_true_iff in H as [Hx Hms].
  cbn [map run_frames]. rewrite handle_single_notif by exact Hx. rewrite IH by exact Hms. reflexivity.
Qed.

Lemma run_arrays : forall parts s,
  (forall p, In p parts -> p <> [] /\ forallb is_notif p = true) ->
  run_frames s (map FArray parts) = ROk (fold_left notif_step (concat parts) s) [].
Proof.
  induction parts as [|p parts IH]; intros s H; [reflexivity|].
  cbn [map run_frames concat]. destruct (H p (or_introl eq_refl)) as [Hne Hp].
  rewrite array_of_notifs by assumption. rewrite IH by (intros q Hq; apply H; now right).
  rewrite fold_left_app. reflexivity.
Qed.

(* C05_grouping_irrelevant: one frame per notification, one array, or any partition into consecutive arrays *)
Theorem grouping_irrelevant : forall s (parts : list (list inmsg)),
  (forall p, In p parts -> p <> [] /\ forallb is_notif p = true) ->
  run_frames s (map FArray parts) = run_frames s (map FSingle (concat parts)) /\
  run_frames s (map FArray parts) = ROk (fold_left notif_step (concat parts) s) [].
Proof.
  intros s parts H. rewrite run_arrays by exact H. split; [|reflexivity].
  rewrite run_singles; [reflexivity|].
  apply forallb_forall. intros x Hx. apply in_concat in Hx as [p [Hp Hx]].
  destruct (H p Hp) as [_ Hf]. rewrite forallb_forall in Hf. now apply Hf.
Qed.

(* bytes: an array text is classified element by element *)
Lemma json_ws_is_ascii_ws c : is_json_ws c = true -> is_ascii_ws c = true.
Proof. destruct c; simpl; intro H; try discriminate; reflexivity. Qed.

Lemma skip_ws_drop_ascii : forall s c r, skip_ws s = c :: r -> is_ascii_ws c = false -> drop_while is_ascii_ws s = c :: r.
Proof.
  induction s as [|a s IH]; intros c r H Hc; [discriminate|].
  unfold skip_ws in *. simpl in *. destruct (is_json_ws a) eqn:E.
  - rewrite (json_ws_is_ascii_ws _ E). now apply IH.
  - injection H as -> ->. now rewrite Hc.
Qed.

Theorem classify_array : forall raw ts, raw_array raw = Some ts -> classify_frame raw = FArray (map classify_elem ts).
Proof.
  intros raw ts H. rewrite classify_frame_now.
  assert (Hd : exists r, drop_while is_ascii_ws raw = x5b :: r).
  { unfold raw_array in H. destruct (skip_ws raw) as [|c s1] eqn:E; [discriminate|].
    destruct (beqb c x5b) eqn:Ec; [|discriminate]. apply byte_eqb_eq in Ec. subst c.
    exists s1. now apply skip_ws_drop_ascii. }
  destruct Hd as [r ->]. simpl. now rewrite H.
Qed.

(* ================================================================== Part D: how a stream ends *)

Lemma release_reserved_subs u mm : subs (release_reserved u mm) = subs mm.
Proof. unfold release_reserved. destr_all; reflexivity. Qed.

Lemma release_reserved_lookup_none u mm i : req_lookup i mm = None -> req_lookup i (release_reserved u mm) = None.
Proof.
  intro H. unfold release_reserved. destr_all; try exact H.
  unfold req_lookup in *. simpl. now apply alookup_aremove_none.
Qed.

(* C05_close_ends_stream: a close/error notification for an active subscription *)
Theorem sub_close_spec : forall s sid rid u ch um,
  alookup subid_eqb sid (subs (m s)) = Some rid -> req_lookup rid (m s) = Some (KSub u ch um) ->
  let s' := sub_close s sid in
  alookup subid_eqb sid (subs (m s')) = None /\
  req_lookup rid (m s') = None /\
  sub_chan s' sid = None /\
  chan_of s' ch = option_map chan_drop_tx (chan_of s ch) /\
  (forall h, h <> ch -> chan_of s' h = chan_of s h).
Proof.
  intros s sid rid u ch um H1 H2 s'. subst s'. unfold sub_close. rewrite H1, H2.
  assert (E : alookup subid_eqb sid (subs (m (drop_sink (upd_m s (release_reserved u
                (set_subs (set_requests (m s) (aremove id_eqb rid (requests (m s))))
                          (aremove subid_eqb sid (subs (m s)))))) ch))) = None).
  { rewrite drop_sink_m. cbn [m upd_m]. rewrite release_reserved_subs. simpl. apply alookup_aremove_same. }
  split; [exact E|]. split; [|split; [|split]].
  - rewrite drop_sink_m. cbn [m upd_m]. apply release_reserved_lookup_none.
    unfold req_lookup. simpl. apply alookup_aremove_same.
  - unfold sub_chan. now rewrite E.
  - rewrite drop_sink_same. reflexivity.
  - intros h Hn. rewrite drop_sink_other by exact Hn. reflexivity.
Qed.

Theorem sub_close_unknown : forall s sid, alookup subid_eqb sid (subs (m s)) = None -> sub_close s sid = s.
Proof. intros s sid H. unfold sub_close. now rewrite H. Qed.

(* a channel whose sender was dropped: the consumer gets what is buffered, then the end *)
Theorem closed_stream_drains : forall c, c_rx c = true ->
  snd (polls (chan_drop_tx c) (S (length (c_buf c)))) = map NItem (c_buf c) ++ [end_reason c].
Proof. intros c H. apply (drain_then_end (chan_drop_tx c)); [exact H|reflexivity]. Qed.

Lemma alookup_map_val {V W} (f : V -> W) h : forall l : list (N * V),
  alookup N.eqb h (map (fun hc => (fst hc, f (snd hc))) l) = option_map f (alookup N.eqb h l).
Proof. induction l as [|[k v] l IH]; [reflexivity|]. simpl. destruct (N.eqb h k); [reflexivity|exact IH]. Qed.

(* the connection ends: every stream's sender is gone, the buffers stay readable, all tables are empty *)
Theorem kill_closes_all : forall s f h,
  chan_of (fst (kill s f)) h = option_map chan_drop_tx (chan_of s h) /\
  m (fst (kill s f)) = empty_mgr /\ dead (fst (kill s f)) = true.
Proof.
  intros s f h. unfold kill, chan_of. cbn [fst]. cbn. split; [apply alookup_map_val|auto].
Qed.

Corollary kill_no_sender : forall s f h c, chan_of (fst (kill s f)) h = Some c -> c_tx c = false.
Proof.
  intros s f h c H. destruct (kill_closes_all s f h) as [E _]. rewrite E in H.
  destruct (chan_of s h); [|discriminate]. injection H as <-. reflexivity.
Qed.

(* ---------- unsubscribe ---------- *)
Lemma wire_m s raw : m (fst (wire s raw)) = m s. Proof. unfold wire. destr_all; reflexivity. Qed.
Lemma wire_chans s raw : chans (fst (wire s raw)) = chans s. Proof. unfold wire. destr_all; reflexivity. Qed.
Lemma wire_out s raw : snd (wire s raw) = if sendfail s then [] else [OWire raw].
Proof. unfold wire. destruct (sendfail s); reflexivity. Qed.

Lemma chan_of_wire s raw h : chan_of (fst (wire s raw)) h = chan_of s h.
Proof. unfold chan_of. now rewrite wire_chans. Qed.
Lemma chan_of_upd_unacked s u h : chan_of (upd_unacked s u) h = chan_of s h. Proof. reflexivity. Qed.
Lemma drop_sink_upd_m_same s mm ch : chan_of (drop_sink (upd_m s mm) ch) ch = option_map chan_drop_tx (chan_of s ch).
Proof. rewrite drop_sink_same. reflexivity. Qed.
Lemma drop_sink_upd_m_other s mm ch h : h <> ch -> chan_of (drop_sink (upd_m s mm) ch) h = chan_of s h.
Proof. intro Hn. rewrite drop_sink_other by exact Hn. reflexivity. Qed.

(* C05_unsubscribe_at_most_once: handling MSubClosed for an active subscription writes exactly one unsubscribe request
   naming it, drops the sink, and forgets the subscription id *)
Theorem do_unsubscribe_spec : forall s sid rid u ch um,
  alookup subid_eqb sid (subs (m s)) = Some rid -> req_lookup rid (m s) = Some (KSub u ch um) ->
  let r := do_unsubscribe s sid in
  snd r = (if sendfail s then [] else [OWire (unsub_request s u um sid)]) /\
  alookup subid_eqb sid (subs (m (fst r))) = None /\
  sub_chan (fst r) sid = None /\
  chan_of (fst r) ch = option_map chan_drop_tx (chan_of s ch) /\
  (forall h, h <> ch -> chan_of (fst r) h = chan_of s h).
Proof.
  intros s sid rid u ch um H1 H2 r. subst r. unfold do_unsubscribe. rewrite H1, H2.
  rewrite wire_out. cbn [sendfail upd_unacked].
  assert (Hsf : forall s0 h0, sendfail (drop_sink s0 h0) = sendfail s0).
  { intros s0 h0. unfold drop_sink. destr_all; reflexivity. }
  rewrite Hsf. cbn [sendfail upd_m]. split; [reflexivity|].
  assert (E : forall s1 raw, alookup subid_eqb sid (subs (m s1)) = None ->
              alookup subid_eqb sid (subs (m (fst (wire (upd_unacked s1 (u :: unacked s1)) raw)))) = None).
  { intros s1 raw H. now rewrite wire_m. }
  assert (E0 : forall rq, alookup subid_eqb sid (subs (m (drop_sink (upd_m s (set_subs (set_requests (m s) rq)
                 (aremove subid_eqb sid (subs (m s))))) ch))) = None).
  { intro rq. rewrite drop_sink_m. simpl. apply alookup_aremove_same. }
  split; [apply E, E0|]. split; [unfold sub_chan; now rewrite E by apply E0|].
  split.
  - rewrite chan_of_wire, chan_of_upd_unacked, drop_sink_upd_m_same. reflexivity.
  - intros h Hn. rewrite chan_of_wire, chan_of_upd_unacked, drop_sink_upd_m_other by exact Hn. reflexivity.
Qed.

Theorem do_unsubscribe_unknown : forall s sid,
  alookup subid_eqb sid (subs (m s)) = None -> handle_front s (MSubClosed sid) = (s, []).
Proof. intros s sid H. unfold handle_front, do_unsubscribe. now rewrite H. Qed.

(* ... so a second MSubClosed for the same id (lag and drop, drop twice, ...) writes nothing *)
Theorem unsubscribe_at_most_once : forall s sid rid u ch um,
  alookup subid_eqb sid (subs (m s)) = Some rid -> req_lookup rid (m s) = Some (KSub u ch um) ->
  let s1 := fst (handle_front s (MSubClosed sid)) in
  snd (handle_front s (MSubClosed sid)) = (if sendfail s then [] else [OWire (unsub_request s u um sid)]) /\
  handle_front s1 (MSubClosed sid) = (s1, []).
Proof.
  intros s sid rid u ch um H1 H2 s1. subst s1. cbn [handle_front].
  destruct (do_unsubscribe_spec s sid rid u ch um H1 H2) as [Ho [Hs _]]. split; [exact Ho|].
  now apply (do_unsubscribe_unknown _ sid).
Qed.

(* dropping the stream: the receiver goes away; MSubClosed is queued iff the queue has room *)
Theorem drop_spec : forall s sh sid c,
  dead s = false -> alookup N.eqb sh (subkind s) = Some (inl sid) -> chan_of s sh = Some c ->
  let s' := fst (fst (apply s (FDrop sh))) in
  snd (fst (apply s (FDrop sh))) = [] /\
  m s' = m s /\
  chan_of s' sh = Some (chan_drop_rx c) /\
  (forall h, h <> sh -> chan_of s' h = chan_of s h) /\
  waiting s' = waiting s /\
  queue s' = (if Nat.ltb (length (queue s)) (qcap s) then queue s ++ [MSubClosed sid] else queue s).
Proof.
  intros s sh sid c Hd Hk Hc s'. subst s'. unfold apply. rewrite Hd. unfold close_msg_of. rewrite Hk, Hc.
  cbn [fst snd]. unfold try_enqueue. cbn [queue qcap set_chan upd_chans upd_subkind].
  destruct (Nat.ltb (length (queue s)) (qcap s)); cbn; (split; [reflexivity|]); (split; [reflexivity|]);
    (split; [apply alookup_aset_same|]); (split; [|auto]);
    intros h Hn; now apply alookup_aset_other.
Qed.

(* ... and when it was not queued, the NEXT notification for that subscription finds the receiver gone and forwards
   MSubClosed itself *)
Theorem next_notification_after_drop : forall s sid p ch c,
  sub_chan s sid = Some ch -> chan_of s ch = Some c -> c_rx c = false ->
  pending_msgs (sub_deliver s sid p) = pending_msgs s ++ [MSubClosed sid] /\
  option_map c_buf (chan_of (sub_deliver s sid p) ch) = Some (c_buf c).
Proof.
  intros s sid p ch c Hs Hc Hrx.
  assert (Hna : ~ accepts c) by (intros [_ [H _]]; congruence).
  destruct (chan_send_refuse c p Hna) as [Hr [Hb _]]. split.
  - now apply (sub_deliver_refused s sid p ch c).
  - destruct (sub_deliver_own_only s sid p) as [_ H]. rewrite Hs in H. destruct H as [_ H].
    rewrite H, Hc. simpl. now rewrite Hb.
Qed.

(* ---------- C05_lag_is_final at the level of the client state ---------- *)
Lemma sub_chan_inv s sid ch : sub_chan s sid = Some ch ->
  exists rid u um, alookup subid_eqb sid (subs (m s)) = Some rid /\ req_lookup rid (m s) = Some (KSub u ch um).
Proof.
  unfold sub_chan. destruct (alookup subid_eqb sid (subs (m s))) as [rid|] eqn:E1; [|discriminate].
  destruct (req_lookup rid (m s)) as [[| | u ch' um|]|] eqn:E2; try discriminate.
  intro H. injection H as ->. exists rid, u, um. split; [reflexivity|exact E2].
Qed.

Lemma sub_chan_m s s' sid : m s' = m s -> sub_chan s' sid = sub_chan s sid.
Proof. intro H. unfold sub_chan. now rewrite H. Qed.

Theorem lag_closes_stream : forall s sid ch c p,
  sub_chan s sid = Some ch -> chan_of s ch = Some c ->
  c_lag c = false -> c_rx c = true -> length (c_buf c) = c_cap c ->
  let s1 := sub_deliver s sid p in
  m s1 = m s /\
  chan_of s1 ch = Some (set_lag c) /\
  pending_msgs s1 = pending_msgs s ++ [MSubClosed sid] /\
  (forall q, chan_of (sub_deliver s1 sid q) ch = Some (set_lag c)) /\
  chan_of (fst (handle_front s1 (MSubClosed sid))) ch = Some (chan_drop_tx (set_lag c)) /\
  snd (polls (chan_drop_tx (set_lag c)) (S (length (c_buf c)))) = map NItem (c_buf c) ++ [NEndLagged].
Proof.
  intros s sid ch c p Hs Hc Hlag Hrx Hfull s1.
  destruct (lag_scenario c p Hlag Hrx Hfull) as [Hsend [Hlater Hdrain]].
  destruct (sub_deliver_own_only s sid p) as [Hm Hown]. rewrite Hs in Hown. destruct Hown as [_ Hch].
  rewrite Hc in Hch. cbn [option_map] in Hch. rewrite Hsend in Hch. cbn [fst] in Hch. fold s1 in Hm, Hch.
  assert (Hs1 : sub_chan s1 sid = Some ch) by (rewrite (sub_chan_m s s1 sid Hm); exact Hs).
  split; [exact Hm|]. split; [exact Hch|]. split; [|split; [|split; [|exact Hdrain]]].
  - apply (sub_deliver_refused s sid p ch c Hs Hc). rewrite Hsend. discriminate.
  - intro q. destruct (sub_deliver_own_only s1 sid q) as [_ Hown]. rewrite Hs1 in Hown. destruct Hown as [_ H].
    rewrite H, Hch. cbn [option_map]. now rewrite Hlater.
  - destruct (sub_chan_inv _ _ _ Hs1) as [rid [u [um [H1 H2]]]]. cbn [handle_front].
    destruct (do_unsubscribe_spec s1 sid rid u ch um H1 H2) as [_ [_ [_ [H _]]]]. rewrite H, Hch. reflexivity.
Qed.

(* ================================================================== Part E: the send task consumes what is queued *)

(* s with the three fields the send task's bookkeeping of its inbox lives in replaced *)
Definition frame (s : st) (q : list f2b) (w : list (f2b * option handle)) (u : list (handle * handle * bool)) : st :=
  upd_unsubw (upd_queue s q w) u.

Lemma frame_id s : frame s (queue s) (waiting s) (unsubw s) = s.
Proof. destruct s; reflexivity. Qed.

(* the send task is neither blocked nor ended, and writes neither block nor fail *)
Definition ungated (s : st) : Prop :=
  gated s = false /\ dead s = false /\ dying s = None /\ sendfail s = false /\ busy s = false.

Definition flags (s : st) := (gated s, dead s, dying s, sendfail s, busy s, qcap s).

Lemma ungated_flags s s' : flags s' = flags s -> ungated s -> ungated s' /\ qcap s' = qcap s.
Proof.
  unfold flags, ungated. intros E [H1 [H2 [H3 [H4 H5]]]]. injection E as -> -> -> -> -> ->. auto 10.
Qed.

(* handling the messages one after the other *)
Fixpoint process (s : st) (msgs : list f2b) : st * list out :=
  match msgs with
  | [] => (s, [])
  | x :: rest =>
    let '(s1, o1) := handle_front s x in
    let '(s2, o2) := process s1 rest in
    (s2, o1 ++ o2)
  end.

(* unsubscribe() futures whose message is admitted to the queue are marked *)
Definition marks (tags : list (option handle)) (u : list (handle * handle * bool)) : list (handle * handle * bool) :=
  fold_left (fun u t => match t with Some h => mark_admitted h u | None => u end) tags u.

Lemma wire_ungated s raw : gated s = false -> sendfail s = false -> wire s raw = (s, [OWire raw]).
Proof. intros H1 H2. unfold wire. now rewrite H1, H2. Qed.

Lemma wire_flags s raw : gated s = false -> sendfail s = false -> flags (fst (wire s raw)) = flags s.
Proof. intros H1 H2. now rewrite wire_ungated. Qed.

Lemma drop_sink_flags s h : flags (drop_sink s h) = flags s.
Proof. unfold drop_sink. destruct (chan_of s h); reflexivity. Qed.

Lemma gated_drop_sink s h : gated (drop_sink s h) = gated s.
Proof. unfold drop_sink. destruct (chan_of s h); reflexivity. Qed.
Lemma sendfail_drop_sink s h : sendfail (drop_sink s h) = sendfail s.
Proof. unfold drop_sink. destruct (chan_of s h); reflexivity. Qed.
Lemma flags_upd_unacked s l : flags (upd_unacked s l) = flags s. Proof. reflexivity. Qed.
Lemma gated_upd_unacked s l : gated (upd_unacked s l) = gated s. Proof. reflexivity. Qed.
Lemma sendfail_upd_unacked s l : sendfail (upd_unacked s l) = sendfail s. Proof. reflexivity. Qed.

Lemma hf_flags s x : gated s = false -> sendfail s = false -> flags (fst (handle_front s x)) = flags s.
Proof.
  intros Hg Hs. destruct x; cbn [handle_front].
  - destruct (ahas _ _ _); [reflexivity|]. now rewrite wire_flags.
  - now rewrite wire_flags.
  - destruct (ahas _ _ _); [reflexivity|]. now rewrite wire_flags.
  - destruct (_ && _)%bool; [|reflexivity]. now rewrite wire_flags.
  - destruct (ahas _ _ _); [reflexivity|]. destruct (alive s h); reflexivity.
  - destruct (alookup _ _ _); [|reflexivity]. cbn [fst]. now rewrite drop_sink_flags.
  - unfold do_unsubscribe. destruct (alookup _ _ _); [|reflexivity].
    destruct (req_lookup _ _) as [[| | u ch um|]|]; try reflexivity.
    rewrite wire_flags; rewrite ?flags_upd_unacked, ?gated_upd_unacked, ?sendfail_upd_unacked,
      ?drop_sink_flags, ?gated_drop_sink, ?sendfail_drop_sink; try assumption. reflexivity.
Qed.

(* the send task's handler neither reads nor writes queue, waiting and unsubw *)
Lemma wire_frame s q w u raw :
  wire (frame s q w u) raw = (frame (fst (wire s raw)) q w u, snd (wire s raw)).
Proof. unfold wire, frame. cbn [sendfail gated upd_unsubw upd_queue]. destr_all; reflexivity. Qed.

Lemma drop_sink_frame s q w u h : drop_sink (frame s q w u) h = frame (drop_sink s h) q w u.
Proof.
  unfold drop_sink, chan_of, frame. cbn [chans upd_unsubw upd_queue]. destruct (alookup N.eqb h (chans s)); reflexivity.
Qed.

Lemma hf_frame s q w u x :
  handle_front (frame s q w u) x = (frame (fst (handle_front s x)) q w u, snd (handle_front s x)).
Proof.
  destruct x; cbn [handle_front].
  - change (m (frame s q w u)) with (m s). destruct (ahas _ _ _); [reflexivity|].
    change (upd_m (frame s q w u) ?mm) with (frame (upd_m s mm) q w u). apply wire_frame.
  - apply wire_frame.
  - change (m (frame s q w u)) with (m s). destruct (ahas _ _ _); [reflexivity|].
    change (upd_m (frame s q w u) ?mm) with (frame (upd_m s mm) q w u). apply wire_frame.
  - change (m (frame s q w u)) with (m s). destruct (_ && _)%bool; [|reflexivity].
    change (upd_m (frame s q w u) ?mm) with (frame (upd_m s mm) q w u). apply wire_frame.
  - change (m (frame s q w u)) with (m s). destruct (ahas _ _ _); [reflexivity|].
    change (alive (frame s q w u) h) with (alive s h). destruct (alive s h); reflexivity.
  - change (m (frame s q w u)) with (m s). destruct (alookup _ _ _); [|reflexivity].
    change (upd_m (frame s q w u) ?mm) with (frame (upd_m s mm) q w u). now rewrite drop_sink_frame.
  - unfold do_unsubscribe. change (m (frame s q w u)) with (m s).
    destruct (alookup _ _ _); [|reflexivity].
    destruct (req_lookup _ _) as [[| | u0 ch um|]|]; try reflexivity.
    change (upd_m (frame s q w u) ?mm) with (frame (upd_m s mm) q w u). rewrite drop_sink_frame.
    change (upd_unacked (frame ?x q w u) ?l) with (frame (upd_unacked x l) q w u).
    change (unacked (frame ?x q w u)) with (unacked x).
    apply wire_frame.
Qed.

Lemma process_frame q w u : forall msgs s,
  process (frame s q w u) msgs = (frame (fst (process s msgs)) q w u, snd (process s msgs)).
Proof.
  induction msgs as [|x msgs IH]; intro s; [reflexivity|].
  cbn [process]. rewrite hf_frame. destruct (handle_front s x) as [s1 o1]. cbn [fst snd].
  rewrite IH. destruct (process s1 msgs) as [s2 o2]. reflexivity.
Qed.

Lemma process_flags : forall msgs s, gated s = false -> sendfail s = false ->
  flags (fst (process s msgs)) = flags s.
Proof.
  induction msgs as [|x msgs IH]; intros s Hg Hs; [reflexivity|].
  cbn [process]. pose proof (hf_flags s x Hg Hs) as E. destruct (handle_front s x) as [s1 o1]. cbn [fst] in E.
  assert (Hg1 : gated s1 = false) by (unfold flags in E; injection E as E _ _ _ _ _; congruence).
  assert (Hs1 : sendfail s1 = false) by (unfold flags in E; injection E as _ _ _ E _ _; congruence).
  specialize (IH s1 Hg1 Hs1). destruct (process s1 msgs) as [s2 o2]. cbn [fst] in *. congruence.
Qed.

(* admitting blocked senders: a prefix of them moves to the queue's tail, in order, until it is full *)
Lemma admit_waiting_spec : forall n s, exists a b,
  waiting s = a ++ b /\
  admit_waiting n s = frame s (queue s ++ map fst a) b (marks (map snd a) (unsubw s)) /\
  ((length (waiting s) <= n)%nat -> b = [] \/ ~ (length (queue s ++ map fst a) < qcap s)%nat).
Proof.
  induction n as [|n IH]; intro s.
  - exists [], (waiting s). split; [reflexivity|]. split.
    + cbn [admit_waiting map marks fold_left]. rewrite app_nil_r. symmetry. apply frame_id.
    + intro H. left. destruct (waiting s); [reflexivity|simpl in H; lia].
  - cbn [admit_waiting]. destruct (waiting s) as [|[msg tag] w] eqn:Ew.
    + exists [], []. split; [reflexivity|]. split; [|now left].
      cbn [map marks fold_left]. rewrite app_nil_r, <- Ew. symmetry. apply frame_id.
    + destruct (Nat.ltb (length (queue s)) (qcap s)) eqn:Eroom.
      * set (s' := frame s (queue s ++ [msg]) w (marks [tag] (unsubw s))).
        assert (Es' : (match tag with
                       | Some h => upd_unsubw (upd_queue s (queue s ++ [msg]) w)
                                     (mark_admitted h (unsubw (upd_queue s (queue s ++ [msg]) w)))
                       | None => upd_queue s (queue s ++ [msg]) w end) = s').
        { destruct tag; reflexivity. }
        rewrite Es'. destruct (IH s') as [a [b [Hw [Ha Hb]]]].
        exists ((msg, tag) :: a), b. split; [cbn in Hw; now rewrite Hw|]. split.
        -- rewrite Ha. unfold s'. cbn [queue waiting unsubw frame upd_unsubw upd_queue map snd fst marks fold_left].
           rewrite <- app_assoc. reflexivity.
        -- intro H. cbn [length] in H. destruct Hb as [Hb|Hb]; [cbn; lia|now left|right].
           unfold s' in Hb. cbn [queue qcap frame upd_unsubw upd_queue] in Hb.
           cbn [map fst]. now rewrite <- app_assoc in Hb.
      * exists [], ((msg, tag) :: w). split; [reflexivity|]. split.
        -- cbn [map marks fold_left]. rewrite app_nil_r, <- Ew. symmetry. apply frame_id.
        -- intros _. right. cbn [map]. rewrite app_nil_r. apply Nat.ltb_ge in Eroom. lia.
Qed.

Lemma marks_app t1 t2 u : marks (t1 ++ t2) u = marks t2 (marks t1 u).
Proof. unfold marks. apply fold_left_app. Qed.

(* drain_ungated: the send task handles EVERY queued and blocked message, in order, and ends with an empty inbox *)
Theorem drain_ungated : forall fuel s,
  ungated s -> (0 < qcap s)%nat -> (length (pending_msgs s) < fuel)%nat ->
  drain fuel s =
  (frame (fst (process s (pending_msgs s))) [] [] (marks (map snd (waiting s)) (unsubw s)),
   snd (process s (pending_msgs s))).
Proof.
  induction fuel as [|fuel IH]; intros s Hu Hq Hlen; [lia|].
  cbn [drain]. destruct (admit_waiting_spec (length (waiting s)) s) as [a [b [Hw [Ha Hb]]]].
  rewrite Ha. specialize (Hb (le_n _)).
  destruct Hu as [Hg [Hd [Hdy [Hsf Hb']]]].
  cbn [busy dead dying queue waiting frame upd_unsubw upd_queue]. rewrite Hb', Hd, Hdy. cbn [orb].
  unfold pending_msgs in *. rewrite Hw, map_app, app_assoc in *.
  destruct (queue s ++ map fst a) as [|msg q] eqn:EQ.
  - (* nothing queued: then nothing is blocked either *)
    destruct Hb as [->|Hb]; [|cbn in Hb; lia].
    apply app_eq_nil in EQ as [Eq Ea]. apply map_eq_nil in Ea. subst a. cbn [map app process fst snd]. reflexivity.
  - assert (E : upd_queue (frame s (msg :: q) b (marks (map snd a) (unsubw s))) q b
                = frame s q b (marks (map snd a) (unsubw s))) by reflexivity.
    rewrite E, hf_frame. cbn [app process].
    pose proof (hf_flags s msg Hg Hsf) as Ef.
    destruct (handle_front s msg) as [s1 o1]. cbn [fst snd] in *.
    set (U := marks (map snd a) (unsubw s)).
    assert (Hu1 : ungated (frame s1 q b U) /\ qcap (frame s1 q b U) = qcap s).
    { apply (ungated_flags s); [exact Ef|]. unfold ungated; auto. }
    destruct Hu1 as [Hu1 Hq1].
    rewrite (IH (frame s1 q b U)); [|exact Hu1|rewrite Hq1; exact Hq|].
    2:{ unfold pending_msgs. cbn [queue waiting frame upd_unsubw upd_queue].
        cbn [app length] in Hlen. rewrite app_length in *. lia. }
    unfold pending_msgs. cbn [queue waiting unsubw frame upd_unsubw upd_queue].
    fold (frame s1 q b U). rewrite process_frame.
    destruct (process s1 (q ++ map fst b)) as [s2 o2]. cbn [fst snd].
    rewrite map_app, marks_app. reflexivity.
Qed.

(* ---------- settle when nothing blocks the send task ---------- *)
Definition wires_of (o : list out) : list bytes :=
  flat_map (fun x => match x with OWire w => [w] | _ => [] end) o.

Lemma wires_of_app a b : wires_of (a ++ b) = wires_of a ++ wires_of b.
Proof. unfold wires_of. apply flat_map_app. Qed.

Lemma upd_chans_id s : upd_chans s (chans s) = s. Proof. destruct s; reflexivity. Qed.

Lemma finish_fold_chans : forall (l : list (handle * handle * bool)) s, exists cs,
  fold_left (fun s' x => match x with (_, c, _) =>
                match chan_of s' c with Some ch => set_chan s' c (chan_drop_rx ch) | None => s' end end) l s
  = upd_chans s cs.
Proof.
  induction l as [|[[w c] adm] l IH]; intro s.
  - exists (chans s). symmetry. apply upd_chans_id.
  - cbn [fold_left]. destruct (chan_of s c) as [ch|].
    + destruct (IH (set_chan s c (chan_drop_rx ch))) as [cs E]. exists cs. rewrite E. reflexivity.
    + apply IH.
Qed.

Lemma finish_unsubs_shape s : exists cs u, fst (finish_unsubs s) = upd_unsubw (upd_chans s cs) u.
Proof.
  unfold finish_unsubs. cbn [fst].
  destruct (finish_fold_chans (filter (unsub_done s) (unsubw s)) s) as [cs E]. rewrite E. eauto.
Qed.

Lemma complete_wires s h r : wires_of (complete s h r) = [].
Proof. unfold complete. destruct (alive s h); reflexivity. Qed.

Lemma finish_unsubs_wires s : wires_of (snd (finish_unsubs s)) = [].
Proof.
  unfold finish_unsubs. cbn [snd]. induction (filter (unsub_done s) (unsubw s)) as [|[[w c] adm] l IH]; [reflexivity|].
  cbn [flat_map]. now rewrite wires_of_app, complete_wires, IH.
Qed.

Lemma finish_unsubs_nil s : unsubw s = [] -> snd (finish_unsubs s) = [].
Proof. intro H. unfold finish_unsubs. rewrite H. reflexivity. Qed.

Theorem settle_ungated : forall s, ungated s -> (0 < qcap s)%nat ->
  let P := process s (pending_msgs s) in
  let D := frame (fst P) [] [] (marks (map snd (waiting s)) (unsubw s)) in
  settle s = (fst (finish_unsubs D), snd P ++ snd (finish_unsubs D)) /\
  ungated D /\ qcap D = qcap s.
Proof.
  intros s Hu Hq P D.
  assert (Hf : flags D = flags s).
  { destruct Hu as [Hg [_ [_ [Hsf _]]]]. exact (process_flags (pending_msgs s) s Hg Hsf). }
  destruct (ungated_flags s D Hf Hu) as [HuD HqD]. split; [|auto].
  unfold settle, try_kill. destruct Hu as [Hg [Hd [Hdy [Hsf Hb]]]]. rewrite Hdy.
  rewrite drain_ungated; [|unfold ungated; auto|exact Hq|].
  2:{ unfold pending_msgs. rewrite app_length, map_length. lia. }
  fold P. fold D. destruct HuD as [_ [_ [HdyD _]]]. rewrite HdyD.
  destruct (finish_unsubs D) as [s4 o4]. cbn [fst snd app]. reflexivity.
Qed.

(* every event handled while nothing blocks the send task leaves its inbox empty *)
Theorem settle_quiescent : forall s, ungated s -> (0 < qcap s)%nat ->
  queue (fst (settle s)) = [] /\ waiting (fst (settle s)) = [] /\ ungated (fst (settle s)) /\
  qcap (fst (settle s)) = qcap s.
Proof.
  intros s Hu Hq. destruct (settle_ungated s Hu Hq) as [E [HuD HqD]]. rewrite E. cbn [fst].
  set (D := frame _ _ _ _) in *.
  destruct (finish_unsubs_shape D) as [cs [u ->]]. repeat split; try reflexivity; try apply HuD. exact HqD.
Qed.

(* one queued message, nobody blocked *)
Lemma settle_one s x : ungated s -> (0 < qcap s)%nat -> queue s = [x] -> waiting s = [] ->
  let D := frame (fst (handle_front s x)) [] [] (unsubw s) in
  settle s = (fst (finish_unsubs D), snd (handle_front s x) ++ snd (finish_unsubs D)).
Proof.
  intros Hu Hq Hqu Hw D. destruct (settle_ungated s Hu Hq) as [E _]. rewrite E.
  unfold pending_msgs. rewrite Hqu, Hw. cbn [map app process marks fold_left].
  subst D. destruct (handle_front s x) as [s1 o1]. cbn [fst snd]. now rewrite app_nil_r.
Qed.

Lemma enqueue_tagged_room s x tag : queue s = [] -> waiting s = [] -> (0 < qcap s)%nat ->
  enqueue_tagged s x tag = frame s [x] [] (marks [tag] (unsubw s)).
Proof.
  intros Hq Hw Hc. unfold enqueue_tagged. rewrite Hq, Hw. cbn [length app].
  apply Nat.ltb_lt in Hc. rewrite Hc. cbn [andb]. destruct tag; reflexivity.
Qed.

Lemma gone_wire s raw : gone (fst (wire s raw)) = gone s. Proof. unfold wire. destr_all; reflexivity. Qed.
Lemma gone_drop_sink s h : gone (drop_sink s h) = gone s. Proof. unfold drop_sink. destr_all; reflexivity. Qed.
Lemma gone_do_unsubscribe s sid : gone (fst (do_unsubscribe s sid)) = gone s.
Proof.
  unfold do_unsubscribe. destruct (alookup _ _ _); [|reflexivity].
  destruct (req_lookup _ _) as [[| | u ch um|]|]; try reflexivity.
  rewrite gone_wire. cbn [gone upd_unacked]. now rewrite gone_drop_sink.
Qed.

(* the common core: a state whose inbox holds exactly MSubClosed sid for an active subscription *)
Lemma settle_sub_closed s sid rid u ch um :
  ungated s -> (0 < qcap s)%nat -> queue s = [MSubClosed sid] -> waiting s = [] ->
  alookup subid_eqb sid (subs (m s)) = Some rid -> req_lookup rid (m s) = Some (KSub u ch um) ->
  let D := frame (fst (do_unsubscribe s sid)) [] [] (unsubw s) in
  settle s = (fst (finish_unsubs D), OWire (unsub_request s u um sid) :: snd (finish_unsubs D)) /\
  wires_of (snd (settle s)) = [unsub_request s u um sid] /\
  alookup subid_eqb sid (subs (m (fst (settle s)))) = None /\
  chan_of D ch = option_map chan_drop_tx (chan_of s ch) /\ gone D = gone s.
Proof.
  intros Hu Hq Hqu Hw H1 H2 D.
  pose proof (settle_one s (MSubClosed sid) Hu Hq Hqu Hw) as E. cbn [handle_front] in E. fold D in E.
  destruct (do_unsubscribe_spec s sid rid u ch um H1 H2) as [Ho [Hs [_ [Hc _]]]].
  destruct Hu as [_ [_ [_ [Hsf _]]]]. rewrite Hsf in Ho. rewrite Ho in E. cbn [app] in E.
  split; [exact E|]. rewrite E. cbn [fst snd]. split; [|split; [|split]].
  - cbn [wires_of flat_map]. fold (wires_of (snd (finish_unsubs D))). now rewrite finish_unsubs_wires.
  - destruct (finish_unsubs_shape D) as [cs [u' ->]]. exact Hs.
  - exact Hc.
  - unfold D. cbn [gone frame upd_unsubw upd_queue]. apply gone_do_unsubscribe.
Qed.

Lemma try_enqueue_room s x : queue s = [] -> waiting s = [] -> (0 < qcap s)%nat ->
  try_enqueue s x = frame s [x] [] (unsubw s).
Proof.
  intros Hq Hw Hc. unfold try_enqueue. rewrite Hq, Hw. cbn [length app].
  apply Nat.ltb_lt in Hc. rewrite Hc. reflexivity.
Qed.

Lemma sub_chan_of_lookups s sid rid u ch um :
  alookup subid_eqb sid (subs (m s)) = Some rid -> req_lookup rid (m s) = Some (KSub u ch um) -> sub_chan s sid = Some ch.
Proof. intros H1 H2. unfold sub_chan. now rewrite H1, H2. Qed.

Lemma sub_deliver_refused_room s sid p ch c :
  sub_chan s sid = Some ch -> chan_of s ch = Some c -> snd (chan_send c p) <> SentOk ->
  queue s = [] -> waiting s = [] -> (0 < qcap s)%nat ->
  sub_deliver s sid p = frame (set_chan s ch (fst (chan_send c p))) [MSubClosed sid] [] (unsubw s).
Proof.
  intros Hs Hc Hr Hq Hw Hcap. rewrite (sub_deliver_spec _ _ _ _ _ Hs Hc).
  destruct (chan_send c p) as [c' r]. cbn [fst snd] in *.
  destruct r; [contradiction| |]; unfold forward, enqueue;
    rewrite (enqueue_tagged_room (set_chan s ch c') (MSubClosed sid) None Hq Hw Hcap); reflexivity.
Qed.

(* C05_lag_unsubscribes_exactly_once *)
Theorem refused_push_unsubscribes_once : forall s raw me sid p rid u ch um c,
  ungated s -> (0 < qcap s)%nat -> queue s = [] -> waiting s = [] ->
  classify_frame raw = FSingle (ISubNotif me sid p) ->
  alookup subid_eqb sid (subs (m s)) = Some rid -> req_lookup rid (m s) = Some (KSub u ch um) ->
  chan_of s ch = Some c -> snd (chan_send c p) <> SentOk ->
  let r := fst (step s (Back raw)) in
  wires_of (snd r) = [unsub_request s u um sid] /\
  (unsubw s = [] -> snd r = [OWire (unsub_request s u um sid)]) /\
  alookup subid_eqb sid (subs (m (fst r))) = None /\
  queue (fst r) = [] /\ waiting (fst r) = [].
Proof.
  intros s raw me sid p rid u ch um c Hu Hq Hqu Hw Hcls H1 H2 Hc Hr r. subst r.
  pose proof (sub_chan_of_lookups _ _ _ _ _ _ H1 H2) as Hs.
  unfold step, apply. destruct Hu as [Hg [Hd [Hdy [Hsf Hb]]]]. rewrite Hd, Hdy, Hcls.
  rewrite ?handle_back_now; cbn [handle_back_ref handle_elem_single_ref].
  rewrite (sub_deliver_refused_room s sid p ch c Hs Hc Hr Hqu Hw Hq).
  set (s1 := frame _ _ _ _).
  assert (Hu1 : ungated s1) by (unfold ungated; auto).
  assert (Hq1 : (0 < qcap s1)%nat) by exact Hq.
  destruct (settle_sub_closed s1 sid rid u ch um Hu1 Hq1 eq_refl eq_refl H1 H2) as [E [Hwi [Hsu _]]].
  destruct (settle_quiescent s1 Hu1 Hq1) as [Hq0 [Hw0 _]].
  destruct (settle s1) as [s2 o2]. cbn [fst snd app] in *.
  split; [exact Hwi|]. split; [|auto].
  intro Hun. apply (f_equal snd) in E. cbn [snd] in E. rewrite E, finish_unsubs_nil; [reflexivity|exact Hun].
Qed.

Lemma in_mark_admitted h sh l : In (h, sh, true) (mark_admitted h (l ++ [(h, sh, false)])).
Proof.
  unfold mark_admitted. apply in_map_iff. exists (h, sh, false). rewrite N.eqb_refl. split; [reflexivity|].
  apply in_or_app. right. now left.
Qed.

(* C05_explicit_unsubscribe_completes *)
Theorem explicit_unsubscribe_completes : forall s h sh sid rid u um,
  ungated s -> (0 < qcap s)%nat -> queue s = [] -> waiting s = [] ->
  alookup N.eqb sh (subkind s) = Some (inl sid) ->
  alookup subid_eqb sid (subs (m s)) = Some rid -> req_lookup rid (m s) = Some (KSub u sh um) ->
  alive s h = true ->
  let r := fst (step s (FUnsub h sh)) in
  wires_of (snd r) = [unsub_request s u um sid] /\
  In (OComplete h CDone) (snd r) /\
  (unsubw s = [] -> snd r = [OWire (unsub_request s u um sid); OComplete h CDone]) /\
  alookup subid_eqb sid (subs (m (fst r))) = None /\
  queue (fst r) = [] /\ waiting (fst r) = [].
Proof.
  intros s h sh sid rid u um Hu Hq Hqu Hw Hk H1 H2 Hal r. subst r.
  unfold step, apply. destruct Hu as [Hg [Hd [Hdy [Hsf Hb]]]]. rewrite Hd. unfold close_msg_of. rewrite Hk.
  set (s0 := upd_unsubw _ _).
  rewrite (enqueue_tagged_room s0 (MSubClosed sid) (Some h) Hqu Hw Hq).
  set (s1 := frame _ _ _ _).
  assert (Hu1 : ungated s1) by (unfold ungated; auto).
  assert (Hq1 : (0 < qcap s1)%nat) by exact Hq.
  destruct (settle_sub_closed s1 sid rid u sh um Hu1 Hq1 eq_refl eq_refl H1 H2) as [E [Hwi [Hsu [Hch Hgo]]]].
  destruct (settle_quiescent s1 Hu1 Hq1) as [Hq0 [Hw0 _]].
  set (D := frame (fst (do_unsubscribe s1 sid)) [] [] (unsubw s1)) in *.
  assert (Hdone : unsub_done D (h, sh, true) = true).
  { unfold unsub_done. rewrite Hch. destruct (chan_of s1 sh); reflexivity. }
  assert (Hcomp : complete D h CDone = [OComplete h CDone]).
  { unfold complete, alive. rewrite Hgo. change (gone s1) with (gone s). unfold alive in Hal. now rewrite Hal. }
  destruct (settle s1) as [s2 o2]. cbn [fst snd app] in *. apply (f_equal snd) in E. cbn [snd] in E. subst o2.
  split; [exact Hwi|]. split; [|split; [|auto]].
  - right. unfold finish_unsubs. cbn [snd]. apply in_flat_map. exists (h, sh, true). split.
    + apply filter_In. split; [|exact Hdone]. apply in_mark_admitted.
    + rewrite Hcomp. now left.
  - intro Hun. f_equal. unfold finish_unsubs. cbn [snd].
    assert (HU : unsubw D = [(h, sh, true)]).
    { cbn. rewrite Hun. cbn. now rewrite N.eqb_refl. }
    rewrite HU. cbn [filter]. rewrite Hdone. cbn [flat_map]. rewrite Hcomp. reflexivity.
Qed.

(* C05_drop_unsubscribes_exactly_once *)
Theorem drop_unsubscribes_once : forall s sh sid c rid u ch um,
  ungated s -> (0 < qcap s)%nat -> queue s = [] -> waiting s = [] ->
  alookup N.eqb sh (subkind s) = Some (inl sid) -> chan_of s sh = Some c ->
  alookup subid_eqb sid (subs (m s)) = Some rid -> req_lookup rid (m s) = Some (KSub u ch um) ->
  let r := fst (step s (FDrop sh)) in
  wires_of (snd r) = [unsub_request s u um sid] /\
  (unsubw s = [] -> snd r = [OWire (unsub_request s u um sid)]) /\
  alookup subid_eqb sid (subs (m (fst r))) = None /\
  queue (fst r) = [] /\ waiting (fst r) = [].
Proof.
  intros s sh sid c rid u ch um Hu Hq Hqu Hw Hk Hc H1 H2 r. subst r.
  unfold step, apply. destruct Hu as [Hg [Hd [Hdy [Hsf Hb]]]]. rewrite Hd. unfold close_msg_of. rewrite Hk, Hc.
  set (s0 := set_chan _ _ _).
  rewrite (try_enqueue_room s0 (MSubClosed sid) Hqu Hw Hq).
  set (s1 := frame _ _ _ _).
  assert (Hu1 : ungated s1) by (unfold ungated; auto).
  assert (Hq1 : (0 < qcap s1)%nat) by exact Hq.
  destruct (settle_sub_closed s1 sid rid u ch um Hu1 Hq1 eq_refl eq_refl H1 H2) as [E [Hwi [Hsu _]]].
  destruct (settle_quiescent s1 Hu1 Hq1) as [Hq0 [Hw0 _]].
  destruct (settle s1) as [s2 o2]. cbn [fst snd app] in *.
  split; [exact Hwi|]. split; [|auto].
  intro Hun. apply (f_equal snd) in E. cbn [snd] in E. rewrite E, finish_unsubs_nil; [reflexivity|exact Hun].
Qed.

(* ================================================================== Part F: the dispatch read from the source *)
From JV Require Import Model.ClientDispatch Gen.ClientDispatchGen.

(* the dispatch d with the readers of its two tables tried in the order rs (each reader keeps the arm it has in d) *)
Definition reorder_readers (rs : list reader) (d : dispatch) : dispatch :=
  {| d_first := d_first d; d_first_default := d_first_default d;
     d_single := flat_map (fun r => match single_action r (d_single d) with Some a => [(r, a)] | None => [] end) rs;
     d_single_no_reader := d_single_no_reader d;
     d_elem := flat_map (fun r => match elem_action r (d_elem d) with Some (a, g) => [(r, a, g)] | None => [] end) rs;
     d_elem_no_reader := d_elem_no_reader d;
     d_post := d_post d |}.

(* the read task on one transport message, under a given dispatch *)
Definition read_with (d : dispatch) (s : st) (raw : bytes) : rres := handle_back_with d s (classify_frame_with d raw).

Definition ow_push : bytes := b#"{""jsonrpc"":""2.0"",""method"":""sub"",""params"":{""subscription"":7,""result"":1}}".
Definition ow_state : st :=
  fst (run (init false 4 4 false)
         [FSubscribe 1 b#"sub" b#"unsub" None; Back b#"{""jsonrpc"":""2.0"",""id"":0,""result"":7}"]).
Definition ow_array : bytes := x5b :: ow_push ++ [x5d].

(* C05_dispatch_order_matters: subscription 7 is active with an empty stream (channel 1).  With the dispatch read from the
   source its notification -- alone or as the element of an array -- lands in that stream.  With the same arms but
   Notification tried before SubscriptionResponse the same bytes are a plain notification for method "sub" (nobody
   registered for it): the read task answers Ok and the stream stays empty. *)
Theorem dispatch_order_matters :
  let d_swapped := reorder_readers [TryResponse; TryNotification; TrySubResponse; TrySubError] client_dispatch in
  exists (s : st) (raw : bytes) (sid : subid) (ch : handle) (c : chan) (item : bytes),
    sub_chan s sid = Some ch /\ chan_of s ch = Some c /\ accepts c /\
    classify_frame raw = FSingle (ISubNotif b#"sub" sid item) /\
    (exists s1, read_with client_dispatch s raw = ROk s1 [] /\ chan_of s1 ch = Some (push_buf c item)) /\
    (exists s1, read_with client_dispatch s (x5b :: raw ++ [x5d]) = ROk s1 [] /\ chan_of s1 ch = Some (push_buf c item)) /\
    (exists s2, read_with d_swapped s raw = ROk s2 [] /\ chan_of s2 ch = Some c) /\
    (exists s2, read_with d_swapped s (x5b :: raw ++ [x5d]) = ROk s2 [] /\ chan_of s2 ch = Some c).
Proof.
  exists ow_state, ow_push, (SubNum 7), 1, (new_chan 4), b#"1".
  vm_compute. repeat split; try (eexists; split; reflexivity); auto.
Qed.

(* C05_array_close_is_pushed.  The loop over a concatenation, for any dispatch ... *)
Lemma array_run_with_app d : forall pre post s acc rng got,
  array_run_with d s (pre ++ post) acc rng got =
  match array_run_with d s pre acc rng got with
  | inl (s1, acc1, rng1, got1) => array_run_with d s1 post acc1 rng1 got1
  | inr r => inr r
  end.
Proof.
  induction pre as [|x pre IH]; intros post s acc rng got; [reflexivity|].
  cbn [app array_run_with]. destruct (elem_step d s x acc rng got) as [[[[s1 a1] r1] g1]|r]; [apply IH | reflexivity].
Qed.

(* ... and one subscription notification under the dispatch read from the source: whatever `sub_deliver` did -- including
   asking for the subscription to be closed (C05_refused_item_requests_unsubscribe) -- the loop goes on *)
Lemma array_run_sub_notif s me sid p post acc rng got :
  array_run s (ISubNotif me sid p :: post) acc rng got = array_run (sub_deliver s sid p) post acc rng true.
Proof.
  unfold array_run. cbn [array_run_with]. unfold elem_step. cbn [d_elem client_dispatch reader_of].
  destruct elem_actions_now as (_ & -> & _). reflexivity.
Qed.

Theorem array_close_is_pushed : forall s pre me sid p post acc rng got,
  array_run s (pre ++ ISubNotif me sid p :: post) acc rng got =
  match array_run s pre acc rng got with
  | inl (s1, acc1, rng1, got1) => array_run (sub_deliver s1 sid p) post acc1 rng1 true
  | inr r => inr r
  end.
Proof.
  intros. unfold array_run at 1 2. rewrite array_run_with_app.
  destruct (array_run_with client_dispatch s pre acc rng got) as [[[[s1 a1] r1] g1]|r]; [|reflexivity].
  apply array_run_sub_notif.
Qed.
