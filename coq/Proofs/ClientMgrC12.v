(* C12 (WebSocket / async client side): the batch fill loop of Model/ClientMgr.v is positional.
   `fill` is the loop of `batch_response`; `last_with k rs` is the last response of the reply that carries id k
   (after the code's own id normalisation `id_as_number`); `resps ms` are the responses of an array frame. *)
From Coq Require Import List NArith ZArith Bool Lia Permutation.
From JV Require Import Base.Bytes Base.Dec Model.Wire Model.ClientMgr Model.HttpBatch.
From JV Require Import Proofs.ClientDispatchFacts.
From JV Require Proofs.ClientMgrInv.
Import ListNotations.
Local Open Scope N_scope.
Local Arguments N.add : simpl never.
Local Arguments N.sub : simpl never.
Local Arguments N.mul : simpl never.
Local Arguments N.ltb : simpl never.
Local Arguments N.leb : simpl never.
Local Arguments N.eqb : simpl never.

(* ---------- vocabulary ---------- *)
Definition rid_num (r : response) : option N := id_as_number (rs_id r).

Definition fill (lo : N) (rs slots : list response) : list response :=
  fold_left (fun acc r => match id_as_number (rs_id r) with
                          | Some n => set_nth (N.to_nat (n - lo)) r acc
                          | None => acc end) rs slots.

Definition has_id (k : N) (r : response) : bool :=
  match rid_num r with Some n => n =? k | None => false end.

Definition last_with (k : N) (rs : list response) : option response := find (has_id k) (rev rs).

Definition entry_of (lo : N) (rs : list response) (j : nat) : response :=
  match last_with (lo + N.of_nat j) rs with Some r => r | None => placeholder end.

Definition resps (ms : list inmsg) : list response :=
  flat_map (fun x => match x with IResp r => [r] | _ => [] end) ms.

(* ---------- set_nth ---------- *)
Lemma set_nth_length {A} (x : A) : forall n l, length (set_nth n x l) = length l.
Proof. induction n; intros [|y l]; simpl; auto. Qed.

Lemma nth_set_nth {A} (x d : A) : forall k l j,
  nth j (set_nth k x l) d = if (Nat.eqb j k && Nat.ltb k (length l))%bool then x else nth j l d.
Proof.
  induction k; intros [|y l] j; simpl.
  - destruct j; simpl; rewrite ?andb_false_r; reflexivity.
  - destruct j; reflexivity.
  - destruct j; simpl; rewrite ?andb_false_r; reflexivity.
  - destruct j; simpl; [reflexivity|]. rewrite IHk. reflexivity.
Qed.

(* ---------- the fill loop ---------- *)
Lemma fill_app lo rs1 rs2 slots : fill lo (rs1 ++ rs2) slots = fill lo rs2 (fill lo rs1 slots).
Proof. unfold fill. apply fold_left_app. Qed.

Lemma fill_length lo : forall rs slots, length (fill lo rs slots) = length slots.
Proof.
  induction rs as [|r rs IH]; intro slots; [reflexivity|].
  unfold fill in *. simpl. rewrite IH. destruct (id_as_number (rs_id r)); [apply set_nth_length | reflexivity].
Qed.

Lemma last_with_snoc k rs r : last_with k (rs ++ [r]) = if has_id k r then Some r else last_with k rs.
Proof. unfold last_with. rewrite rev_app_distr. reflexivity. Qed.

(* entry j of the result is the last response carrying id lo+j, else what was in the slot *)
Lemma fill_spec lo d : forall rs slots,
  (forall r n, In r rs -> rid_num r = Some n -> lo <= n) ->
  forall j, (j < length slots)%nat ->
  nth j (fill lo rs slots) d = match last_with (lo + N.of_nat j) rs with Some r => r | None => nth j slots d end.
Proof.
  induction rs as [|r rs IH] using rev_ind; intros slots Hge j Hj; [reflexivity|].
  rewrite fill_app, last_with_snoc. unfold has_id.
  assert (Hge' : forall r n, In r rs -> rid_num r = Some n -> lo <= n).
  { intros r0 n0 Hin. apply Hge. apply in_or_app. now left. }
  specialize (IH slots Hge' j Hj).
  assert (Hr := Hge r). unfold rid_num in *.
  unfold fill at 1. simpl.
  destruct (id_as_number (rs_id r)) as [n|] eqn:En; [|exact IH].
  assert (Hn : lo <= n) by (apply Hr; [apply in_or_app; right; now left | reflexivity]).
  rewrite nth_set_nth, fill_length.
  destruct (n =? lo + N.of_nat j) eqn:E.
  - apply N.eqb_eq in E. subst n.
    replace (N.to_nat (lo + N.of_nat j - lo)) with j by lia.
    rewrite Nat.eqb_refl. simpl. apply Nat.ltb_lt in Hj. rewrite Hj. reflexivity.
  - apply N.eqb_neq in E.
    replace (Nat.eqb j (N.to_nat (n - lo))) with false; [exact IH|].
    symmetry. apply Nat.eqb_neq. lia.
Qed.

Lemma nth_repeat_ph j n : nth j (repeat placeholder n) placeholder = placeholder.
Proof. revert j; induction n; intros [|j]; simpl; auto. Qed.

Lemma find_has_id k l r : find (has_id k) l = Some r -> In r l /\ rid_num r = Some k.
Proof.
  intro H. apply find_some in H as [Hin Hh]. split; [exact Hin|].
  unfold has_id in Hh. destruct (rid_num r) as [n|]; [|discriminate]. apply N.eqb_eq in Hh. now subst.
Qed.

Lemma last_with_some k rs r : last_with k rs = Some r -> In r rs /\ rid_num r = Some k.
Proof. intro H. apply find_has_id in H as [H1 H2]. split; [now apply in_rev|exact H2]. Qed.

Lemma last_with_none k rs : last_with k rs = None -> forall r, In r rs -> rid_num r <> Some k.
Proof.
  intros H r Hin E. unfold last_with in H.
  assert (Hh := find_none _ _ H r). rewrite <- in_rev in Hh. specialize (Hh Hin).
  unfold has_id in Hh. rewrite E, N.eqb_refl in Hh. discriminate.
Qed.

(* the slots of a batch of n entries starting at lo *)
Definition filled_of (lo : N) (n : nat) (rs : list response) : list response := fill lo rs (repeat placeholder n).

Lemma filled_length lo n rs : length (filled_of lo n rs) = n.
Proof. unfold filled_of. rewrite fill_length. apply repeat_length. Qed.

Lemma filled_entry lo n rs :
  (forall r k, In r rs -> rid_num r = Some k -> lo <= k) ->
  forall j, (j < n)%nat -> nth j (filled_of lo n rs) placeholder = entry_of lo rs j.
Proof.
  intros Hge j Hj. unfold filled_of, entry_of.
  rewrite (fill_spec lo placeholder rs _ Hge j) by (now rewrite repeat_length).
  rewrite nth_repeat_ph. reflexivity.
Qed.

Lemma entry_cases lo rs j :
  (entry_of lo rs j = placeholder /\ forall r, In r rs -> rid_num r <> Some (lo + N.of_nat j)) \/
  (exists r, In r rs /\ rid_num r = Some (lo + N.of_nat j) /\ entry_of lo rs j = r).
Proof.
  unfold entry_of. destruct (last_with (lo + N.of_nat j) rs) as [r|] eqn:E.
  - right. exists r. apply last_with_some in E as [H1 H2]. auto.
  - left. split; [reflexivity|]. now apply last_with_none.
Qed.

(* ---------- batch_response ---------- *)
Lemma batch_response_eq s rs lo hi h :
  alookup range_eqb (lo, hi) (batches (m s)) = Some h ->
  batch_response s rs lo hi =
  ROk (upd_m s (set_batches (m s) (aremove range_eqb (lo, hi) (batches (m s)))))
      (complete s h (CBatch (filled_of lo (N.to_nat (hi - lo)) rs))).
Proof. intro H. unfold batch_response. rewrite H. reflexivity. Qed.

Lemma batch_response_unknown s rs lo hi :
  alookup range_eqb (lo, hi) (batches (m s)) = None -> batch_response s rs lo hi = RFatal s [] FNotPending.
Proof. intro H. unfold batch_response. rewrite H. reflexivity. Qed.

Theorem filled_positional : forall s rs lo hi h,
  alookup range_eqb (lo, hi) (batches (m s)) = Some h ->
  (forall r k, In r rs -> id_as_number (rs_id r) = Some k -> lo <= k) ->
  exists s' filled,
    batch_response s rs lo hi = ROk s' (complete s h (CBatch filled)) /\
    length filled = N.to_nat (hi - lo) /\
    forall j, (j < N.to_nat (hi - lo))%nat ->
      (nth j filled placeholder = placeholder /\
         forall r, In r rs -> id_as_number (rs_id r) <> Some (lo + N.of_nat j)) \/
      (exists r, In r rs /\ id_as_number (rs_id r) = Some (lo + N.of_nat j) /\ nth j filled placeholder = r).
Proof.
  intros s rs lo hi h Hl Hge. eexists _, _. split; [apply batch_response_eq; exact Hl|].
  split; [apply filled_length|]. intros j Hj. rewrite (filled_entry lo _ rs Hge j Hj). apply entry_cases.
Qed.

(* the hypothesis on the ids cannot be dropped: `batch_response` is only ever called with lo = the least id of rs *)
Definition resp_of (n : N) : response := {| rs_jsonrpc := true; rs_payload := PResult [x31]; rs_id := IdNum n |}.
Definition st_with_batch (lo hi h : N) : st :=
  upd_m (init false 4 4 false) (set_batches empty_mgr [((lo, hi), h)]).
Lemma filled_positional_needs_lower_bound :
  batch_response (st_with_batch 1 2 7) [resp_of 0] 1 2
  = ROk (upd_m (st_with_batch 1 2 7) (set_batches (m (st_with_batch 1 2 7)) [])) [OComplete 7 (CBatch [resp_of 0])].
Proof. vm_compute. reflexivity. Qed.

(* ---------- complete replies: any permutation ---------- *)
Lemma NoDup_map_inj_in {A B} (f : A -> B) : forall l x y, NoDup (map f l) -> In x l -> In y l -> f x = f y -> x = y.
Proof.
  induction l as [|a l IH]; intros x y Hnd Hx Hy E; [destruct Hx|].
  simpl in Hnd. inversion Hnd as [|? ? Hn Hnd']; subst.
  destruct Hx as [<-|Hx], Hy as [<-|Hy]; auto.
  - exfalso. apply Hn. rewrite E. now apply in_map.
  - exfalso. apply Hn. rewrite <- E. now apply in_map.
Qed.

Lemma find_unique {A} (p : A -> bool) r : forall l,
  (forall x, In x l -> p x = true -> x = r) -> In r l -> p r = true -> find p l = Some r.
Proof.
  induction l as [|a l IH]; intros Hu Hin Hp; [destruct Hin|]. simpl.
  destruct (p a) eqn:Ea.
  - f_equal. apply Hu; [now left|exact Ea].
  - apply IH; [intros x Hx; apply Hu; now right | | exact Hp].
    destruct Hin as [->|Hin]; [congruence|exact Hin].
Qed.

Lemma last_with_unique k rs r :
  NoDup (map rid_num rs) -> In r rs -> rid_num r = Some k -> last_with k rs = Some r.
Proof.
  intros Hnd Hin E. unfold last_with. apply find_unique.
  - intros x Hx Hp. apply in_rev in Hx. unfold has_id in Hp.
    destruct (rid_num x) as [n|] eqn:Ex; [|discriminate]. apply N.eqb_eq in Hp. subst n.
    apply (NoDup_map_inj_in rid_num rs); auto. congruence.
  - now apply in_rev in Hin.
  - unfold has_id. rewrite E. apply N.eqb_refl.
Qed.

Definition ids_of_range (lo : N) (n : nat) : list (option N) := map (fun j => Some (lo + N.of_nat j)) (seq 0 n).

Lemma ids_of_range_NoDup lo n : NoDup (ids_of_range lo n).
Proof.
  unfold ids_of_range. apply FinFun.Injective_map_NoDup; [|apply seq_NoDup].
  intros a b E. injection E. lia.
Qed.

Lemma in_ids_of_range lo n x : In x (ids_of_range lo n) <-> exists j, (j < n)%nat /\ x = Some (lo + N.of_nat j).
Proof.
  unfold ids_of_range. rewrite in_map_iff. split.
  - intros [j [E Hj]]. apply in_seq in Hj. exists j. split; [lia|now symmetry].
  - intros [j [Hj E]]. exists j. split; [now symmetry|]. apply in_seq. lia.
Qed.

Lemma filled_complete lo n rs :
  Permutation (map rid_num rs) (ids_of_range lo n) ->
  (forall r k, In r rs -> rid_num r = Some k -> lo <= k < lo + N.of_nat n) /\
  (forall j r, (j < n)%nat -> In r rs -> rid_num r = Some (lo + N.of_nat j) ->
     nth j (filled_of lo n rs) placeholder = r) /\
  (forall j, (j < n)%nat ->
     exists r, In r rs /\ rid_num r = Some (lo + N.of_nat j) /\ nth j (filled_of lo n rs) placeholder = r) /\
  Permutation (filled_of lo n rs) rs.
Proof.
  intro Hp.
  assert (Hnd : NoDup (map rid_num rs)).
  { apply (Permutation_NoDup (Permutation_sym Hp)). apply ids_of_range_NoDup. }
  assert (Hin : forall r k, In r rs -> rid_num r = Some k -> lo <= k < lo + N.of_nat n).
  { intros r k Hin E. assert (Hi : In (rid_num r) (ids_of_range lo n)).
    { apply (Permutation_in _ Hp). now apply in_map. }
    apply in_ids_of_range in Hi as [j [Hj Ej]]. rewrite E in Ej. injection Ej. lia. }
  assert (Hge : forall r k, In r rs -> rid_num r = Some k -> lo <= k).
  { intros r k H1 H2. apply (Hin r k H1 H2). }
  assert (Hex : forall j, (j < n)%nat -> exists r, In r rs /\ rid_num r = Some (lo + N.of_nat j)).
  { intros j Hj. assert (Hi : In (Some (lo + N.of_nat j)) (map rid_num rs)).
    { apply (Permutation_in _ (Permutation_sym Hp)). apply in_ids_of_range. eauto. }
    apply in_map_iff in Hi as [r [E Hi]]. eauto. }
  assert (Hpos : forall j r, (j < n)%nat -> In r rs -> rid_num r = Some (lo + N.of_nat j) ->
                 nth j (filled_of lo n rs) placeholder = r).
  { intros j r Hj Hi E. rewrite (filled_entry lo n rs Hge j Hj). unfold entry_of.
    now rewrite (last_with_unique _ rs r Hnd Hi E). }
  split; [exact Hin|]. split; [exact Hpos|]. split.
  - intros j Hj. destruct (Hex j Hj) as [r [Hi E]]. exists r. auto.
  - (* filled is rs rearranged *)
    apply NoDup_Permutation_bis.
    + (* NoDup filled: its ids are pairwise distinct *)
      apply (NoDup_nth _ placeholder). rewrite filled_length. intros i j Hi Hj E.
      destruct (Hex i Hi) as [ri [Hini Ei]], (Hex j Hj) as [rj [Hinj Ej]].
      rewrite (Hpos i ri Hi Hini Ei), (Hpos j rj Hj Hinj Ej) in E. subst rj.
      rewrite Ei in Ej. injection Ej. lia.
    + rewrite filled_length. apply Permutation_length in Hp. unfold ids_of_range in Hp.
      rewrite !map_length, seq_length in Hp. lia.
    + intros x Hx. apply (In_nth _ _ placeholder) in Hx as [j [Hj E]]. rewrite filled_length in Hj.
      destruct (Hex j Hj) as [r [Hi Er]]. rewrite (Hpos j r Hj Hi Er) in E. now subst.
Qed.

Theorem complete_reply_positional : forall s rs lo hi h,
  alookup range_eqb (lo, hi) (batches (m s)) = Some h ->
  Permutation (map (fun r => id_as_number (rs_id r)) rs) (ids_of_range lo (N.to_nat (hi - lo))) ->
  exists s' filled,
    batch_response s rs lo hi = ROk s' (complete s h (CBatch filled)) /\
    length filled = N.to_nat (hi - lo) /\
    (forall j r, (j < N.to_nat (hi - lo))%nat -> In r rs -> id_as_number (rs_id r) = Some (lo + N.of_nat j) ->
       nth j filled placeholder = r) /\
    (forall j, (j < N.to_nat (hi - lo))%nat ->
       exists r, In r rs /\ id_as_number (rs_id r) = Some (lo + N.of_nat j) /\ nth j filled placeholder = r) /\
    Permutation filled rs.
Proof.
  intros s rs lo hi h Hl Hp.
  destruct (filled_complete lo _ rs Hp) as [_ [H1 [H2 H3]]].
  eexists _, _. split; [apply batch_response_eq; exact Hl|].
  split; [apply filled_length|]. split; [exact H1|]. split; [exact H2|exact H3].
Qed.

(* ---------- counts ---------- *)
Lemma filter_length_le {A} (p : A -> bool) : forall l, (length (filter p l) <= length l)%nat.
Proof. induction l as [|a l IH]; simpl; [lia|]. destruct (p a); simpl; lia. Qed.

Lemma count_ok_le l : (count_ok l <= length l)%nat.
Proof. unfold count_ok. apply filter_length_le. Qed.

Theorem counts_match : forall filled : list response, (count_ok filled + count_err filled = length filled)%nat.
Proof. intro l. unfold count_err. pose proof (count_ok_le l). lia. Qed.

Lemma count_ok_spec l : count_ok l = length (filter is_success l).
Proof. reflexivity. Qed.

Lemma count_err_spec : forall l, count_err l = length (filter (fun r => negb (is_success r)) l).
Proof.
  intro l. unfold count_err, count_ok. induction l as [|r l IH]; [reflexivity|]. cbn [filter length].
  pose proof (filter_length_le is_success l).
  destruct (is_success r); cbn [negb length]; lia.
Qed.

(* ---------- the array loop: which range is looked up ---------- *)
Definition rng_ok (rs : list response) (rng : option (N * N)) : Prop :=
  match rng with
  | None => rs = []
  | Some (lo, hi) =>
    (forall r, In r rs -> exists n, rid_num r = Some n /\ lo <= n <= hi) /\
    (exists r, In r rs /\ rid_num r = Some lo) /\
    (exists r, In r rs /\ rid_num r = Some hi)
  end.

Lemma array_loop_rng : forall ms s acc rng got s' rs rng' got',
  array_loop s ms acc rng got = inl (s', rs, rng', got') ->
  rng_ok acc rng -> rs = acc ++ resps ms /\ rng_ok rs rng'.
Proof.
  induction ms as [|x ms IH]; intros s acc rng got s' rs rng' got' H Hok.
  - simpl in H. injection H as <- <- <- <-. rewrite app_nil_r. auto.
  - destruct x as [r| me sid p | me sid p | me p |]; simpl in H; try discriminate;
      try (apply IH in H; [|exact Hok]; exact H).
    destruct (id_as_number (rs_id r)) as [n|] eqn:En; [|discriminate].
    apply IH in H.
    + destruct H as [-> H2]. split; [|exact H2]. simpl. now rewrite <- app_assoc.
    + unfold rid_num in *. destruct rng as [[lo hi]|]; simpl in *.
      * destruct Hok as [Hall [[rl [Hl El]] [rh [Hh Eh]]]].
        split; [|split].
        -- intros r0 Hin. apply in_app_or in Hin as [Hin|[<-|[]]].
           ++ destruct (Hall r0 Hin) as [k [Ek Hk]]. exists k. split; [exact Ek|].
              destruct (n <? lo) eqn:E1, (hi <? n) eqn:E2;
                try apply N.ltb_lt in E1; try apply N.ltb_lt in E2; lia.
           ++ exists n. split; [exact En|].
              destruct (n <? lo) eqn:E1, (hi <? n) eqn:E2;
                try apply N.ltb_lt in E1; try apply N.ltb_lt in E2;
                try apply N.ltb_ge in E1; try apply N.ltb_ge in E2; lia.
        -- destruct (n <? lo).
           ++ exists r. split; [apply in_or_app; right; now left|exact En].
           ++ exists rl. split; [apply in_or_app; now left|exact El].
        -- destruct (hi <? n).
           ++ exists r. split; [apply in_or_app; right; now left|exact En].
           ++ exists rh. split; [apply in_or_app; now left|exact Eh].
      * subst acc. simpl. split; [|split].
        -- intros r0 [<-|[]]. exists n. split; [exact En|lia].
        -- exists r. split; [now left|exact En].
        -- exists r. split; [now left|exact En].
Qed.

(* the tables of batches and the set of callers that gave up are not touched by the notifications of a frame *)
Ltac destr_all :=
  repeat match goal with
         | |- context [match ?x with _ => _ end] => destruct x eqn:?
         | |- context [if ?x then _ else _] => destruct x eqn:?
         end.

Lemma enqueue_m s x : m (enqueue s x) = m s. Proof. unfold enqueue, enqueue_tagged. destr_all; reflexivity. Qed.
Lemma enqueue_gone s x : gone (enqueue s x) = gone s. Proof. unfold enqueue, enqueue_tagged. destr_all; reflexivity. Qed.
Lemma enqueue_chans s x : chans (enqueue s x) = chans s. Proof. unfold enqueue, enqueue_tagged. destr_all; reflexivity. Qed.

Lemma sub_deliver_m s sid p : m (sub_deliver s sid p) = m s.
Proof. unfold sub_deliver, forward. destr_all; try rewrite enqueue_m; reflexivity. Qed.
Lemma sub_deliver_gone s sid p : gone (sub_deliver s sid p) = gone s.
Proof. unfold sub_deliver, forward. destr_all; try rewrite enqueue_gone; reflexivity. Qed.

Lemma release_reserved_batches u mm : batches (release_reserved u mm) = batches mm.
Proof. unfold release_reserved. destr_all; reflexivity. Qed.

Lemma drop_sink_m s h : m (drop_sink s h) = m s. Proof. unfold drop_sink. destr_all; reflexivity. Qed.
Lemma drop_sink_gone s h : gone (drop_sink s h) = gone s. Proof. unfold drop_sink. destr_all; reflexivity. Qed.

Lemma sub_close_batches s sid : batches (m (sub_close s sid)) = batches (m s).
Proof.
  unfold sub_close. destr_all; try reflexivity.
  rewrite drop_sink_m. cbn [m upd_m]. rewrite release_reserved_batches. reflexivity.
Qed.
Lemma sub_close_gone s sid : gone (sub_close s sid) = gone s.
Proof. unfold sub_close. destr_all; try reflexivity. rewrite drop_sink_gone. reflexivity. Qed.

Lemma notif_deliver_batches s me p : batches (m (notif_deliver s me p)) = batches (m s).
Proof. unfold notif_deliver. destr_all; try reflexivity; rewrite drop_sink_m; reflexivity. Qed.
Lemma notif_deliver_gone s me p : gone (notif_deliver s me p) = gone s.
Proof. unfold notif_deliver. destr_all; try reflexivity; rewrite drop_sink_gone; reflexivity. Qed.

Lemma array_loop_frame : forall ms s acc rng got s' rs rng' got',
  array_loop s ms acc rng got = inl (s', rs, rng', got') ->
  batches (m s') = batches (m s) /\ gone s' = gone s.
Proof.
  induction ms as [|x ms IH]; intros s acc rng got s' rs rng' got' H.
  - simpl in H. injection H as <- <- <- <-. auto.
  - destruct x as [r| me sid p | me sid p | me p |]; simpl in H; try discriminate.
    + destruct (id_as_number (rs_id r)); [|discriminate]. eapply IH; exact H.
    + apply IH in H as [H1 H2]. now rewrite H1, H2, sub_deliver_m, sub_deliver_gone.
    + apply IH in H as [H1 H2]. now rewrite H1, H2, sub_close_batches, sub_close_gone.
    + apply IH in H as [H1 H2]. now rewrite H1, H2, notif_deliver_batches, notif_deliver_gone.
Qed.

Lemma complete_gone s s' h r : gone s' = gone s -> complete s' h r = complete s h r.
Proof. intro H. unfold complete, alive. now rewrite H. Qed.

(* a frame with responses either completes exactly the pending batch whose key is [least id, greatest id + 1), every
   id of the frame lying in that range and both ends being attained, with the positional result; or nothing completes *)
Theorem array_reply_ok : forall s ms s1 o,
  handle_back s (FArray ms) = ROk s1 o -> resps ms <> [] ->
  exists lo hi h,
    alookup range_eqb (lo, hi) (batches (m s)) = Some h /\ lo < hi /\
    (forall r, In r (resps ms) -> exists k, id_as_number (rs_id r) = Some k /\ lo <= k < hi) /\
    (exists r, In r (resps ms) /\ id_as_number (rs_id r) = Some lo) /\
    (exists r, In r (resps ms) /\ id_as_number (rs_id r) = Some (hi - 1)) /\
    batches (m s1) = aremove range_eqb (lo, hi) (batches (m s)) /\
    let filled := filled_of lo (N.to_nat (hi - lo)) (resps ms) in
    o = complete s h (CBatch filled) /\
    length filled = N.to_nat (hi - lo) /\
    forall j, (j < N.to_nat (hi - lo))%nat -> nth j filled placeholder = entry_of lo (resps ms) j.
Proof.
  intros s ms s1 o H Hne. rewrite handle_back_now in H; unfold handle_back_ref in H.
  destruct (array_loop s ms [] None false) as [[[[s' rs] rng] got]|[s' f]] eqn:EL; [|discriminate].
  pose proof (array_loop_rng _ _ _ _ _ _ _ _ _ EL eq_refl) as [Hrs Hok]. simpl in Hrs. subst rs.
  pose proof (array_loop_frame _ _ _ _ _ _ _ _ _ EL) as [Hb Hg].
  destruct rng as [[lo hi]|]; [|simpl in Hok; contradiction].
  destruct (hi =? u64_max); [discriminate|].
  destruct Hok as [Hall [Hlo Hhi]]. unfold rid_num in *.
  destruct (alookup range_eqb (lo, hi + 1) (batches (m s'))) as [h|] eqn:El;
    [|rewrite (batch_response_unknown _ _ _ _ El) in H; discriminate].
  rewrite (batch_response_eq _ _ _ _ _ El) in H. injection H as <- <-.
  assert (Hlh : lo <= hi). { destruct Hlo as [r [Hin E]]. destruct (Hall r Hin) as [k [Ek Hk]]. lia. }
  exists lo, (hi + 1), h. rewrite <- Hb. split; [exact El|]. split; [lia|]. split; [|split; [|split; [|split]]].
  - intros r Hin. destruct (Hall r Hin) as [k [Ek Hk]]. exists k. split; [exact Ek|lia].
  - exact Hlo.
  - replace (hi + 1 - 1) with hi by lia. exact Hhi.
  - reflexivity.
  - cbv zeta. split; [apply complete_gone; exact Hg|]. split; [apply filled_length|].
    intros j Hj. apply filled_entry; [|exact Hj].
    intros r k Hin E. destruct (Hall r Hin) as [k' [Ek' Hk']]. unfold rid_num in E. rewrite E in Ek'.
    injection Ek' as <-. lia.
Qed.

(* ... and in every other case no caller is answered: the read task ends with an error *)
Theorem array_reply_fatal : forall s ms s1 o f,
  handle_back s (FArray ms) = RFatal s1 o f -> o = [] /\ batches (m s1) = batches (m s).
Proof.
  intros s ms s1 o f H. rewrite handle_back_now in H; unfold handle_back_ref in H.
  destruct (array_loop s ms [] None false) as [[[[s' rs] rng] got]|[s' f']] eqn:EL.
  - pose proof (array_loop_frame _ _ _ _ _ _ _ _ _ EL) as [Hb _].
    destruct rng as [[lo hi]|].
    + destruct (hi =? u64_max); [injection H as <- <- <-; auto|].
      unfold batch_response in H. destruct (alookup range_eqb (lo, hi + 1) (batches (m s'))); [discriminate|].
      injection H as <- <- <-; auto.
    + destruct got; [discriminate|]. injection H as <- <- <-; auto.
  - injection H as <- <- <-. split; [reflexivity|].
    (* the state returned with an error is the one reached so far *)
    clear -EL. revert s EL. generalize (@nil response) (@None (N * N)) false.
    induction ms as [|x ms IH]; intros acc rng got s EL; [discriminate|].
    destruct x as [r| me sid p | me sid p | me p |]; simpl in EL.
    + destruct (id_as_number (rs_id r)); [eapply IH; exact EL|]. injection EL as <- <-. reflexivity.
    + apply IH in EL. now rewrite EL, sub_deliver_m.
    + apply IH in EL. now rewrite EL, sub_close_batches.
    + apply IH in EL. now rewrite EL, notif_deliver_batches.
    + injection EL as <- <-. reflexivity.
Qed.

Theorem array_reply_unmatched : forall s ms lo hi,
  resps ms <> [] ->
  (forall r, In r (resps ms) -> exists k, id_as_number (rs_id r) = Some k /\ lo <= k <= hi) ->
  (exists r, In r (resps ms) /\ id_as_number (rs_id r) = Some lo) ->
  (exists r, In r (resps ms) /\ id_as_number (rs_id r) = Some hi) ->
  alookup range_eqb (lo, hi + 1) (batches (m s)) = None ->
  exists s1 f, handle_back s (FArray ms) = RFatal s1 [] f.
Proof.
  intros s ms lo hi Hne Hall [rl [Hl El]] [rh [Hh Eh]] Hnone.
  destruct (handle_back s (FArray ms)) as [s1 o|s1 o f] eqn:E.
  - exfalso. apply array_reply_ok in E; [|exact Hne].
    destruct E as [lo' [hi' [h [Hk [Hlt [Hall' [[r1 [H1 E1]] [[r2 [H2 E2]] _]]]]]]]].
    assert (lo' = lo).
    { destruct (Hall r1 H1) as [k [Ek Hk1]]. destruct (Hall' rl Hl) as [k' [Ek' Hk']].
      rewrite E1 in Ek. rewrite El in Ek'. injection Ek as <-. injection Ek' as <-. lia. }
    assert (hi' = hi + 1).
    { destruct (Hall r2 H2) as [k [Ek Hk1]]. destruct (Hall' rh Hh) as [k' [Ek' Hk']].
      rewrite E2 in Ek. rewrite Eh in Ek'. injection Ek as <-. injection Ek' as <-. lia. }
    subst. rewrite Hnone in Hk. discriminate.
  - apply array_reply_fatal in E as E'. destruct E' as [-> _]. eauto.
Qed.

Theorem never_shorter : forall s ms s1 o h filled,
  handle_back s (FArray ms) = ROk s1 o -> In (OComplete h (CBatch filled)) o ->
  exists lo hi, alookup range_eqb (lo, hi) (batches (m s)) = Some h /\ length filled = N.to_nat (hi - lo).
Proof.
  intros s ms s1 o h filled H Hin.
  destruct (resps ms) as [|r0 rs0] eqn:Er.
  - (* no responses: nothing is completed *)
    exfalso. rewrite handle_back_now in H; unfold handle_back_ref in H.
    destruct (array_loop s ms [] None false) as [[[[s' rs] rng] got]|[s' f]] eqn:EL; [|discriminate].
    pose proof (array_loop_rng _ _ _ _ _ _ _ _ _ EL eq_refl) as [Hrs Hok]. simpl in Hrs. rewrite Er in Hrs. subst rs.
    destruct rng as [[lo hi]|].
    + destruct Hok as [_ [[r [[] _]] _]].
    + destruct got; [|discriminate]. injection H as <- <-. destruct Hin.
  - apply array_reply_ok in H; [|rewrite Er; discriminate].
    destruct H as [lo [hi [h' [Hk [_ [_ [_ [_ [_ [Ho [Hlen _]]]]]]]]]]]. subst o.
    unfold complete in Hin. destruct (alive s h'); [|destruct Hin].
    destruct Hin as [E|[]]. injection E as <- <-. exists lo, hi. split; [exact Hk|exact Hlen].
Qed.

(* ---------- with pairwise disjoint pending ranges (an invariant of the client: Proofs/ClientMgrInv.v, ic_rng_disj) a
   reply that is accepted belongs entirely to the batch that owns any one of its ids ---------- *)
Definition ranges_disjoint (B : list ((N * N) * handle)) : Prop :=
  forall r1 r2, In r1 (map fst B) -> In r2 (map fst B) -> r1 = r2 \/ snd r1 <= fst r2 \/ snd r2 <= fst r1.

Lemma alookup_range_in lo hi h : forall B : list ((N * N) * handle),
  alookup range_eqb (lo, hi) B = Some h -> In (lo, hi) (map fst B).
Proof.
  induction B as [|[[a b] v] B IH]; [discriminate|]. simpl.
  destruct (range_eqb (lo, hi) (a, b)) eqn:E.
  - intros _. left. unfold range_eqb in E. simpl in E. apply andb_true_iff in E as [E1 E2].
    apply N.eqb_eq in E1. apply N.eqb_eq in E2. now subst.
  - intro H. right. now apply IH.
Qed.

Theorem reply_goes_to_owner : forall s ms s1 o r k loA hiA,
  handle_back s (FArray ms) = ROk s1 o -> ranges_disjoint (batches (m s)) ->
  In r (resps ms) -> id_as_number (rs_id r) = Some k ->
  In (loA, hiA) (map fst (batches (m s))) -> loA <= k < hiA ->
  exists h,
    alookup range_eqb (loA, hiA) (batches (m s)) = Some h /\
    (forall r', In r' (resps ms) -> exists k', id_as_number (rs_id r') = Some k' /\ loA <= k' < hiA) /\
    batches (m s1) = aremove range_eqb (loA, hiA) (batches (m s)) /\
    let filled := filled_of loA (N.to_nat (hiA - loA)) (resps ms) in
    o = complete s h (CBatch filled) /\
    length filled = N.to_nat (hiA - loA) /\
    forall j, (j < N.to_nat (hiA - loA))%nat -> nth j filled placeholder = entry_of loA (resps ms) j.
Proof.
  intros s ms s1 o r k loA hiA H Hd Hin Ek HA Hk.
  apply array_reply_ok in H; [|intro E; rewrite E in Hin; destruct Hin].
  destruct H as [lo [hi [h [Hl [Hlt [Hall [_ [_ [Hb Hrest]]]]]]]]].
  assert (E : (lo, hi) = (loA, hiA)).
  { destruct (Hd (lo, hi) (loA, hiA) (alookup_range_in _ _ _ _ Hl) HA) as [E|E]; [exact E|exfalso].
    destruct (Hall r Hin) as [k' [Ek' Hk']]. rewrite Ek in Ek'. injection Ek' as <-. simpl in E. lia. }
  injection E as -> ->. exists h. split; [exact Hl|]. split; [exact Hall|]. split; [exact Hb|exact Hrest].
Qed.

Theorem mixed_reply_fails : forall s ms r1 r2 k1 k2 lo1 hi1 lo2 hi2,
  ranges_disjoint (batches (m s)) ->
  In r1 (resps ms) -> id_as_number (rs_id r1) = Some k1 -> In (lo1, hi1) (map fst (batches (m s))) -> lo1 <= k1 < hi1 ->
  In r2 (resps ms) -> id_as_number (rs_id r2) = Some k2 -> In (lo2, hi2) (map fst (batches (m s))) -> lo2 <= k2 < hi2 ->
  (lo1, hi1) <> (lo2, hi2) ->
  exists s1 f, handle_back s (FArray ms) = RFatal s1 [] f.
Proof.
  intros s ms r1 r2 k1 k2 lo1 hi1 lo2 hi2 Hd Hi1 E1 HA1 Hk1 Hi2 E2 HA2 Hk2 Hne.
  destruct (handle_back s (FArray ms)) as [s1 o|s1 o f] eqn:E.
  - exfalso.
    destruct (reply_goes_to_owner _ _ _ _ _ _ _ _ E Hd Hi1 E1 HA1 Hk1) as [_ [_ [Hall _]]].
    destruct (Hall r2 Hi2) as [k' [Ek' Hk']]. rewrite E2 in Ek'. injection Ek' as <-.
    destruct (Hd _ _ HA1 HA2) as [Heq|Hdis]; [contradiction|]. simpl in Hdis. lia.
  - apply array_reply_fatal in E as E'. destruct E' as [-> _]. eauto.
Qed.

(* ---------- ... which holds in every reachable state (Proofs/ClientMgrInv.v: `Inv`, `init_inv`, `run_inv`) ---------- *)
Lemma Inv_ranges_disjoint s : ClientMgrInv.Inv s -> ranges_disjoint (batches (m s)).
Proof.
  intros HI r1 r2 H1 H2. destruct (ClientMgrInv.inv_core s HI) as [Hids _].
  destruct (ClientMgrInv.ic_rng_disj _ _ _ _ _ Hids r1 r2) as [E|E].
  - unfold ClientMgrInv.rngs_of. apply in_or_app. now left.
  - unfold ClientMgrInv.rngs_of. apply in_or_app. now left.
  - now left.
  - right. exact E.
Qed.

Theorem reachable_ranges_disjoint : forall idstr qc bc gate es,
  ranges_disjoint (batches (m (fst (run (init idstr qc bc gate) es)))).
Proof. intros. apply Inv_ranges_disjoint, ClientMgrInv.run_inv, ClientMgrInv.init_inv. Qed.

Theorem reply_goes_to_owner_reachable : forall idstr qc bc gate es ms s1 o r k loA hiA,
  let s := fst (run (init idstr qc bc gate) es) in
  handle_back s (FArray ms) = ROk s1 o ->
  In r (resps ms) -> id_as_number (rs_id r) = Some k ->
  In (loA, hiA) (map fst (batches (m s))) -> loA <= k < hiA ->
  exists h,
    alookup range_eqb (loA, hiA) (batches (m s)) = Some h /\
    (forall r', In r' (resps ms) -> exists k', id_as_number (rs_id r') = Some k' /\ loA <= k' < hiA) /\
    batches (m s1) = aremove range_eqb (loA, hiA) (batches (m s)) /\
    let filled := filled_of loA (N.to_nat (hiA - loA)) (resps ms) in
    o = complete s h (CBatch filled) /\
    length filled = N.to_nat (hiA - loA) /\
    forall j, (j < N.to_nat (hiA - loA))%nat -> nth j filled placeholder = entry_of loA (resps ms) j.
Proof.
  intros idstr qc bc gate es ms s1 o r k loA hiA s H. 
  exact (reply_goes_to_owner s ms s1 o r k loA hiA H (reachable_ranges_disjoint idstr qc bc gate es)).
Qed.

Theorem mixed_reply_fails_reachable : forall idstr qc bc gate es ms r1 r2 k1 k2 lo1 hi1 lo2 hi2,
  let s := fst (run (init idstr qc bc gate) es) in
  In r1 (resps ms) -> id_as_number (rs_id r1) = Some k1 -> In (lo1, hi1) (map fst (batches (m s))) -> lo1 <= k1 < hi1 ->
  In r2 (resps ms) -> id_as_number (rs_id r2) = Some k2 -> In (lo2, hi2) (map fst (batches (m s))) -> lo2 <= k2 < hi2 ->
  (lo1, hi1) <> (lo2, hi2) ->
  exists s1 f, handle_back s (FArray ms) = RFatal s1 [] f.
Proof.
  intros idstr qc bc gate es ms r1 r2 k1 k2 lo1 hi1 lo2 hi2 s.
  exact (mixed_reply_fails s ms r1 r2 k1 k2 lo1 hi1 lo2 hi2 (reachable_ranges_disjoint idstr qc bc gate es)).
Qed.
