(* C18: the client's bookkeeping returns to empty.
   Part A: the invariant in reachable states, spelled out; quiescence; batches; tombstones.
   Part B: identifiers of finished work are never inserted again.
   Part C: closed cycles return the table sizes. *)
From JV Require Import Base.Bytes Base.Dec Base.Utf8 Json.Json Model.Wire Model.ClientMgr Proofs.DecFacts
                       Proofs.ClientMgrInv Proofs.ClientMgrC03.
From JV Require Import Proofs.ClientDispatchFacts.
From Coq Require Import Permutation.
Local Open Scope N_scope.
Arguments N.add : simpl never.
Arguments N.sub : simpl never.
Arguments N.mul : simpl never.
Arguments N.ltb : simpl never.
Arguments N.leb : simpl never.
Arguments N.eqb : simpl never.

(* ------------------------------------------------------------------------------------------- *)
(* Part A                                                                                        *)
(* ------------------------------------------------------------------------------------------- *)

Theorem reachable_inv idstr qc bc gate es : Inv (fst (run (init idstr qc bc gate) es)).
Proof. apply run_inv. apply init_inv. Qed.

(* ids carried by the queued front-to-back messages, and their batch ranges *)
Definition queued_ids (s : st) : list id := qids (qmsgs s).
Definition queued_ranges (s : st) : list (N * N) := qrngs (qmsgs s).
Definition in_range (r : N * N) (n : N) : Prop := fst r <= n /\ n < snd r.

(* the invariant in the vocabulary of the model *)
Record Spelled (s : st) : Prop := {
  (* I1 *)
  sp_keys_requests : NoDup (map fst (requests (m s)));
  sp_keys_subs : NoDup (map fst (subs (m s)));
  sp_keys_batches : NoDup (map fst (batches (m s)));
  sp_keys_nhandlers : NoDup (map fst (nhandlers (m s)));
  sp_keys_chans : NoDup (map fst (chans s));
  (* I2 *)
  sp_ids_allocated : forall i, In i (map fst (requests (m s)) ++ queued_ids s) -> exists n, n < next_id s /\ i = mk_id s n;
  sp_ids_distinct : NoDup (map fst (requests (m s)) ++ queued_ids s);
  sp_ranges_ok : forall r, In r (map fst (batches (m s)) ++ queued_ranges s) -> fst r < snd r /\ snd r <= next_id s;
  sp_ranges_distinct : NoDup (map fst (batches (m s)) ++ queued_ranges s);
  sp_ranges_disjoint : forall r1 r2, In r1 (map fst (batches (m s)) ++ queued_ranges s) ->
      In r2 (map fst (batches (m s)) ++ queued_ranges s) -> r1 <> r2 -> forall n, ~ (in_range r1 n /\ in_range r2 n);
  sp_ids_off_ranges : forall n r, In (mk_id s n) (map fst (requests (m s)) ++ queued_ids s) ->
      In r (map fst (batches (m s)) ++ queued_ranges s) -> ~ in_range r n;
  (* I3 *)
  sp_subs_iff : forall sid i, In (sid, i) (subs (m s)) <-> (exists u ch um, req_lookup i (m s) = Some (KSub u ch um)) /\ alookup subid_eqb sid (subs (m s)) = Some i;
  sp_sub_named : forall i u ch um, req_lookup i (m s) = Some (KSub u ch um) -> exists sid, In (sid, i) (subs (m s));
  sp_subs_one : NoDup (map snd (subs (m s)));
  (* I4 *)
  sp_reserved : forall i k u, req_lookup i (m s) = Some k -> refs k = Some u ->
      req_lookup u (m s) = Some (KCall None) \/ req_lookup u (m s) = None;
  sp_call_none : forall j, req_lookup j (m s) = Some (KCall None) ->
      exists i k, req_lookup i (m s) = Some k /\ refs k = Some j;
  sp_unacked : forall u, In u (unacked s) <-> exists j, req_lookup u (m s) = Some (KUnsubP j);
  (* I5 *)
  sp_dead : dead s = true -> m s = empty_mgr /\ queue s = [] /\ waiting s = []
}.

Lemma Inv_spelled s : Inv s -> Spelled s.
Proof.
  intros [(H1 & H2 & H3) h2 h3 h4]. pose proof (IdsC_nd_keys _ _ _ _ _ H1) as ND.
  pose proof H1 as [a1 a2 a3 a4 a5 a6 a7]. pose proof H2 as [b1 b2 b3 b4 b5 b6 b7 b8 b9].
  assert (LK : forall i k, req_lookup i (m s) = Some k <-> In (i, k) (requests (m s))).
  { intros i k. split; [apply (alookup_In id_eqb id_eqb_ok) | apply (In_alookup id_eqb id_eqb_ok); auto]. }
  constructor; auto.
  - eapply IdsC_nd_bkeys; eauto.
  - intros r1 r2 I1 I2 D n (X & Y). destruct (a5 r1 r2 I1 I2) as [E | [E | E]]; [contradiction | |]; unfold in_range in *; lia.
  - intros n r Hi Hr X. pose proof (a6 _ Hi r Hr) as Y. rewrite mk_id_mkid, id_n_mkid in Y. unfold in_range in X. lia.
  - intros sid i. split.
    + intros Hs. split.
      * destruct (b3 _ _ Hs) as (u & ch & um & Hu). exists u, ch, um. apply LK; auto.
      * apply (In_alookup subid_eqb subid_eqb_ok); auto.
    + intros (_ & Hs). apply (alookup_In subid_eqb subid_eqb_ok); auto.
  - intros i u ch um Hi. apply LK in Hi. eauto.
  - intros i k u Hi Hu. apply LK in Hi. destruct (b5 _ _ _ Hi Hu) as (_ & _ & _ & UK).
    destruct (req_lookup u (m s)) as [k'|] eqn:E; auto. left. apply LK in E. apply UK in E. subst. reflexivity.
  - intros j Hj. apply LK in Hj. destruct (b7 _ Hj) as (i & k & Hi & Hr). exists i, k. split; auto. apply LK; auto.
  - intros u. split.
    + intros Hu. destruct (b9 _ Hu) as (j & Hj). exists j. apply LK; auto.
    + intros (j & Hj). apply LK in Hj. eauto.
Qed.

Theorem reachable_spelled idstr qc bc gate es : Spelled (fst (run (init idstr qc bc gate) es)).
Proof. apply Inv_spelled, reachable_inv. Qed.

(* quiescence *)
Definition quiescent (s : st) : Prop := forall i k, In (i, k) (requests (m s)) -> k = KCall None.

Lemma Inv_quiescent s : Inv s -> quiescent s -> requests (m s) = [] /\ subs (m s) = [].
Proof. intros I Q. eapply InvC_quiescent; [apply (inv_core _ I) | exact Q]. Qed.

Theorem quiescent_empty idstr qc bc gate es : let s := fst (run (init idstr qc bc gate) es) in
  quiescent s -> requests (m s) = [] /\ subs (m s) = [].
Proof. cbv zeta. apply Inv_quiescent, reachable_inv. Qed.

(* in the terms of unacked: no waiter-bearing entry and nothing unacknowledged *)
Theorem quiescent_empty_unacked idstr qc bc gate es : let s := fst (run (init idstr qc bc gate) es) in
  (forall i k, In (i, k) (requests (m s)) -> match k with KCall (Some _) | KPendSub _ _ _ | KSub _ _ _ => False | _ => True end) ->
  unacked s = [] -> requests (m s) = [] /\ subs (m s) = [].
Proof.
  cbv zeta. intros Hk Hu. pose proof (reachable_inv idstr qc bc gate es) as I. apply Inv_quiescent; auto.
  intros i k Hi. pose proof (Hk i k Hi) as X. destruct k as [[w|]| | |j]; try contradiction; auto.
  destruct (inv_core _ I) as (_ & T & _). apply (tc_unsubp _ _ _ _ _ _ _ T) in Hi. rewrite Hu in Hi. contradiction.
Qed.

(* every batches entry is an unanswered batch call *)
Theorem batches_exact idstr qc bc gate es lo hi h : NoDup (front_handles es) ->
  In ((lo, hi), h) (batches (m (fst (run (init idstr qc bc gate) es)))) ->
  issued_batch idstr qc bc gate es h lo hi /\ ncompl h (outs_of (snd (run (init idstr qc bc gate) es))) = 0%nat.
Proof.
  intros N Hi. split.
  - apply (proj2 (origin idstr qc bc gate es)). left. exact Hi.
  - apply pending_not_completed; auto. unfold pot, tokens. rewrite !cnt_app.
    assert (X : (0 < cnt h (map snd (batches (m (fst (run (init idstr qc bc gate) es))))))%nat).
    { unfold cnt. apply count_occ_In. apply in_map_iff. exists ((lo, hi), h). auto. }
    lia.
Qed.

(* a late duplicate of the subscribe answer while the unsubscribe is unacknowledged: absorbed, delivered to nobody *)
Theorem tombstone_absorbs s u rid r : Inv s -> In (u, KUnsubP rid) (requests (m s)) -> rs_id r = rid ->
  rres_out (single_response s r) = [] /\
  (req_lookup rid (m s) = Some (KCall None) \/ req_lookup rid (m s) = None).
Proof.
  intros I Hu E. destruct (inv_core _ I) as (_ & T & _). destruct (tc_res _ _ _ _ _ _ _ T _ _ _ Hu eq_refl) as (_ & _ & _ & UK).
  assert (L : req_lookup rid (m s) = Some (KCall None) \/ req_lookup rid (m s) = None).
  { destruct (req_lookup rid (m s)) as [k|] eqn:L; auto. left. apply (alookup_In id_eqb id_eqb_ok) in L. apply UK in L. subst; auto. }
  split; auto. unfold single_response. rewrite E. destruct L as [-> | ->]; reflexivity.
Qed.

(* ------------------------------------------------------------------------------------------- *)
(* Part B: finished identifiers are never inserted again                                         *)
(* ------------------------------------------------------------------------------------------- *)

(* an id that has been allocated and is no longer in use: not a key, not queued, not referred to *)
Definition retired (s : st) (i : id) : Prop := (exists n, n < next_id s /\ i = mk_id s n) /\ ~ used s i.

Lemma retired_ext s s' i : Ext s s' -> retired s i -> retired s' i.
Proof.
  intros [e1 e2 e3 e4] ((n & Hn & ->) & U). split.
  - exists n. split; [lia|]. rewrite !mk_id_mkid. congruence.
  - intros H. apply e3 in H as [H | H]; auto.
    eapply idlt_ge_False; [|exact H]. exists n. split; auto.
Qed.

Lemma retired_step s e i : Inv s -> retired s i -> retired (fst (fst (step s e))) i.
Proof. intros I. apply retired_ext. apply (step_good s e I). Qed.

Lemma retired_run es : forall s i, Inv s -> retired s i -> retired (fst (run s es)) i.
Proof. intros s i I. apply retired_ext. apply (run_good es s I). Qed.

(* a retired id matches nothing: an answer bearing it is fatal (NotPending), delivered to nobody *)
Lemma retired_not_pending s i r : retired s i -> rs_id r = i -> single_response s r = RFatal s [] FNotPending.
Proof.
  intros (_ & U) E. unfold single_response, req_lookup. rewrite E.
  assert (L : alookup id_eqb i (requests (m s)) = None).
  { apply (alookup_None id_eqb id_eqb_ok). intros H. apply U. left. exact H. }
  rewrite L. reflexivity.
Qed.

(* a key that leaves the table and is not referred to by a remaining entry is retired *)
Lemma removed_retired s s' i : Inv s -> Ext s s' ->
  In i (map fst (requests (m s))) -> ~ In i (map fst (requests (m s'))) ->
  (forall j k, In (j, k) (requests (m s')) -> refs k <> Some i) -> retired s' i.
Proof.
  intros I [e1 e2 e3 e4] K NK NR. destruct (inv_core _ I) as (C & _ & _).
  assert (LT : idlt (id_str s) (next_id s) i) by (apply (ic_lt_ids _ _ _ _ _ C); apply in_app_iff; auto).
  split.
  - destruct LT as (n & Hn & ->). exists n. split; [lia|]. rewrite mk_id_mkid. congruence.
  - intros [H | [H | (j & k & H & R)]]; auto.
    + apply e4 in H as [H | H].
      * eapply IdsC_key_notq; eauto.
      * eapply idlt_ge_False; eauto.
    + eapply NR; eauto.
Qed.

Theorem no_capture idstr qc bc gate es1 e es2 i :
  let s := fst (run (init idstr qc bc gate) es1) in
  let s1 := fst (fst (step s e)) in
  let s2 := fst (run s1 es2) in
  In i (map fst (requests (m s))) -> ~ In i (map fst (requests (m s1))) ->
  (forall j k, In (j, k) (requests (m s1)) -> refs k <> Some i) ->
  (exists n, n < next_id s /\ i = mk_id s n) /\
  ~ In i (map fst (requests (m s2))) /\ ~ In i (qids (qmsgs s2)) /\
  forall r, rs_id r = i -> single_response s2 r = RFatal s2 [] FNotPending.
Proof.
  cbv zeta. intros K NK NR. pose proof (reachable_inv idstr qc bc gate es1) as I.
  set (s := fst (run (init idstr qc bc gate) es1)) in *.
  pose proof (step_good s e I) as (I1 & X1).
  pose proof (removed_retired s _ i I X1 K NK NR) as R1.
  pose proof (retired_run es2 _ i I1 R1) as R2.
  destruct (inv_core _ I) as (C & _ & _).
  split; [|split; [|split]].
  - destruct (ic_lt_ids _ _ _ _ _ C i) as (n & Hn & ->); [apply in_app_iff; auto|]. exists n. auto.
  - intros H. apply (proj2 R2). left. exact H.
  - intros H. apply (proj2 R2). right; left. exact H.
  - intros r E. eapply retired_not_pending; eauto.
Qed.

(* ------------------------------------------------------------------------------------------- *)
(* Part C: closed cycles                                                                         *)
(* ------------------------------------------------------------------------------------------- *)

(* nothing in flight inside the client: alive, ungated, idle send task, empty front-to-back queue *)
Definition quiet (s : st) : Prop :=
  dead s = false /\ dying s = None /\ gated s = false /\ busy s = false /\ sendfail s = false /\
  queue s = [] /\ waiting s = [] /\ (1 <= qcap s)%nat.

(* the fields the cycles read, apart from the four tables *)
Definition same_env (s s' : st) : Prop :=
  id_str s' = id_str s /\ gone s' = gone s /\ bufcap s' = bufcap s /\ qcap s' = qcap s.

Lemma same_env_refl s : same_env s s.
Proof. repeat split. Qed.
Lemma same_env_trans s1 s2 s3 : same_env s1 s2 -> same_env s2 s3 -> same_env s1 s3.
Proof. unfold same_env. intuition congruence. Qed.

Lemma finish_frame s : let s' := fst (finish_unsubs s) in
  SameC s s' /\ busy s' = busy s /\ dying s' = dying s /\ sendfail s' = sendfail s /\ gone s' = gone s /\ subkind s' = subkind s.
Proof.
  unfold finish_unsubs. cbn [fst]. cbv zeta.
  destruct (fold_drop_rx_same (filter (unsub_done s) (unsubw s)) s) as (A & _ & B & C & D & _ & E & F). cbv zeta in *.
  destruct A. split; [constructor; st_simpl; auto|]. st_simpl. auto.
Qed.

Lemma drain_stop f s : waiting s = [] -> queue s = [] -> drain (S f) s = (s, []).
Proof.
  intros W Q. cbn [drain]. rewrite W. cbn [length admit_waiting].
  destruct (busy s || dead s || match dying s with Some _ => true | None => false end); auto. rewrite Q. auto.
Qed.

Lemma drain_step f s msg q : waiting s = [] -> busy s = false -> dead s = false -> dying s = None -> queue s = msg :: q ->
  drain (S f) s = let '(s1, o1) := handle_front (upd_queue s q []) msg in let '(s2, o2) := drain f s1 in (s2, o1 ++ o2).
Proof.
  intros W B D DY Q. cbn [drain]. rewrite W. cbn [length admit_waiting]. rewrite B, D, DY, Q, W. reflexivity.
Qed.

(* all fields but the tables, the channels, the unsubscribe futures and the history variable agree *)
Record Proj (s2 s' : st) : Prop := {
  pj_next : next_id s' = next_id s2; pj_str : id_str s' = id_str s2; pj_gone : gone s' = gone s2;
  pj_subkind : subkind s' = subkind s2; pj_bufcap : bufcap s' = bufcap s2; pj_qcap : qcap s' = qcap s2;
  pj_gated : gated s' = gated s2; pj_busy : busy s' = busy s2; pj_sendfail : sendfail s' = sendfail s2;
  pj_dead : dead s' = dead s2; pj_dying : dying s' = dying s2; pj_queue : queue s' = queue s2; pj_waiting : waiting s' = waiting s2
}.

Lemma Proj_refl s : Proj s s.
Proof. constructor; reflexivity. Qed.
Lemma Proj_trans s1 s2 s3 : Proj s1 s2 -> Proj s2 s3 -> Proj s1 s3.
Proof. intros [] []. constructor; congruence. Qed.

Lemma Proj_drop_sink s c : Proj s (drop_sink s c).
Proof. unfold drop_sink. destruct (chan_of s c); constructor; reflexivity. Qed.

Lemma Proj_finish s : Proj s (fst (finish_unsubs s)) /\ m (fst (finish_unsubs s)) = m s.
Proof. destruct (finish_frame s) as ([] & B & C & D & E & F). split; auto. constructor; auto. Qed.

Lemma settle_zero s : dying s = None -> queue s = [] -> waiting s = [] ->
  Proj s (fst (settle s)) /\ m (fst (settle s)) = m s.
Proof.
  intros DY Q W. unfold settle, try_kill. rewrite DY, Q, W. cbn [length Nat.add]. rewrite drain_stop; auto.
  rewrite DY. pose proof (Proj_finish s). destruct (finish_unsubs s). auto.
Qed.

Lemma settle_one s1 msg s2 o :
  dead s1 = false -> dying s1 = None -> busy s1 = false -> queue s1 = [msg] -> waiting s1 = [] ->
  handle_front (upd_queue s1 [] []) msg = (s2, o) -> dying s2 = None ->
  Proj s2 (fst (settle s1)) /\ m (fst (settle s1)) = m s2.
Proof.
  intros D DY B Q W HF DY2. unfold settle, try_kill. rewrite DY, Q, W. cbn [length Nat.add].
  rewrite (drain_step 1 s1 msg []); auto. rewrite HF.
  destruct (handle_front_q (upd_queue s1 [] []) msg) as (Q2 & W2). rewrite HF in Q2, W2. cbn [fst] in Q2, W2. st_simpl.
  rewrite drain_stop; auto. rewrite DY2.
  pose proof (Proj_finish s2). destruct (finish_unsubs s2). auto.
Qed.

Lemma wire_quiet s raw : sendfail s = false -> gated s = false -> wire s raw = (s, [OWire raw]).
Proof. intros F G. unfold wire. rewrite F, G. reflexivity. Qed.

Lemma enqueue_quiet s0 msg tag : queue s0 = [] -> waiting s0 = [] -> (1 <= qcap s0)%nat ->
  enqueue_tagged s0 msg tag =
  match tag with Some w => upd_unsubw (upd_queue s0 [msg] []) (mark_admitted w (unsubw s0)) | None => upd_queue s0 [msg] [] end.
Proof.
  intros Q W C. unfold enqueue_tagged. rewrite Q, W. cbn [length app].
  destruct (qcap s0); [lia|]. cbn [Nat.ltb Nat.leb andb]. destruct tag; reflexivity.
Qed.

Lemma fresh_key s n : Inv s -> next_id s <= n -> ~ In (mk_id s n) (map fst (requests (m s))).
Proof.
  intros I L H. destruct (inv_core _ I) as (C & _ & _).
  assert (X : idlt (id_str s) (next_id s) (mk_id s n)) by (apply (ic_lt_ids _ _ _ _ _ C); apply in_app_iff; auto).
  eapply idlt_ge_False; [exact X|]. exists n. split; auto.
Qed.

Lemma fresh_range s lo hi : Inv s -> next_id s <= lo -> lo < hi -> ~ In (lo, hi) (map fst (batches (m s))).
Proof.
  intros I L L2 H. destruct (inv_core _ I) as (C & _ & _).
  assert (X : In (lo, hi) (rngs_of (batches (m s)) (qmsgs s))) by (apply in_app_iff; auto).
  apply (ic_rng_ok _ _ _ _ _ C) in X. cbn in X. lia.
Qed.

Lemma mk_id_neq s n n' : n <> n' -> mk_id s n <> mk_id s n'.
Proof. intros H E. rewrite !mk_id_mkid in E. apply mkid_inj in E. contradiction. Qed.

(* the shape of a state after one step from a quiet state *)
Definition After (s s' : st) (R : list (id * kind)) (S : list (subid * id)) (B : list ((N * N) * handle))
                 (NH : list (bytes * handle)) (nx : N) (sk : list (handle * (subid + bytes))) : Prop :=
  quiet s' /\ same_env s s' /\ requests (m s') = R /\ subs (m s') = S /\ batches (m s') = B /\ nhandlers (m s') = NH /\
  next_id s' = nx /\ subkind s' = sk.

(* s2: the state after the read task / the send task has handled the event; s': after settle *)
Lemma After_proj s s2 s' M' nx sk :
  Proj s2 s' /\ m s' = m s2 -> m s2 = M' -> Proj (upd_subkind (upd_next s nx) sk) s2 -> quiet s ->
  After s s' (requests M') (subs M') (batches M') (nhandlers M') nx sk.
Proof.
  intros ([] & M1) M2 [] (q1 & q2 & q3 & q4 & q5 & q6 & q7 & q8). st_simpl.
  unfold After, quiet, same_env. rewrite M1, M2. repeat split; congruence.
Qed.

Ltac proj_tac := constructor; st_simpl; try reflexivity; try congruence.

(* ---------- one event from a quiet state ---------- *)
Lemma step_call s h me p : Inv s -> quiet s ->
  After s (fst (fst (step s (FCall h me p))))
        ((mk_id s (next_id s), KCall (Some h)) :: requests (m s)) (subs (m s)) (batches (m s)) (nhandlers (m s))
        (next_id s + 1) (subkind s).
Proof.
  intros I QT. pose proof QT as (D & DY & G & B & F & Q & W & C). unfold step, apply. rewrite D.
  unfold enqueue. rewrite enqueue_quiet; auto.
  set (i := mk_id s (next_id s)). set (raw := ser_request _). set (s1 := upd_queue _ _ _).
  assert (HF : handle_front (upd_queue s1 [] []) (MRequest i (Some h) raw)
               = (upd_m (upd_queue s1 [] []) (set_requests (m s) ((i, KCall (Some h)) :: requests (m s))), [OWire raw])).
  { unfold s1. cbn [handle_front]. st_simpl.
    assert (A : ahas id_eqb i (requests (m s)) = false).
    { apply (ahas_false id_eqb id_eqb_ok). apply fresh_key; auto. lia. }
    rewrite A. apply wire_quiet; auto. }
  pose proof (settle_one s1 _ _ _ D DY B eq_refl eq_refl HF DY) as ST.
  destruct (settle s1) as [s' o']. cbn [fst] in *.
  exact (After_proj s _ s' _ _ _ ST eq_refl ltac:(unfold s1; proj_tac) QT).
Qed.

Lemma step_subscribe s h sm um p : Inv s -> quiet s -> bytes_eqb sm um = false ->
  After s (fst (fst (step s (FSubscribe h sm um p))))
        ((mk_id s (next_id s + 1), KCall None) :: (mk_id s (next_id s), KPendSub (mk_id s (next_id s + 1)) h um) :: requests (m s))
        (subs (m s)) (batches (m s)) (nhandlers (m s)) (next_id s + 2) (subkind s).
Proof.
  intros I QT NE. pose proof QT as (D & DY & G & B & F & Q & W & C). unfold step, apply. rewrite D, NE.
  unfold enqueue. rewrite enqueue_quiet; auto.
  set (si := mk_id s (next_id s)). set (ui := mk_id s (next_id s + 1)). set (raw := ser_request _). set (s1 := upd_queue _ _ _).
  assert (HF : handle_front (upd_queue s1 [] []) (MSubscribe si ui um h raw)
               = (upd_m (upd_queue s1 [] []) (set_requests (m s) ((ui, KCall None) :: (si, KPendSub ui h um) :: requests (m s))), [OWire raw])).
  { unfold s1. cbn [handle_front]. st_simpl.
    assert (A1 : ahas id_eqb si (requests (m s)) = false).
    { apply (ahas_false id_eqb id_eqb_ok). apply fresh_key; auto. lia. }
    assert (A2 : ahas id_eqb ui (requests (m s)) = false).
    { apply (ahas_false id_eqb id_eqb_ok). apply fresh_key; auto. lia. }
    assert (A3 : id_eqb si ui = false).
    { apply (eqb_neq id_eqb id_eqb_ok). apply mk_id_neq. lia. }
    rewrite A1, A2, A3. cbn [negb andb]. apply wire_quiet; auto. }
  pose proof (settle_one s1 _ _ _ D DY B eq_refl eq_refl HF DY) as ST.
  destruct (settle s1) as [s' o']. cbn [fst] in *.
  exact (After_proj s _ s' _ _ _ ST eq_refl ltac:(unfold s1; proj_tac) QT).
Qed.

Lemma step_batch s h es : Inv s -> quiet s -> es <> [] ->
  After s (fst (fst (step s (FBatch h es))))
        (requests (m s)) (subs (m s)) (((next_id s, next_id s + N.of_nat (length es)), h) :: batches (m s)) (nhandlers (m s))
        (next_id s + N.of_nat (length es)) (subkind s).
Proof.
  intros I QT NE. pose proof QT as (D & DY & G & B & F & Q & W & C). unfold step, apply. rewrite D.
  destruct es as [|e0 es]; [congruence|]. set (es' := e0 :: es) in *.
  unfold enqueue. rewrite enqueue_quiet; auto.
  set (lo := next_id s). set (hi := lo + N.of_nat (length es')). set (raw := batch_raw _ _ _). set (s1 := upd_queue _ _ _).
  assert (HF : handle_front (upd_queue s1 [] []) (MBatch lo hi h raw)
               = (upd_m (upd_queue s1 [] []) (set_batches (m s) (((lo, hi), h) :: batches (m s))), [OWire raw])).
  { unfold s1. cbn [handle_front]. st_simpl.
    assert (A : ahas range_eqb (lo, hi) (batches (m s)) = false).
    { apply (ahas_false range_eqb range_eqb_ok). apply fresh_range; auto; unfold lo, hi, es'; cbn [length]; lia. }
    rewrite A. apply wire_quiet; auto. }
  pose proof (settle_one s1 _ _ _ D DY B eq_refl eq_refl HF DY) as ST.
  destruct (settle s1) as [s' o']. cbn [fst] in *.
  exact (After_proj s _ s' _ _ _ ST eq_refl ltac:(unfold s1; proj_tac) QT).
Qed.

Lemma step_submethod s h me : Inv s -> quiet s -> ~ In me (map fst (nhandlers (m s))) -> alive s h = true ->
  After s (fst (fst (step s (FSubMethod h me))))
        (requests (m s)) (subs (m s)) (batches (m s)) ((me, h) :: nhandlers (m s)) (next_id s) ((h, inr me) :: subkind s).
Proof.
  intros I QT NI AL. pose proof QT as (D & DY & G & B & F & Q & W & C). unfold step, apply. rewrite D.
  unfold enqueue. rewrite enqueue_quiet; auto. set (s1 := upd_queue _ _ _).
  apply (ahas_false bytes_eqb bytes_eqb_eq) in NI.
  assert (HF : exists s2 o, handle_front (upd_queue s1 [] []) (MRegister me h) = (s2, o) /\
                 m s2 = set_nhandlers (m s) ((me, h) :: nhandlers (m s)) /\
                 Proj (upd_subkind (upd_next s (next_id s)) ((h, inr me) :: subkind s)) s2).
  { unfold s1. cbn [handle_front]. st_simpl. rewrite NI. unfold alive in *. st_simpl. rewrite AL.
    eexists _, _. split; [reflexivity|]. split; [reflexivity|]. proj_tac. }
  destruct HF as (s2 & o & HF & M2 & P2).
  assert (DY2 : dying s2 = None) by (destruct P2; st_simpl; congruence).
  pose proof (settle_one s1 _ _ _ D DY B eq_refl eq_refl HF DY2) as ST.
  destruct (settle s1) as [s' o']. cbn [fst] in *.
  exact (After_proj s _ s' _ _ _ ST M2 P2 QT).
Qed.

Lemma step_back s raw s1 o : quiet s -> handle_back s (classify_frame raw) = ROk s1 o ->
  queue s1 = [] -> waiting s1 = [] -> dying s1 = None ->
  Proj s1 (fst (fst (step s (Back raw)))) /\ m (fst (fst (step s (Back raw)))) = m s1.
Proof.
  intros (D & DY & _) H Q W DY1. unfold step, apply. rewrite D, DY, H.
  pose proof (settle_zero s1 DY1 Q W) as ST. destruct (settle s1). exact ST.
Qed.

Lemma step_back_after s raw s1 o M' sk : quiet s -> handle_back s (classify_frame raw) = ROk s1 o ->
  m s1 = M' -> Proj (upd_subkind (upd_next s (next_id s)) sk) s1 ->
  After s (fst (fst (step s (Back raw)))) (requests M') (subs M') (batches M') (nhandlers M') (next_id s) sk.
Proof.
  intros QT H M1 P1. pose proof QT as (D & DY & G & B & F & Q & W & C).
  assert (X : queue s1 = [] /\ waiting s1 = [] /\ dying s1 = None) by (destruct P1; st_simpl; repeat split; congruence).
  destruct X as (Q1 & W1 & DY1).
  exact (After_proj s s1 _ _ _ _ (step_back s raw s1 o QT H Q1 W1 DY1) M1 P1 QT).
Qed.

(* a plain answer (to a call, or to a waiter-less entry) *)
Lemma step_resp_call s raw r w : quiet s -> classify_frame raw = FSingle (IResp r) ->
  req_lookup (rs_id r) (m s) = Some (KCall w) ->
  After s (fst (fst (step s (Back raw))))
        (aremove id_eqb (rs_id r) (requests (m s))) (subs (m s)) (batches (m s)) (nhandlers (m s)) (next_id s) (subkind s).
Proof.
  intros QT CF L.
  eapply (step_back_after s raw _ _ (set_requests (m s) (aremove id_eqb (rs_id r) (requests (m s)))) (subkind s) QT).
  - rewrite CF. rewrite ?handle_back_now; cbn [handle_back_ref handle_elem_single_ref]. unfold single_response. rewrite L. reflexivity.
  - reflexivity.
  - proj_tac.
Qed.

(* an accepted subscribe answer, caller still there *)
Lemma step_resp_sub_ok s raw r u w um pl sid : quiet s -> classify_frame raw = FSingle (IResp r) ->
  req_lookup (rs_id r) (m s) = Some (KPendSub u w um) -> rs_payload r = PResult pl -> parse_subid pl = Some sid ->
  ~ In sid (map fst (subs (m s))) -> alive s w = true ->
  After s (fst (fst (step s (Back raw))))
        ((rs_id r, KSub u w um) :: aremove id_eqb (rs_id r) (requests (m s))) ((sid, rs_id r) :: subs (m s))
        (batches (m s)) (nhandlers (m s)) (next_id s) ((w, inl sid) :: subkind s).
Proof.
  intros QT CF L PL PS NI AL. apply (ahas_false subid_eqb subid_eqb_ok) in NI.
  eapply (step_back_after s raw _ _
            (set_subs (set_requests (set_requests (m s) (aremove id_eqb (rs_id r) (requests (m s))))
                                    ((rs_id r, KSub u w um) :: aremove id_eqb (rs_id r) (requests (m s))))
                      ((sid, rs_id r) :: subs (m s))) ((w, inl sid) :: subkind s) QT).
  - rewrite CF. rewrite ?handle_back_now; cbn [handle_back_ref handle_elem_single_ref]. unfold single_response. rewrite L, PL, PS.
    cbn [subs set_requests requests]. rewrite NI, AL. reflexivity.
  - reflexivity.
  - proj_tac.
Qed.

(* a refused subscribe answer *)
Lemma step_resp_sub_err s raw r u w um e : quiet s -> classify_frame raw = FSingle (IResp r) ->
  req_lookup (rs_id r) (m s) = Some (KPendSub u w um) -> rs_payload r = PError e ->
  let M' := release_reserved u (set_requests (m s) (aremove id_eqb (rs_id r) (requests (m s)))) in
  After s (fst (fst (step s (Back raw)))) (requests M') (subs M') (batches M') (nhandlers M') (next_id s) (subkind s).
Proof.
  intros QT CF L PL M'.
  eapply (step_back_after s raw _ _ M' (subkind s) QT).
  - rewrite CF. rewrite ?handle_back_now; cbn [handle_back_ref handle_elem_single_ref]. unfold single_response. rewrite L, PL. reflexivity.
  - reflexivity.
  - proj_tac.
Qed.

(* the acknowledgement of an unsubscribe call *)
Lemma step_resp_unsubp s raw r sub : quiet s -> classify_frame raw = FSingle (IResp r) ->
  req_lookup (rs_id r) (m s) = Some (KUnsubP sub) ->
  let r1 := aremove id_eqb (rs_id r) (requests (m s)) in
  let r2 := match alookup id_eqb sub r1 with Some (KCall None) => aremove id_eqb sub r1 | _ => r1 end in
  After s (fst (fst (step s (Back raw)))) r2 (subs (m s)) (batches (m s)) (nhandlers (m s)) (next_id s) (subkind s).
Proof.
  intros QT CF L r1 r2.
  eapply (step_back_after s raw _ _ (set_requests (m s) r2) (subkind s) QT).
  - rewrite CF. rewrite ?handle_back_now; cbn [handle_back_ref handle_elem_single_ref]. unfold single_response. rewrite L. reflexivity.
  - reflexivity.
  - proj_tac.
Qed.

(* the server closes a subscription *)
Lemma step_sub_close s raw me sid pl rid u ch um : quiet s -> classify_frame raw = FSingle (ISubErr me sid pl) ->
  alookup subid_eqb sid (subs (m s)) = Some rid -> req_lookup rid (m s) = Some (KSub u ch um) ->
  let M' := release_reserved u (set_subs (set_requests (m s) (aremove id_eqb rid (requests (m s)))) (aremove subid_eqb sid (subs (m s)))) in
  After s (fst (fst (step s (Back raw)))) (requests M') (subs M') (batches M') (nhandlers M') (next_id s) (subkind s).
Proof.
  intros QT CF L1 L2 M'.
  assert (H : exists s1, handle_back s (classify_frame raw) = ROk s1 [] /\ m s1 = M' /\
                Proj (upd_subkind (upd_next s (next_id s)) (subkind s)) s1).
  { rewrite CF. rewrite ?handle_back_now; cbn [handle_back_ref handle_elem_single_ref]. unfold sub_close. rewrite L1, L2. eexists. split; [reflexivity|].
    split.
    - destruct (drop_sink_same (upd_m s M') ch). auto.
    - eapply Proj_trans; [|apply Proj_drop_sink]. proj_tac. }
  destruct H as (s1 & H & M1 & P1). eapply step_back_after; eauto.
Qed.

(* the application unsubscribes from a subscription *)
Lemma do_unsub_result sx sid rid u ch um :
  alookup subid_eqb sid (subs (m sx)) = Some rid -> req_lookup rid (m sx) = Some (KSub u ch um) ->
  sendfail sx = false -> gated sx = false ->
  exists s2 o, do_unsubscribe sx sid = (s2, o) /\
    m s2 = set_subs (set_requests (m sx) (aset id_eqb u (KUnsubP rid) (aset id_eqb rid (KCall None) (requests (m sx)))))
                    (aremove subid_eqb sid (subs (m sx))) /\
    Proj sx s2.
Proof.
  intros L1 L2 F G. unfold do_unsubscribe. rewrite L1, L2.
  set (m1 := set_subs _ _). set (s1 := drop_sink (upd_m sx m1) ch).
  pose proof (Proj_drop_sink (upd_m sx m1) ch) as PD. pose proof (drop_sink_same (upd_m sx m1) ch) as SD. fold s1 in PD, SD.
  assert (F1 : sendfail (upd_unacked s1 (u :: unacked s1)) = false) by (destruct PD; st_simpl; congruence).
  assert (G1 : gated (upd_unacked s1 (u :: unacked s1)) = false) by (destruct PD; st_simpl; congruence).
  rewrite (wire_quiet _ _ F1 G1). eexists _, _. split; [reflexivity|]. split.
  - destruct SD. st_simpl. auto.
  - destruct PD. proj_tac.
Qed.

Lemma step_unsub s h2 sh sid rid u ch um : quiet s ->
  alookup N.eqb sh (subkind s) = Some (inl sid) ->
  alookup subid_eqb sid (subs (m s)) = Some rid -> req_lookup rid (m s) = Some (KSub u ch um) ->
  After s (fst (fst (step s (FUnsub h2 sh))))
        (aset id_eqb u (KUnsubP rid) (aset id_eqb rid (KCall None) (requests (m s)))) (aremove subid_eqb sid (subs (m s)))
        (batches (m s)) (nhandlers (m s)) (next_id s) (aremove N.eqb sh (subkind s)).
Proof.
  intros QT K L1 L2. pose proof QT as (D & DY & G & B & F & Q & W & C). unfold step, apply. rewrite D.
  unfold close_msg_of. rewrite K. rewrite enqueue_quiet; auto. set (s1 := upd_unsubw _ _).
  destruct (do_unsub_result (upd_queue s1 [] []) sid rid u ch um L1 L2 F G) as (s2 & o & HF & M2 & P2).
  assert (P3 : Proj (upd_subkind (upd_next s (next_id s)) (aremove N.eqb sh (subkind s))) s2).
  { eapply Proj_trans; [|exact P2]. unfold s1. proj_tac. }
  assert (DY2 : dying s2 = None) by (destruct P3; st_simpl; congruence).
  pose proof (settle_one s1 (MSubClosed sid) s2 o D DY B eq_refl eq_refl HF DY2) as ST.
  destruct (settle s1) as [s' o']. cbn [fst] in *.
  exact (After_proj s _ s' _ _ _ ST M2 P3 QT).
Qed.

(* the application unsubscribes from a notification method *)
Lemma step_unsub_method s h2 sh me ch : quiet s ->
  alookup N.eqb sh (subkind s) = Some (inr me) -> alookup bytes_eqb me (nhandlers (m s)) = Some ch ->
  After s (fst (fst (step s (FUnsub h2 sh))))
        (requests (m s)) (subs (m s)) (batches (m s)) (aremove bytes_eqb me (nhandlers (m s))) (next_id s) (aremove N.eqb sh (subkind s)).
Proof.
  intros QT K L1. pose proof QT as (D & DY & G & B & F & Q & W & C). unfold step, apply. rewrite D.
  unfold close_msg_of. rewrite K. rewrite enqueue_quiet; auto. set (s1 := upd_unsubw _ _).
  set (M' := set_nhandlers (m s) (aremove bytes_eqb me (nhandlers (m s)))).
  assert (HF : exists s2 o, handle_front (upd_queue s1 [] []) (MUnregister me) = (s2, o) /\ m s2 = M' /\
                 Proj (upd_subkind (upd_next s (next_id s)) (aremove N.eqb sh (subkind s))) s2).
  { unfold s1. cbn [handle_front]. st_simpl. rewrite L1. eexists _, _. split; [reflexivity|]. cbn [fst].
    match goal with |- context [drop_sink ?a ?b] => pose proof (Proj_drop_sink a b) as PD; pose proof (drop_sink_same a b) as SD end.
    destruct SD. split; [st_simpl; auto|]. destruct PD. proj_tac. }
  destruct HF as (s2 & o & HF & M2 & P2).
  assert (DY2 : dying s2 = None) by (destruct P2; st_simpl; congruence).
  pose proof (settle_one s1 _ _ _ D DY B eq_refl eq_refl HF DY2) as ST.
  destruct (settle s1) as [s' o']. cbn [fst] in *.
  exact (After_proj s _ s' _ _ _ ST M2 P2 QT).
Qed.

(* a complete array reply *)
Definition span_step (rng : option (N * N)) (n : N) : option (N * N) :=
  Some match rng with
       | None => (n, n)
       | Some (lo, hi) => (if n <? lo then n else lo, if hi <? n then n else hi)
       end.
Definition span (rng : option (N * N)) (ns : list N) : option (N * N) := fold_left span_step ns rng.

Lemma array_loop_resps s rs : forall ns acc rng got, map (fun r => id_as_number (rs_id r)) rs = map Some ns ->
  array_loop s (map IResp rs) acc rng got = inl (s, acc ++ rs, span rng ns, got).
Proof.
  induction rs as [|r rs IH]; intros ns acc rng got E.
  - destruct ns; [|discriminate]. cbn. rewrite app_nil_r. reflexivity.
  - destruct ns as [|n ns]; [discriminate|]. cbn [map] in E. inversion E as [[E1 E2]].
    cbn [map array_loop]. rewrite E1. rewrite (IH ns); auto. rewrite <- app_assoc. reflexivity.
Qed.

Lemma span_some ns : forall a0 b0, a0 <= b0 -> exists a b, span (Some (a0, b0)) ns = Some (a, b) /\
  a <= a0 /\ b0 <= b /\ (a = a0 \/ In a ns) /\ (b = b0 \/ In b ns) /\ forall n, In n ns -> a <= n <= b.
Proof.
  induction ns as [|n ns IH]; intros a0 b0 L.
  - exists a0, b0. cbn. repeat split; auto; try lia; try contradiction.
  - cbn [span fold_left span_step].
    set (a1 := if n <? a0 then n else a0). set (b1 := if b0 <? n then n else b0).
    assert (X : a1 <= a0 /\ a1 <= n /\ b0 <= b1 /\ n <= b1 /\ (a1 = a0 \/ a1 = n) /\ (b1 = b0 \/ b1 = n)).
    { unfold a1, b1. destruct (N.ltb_spec n a0), (N.ltb_spec b0 n); repeat split; auto; lia. }
    destruct X as (x1 & x2 & x3 & x4 & x5 & x6).
    destruct (IH a1 b1) as (a & b & E & y1 & y2 & y3 & y4 & y5); [lia|].
    exists a, b. split; [exact E|]. repeat split; try lia.
    + destruct y3 as [-> | y3]; [destruct x5 as [-> | ->]; auto; right; left; auto | right; right; auto].
    + destruct y4 as [-> | y4]; [destruct x6 as [-> | ->]; auto; right; left; auto | right; right; auto].
    + destruct H as [<- | H]; [lia | apply y5; auto].
    + destruct H as [<- | H]; [lia | apply y5; auto].
Qed.

Lemma span_cover ns lo hi : (forall n, In n ns -> lo <= n < hi) -> In lo ns -> In (hi - 1) ns -> span None ns = Some (lo, hi - 1).
Proof.
  intros A L H. destruct ns as [|n ns]; [contradiction|].
  destruct (span_some ns n n) as (a & b & E & y1 & y2 & y3 & y4 & y5); [lia|].
  unfold span in *. cbn [fold_left]. change (span_step None n) with (Some (n, n)). rewrite E.
  assert (Ha : In a (n :: ns)) by (destruct y3 as [-> | y3]; [left | right]; auto).
  assert (Hb : In b (n :: ns)) by (destruct y4 as [-> | y4]; [left | right]; auto).
  assert (Ra : forall k, In k (n :: ns) -> a <= k <= b).
  { intros k [<- | Hk]; [lia | apply y5; auto]. }
  apply A in Ha. apply A in Hb. apply Ra in L. apply Ra in H. f_equal. f_equal; lia.
Qed.

Lemma step_batch_reply s raw rs ns lo hi h : quiet s -> classify_frame raw = FArray (map IResp rs) ->
  map (fun r => id_as_number (rs_id r)) rs = map Some ns ->
  (forall n, In n ns -> lo <= n < hi) -> In lo ns -> In (hi - 1) ns -> hi - 1 <> u64_max ->
  alookup range_eqb (lo, hi) (batches (m s)) = Some h ->
  After s (fst (fst (step s (Back raw))))
        (requests (m s)) (subs (m s)) (aremove range_eqb (lo, hi) (batches (m s))) (nhandlers (m s)) (next_id s) (subkind s).
Proof.
  intros QT CF E A L H U LK.
  assert (LH : lo < hi) by (apply A in L; lia).
  eapply (step_back_after s raw _ _ (set_batches (m s) (aremove range_eqb (lo, hi) (batches (m s)))) (subkind s) QT).
  - rewrite CF. rewrite ?handle_back_now; cbn [handle_back_ref]. rewrite (array_loop_resps s rs ns [] None false E).
    rewrite (span_cover ns lo hi A L H). apply N.eqb_neq in U. rewrite U.
    replace (hi - 1 + 1) with hi by lia. unfold batch_response. rewrite LK. reflexivity.
  - reflexivity.
  - proj_tac.
Qed.

(* ---------- the cycles ---------- *)
Definition Closed (s s' : st) : Prop :=
  Inv s' /\ quiet s' /\ same_env s s' /\
  requests (m s') = requests (m s) /\ subs (m s') = subs (m s) /\ batches (m s') = batches (m s) /\ nhandlers (m s') = nhandlers (m s).

Lemma Closed_refl s : Inv s -> quiet s -> Closed s s.
Proof. intros I Q. split; auto. split; auto. split; [apply same_env_refl|]. repeat split. Qed.

Lemma Closed_trans s1 s2 s3 : Closed s1 s2 -> Closed s2 s3 -> Closed s1 s3.
Proof.
  intros (a1 & a2 & a3 & a4 & a5 & a6 & a7) (b1 & b2 & b3 & b4 & b5 & b6 & b7).
  split; auto. split; auto. split; [eapply same_env_trans; eauto|]. repeat split; congruence.
Qed.

Lemma Closed_sizes s s' : Closed s s' -> table_sizes s' = table_sizes s.
Proof. intros (_ & _ & _ & a & b & c & d). unfold table_sizes. rewrite a, b, c, d. reflexivity. Qed.

Lemma run_fst_cons s e es : fst (run s (e :: es)) = fst (run (fst (fst (step s e))) es).
Proof. rewrite run_cons. reflexivity. Qed.

Lemma mk_id_env s s' n : same_env s s' -> mk_id s' n = mk_id s n.
Proof. intros (E & _). rewrite !mk_id_mkid. congruence. Qed.

Lemma alive_env s s' h : same_env s s' -> alive s' h = alive s h.
Proof. intros (_ & E & _). unfold alive. congruence. Qed.

Inductive cycle (s : st) : list ev -> Prop :=
| cy_call h me p raw r :
    classify_frame raw = FSingle (IResp r) -> rs_id r = mk_id s (next_id s) ->
    cycle s [FCall h me p; Back raw]
| cy_sub_unsub h sm um p raw1 r1 pl sid h2 raw2 r2 :
    bytes_eqb sm um = false -> alive s h = true ->
    classify_frame raw1 = FSingle (IResp r1) -> rs_id r1 = mk_id s (next_id s) ->
    rs_payload r1 = PResult pl -> parse_subid pl = Some sid -> ~ In sid (map fst (subs (m s))) ->
    classify_frame raw2 = FSingle (IResp r2) -> rs_id r2 = mk_id s (next_id s + 1) ->
    cycle s [FSubscribe h sm um p; Back raw1; FUnsub h2 h; Back raw2]
| cy_sub_refused h sm um p raw r e :
    bytes_eqb sm um = false ->
    classify_frame raw = FSingle (IResp r) -> rs_id r = mk_id s (next_id s) -> rs_payload r = PError e ->
    cycle s [FSubscribe h sm um p; Back raw]
| cy_sub_closed h sm um p raw1 r1 pl sid raw2 me pl2 :
    bytes_eqb sm um = false -> alive s h = true ->
    classify_frame raw1 = FSingle (IResp r1) -> rs_id r1 = mk_id s (next_id s) ->
    rs_payload r1 = PResult pl -> parse_subid pl = Some sid -> ~ In sid (map fst (subs (m s))) ->
    classify_frame raw2 = FSingle (ISubErr me sid pl2) ->
    cycle s [FSubscribe h sm um p; Back raw1; Back raw2]
| cy_batch h es raw rs ns :
    es <> [] -> classify_frame raw = FArray (map IResp rs) ->
    map (fun r => id_as_number (rs_id r)) rs = map Some ns ->
    (forall n, In n ns -> next_id s <= n < next_id s + N.of_nat (length es)) ->
    In (next_id s) ns -> In (next_id s + N.of_nat (length es) - 1) ns ->
    next_id s + N.of_nat (length es) - 1 <> u64_max ->
    cycle s [FBatch h es; Back raw]
| cy_method h me h2 :
    ~ In me (map fst (nhandlers (m s))) -> alive s h = true ->
    cycle s [FSubMethod h me; FUnsub h2 h].

Ltac after H := destruct H as (?Q & ?EV & ?HR & ?HS & ?HB & ?HN & ?HX & ?HK).

Theorem cycle_returns s es : Inv s -> quiet s -> cycle s es -> Closed s (fst (run s es)).
Proof.
  intros I QT CY. destruct CY.
  - (* call, answer *)
    rewrite !run_fst_cons. cbn [run fst].
    pose proof (step_inv s (FCall h me p) I) as I1. pose proof (step_call s h me p I QT) as A1.
    set (s1 := fst (fst (step s (FCall h me p)))) in *. after A1.
    pose proof (step_inv s1 (Back raw) I1) as I2.
    assert (L : req_lookup (rs_id r) (m s1) = Some (KCall (Some h))).
    { unfold req_lookup. rewrite HR, H0. cbn [alookup]. rewrite (eqb_rfl id_eqb id_eqb_ok). reflexivity. }
    pose proof (step_resp_call s1 raw r _ Q H L) as A2. set (s2 := fst (fst (step s1 (Back raw)))) in *. after A2.
    split; auto. split; auto. split; [eapply same_env_trans; eauto|].
    rewrite HR0, HS0, HB0, HN0, HR, HS, HB, HN, H0. cbn [aremove]. rewrite (eqb_rfl id_eqb id_eqb_ok).
    rewrite (aremove_notin id_eqb id_eqb_ok); auto. apply fresh_key; auto. lia.
  - (* subscribe, accept, unsubscribe, acknowledge *)
    rewrite !run_fst_cons. cbn [run fst].
    set (si := mk_id s (next_id s)) in *. set (ui := mk_id s (next_id s + 1)) in *.
    assert (Fs : ~ In si (map fst (requests (m s)))) by (apply fresh_key; auto; lia).
    assert (Fu : ~ In ui (map fst (requests (m s)))) by (apply fresh_key; auto; lia).
    assert (Dsu : si <> ui) by (apply mk_id_neq; lia).
    assert (Ess : id_eqb si si = true) by apply (eqb_rfl id_eqb id_eqb_ok).
    assert (Euu : id_eqb ui ui = true) by apply (eqb_rfl id_eqb id_eqb_ok).
    assert (Esu : id_eqb si ui = false) by (apply (eqb_neq id_eqb id_eqb_ok); auto).
    assert (Eus : id_eqb ui si = false) by (apply (eqb_neq id_eqb id_eqb_ok); auto).
    assert (Rs : aremove id_eqb si (requests (m s)) = requests (m s)) by (apply (aremove_notin id_eqb id_eqb_ok); auto).
    assert (Ru : aremove id_eqb ui (requests (m s)) = requests (m s)) by (apply (aremove_notin id_eqb id_eqb_ok); auto).
    pose proof (step_inv s (FSubscribe h sm um p) I) as I1. pose proof (step_subscribe s h sm um p I QT H) as A1.
    set (s1 := fst (fst (step s (FSubscribe h sm um p)))) in *. fold si ui in A1. after A1.
    pose proof (step_inv s1 (Back raw1) I1) as I2.
    assert (L1 : req_lookup (rs_id r1) (m s1) = Some (KPendSub ui h um)).
    { unfold req_lookup. rewrite HR, H2. cbn [alookup]. rewrite Esu, Ess. reflexivity. }
    assert (NS1 : ~ In sid (map fst (subs (m s1)))) by (rewrite HS; auto).
    assert (AL1 : alive s1 h = true) by (rewrite (alive_env s s1); auto).
    pose proof (step_resp_sub_ok s1 raw1 r1 _ _ _ _ _ Q H1 L1 H3 H4 NS1 AL1) as A2.
    set (s2 := fst (fst (step s1 (Back raw1)))) in *. after A2.
    rewrite HR, H2 in HR0. cbn [aremove] in HR0. rewrite Esu, Ess, Rs in HR0.
    pose proof (step_inv s2 (FUnsub h2 h) I2) as I3.
    assert (K2 : alookup N.eqb h (subkind s2) = Some (inl sid)).
    { rewrite HK0. cbn [alookup]. rewrite N.eqb_refl. reflexivity. }
    assert (L2a : alookup subid_eqb sid (subs (m s2)) = Some si).
    { rewrite HS0, H2. cbn [alookup]. rewrite (eqb_rfl subid_eqb subid_eqb_ok). reflexivity. }
    assert (L2b : req_lookup si (m s2) = Some (KSub ui h um)).
    { unfold req_lookup. rewrite HR0. cbn [alookup]. rewrite Ess. reflexivity. }
    pose proof (step_unsub s2 h2 h sid si ui h um Q0 K2 L2a L2b) as A3.
    set (s3 := fst (fst (step s2 (FUnsub h2 h)))) in *. after A3.
    rewrite HR0 in HR1. unfold aset in HR1.
    repeat (progress (cbn [aremove] in HR1; rewrite ?Ess, ?Esu, ?Eus, ?Euu, ?Rs, ?Ru in HR1)).
    rewrite HS0, H2 in HS1. cbn [aremove] in HS1. rewrite (eqb_rfl subid_eqb subid_eqb_ok) in HS1.
    rewrite HS, (aremove_notin subid_eqb subid_eqb_ok) in HS1; auto.
    pose proof (step_inv s3 (Back raw2) I3) as I4.
    assert (L3 : req_lookup (rs_id r2) (m s3) = Some (KUnsubP si)).
    { unfold req_lookup. rewrite HR1, H7. cbn [alookup]. rewrite Euu. reflexivity. }
    pose proof (step_resp_unsubp s3 raw2 r2 si Q1 H6 L3) as A4. cbv zeta in A4.
    set (s4 := fst (fst (step s3 (Back raw2)))) in *. after A4.
    rewrite HR1, H7 in HR2.
    repeat (progress (cbn [aremove alookup] in HR2; rewrite ?Ess, ?Esu, ?Eus, ?Euu, ?Rs, ?Ru in HR2)).
    split; auto. split; auto.
    split; [eapply same_env_trans; [|eauto]; eapply same_env_trans; [|eauto]; eapply same_env_trans; eauto|].
    repeat split; congruence.
  - (* subscribe, refused *)
    rewrite !run_fst_cons. cbn [run fst].
    set (si := mk_id s (next_id s)) in *. set (ui := mk_id s (next_id s + 1)) in *.
    assert (Fs : ~ In si (map fst (requests (m s)))) by (apply fresh_key; auto; lia).
    assert (Fu : ~ In ui (map fst (requests (m s)))) by (apply fresh_key; auto; lia).
    assert (Dsu : si <> ui) by (apply mk_id_neq; lia).
    assert (Ess : id_eqb si si = true) by apply (eqb_rfl id_eqb id_eqb_ok).
    assert (Euu : id_eqb ui ui = true) by apply (eqb_rfl id_eqb id_eqb_ok).
    assert (Esu : id_eqb si ui = false) by (apply (eqb_neq id_eqb id_eqb_ok); auto).
    assert (Eus : id_eqb ui si = false) by (apply (eqb_neq id_eqb id_eqb_ok); auto).
    assert (Rs : aremove id_eqb si (requests (m s)) = requests (m s)) by (apply (aremove_notin id_eqb id_eqb_ok); auto).
    assert (Ru : aremove id_eqb ui (requests (m s)) = requests (m s)) by (apply (aremove_notin id_eqb id_eqb_ok); auto).
    pose proof (step_inv s (FSubscribe h sm um p) I) as I1. pose proof (step_subscribe s h sm um p I QT H) as A1.
    set (s1 := fst (fst (step s (FSubscribe h sm um p)))) in *. fold si ui in A1. after A1.
    pose proof (step_inv s1 (Back raw) I1) as I2.
    assert (L1 : req_lookup (rs_id r) (m s1) = Some (KPendSub ui h um)).
    { unfold req_lookup. rewrite HR, H1. cbn [alookup]. rewrite Esu, Ess. reflexivity. }
    pose proof (step_resp_sub_err s1 raw r _ _ _ e Q H0 L1 H2) as A2. cbv zeta in A2.
    set (s2 := fst (fst (step s1 (Back raw)))) in *. after A2.
    assert (MR : requests (release_reserved ui (set_requests (m s1) (aremove id_eqb (rs_id r) (requests (m s1))))) = requests (m s)).
    { unfold release_reserved, req_lookup. cbn [requests set_requests]. rewrite HR, H1. cbn [aremove]. rewrite Esu, Ess, Rs.
      cbn [alookup]. rewrite Euu. cbn [requests set_requests aremove]. rewrite Euu, Ru. reflexivity. }
    destruct (release_frame ui (set_requests (m s1) (aremove id_eqb (rs_id r) (requests (m s1))))) as (F1 & F2 & F3).
    rewrite MR in HR0. rewrite F1 in HS0. rewrite F2 in HB0. rewrite F3 in HN0. cbn [subs batches nhandlers set_requests] in *.
    split; auto. split; auto. split; [eapply same_env_trans; eauto|]. repeat split; congruence.
  - (* subscribe, accept, closed by the server *)
    rewrite !run_fst_cons. cbn [run fst].
    set (si := mk_id s (next_id s)) in *. set (ui := mk_id s (next_id s + 1)) in *.
    assert (Fs : ~ In si (map fst (requests (m s)))) by (apply fresh_key; auto; lia).
    assert (Fu : ~ In ui (map fst (requests (m s)))) by (apply fresh_key; auto; lia).
    assert (Dsu : si <> ui) by (apply mk_id_neq; lia).
    assert (Ess : id_eqb si si = true) by apply (eqb_rfl id_eqb id_eqb_ok).
    assert (Euu : id_eqb ui ui = true) by apply (eqb_rfl id_eqb id_eqb_ok).
    assert (Esu : id_eqb si ui = false) by (apply (eqb_neq id_eqb id_eqb_ok); auto).
    assert (Eus : id_eqb ui si = false) by (apply (eqb_neq id_eqb id_eqb_ok); auto).
    assert (Rs : aremove id_eqb si (requests (m s)) = requests (m s)) by (apply (aremove_notin id_eqb id_eqb_ok); auto).
    assert (Ru : aremove id_eqb ui (requests (m s)) = requests (m s)) by (apply (aremove_notin id_eqb id_eqb_ok); auto).
    pose proof (step_inv s (FSubscribe h sm um p) I) as I1. pose proof (step_subscribe s h sm um p I QT H) as A1.
    set (s1 := fst (fst (step s (FSubscribe h sm um p)))) in *. fold si ui in A1. after A1.
    pose proof (step_inv s1 (Back raw1) I1) as I2.
    assert (L1 : req_lookup (rs_id r1) (m s1) = Some (KPendSub ui h um)).
    { unfold req_lookup. rewrite HR, H2. cbn [alookup]. rewrite Esu, Ess. reflexivity. }
    assert (NS1 : ~ In sid (map fst (subs (m s1)))) by (rewrite HS; auto).
    assert (AL1 : alive s1 h = true) by (rewrite (alive_env s s1); auto).
    pose proof (step_resp_sub_ok s1 raw1 r1 _ _ _ _ _ Q H1 L1 H3 H4 NS1 AL1) as A2.
    set (s2 := fst (fst (step s1 (Back raw1)))) in *. after A2.
    rewrite HR, H2 in HR0. cbn [aremove] in HR0. rewrite Esu, Ess, Rs in HR0.
    pose proof (step_inv s2 (Back raw2) I2) as I3.
    assert (L2a : alookup subid_eqb sid (subs (m s2)) = Some si).
    { rewrite HS0, H2. cbn [alookup]. rewrite (eqb_rfl subid_eqb subid_eqb_ok). reflexivity. }
    assert (L2b : req_lookup si (m s2) = Some (KSub ui h um)).
    { unfold req_lookup. rewrite HR0. cbn [alookup]. rewrite Ess. reflexivity. }
    pose proof (step_sub_close s2 raw2 me sid pl2 si ui h um Q0 H6 L2a L2b) as A3. cbv zeta in A3.
    set (s3 := fst (fst (step s2 (Back raw2)))) in *. after A3.
    set (M1 := set_subs (set_requests (m s2) (aremove id_eqb si (requests (m s2)))) (aremove subid_eqb sid (subs (m s2)))) in *.
    assert (MR : requests (release_reserved ui M1) = requests (m s)).
    { unfold release_reserved, req_lookup, M1. cbn [requests set_requests set_subs]. rewrite HR0. cbn [aremove]. rewrite Ess, Esu, Rs.
      cbn [alookup]. rewrite Euu. cbn [requests set_requests aremove]. rewrite Euu, Ru. reflexivity. }
    destruct (release_frame ui M1) as (F1 & F2 & F3).
    rewrite MR in HR1. rewrite F1 in HS1. rewrite F2 in HB1. rewrite F3 in HN1. unfold M1 in *. cbn [subs batches nhandlers set_requests set_subs] in *.
    rewrite HS0, H2 in HS1. cbn [aremove] in HS1. rewrite (eqb_rfl subid_eqb subid_eqb_ok) in HS1.
    rewrite HS, (aremove_notin subid_eqb subid_eqb_ok) in HS1; auto.
    split; auto. split; auto.
    split; [eapply same_env_trans; [|eauto]; eapply same_env_trans; eauto|]. repeat split; congruence.
  - (* batch, complete array reply *)
    rewrite !run_fst_cons. cbn [run fst].
    pose proof (step_inv s (FBatch h es) I) as I1. pose proof (step_batch s h es I QT H) as A1.
    set (s1 := fst (fst (step s (FBatch h es)))) in *. after A1.
    pose proof (step_inv s1 (Back raw) I1) as I2.
    set (lo := next_id s) in *. set (hi := lo + N.of_nat (length es)) in *.
    assert (LK : alookup range_eqb (lo, hi) (batches (m s1)) = Some h).
    { rewrite HB. cbn [alookup]. rewrite (eqb_rfl range_eqb range_eqb_ok). reflexivity. }
    pose proof (step_batch_reply s1 raw rs ns lo hi h Q H0 H1 H2 H3 H4 H5 LK) as A2.
    set (s2 := fst (fst (step s1 (Back raw)))) in *. after A2.
    rewrite HB in HB0. cbn [aremove] in HB0. rewrite (eqb_rfl range_eqb range_eqb_ok) in HB0.
    rewrite (aremove_notin range_eqb range_eqb_ok) in HB0.
    2:{ apply fresh_range; auto; unfold lo, hi; [lia|]. destruct es; [congruence|]. cbn [length]. lia. }
    split; auto. split; auto. split; [eapply same_env_trans; eauto|]. repeat split; congruence.
  - (* notification method: subscribe, unsubscribe *)
    rewrite !run_fst_cons. cbn [run fst].
    pose proof (step_inv s (FSubMethod h me) I) as I1. pose proof (step_submethod s h me I QT H H0) as A1.
    set (s1 := fst (fst (step s (FSubMethod h me)))) in *. after A1.
    pose proof (step_inv s1 (FUnsub h2 h) I1) as I2.
    assert (K : alookup N.eqb h (subkind s1) = Some (inr me)).
    { rewrite HK. cbn [alookup]. rewrite N.eqb_refl. reflexivity. }
    assert (LK : alookup bytes_eqb me (nhandlers (m s1)) = Some h).
    { rewrite HN. cbn [alookup]. rewrite bytes_eqb_refl. reflexivity. }
    pose proof (step_unsub_method s1 h2 h me h Q K LK) as A2.
    set (s2 := fst (fst (step s1 (FUnsub h2 h)))) in *. after A2.
    rewrite HN in HN0. cbn [aremove] in HN0. rewrite bytes_eqb_refl in HN0.
    rewrite (aremove_notin bytes_eqb bytes_eqb_eq) in HN0; auto.
    split; auto. split; auto. split; [eapply same_env_trans; eauto|]. repeat split; congruence.
Qed.

(* any sequence of closed cycles, each taken in the state its predecessors left *)
Inductive cycles (s : st) : list ev -> Prop :=
| cs_nil : cycles s []
| cs_cons es es' : cycle s es -> cycles (fst (run s es)) es' -> cycles s (es ++ es').

Theorem cycles_return s es : Inv s -> quiet s -> cycles s es -> Closed s (fst (run s es)).
Proof.
  intros I QT CS. induction CS as [s | s es es' CY CS IH].
  - apply Closed_refl; auto.
  - rewrite run_app. pose proof (cycle_returns s es I QT CY) as C1.
    eapply Closed_trans; [exact C1|]. apply IH; apply C1.
Qed.

Theorem no_growth s es : Inv s -> quiet s -> cycles s es -> table_sizes (fst (run s es)) = table_sizes s.
Proof. intros I QT CS. apply Closed_sizes. apply cycles_return; auto. Qed.

Theorem cycle_sizes s es : Inv s -> quiet s -> cycle s es -> table_sizes (fst (run s es)) = table_sizes s.
Proof. intros I QT CY. apply Closed_sizes. apply cycle_returns; auto. Qed.

Theorem cycle_returns_full s es : Inv s -> quiet s -> cycle s es ->
  let s' := fst (run s es) in
  Inv s' /\ quiet s' /\ table_sizes s' = table_sizes s /\
  requests (m s') = requests (m s) /\ subs (m s') = subs (m s) /\ batches (m s') = batches (m s) /\ nhandlers (m s') = nhandlers (m s).
Proof.
  intros I QT CY. cbv zeta. pose proof (cycle_returns s es I QT CY) as C. pose proof (Closed_sizes _ _ C) as T.
  destruct C as (a & b & c & d & e & f & g). split; [exact a|]. split; [exact b|]. split; [exact T|]. auto.
Qed.

(* ------------------------------------------------------------------------------------------- *)
(* Part D: a batches entry disappears only through an array reply or at shutdown; ids on the wire *)
(* ------------------------------------------------------------------------------------------- *)

Definition Keep (s s' : st) : Prop := (forall x, In x (batches (m s)) -> In x (batches (m s'))) \/ dead s' = true.

Lemma Keep_refl s : Keep s s.
Proof. left; auto. Qed.

Lemma Keep_m s s' : batches (m s') = batches (m s) -> Keep s s'.
Proof. intros E. left. rewrite E. auto. Qed.

Lemma Keep_trans s1 s2 s3 : Keep s1 s2 -> (dead s2 = true -> dead s3 = true) -> Keep s2 s3 -> Keep s1 s3.
Proof.
  intros [A | A] D [B | B]; try (right; auto; fail). left; auto.
Qed.

Lemma handle_front_keep s msg : dead s = false ->
  (forall x, In x (batches (m s)) -> In x (batches (m (fst (handle_front s msg))))).
Proof.
  intros _.
  assert (W : forall s1 raw, m (fst (wire s1 raw)) = m s1) by (intros s1 raw; destruct (wire_same s1 raw); auto).
  assert (DS : forall s1 c, m (drop_sink s1 c) = m s1) by (intros s1 c; destruct (drop_sink_same s1 c); auto).
  destruct msg as [lo hi h raw | raw | i w raw | si ui um h raw | me h | me | sid]; cbn [handle_front].
  - destruct (ahas _ _ _); auto. rewrite W. st_simpl. cbn [batches set_batches]. intros x Hx. right; auto.
  - rewrite W. auto.
  - destruct (ahas _ _ _); auto. rewrite W. auto.
  - destruct (_ && _); auto. rewrite W. auto.
  - destruct (ahas _ _ _); auto. destruct (alive s h); cbn [fst]; st_simpl; auto.
  - destruct (alookup _ _ _); auto. cbn [fst]. rewrite DS. auto.
  - unfold do_unsubscribe. destruct (alookup _ _ _); auto. destruct (req_lookup _ _) as [[w|u w um|u ch um|j]|]; auto.
    rewrite W. st_simpl. rewrite DS. auto.
Qed.

Lemma settle_keep s : Keep s (fst (settle s)).
Proof.
  apply (settle_lift (fun s' => Keep s s') (fun _ => True)).
  - intros f s0 J. destruct (admit_waiting_sameq f s0). destruct J as [J | J]; [left; rewrite sq_m; exact J | right; rewrite sq_dead; exact J].
  - intros s0 msg q J Q D _ _. split; [|apply Forall_forall; auto]. destruct J as [J | J]; [|congruence].
    left. intros x Hx. apply handle_front_keep; auto.
  - intros s0 f _ _ _ _. split; [right; reflexivity | apply Forall_forall; auto].
  - intros s0 J. split; [|apply Forall_forall; auto]. destruct (finish_frame s0) as ([] & _).
    destruct J as [J | J]; [left; rewrite sc_m; exact J | right; rewrite sc_dead; exact J].
  - apply Keep_refl.
Qed.

Lemma single_response_batches s r : batches (m (rres_st (single_response s r))) = batches (m s).
Proof.
  unfold single_response. destruct (req_lookup _ _) as [[w|u w um|u ch um|sub]|]; cbn [rres_st]; auto.
  set (m1 := set_requests _ _).
  assert (E : batches (m (upd_m s (release_reserved u m1))) = batches (m s)).
  { st_simpl. destruct (release_frame u m1) as (_ & -> & _). reflexivity. }
  destruct (rs_payload r); cbn [rres_st]; auto. destruct (parse_subid raw); cbn [rres_st]; auto.
  destruct (ahas _ _ _); cbn [rres_st]; auto. destruct (alive s w); cbn [rres_st]; auto.
  unfold forward, enqueue. match goal with |- context [enqueue_tagged ?a ?b ?c] => destruct (enqueue_tagged_sameq a b c) as [E0] end.
  rewrite E0. reflexivity.
Qed.

Lemma elem_single_batches s x : batches (m (rres_st (handle_elem_single s x))) = batches (m s).
Proof.
  rewrite handle_elem_single_now.
  destruct x as [r|me sid p|me sid p|me p|]; cbn [handle_elem_single_ref rres_st]; auto.
  - apply single_response_batches.
  - unfold sub_deliver. destruct (alookup _ _ _); auto. destruct (req_lookup _ _) as [[w|u w um|u ch um|j]|]; auto.
    destruct (chan_of s ch); auto. destruct (chan_send c p) as [c' res].
    destruct res; auto; unfold forward, enqueue;
      match goal with |- context [enqueue_tagged ?a ?b ?c] => destruct (enqueue_tagged_sameq a b c) as [E] end; rewrite E; reflexivity.
  - unfold sub_close. destruct (alookup _ _ _); auto. destruct (req_lookup _ _) as [[w|u w um|u ch um|j]|]; auto.
    match goal with |- context [drop_sink ?a ?b] => destruct (drop_sink_same a b) as [E] end. rewrite E. st_simpl.
    match goal with |- context [release_reserved ?a ?b] => destruct (release_frame a b) as (_ & -> & _) end. reflexivity.
  - unfold notif_deliver. destruct (alookup _ _ _) as [ch|]; auto. destruct (chan_of s ch); auto.
    destruct (chan_send c _) as [c' res].
    destruct res; auto; match goal with |- context [drop_sink ?a ?b] => destruct (drop_sink_same a b) as [E] end; rewrite E; reflexivity.
Qed.

(* a step that makes a batches entry disappear is an array reply from the server, or the client has shut down *)
Theorem batch_leaves s e x : In x (batches (m s)) -> ~ In x (batches (m (fst (fst (step s e))))) ->
  (exists raw ms, e = Back raw /\ classify_frame raw = FArray ms) \/ dead (fst (fst (step s e))) = true.
Proof.
  intros Hx Hn.
  destruct (match e with Back raw => match classify_frame raw with FArray _ => true | _ => false end | _ => false end) eqn:AR.
  { left. destruct e; try discriminate. destruct (classify_frame raw) eqn:CF; try discriminate. eauto. }
  right.
  assert (K1 : batches (m (fst (fst (apply s e)))) = batches (m s)).
  { unfold apply. destruct (dead s) eqn:D.
    - destruct e; cbn [fst]; auto.
      + destruct (poll_next_same s sh). destruct (poll_next s sh). cbn [fst] in *. congruence.
      + destruct (close_msg_of s sh); auto. destruct (chan_of s sh); auto.
      + destruct (close_msg_of s sh); auto. destruct (chan_of s sh); auto.
    - destruct e; cbn [fst]; auto;
        try (unfold enqueue; match goal with |- context [enqueue_tagged ?a ?b ?c] => destruct (enqueue_tagged_sameq a b c) as [E] end; rewrite E; reflexivity).
      + destruct entries; auto. cbn [fst].
        unfold enqueue; match goal with |- context [enqueue_tagged ?a ?b ?c] => destruct (enqueue_tagged_sameq a b c) as [E] end; rewrite E; reflexivity.
      + destruct (bytes_eqb sub unsub); auto. cbn [fst].
        unfold enqueue; match goal with |- context [enqueue_tagged ?a ?b ?c] => destruct (enqueue_tagged_sameq a b c) as [E] end; rewrite E; reflexivity.
      + destruct (poll_next_same s sh). destruct (poll_next s sh). cbn [fst] in *. congruence.
      + destruct (close_msg_of s sh); auto. cbn [fst].
        match goal with |- context [enqueue_tagged ?a ?b ?c] => destruct (enqueue_tagged_sameq a b c) as [E] end; rewrite E; reflexivity.
      + destruct (close_msg_of s sh); auto. destruct (chan_of s sh); auto. cbn [fst].
        match goal with |- context [try_enqueue ?a ?b] => destruct (try_enqueue_sameq a b) as [E] end; rewrite E; reflexivity.
      + destruct (dying s); auto. destruct (classify_frame raw) as [x0|ms|] eqn:CF; [|discriminate|]; rewrite ?handle_back_now; cbn [handle_back_ref].
        * pose proof (elem_single_batches s x0) as E. rewrite handle_elem_single_now in E.
          destruct (handle_elem_single_ref s x0); cbn [rres_st fst] in *; auto.
        * reflexivity. }
  unfold step in *. destruct (apply s e) as [[s1 o1] r]. cbn [fst] in *.
  pose proof (settle_keep s1) as K2. destruct (settle s1) as [s2 o2]. cbn [fst] in *.
  destruct K2 as [K2 | K2]; auto. exfalso. apply Hn. apply K2. rewrite K1. exact Hx.
Qed.

(* C03: no two outstanding requests carry the same id on the wire -- single ids are pairwise distinct, batch ranges are
   pairwise disjoint, and no single id lies in a batch range (table entries and queued messages together) *)
Theorem wire_ids_distinct idstr qc bc gate es : let s := fst (run (init idstr qc bc gate) es) in
  NoDup (map fst (requests (m s)) ++ queued_ids s) /\
  (forall r1 r2, In r1 (map fst (batches (m s)) ++ queued_ranges s) -> In r2 (map fst (batches (m s)) ++ queued_ranges s) ->
     r1 <> r2 -> forall n, ~ (in_range r1 n /\ in_range r2 n)) /\
  (forall n r, In (mk_id s n) (map fst (requests (m s)) ++ queued_ids s) ->
     In r (map fst (batches (m s)) ++ queued_ranges s) -> ~ in_range r n).
Proof.
  cbv zeta. destruct (reachable_spelled idstr qc bc gate es). auto.
Qed.
