(* C18: the client's bookkeeping returns to empty.
   Part A: the invariant in reachable states, spelled out; quiescence; batches; tombstones.
   Part B: identifiers of finished work are never inserted again.
   Part C: closed cycles return the table sizes. *)
From JV Require Import Base.Bytes Base.Dec Base.Utf8 Json.Json Model.Wire Model.ClientMgr Proofs.DecFacts
                       Proofs.ClientMgrInv Proofs.ClientMgrC03.
From Coq Require Import Permutation.
Local Open Scope N_scope.
Arguments N.add : simpl never.
Arguments N.sub : simpl never.
Arguments N.mul : simpl never.
Arguments N.ltb : simpl never.
Arguments N.leb : simpl never.
Arguments N.eqb : simpl never.

(* ------------------------------------------------------------------------------------------- *)
(* Part A                                                                                        *)
(* ------------------------------------------------------------------------------------------- *)

Theorem reachable_inv idstr qc bc gate es : Inv (fst (run (init idstr qc bc gate) es)).
Proof. apply run_inv. apply init_inv. Qed.

(* ids carried by the queued front-to-back messages, and their batch ranges *)
Definition queued_ids (s : st) : list id := qids (qmsgs s).
Definition queued_ranges (s : st) : list (N * N) := qrngs (qmsgs s).
Definition in_range (r : N * N) (n : N) : Prop := fst r <= n /\ n < snd r.

(* the invariant in the vocabulary of the model *)
Record Spelled (s : st) : Prop := {
  (* I1 *)
  sp_keys_requests : NoDup (map fst (requests (m s)));
  sp_keys_subs : NoDup (map fst (subs (m s)));
  sp_keys_batches : NoDup (map fst (batches (m s)));
  sp_keys_nhandlers : NoDup (map fst (nhandlers (m s)));
  sp_keys_chans : NoDup (map fst (chans s));
  (* I2 *)
  sp_ids_allocated : forall i, In i (map fst (requests (m s)) ++ queued_ids s) -> exists n, n < next_id s /\ i = mk_id s n;
  sp_ids_distinct : NoDup (map fst (requests (m s)) ++ queued_ids s);
  sp_ranges_ok : forall r, In r (map fst (batches (m s)) ++ queued_ranges s) -> fst r < snd r /\ snd r <= next_id s;
  sp_ranges_distinct : NoDup (map fst (batches (m s)) ++ queued_ranges s);
  sp_ranges_disjoint : forall r1 r2, In r1 (map fst (batches (m s)) ++ queued_ranges s) ->
      In r2 (map fst (batches (m s)) ++ queued_ranges s) -> r1 <> r2 -> forall n, ~ (in_range r1 n /\ in_range r2 n);
  sp_ids_off_ranges : forall n r, In (mk_id s n) (map fst (requests (m s)) ++ queued_ids s) ->
      In r (map fst (batches (m s)) ++ queued_ranges s) -> ~ in_range r n;
  (* I3 *)
  sp_subs_iff : forall sid i, In (sid, i) (subs (m s)) <-> (exists u ch um, req_lookup i (m s) = Some (KSub u ch um)) /\ alookup subid_eqb sid (subs (m s)) = Some i;
  sp_sub_named : forall i u ch um, req_lookup i (m s) = Some (KSub u ch um) -> exists sid, In (sid, i) (subs (m s));
  sp_subs_one : NoDup (map snd (subs (m s)));
  (* I4 *)
  sp_reserved : forall i k u, req_lookup i (m s) = Some k -> refs k = Some u ->
      req_lookup u (m s) = Some (KCall None) \/ req_lookup u (m s) = None;
  sp_call_none : forall j, req_lookup j (m s) = Some (KCall None) ->
      exists i k, req_lookup i (m s) = Some k /\ refs k = Some j;
  sp_unacked : forall u, In u (unacked s) <-> exists j, req_lookup u (m s) = Some (KUnsubP j);
  (* I5 *)
  sp_dead : dead s = true -> m s = empty_mgr /\ queue s = [] /\ waiting s = []
}.

Lemma Inv_spelled s : Inv s -> Spelled s.
Proof.
  intros [(H1 & H2 & H3) h2 h3 h4]. pose proof (IdsC_nd_keys _ _ _ _ _ H1) as ND.
  pose proof H1 as [a1 a2 a3 a4 a5 a6 a7]. pose proof H2 as [b1 b2 b3 b4 b5 b6 b7 b8 b9].
  assert (LK : forall i k, req_lookup i (m s) = Some k <-> In (i, k) (requests (m s))).
  { intros i k. split; [apply (alookup_In id_eqb id_eqb_ok) | apply (In_alookup id_eqb id_eqb_ok); auto]. }
  constructor; auto.
  - eapply IdsC_nd_bkeys; eauto.
  - intros i Hi. apply a2 in Hi as (n & Hn & ->). exists n. auto.
  - intros r1 r2 I1 I2 D n (X & Y). destruct (a5 r1 r2 I1 I2) as [E | [E | E]]; [contradiction | |]; unfold in_range in *; lia.
  - intros n r Hi Hr X. pose proof (a6 _ Hi r Hr) as Y. rewrite mk_id_mkid, id_n_mkid in Y. unfold in_range in X. lia.
  - intros sid i. split.
    + intros Hs. split.
      * destruct (b3 _ _ Hs) as (u & ch & um & Hu). exists u, ch, um. apply LK; auto.
      * apply (In_alookup subid_eqb subid_eqb_ok); auto.
    + intros (_ & Hs). apply (alookup_In subid_eqb subid_eqb_ok); auto.
  - intros i u ch um Hi. apply LK in Hi. eauto.
  - intros i k u Hi Hu. apply LK in Hi. destruct (b5 _ _ _ Hi Hu) as (_ & _ & _ & UK).
    destruct (req_lookup u (m s)) as [k'|] eqn:E; auto. left. apply LK in E. apply UK in E. subst. reflexivity.
  - intros j Hj. apply LK in Hj. destruct (b7 _ Hj) as (i & k & Hi & Hr). exists i, k. split; auto. apply LK; auto.
  - intros u. split.
    + intros Hu. destruct (b9 _ Hu) as (j & Hj). exists j. apply LK; auto.
    + intros (j & Hj). apply LK in Hj. eauto.
Qed.

Theorem reachable_spelled idstr qc bc gate es : Spelled (fst (run (init idstr qc bc gate) es)).
Proof. apply Inv_spelled, reachable_inv. Qed.

(* quiescence *)
Definition quiescent (s : st) : Prop := forall i k, In (i, k) (requests (m s)) -> k = KCall None.

Lemma Inv_quiescent s : Inv s -> quiescent s -> requests (m s) = [] /\ subs (m s) = [].
Proof. intros I Q. eapply InvC_quiescent; [apply (inv_core _ I) | exact Q]. Qed.

Theorem quiescent_empty idstr qc bc gate es : let s := fst (run (init idstr qc bc gate) es) in
  quiescent s -> requests (m s) = [] /\ subs (m s) = [].
Proof. cbv zeta. apply Inv_quiescent, reachable_inv. Qed.

(* in the terms of unacked: no waiter-bearing entry and nothing unacknowledged *)
Theorem quiescent_empty_unacked idstr qc bc gate es : let s := fst (run (init idstr qc bc gate) es) in
  (forall i k, In (i, k) (requests (m s)) -> match k with KCall (Some _) | KPendSub _ _ _ | KSub _ _ _ => False | _ => True end) ->
  unacked s = [] -> requests (m s) = [] /\ subs (m s) = [].
Proof.
  cbv zeta. intros Hk Hu. pose proof (reachable_inv idstr qc bc gate es) as I. apply Inv_quiescent; auto.
  intros i k Hi. pose proof (Hk i k Hi) as X. destruct k as [[w|]| | |j]; try contradiction; auto.
  destruct (inv_core _ I) as (_ & T & _). apply (tc_unsubp _ _ _ _ _ _ _ T) in Hi. rewrite Hu in Hi. contradiction.
Qed.

(* every batches entry is an unanswered batch call *)
Theorem batches_exact idstr qc bc gate es lo hi h : NoDup (front_handles es) ->
  In ((lo, hi), h) (batches (m (fst (run (init idstr qc bc gate) es)))) ->
  issued_batch idstr qc bc gate es h lo hi /\ ncompl h (outs_of (snd (run (init idstr qc bc gate) es))) = 0%nat.
Proof.
  intros N Hi. split.
  - apply (proj2 (origin idstr qc bc gate es)). left. exact Hi.
  - apply pending_not_completed; auto. unfold pot, tokens. rewrite !cnt_app.
    assert (X : (0 < cnt h (map snd (batches (m (fst (run (init idstr qc bc gate) es))))))%nat).
    { unfold cnt. apply count_occ_In. apply in_map_iff. exists ((lo, hi), h). auto. }
    lia.
Qed.

(* a late duplicate of the subscribe answer while the unsubscribe is unacknowledged: absorbed, delivered to nobody *)
Theorem tombstone_absorbs s u rid r : Inv s -> In (u, KUnsubP rid) (requests (m s)) -> rs_id r = rid ->
  rres_out (single_response s r) = [] /\
  (req_lookup rid (m s) = Some (KCall None) \/ req_lookup rid (m s) = None).
Proof.
  intros I Hu E. destruct (inv_core _ I) as (_ & T & _). destruct (tc_res _ _ _ _ _ _ _ T _ _ _ Hu eq_refl) as (_ & _ & _ & UK).
  assert (L : req_lookup rid (m s) = Some (KCall None) \/ req_lookup rid (m s) = None).
  { destruct (req_lookup rid (m s)) as [k|] eqn:L; auto. left. apply (alookup_In id_eqb id_eqb_ok) in L. apply UK in L. subst; auto. }
  split; auto. unfold single_response. rewrite E. destruct L as [-> | ->]; reflexivity.
Qed.
