(* Shared invariants of the async client's request manager (Model/ClientMgr.v), used by C03 and C18.

   Part 1: association-list and list facts.
   Part 2: the id discipline and table invariant `InvC` over the "core" of a state
           (manager tables, the multiset of queued front-to-back messages, the id counter, the id kind,
           the unacked history variable) and its preservation by each table transformation.
   Part 3: frame facts for the state-level primitives, `Inv : st -> Prop`, `Ext` (what a step can add),
           and their preservation by apply / handle_front / drain / try_kill / finish_unsubs / settle / step / run. *)
From JV Require Import Base.Bytes Base.Dec Base.Utf8 Json.Json Model.Wire Model.ClientMgr Proofs.DecFacts.
From Coq Require Import Permutation.
Local Open Scope N_scope.
Arguments N.add : simpl never.
Arguments N.sub : simpl never.
Arguments N.mul : simpl never.
Arguments N.ltb : simpl never.
Arguments N.leb : simpl never.
Arguments N.eqb : simpl never.

(* ------------------------------------------------------------------------------------------- *)
(* Part 1: lists                                                                                 *)
(* ------------------------------------------------------------------------------------------- *)

Lemma nodup_app {A} (l1 l2 : list A) :
  NoDup (l1 ++ l2) <-> NoDup l1 /\ NoDup l2 /\ (forall x, In x l1 -> ~ In x l2).
Proof.
  induction l1 as [|a l1 IH]; cbn.
  - split; [intros H; repeat split; auto; constructor | intros (_ & H & _); exact H].
  - rewrite !NoDup_cons_iff, IH, in_app_iff. split.
    + intros (Hn & H1 & H2 & H3). repeat split; auto.
      intros x [-> | Hx]; auto.
    + intros ((Hn & H1) & H2 & H3). repeat split; auto.
      intros [Hx | Hx]; auto. apply (H3 a); auto.
Qed.

Lemma nodup_map_filter {A B} (f : A -> B) (p : A -> bool) l :
  NoDup (map f l) -> NoDup (map f (filter p l)).
Proof.
  induction l as [|a l IH]; cbn; intros H; auto.
  apply NoDup_cons_iff in H as (Hn & H). destruct (p a); cbn; auto.
  constructor; auto. intros Hi. apply Hn.
  apply in_map_iff in Hi as (x & Hx & Hi). apply filter_In in Hi as (Hi & _).
  apply in_map_iff. eauto.
Qed.

Lemma in_map_filter {A B} (f : A -> B) (p : A -> bool) l y :
  In y (map f (filter p l)) -> In y (map f l).
Proof.
  intros Hi. apply in_map_iff in Hi as (x & Hx & Hi). apply filter_In in Hi as (Hi & _).
  apply in_map_iff; eauto.
Qed.

Lemma in_flat_map_filter {A B} (f : A -> list B) (p : A -> bool) l y :
  In y (flat_map f (filter p l)) -> In y (flat_map f l).
Proof.
  intros Hi. apply in_flat_map in Hi as (x & Hi & Hx). apply filter_In in Hi as (Hi & _).
  apply in_flat_map; eauto.
Qed.

Lemma nodup_flat_map_filter {A B} (f : A -> list B) (p : A -> bool) l :
  NoDup (flat_map f l) -> NoDup (flat_map f (filter p l)).
Proof.
  induction l as [|a l IH]; cbn; intros H; auto.
  apply nodup_app in H as (H1 & H2 & H3). destruct (p a); cbn; auto.
  apply nodup_app. repeat split; auto.
  intros x Hx Hi. apply (H3 x Hx). eapply in_flat_map_filter; eauto.
Qed.

(* ---------- association lists ---------- *)
Section AL.
  Context {K V : Type} (eqb : K -> K -> bool).
  Hypothesis eqb_ok : forall a b, eqb a b = true <-> a = b.

  Lemma eqb_rfl a : eqb a a = true.
  Proof. apply eqb_ok; reflexivity. Qed.

  Lemma eqb_neq a b : a <> b -> eqb a b = false.
  Proof. intros H. destruct (eqb a b) eqn:E; auto. apply eqb_ok in E. contradiction. Qed.

  Lemma aremove_filter k (l : list (K * V)) :
    aremove eqb k l = filter (fun kv => negb (eqb k (fst kv))) l.
  Proof.
    induction l as [|[k' v] l IH]; cbn; auto. destruct (eqb k k'); cbn; congruence.
  Qed.

  Lemma In_aremove k k' v (l : list (K * V)) :
    In (k', v) (aremove eqb k l) <-> In (k', v) l /\ k' <> k.
  Proof.
    rewrite aremove_filter, filter_In. cbn. split; intros (H1 & H2); split; auto.
    - intros ->. rewrite eqb_rfl in H2. discriminate.
    - rewrite eqb_neq; auto.
  Qed.

  Lemma keys_aremove k k' (l : list (K * V)) :
    In k' (map fst (aremove eqb k l)) <-> In k' (map fst l) /\ k' <> k.
  Proof.
    rewrite !in_map_iff. split.
    - intros ([k2 v] & E & Hi). cbn in E; subst k2. apply In_aremove in Hi as (Hi & Hn).
      split; auto. exists (k', v); auto.
    - intros (([k2 v] & E & Hi) & Hn). cbn in E; subst k2. exists (k', v). split; auto.
      apply In_aremove; auto.
  Qed.

  Lemma keys_aremove_nodup k (l : list (K * V)) :
    NoDup (map fst l) -> NoDup (map fst (aremove eqb k l)).
  Proof. rewrite aremove_filter. apply nodup_map_filter. Qed.

  Lemma vals_aremove_nodup {W} (g : V -> W) k (l : list (K * V)) :
    NoDup (map (fun kv => g (snd kv)) l) -> NoDup (map (fun kv => g (snd kv)) (aremove eqb k l)).
  Proof. rewrite aremove_filter. apply nodup_map_filter. Qed.

  Lemma aremove_notin k (l : list (K * V)) : ~ In k (map fst l) -> aremove eqb k l = l.
  Proof.
    induction l as [|[k' v] l IH]; cbn; auto. intros H.
    rewrite eqb_neq by (intros ->; apply H; auto). f_equal. apply IH. intros Hi; apply H; auto.
  Qed.

  Lemma alookup_In k v (l : list (K * V)) : alookup eqb k l = Some v -> In (k, v) l.
  Proof.
    induction l as [|[k' v'] l IH]; cbn; [discriminate|].
    destruct (eqb k k') eqn:E.
    - apply eqb_ok in E. subst. intros [= ->]. auto.
    - auto.
  Qed.

  Lemma alookup_None k (l : list (K * V)) : alookup eqb k l = None <-> ~ In k (map fst l).
  Proof.
    induction l as [|[k' v'] l IH]; cbn; [tauto|].
    destruct (eqb k k') eqn:E.
    - apply eqb_ok in E. subst. split; [discriminate | intros H; exfalso; apply H; auto].
    - rewrite IH. split; [|tauto]. intros H [-> | Hi]; auto. rewrite eqb_rfl in E. discriminate.
  Qed.

  Lemma In_alookup k v (l : list (K * V)) : NoDup (map fst l) -> In (k, v) l -> alookup eqb k l = Some v.
  Proof.
    induction l as [|[k' v'] l IH]; cbn; [tauto|]. intros Hn. apply NoDup_cons_iff in Hn as (Hn & Hd).
    intros [[= -> ->] | Hi].
    - rewrite eqb_rfl; auto.
    - rewrite eqb_neq; auto. intros ->. apply Hn. apply in_map_iff. exists (k', v); auto.
  Qed.

  Lemma ahas_false k (l : list (K * V)) : ahas eqb k l = false <-> ~ In k (map fst l).
  Proof.
    unfold ahas. rewrite <- alookup_None. destruct (alookup eqb k l); split; congruence.
  Qed.

  Lemma ahas_true k (l : list (K * V)) : ahas eqb k l = true <-> In k (map fst l).
  Proof.
    destruct (ahas eqb k l) eqn:E.
    - split; auto. intros _. destruct (in_dec (fun a b => match Bool.bool_dec (eqb a b) true with
        | left e => left (proj1 (eqb_ok a b) e)
        | right n => right (fun e => n (proj2 (eqb_ok a b) e)) end) k (map fst l)) as [Hi|Hn]; auto.
      apply ahas_false in Hn. congruence.
    - split; [discriminate|]. intros Hi. apply ahas_false in E. contradiction.
  Qed.

  Lemma alookup_key_in k v (l : list (K * V)) : alookup eqb k l = Some v -> In k (map fst l).
  Proof. intros H. apply alookup_In in H. apply in_map_iff. exists (k, v); auto. Qed.

  Lemma in_key k v (l : list (K * V)) : In (k, v) l -> In k (map fst l).
  Proof. intros H. apply in_map_iff. exists (k, v); auto. Qed.

  Lemma nodup_keys_fun k v v' (l : list (K * V)) : NoDup (map fst l) -> In (k, v) l -> In (k, v') l -> v = v'.
  Proof.
    intros Hn H1 H2. apply (In_alookup _ _ _ Hn) in H1. apply (In_alookup _ _ _ Hn) in H2. congruence.
  Qed.

  Lemma aset_keys_nodup k v (l : list (K * V)) : NoDup (map fst l) -> NoDup (map fst (aset eqb k v l)).
  Proof.
    intros H. unfold aset. cbn. constructor.
    - intros Hi. apply keys_aremove in Hi as (_ & Hn). congruence.
    - apply keys_aremove_nodup; auto.
  Qed.

  Lemma length_aremove_in k (l : list (K * V)) :
    NoDup (map fst l) -> In k (map fst l) -> S (length (aremove eqb k l)) = length l.
  Proof.
    induction l as [|[k' v] l IH]; cbn; [tauto|]. intros Hn. apply NoDup_cons_iff in Hn as (Hn & Hd).
    intros [-> | Hi].
    - rewrite eqb_rfl. rewrite aremove_notin; auto.
    - rewrite eqb_neq by (intros ->; contradiction). cbn. f_equal. auto.
  Qed.
End AL.

Lemma nodup_vals_fun {K V} (l : list (K * V)) k k' v :
  NoDup (map snd l) -> In (k, v) l -> In (k', v) l -> k = k'.
Proof.
  induction l as [|[k0 v0] l IH]; cbn; [tauto|]. intros Hn. apply NoDup_cons_iff in Hn as (Hn & Hd).
  intros [E1 | H1] [E2 | H2]; auto.
  - congruence.
  - inversion E1; subst. exfalso. apply Hn. apply in_map_iff. exists (k', v); auto.
  - inversion E2; subst. exfalso. apply Hn. apply in_map_iff. exists (k, v); auto.
Qed.

Lemma id_eqb_ok a b : id_eqb a b = true <-> a = b.
Proof.
  destruct a, b; cbn; try (split; [discriminate | congruence]); try tauto.
  - rewrite N.eqb_eq. split; congruence.
  - rewrite bytes_eqb_eq. split; congruence.
Qed.

Lemma subid_eqb_ok a b : subid_eqb a b = true <-> a = b.
Proof.
  destruct a, b; cbn; try (split; [discriminate | congruence]).
  - rewrite N.eqb_eq. split; congruence.
  - rewrite bytes_eqb_eq. split; congruence.
Qed.

Lemma range_eqb_ok a b : range_eqb a b = true <-> a = b.
Proof.
  destruct a, b; unfold range_eqb; cbn. rewrite andb_true_iff, !N.eqb_eq. split; [intros (-> & ->); auto | intros [= -> ->]; auto].
Qed.

Lemma Neqb_ok (a b : N) : N.eqb a b = true <-> a = b.
Proof. apply N.eqb_eq. Qed.


(* ------------------------------------------------------------------------------------------- *)
(* Part 2: the core invariant                                                                    *)
(* ------------------------------------------------------------------------------------------- *)

Definition mkid (b : bool) (n : N) : id := if b then IdStr (print_N n) else IdNum n.
Lemma mk_id_mkid s n : mk_id s n = mkid (id_str s) n.
Proof. reflexivity. Qed.

(* the number an allocated id stands for *)
Definition id_n (i : id) : N := match i with IdNum n => n | IdStr s => digits_val s | IdNull => 0 end.
Lemma id_n_mkid b n : id_n (mkid b n) = n.
Proof. destruct b; cbn; auto. apply digits_val_print_N. Qed.
Lemma mkid_inj b n n' : mkid b n = mkid b n' -> n = n'.
Proof. intros H. apply (f_equal id_n) in H. rewrite !id_n_mkid in H. exact H. Qed.

Definition idlt (b : bool) (nx : N) (i : id) : Prop := exists n, n < nx /\ i = mkid b n.
Definition idge (b : bool) (nx : N) (i : id) : Prop := exists n, nx <= n /\ i = mkid b n.

Lemma idlt_mono b nx nx' i : nx <= nx' -> idlt b nx i -> idlt b nx' i.
Proof. intros H (n & Hn & ->). exists n; split; auto; lia. Qed.
Lemma idlt_ge_False b nx i : idlt b nx i -> idge b nx i -> False.
Proof. intros (n & Hn & ->) (n' & Hn' & E). apply mkid_inj in E. lia. Qed.
Lemma idlt_id_n b nx i : idlt b nx i -> id_n i < nx.
Proof. intros (n & Hn & ->). rewrite id_n_mkid; auto. Qed.

Definition msg_ids (x : f2b) : list id :=
  match x with MRequest i _ _ => [i] | MSubscribe si ui _ _ _ => [si; ui] | _ => [] end.
Definition msg_ranges (x : f2b) : list (N * N) :=
  match x with MBatch lo hi _ _ => [(lo, hi)] | _ => [] end.
Definition msg_ok (x : f2b) : Prop := match x with MRequest _ None _ => False | _ => True end.
(* the other id a table entry refers to: the reserved unsubscribe id of a (pending) subscription,
   the kept subscribe id (tombstone) of a pending unsubscribe *)
Definition refs (k : kind) : option id :=
  match k with KCall _ => None | KPendSub u _ _ => Some u | KSub u _ _ => Some u | KUnsubP j => Some j end.

Definition qids (Q : list f2b) : list id := flat_map msg_ids Q.
Definition qrngs (Q : list f2b) : list (N * N) := flat_map msg_ranges Q.
Definition ids_of (R : list (id * kind)) (Q : list f2b) : list id := map fst R ++ qids Q.
Definition rngs_of (B : list ((N * N) * handle)) (Q : list f2b) : list (N * N) := map fst B ++ qrngs Q.
Definition rdisj (r1 r2 : N * N) : Prop := snd r1 <= fst r2 \/ snd r2 <= fst r1.
Definition off_rngs (rs : list (N * N)) (i : id) : Prop := forall r, In r rs -> id_n i < fst r \/ snd r <= id_n i.

(* id discipline: R = requests, B = batches, Q = queued messages (queue ++ waiting), nx = id counter *)
Record IdsC (R : list (id * kind)) (B : list ((N * N) * handle)) (Q : list f2b) (nx : N) (b : bool) : Prop := {
  ic_nd_ids : NoDup (ids_of R Q);
  ic_lt_ids : forall i, In i (ids_of R Q) -> idlt b nx i;
  ic_nd_rng : NoDup (rngs_of B Q);
  ic_rng_ok : forall r, In r (rngs_of B Q) -> fst r < snd r /\ snd r <= nx;
  ic_rng_disj : forall r1 r2, In r1 (rngs_of B Q) -> In r2 (rngs_of B Q) -> r1 = r2 \/ rdisj r1 r2;
  ic_id_rng : forall i, In i (ids_of R Q) -> off_rngs (rngs_of B Q) i;
  ic_qok : forall x, In x Q -> msg_ok x
}.

(* table shape: S = subs, ua = unacked *)
Record TabC (R : list (id * kind)) (S : list (subid * id)) (B : list ((N * N) * handle)) (Q : list f2b)
            (nx : N) (b : bool) (ua : list id) : Prop := {
  tc_nd_subs : NoDup (map fst S);
  tc_nd_subv : NoDup (map snd S);
  tc_subs_a : forall sid i, In (sid, i) S -> exists u ch um, In (i, KSub u ch um) R;
  tc_subs_b : forall i u ch um, In (i, KSub u ch um) R -> exists sid, In (sid, i) S;
  tc_res : forall i k u, In (i, k) R -> refs k = Some u ->
             idlt b nx u /\ ~ In u (qids Q) /\ off_rngs (rngs_of B Q) u /\ (forall k', In (u, k') R -> k' = KCall None);
  tc_uniq : forall i1 k1 i2 k2 u, In (i1, k1) R -> In (i2, k2) R -> refs k1 = Some u -> refs k2 = Some u -> i1 = i2;
  tc_none : forall j, In (j, KCall None) R -> exists i k, In (i, k) R /\ refs k = Some j;
  tc_unsubp : forall u j, In (u, KUnsubP j) R -> In u ua;
  tc_unacked : forall u, In u ua -> exists j, In (u, KUnsubP j) R
}.

Definition InvC (M : mgr) (Q : list f2b) (nx : N) (b : bool) (ua : list id) : Prop :=
  IdsC (requests M) (batches M) Q nx b /\ TabC (requests M) (subs M) (batches M) Q nx b ua /\ NoDup (map fst (nhandlers M)).

Lemma IdsC_nd_keys R B Q nx b : IdsC R B Q nx b -> NoDup (map fst R).
Proof. intros H. apply (ic_nd_ids _ _ _ _ _) in H. apply nodup_app in H. tauto. Qed.
Lemma IdsC_nd_bkeys R B Q nx b : IdsC R B Q nx b -> NoDup (map fst B).
Proof. intros H. apply (ic_nd_rng _ _ _ _ _) in H. apply nodup_app in H. tauto. Qed.
Lemma IdsC_key_notq R B Q nx b i : IdsC R B Q nx b -> In i (map fst R) -> ~ In i (qids Q).
Proof. intros H. apply (ic_nd_ids _ _ _ _ _) in H. apply nodup_app in H. destruct H as (_ & _ & H). apply H. Qed.

Lemma InvC_init b : InvC empty_mgr [] 0 b [].
Proof.
  split; [|split]; [constructor | constructor |]; cbn; try constructor; intros; try contradiction; tauto.
Qed.

Ltac inv H := inversion H; subst; clear H.

(* generic shrinking of the id discipline *)
Lemma IdsC_shrink R B Q nx b R' B' Q' :
  IdsC R B Q nx b ->
  NoDup (ids_of R' Q') -> (forall i, In i (ids_of R' Q') -> In i (ids_of R Q)) ->
  NoDup (rngs_of B' Q') -> (forall r, In r (rngs_of B' Q') -> In r (rngs_of B Q)) ->
  (forall x, In x Q' -> msg_ok x) ->
  IdsC R' B' Q' nx b.
Proof.
  intros [h1 h2 h3 h4 h5 h6 h7] N1 I1 N2 I2 K. constructor; auto.
  intros i Hi r Hr. apply (h6 i); auto.
Qed.

(* the key set of requests changes, queue and batches stay *)
Lemma IdsC_rekey R B Q nx b R' :
  IdsC R B Q nx b -> NoDup (map fst R') ->
  (forall i, In i (map fst R') -> In i (map fst R) \/ (idlt b nx i /\ ~ In i (qids Q) /\ off_rngs (rngs_of B Q) i)) ->
  IdsC R' B Q nx b.
Proof.
  intros H N1 I1. pose proof H as [h1 h2 h3 h4 h5 h6 h7]. constructor; auto; unfold ids_of in *.
  - apply nodup_app. apply nodup_app in h1 as (a & c & d). repeat split; auto.
    intros x Hx. apply I1 in Hx as [Hx | (_ & Hx & _)]; auto.
  - intros i Hi. apply in_app_iff in Hi as [Hi | Hi].
    + apply I1 in Hi as [Hi | (Hi & _)]; auto. apply h2. apply in_app_iff; auto.
    + apply h2. apply in_app_iff; auto.
  - intros i Hi. apply in_app_iff in Hi as [Hi | Hi].
    + apply I1 in Hi as [Hi | (_ & _ & Hi)]; auto. apply h6. apply in_app_iff; auto.
    + apply h6. apply in_app_iff; auto.
Qed.

Lemma IdsC_mono R B Q nx nx' b : nx <= nx' -> IdsC R B Q nx b -> IdsC R B Q nx' b.
Proof.
  intros L [h1 h2 h3 h4 h5 h6 h7]. constructor; auto.
  - intros i Hi. eapply idlt_mono; eauto.
  - intros r Hr. apply h4 in Hr. lia.
Qed.

Lemma nodup_middle {A} (x : A) l1 l2 : NoDup (l1 ++ x :: l2) <-> NoDup (x :: l1 ++ l2).
Proof.
  split; intros H; eapply Permutation_NoDup; try exact H.
  - symmetry. apply Permutation_middle.
  - apply Permutation_middle.
Qed.

Lemma qids_perm Q Q' : Permutation Q Q' -> Permutation (qids Q) (qids Q').
Proof. apply Permutation_flat_map. Qed.
Lemma qrngs_perm Q Q' : Permutation Q Q' -> Permutation (qrngs Q) (qrngs Q').
Proof. apply Permutation_flat_map. Qed.

Lemma IdsC_perm R B Q Q' nx b : Permutation Q Q' -> IdsC R B Q nx b -> IdsC R B Q' nx b.
Proof.
  intros P H. eapply IdsC_shrink; eauto.
  - eapply Permutation_NoDup; [|apply (ic_nd_ids _ _ _ _ _ H)]. apply Permutation_app_head, qids_perm; auto.
  - intros i Hi. eapply Permutation_in; [|exact Hi]. apply Permutation_app_head, qids_perm. symmetry; auto.
  - eapply Permutation_NoDup; [|apply (ic_nd_rng _ _ _ _ _ H)]. apply Permutation_app_head, qrngs_perm; auto.
  - intros i Hi. eapply Permutation_in; [|exact Hi]. apply Permutation_app_head, qrngs_perm. symmetry; auto.
  - intros x Hx. apply (ic_qok _ _ _ _ _ H). eapply Permutation_in; [|exact Hx]. symmetry; auto.
Qed.

Lemma TabC_q R S B B' Q Q' nx b ua :
  (forall i, In i (qids Q') -> In i (qids Q)) -> (forall r, In r (rngs_of B' Q') -> In r (rngs_of B Q)) ->
  TabC R S B Q nx b ua -> TabC R S B' Q' nx b ua.
Proof.
  intros I J [h1 h2 h3 h4 h5 h6 h7 h8 h9]. constructor; auto.
  intros i k u Hi Hu. destruct (h5 i k u Hi Hu) as (a & c & d & e). repeat split; auto.
  intros r Hr. apply d; auto.
Qed.

Lemma InvC_perm M Q Q' nx b ua : Permutation Q Q' -> InvC M Q nx b ua -> InvC M Q' nx b ua.
Proof.
  intros P (H1 & H2 & H3). split; [|split]; auto.
  - eapply IdsC_perm; eauto.
  - eapply TabC_q; [| |eauto].
    + intros i Hi. eapply Permutation_in; [|exact Hi]. apply qids_perm. symmetry; auto.
    + intros i Hi. eapply Permutation_in; [|exact Hi]. apply Permutation_app_head, qrngs_perm. symmetry; auto.
Qed.

(* dropping a queued message *)
Lemma InvC_tail M x Q nx b ua : InvC M (x :: Q) nx b ua -> InvC M Q nx b ua.
Proof.
  intros (H1 & H2 & H3). split; [|split]; auto.
  - eapply IdsC_shrink; eauto.
    + pose proof (ic_nd_ids _ _ _ _ _ H1) as N. unfold ids_of, qids in *. cbn [flat_map] in N.
      apply nodup_app in N as (N1 & N2 & N3). apply nodup_app in N2 as (N4 & N5 & N6).
      apply nodup_app. repeat split; auto. intros y Hy Hq. apply (N3 y Hy). apply in_app_iff; auto.
    + unfold ids_of, qids. cbn [flat_map]. intros i. rewrite !in_app_iff. tauto.
    + pose proof (ic_nd_rng _ _ _ _ _ H1) as N. unfold rngs_of, qrngs in *. cbn [flat_map] in N.
      apply nodup_app in N as (N1 & N2 & N3). apply nodup_app in N2 as (N4 & N5 & N6).
      apply nodup_app. repeat split; auto. intros y Hy Hq. apply (N3 y Hy). apply in_app_iff; auto.
    + unfold rngs_of, qrngs. cbn [flat_map]. intros i. rewrite !in_app_iff. tauto.
    + intros y Hy. apply (ic_qok _ _ _ _ _ H1). right; auto.
  - eapply TabC_q; [| |eauto].
    + unfold qids. cbn [flat_map]. intros i. rewrite in_app_iff. tauto.
    + unfold rngs_of, qrngs. cbn [flat_map]. intros i. rewrite !in_app_iff. tauto.
Qed.

Lemma InvC_drop M Q1 x Q2 nx b ua : InvC M (Q1 ++ x :: Q2) nx b ua -> InvC M (Q1 ++ Q2) nx b ua.
Proof.
  intros H. apply (InvC_tail M x). eapply InvC_perm; [|exact H]. symmetry. apply Permutation_middle.
Qed.

Lemma InvC_filter M p Q2 : forall Q1 nx b ua, InvC M (Q1 ++ Q2) nx b ua -> InvC M (Q1 ++ filter p Q2) nx b ua.
Proof.
  induction Q2 as [|x Q2 IH]; intros Q1 nx b ua H; cbn; auto.
  destruct (p x).
  - replace (Q1 ++ x :: filter p Q2) with ((Q1 ++ [x]) ++ filter p Q2) by (rewrite <- app_assoc; reflexivity).
    apply IH. rewrite <- app_assoc. exact H.
  - apply IH. eapply InvC_drop; eauto.
Qed.

(* ---------- enqueueing ---------- *)
Lemma InvC_enq_plain M Q x nx b ua : msg_ids x = [] -> msg_ranges x = [] -> msg_ok x ->
  InvC M Q nx b ua -> InvC M (x :: Q) nx b ua.
Proof.
  intros E1 E2 K (H1 & H2 & H3). split; [|split]; auto.
  - eapply IdsC_shrink; eauto; unfold ids_of, rngs_of, qids, qrngs; cbn [flat_map]; rewrite ?E1, ?E2; cbn [app]; auto.
    + apply (ic_nd_ids _ _ _ _ _ H1).
    + apply (ic_nd_rng _ _ _ _ _ H1).
    + intros y [<- | Hy]; auto. apply (ic_qok _ _ _ _ _ H1); auto.
  - eapply TabC_q; [| |eauto]; unfold rngs_of, qids, qrngs; cbn [flat_map]; rewrite ?E1, ?E2; auto.
Qed.

Lemma InvC_mono M Q nx nx' b ua : nx <= nx' -> InvC M Q nx b ua -> InvC M Q nx' b ua.
Proof.
  intros L (H1 & H2 & H3). split; [|split]; auto.
  - eapply IdsC_mono; eauto.
  - destruct H2 as [h1 h2 h3 h4 h5 h6 h7 h8 h9]. constructor; auto.
    intros i k u Hi Hu. destruct (h5 i k u Hi Hu) as (a & c & d & e). repeat split; auto. eapply idlt_mono; eauto.
Qed.

Lemma TabC_enq R S B Q x nx nx' b ua : nx <= nx' -> (forall i, In i (msg_ids x) -> idge b nx i) ->
  (forall r, In r (msg_ranges x) -> nx <= fst r) ->
  TabC R S B Q nx b ua -> TabC R S B (x :: Q) nx' b ua.
Proof.
  intros L G G2 [h1 h2 h3 h4 h5 h6 h7 h8 h9]. constructor; auto.
  intros i k u Hi Hu. destruct (h5 i k u Hi Hu) as (a & c & d & e). repeat split; auto.
  - eapply idlt_mono; eauto.
  - unfold qids. cbn [flat_map]. rewrite in_app_iff. intros [Hx | Hx]; auto.
    eapply idlt_ge_False; eauto.
  - intros r Hr. unfold rngs_of, qrngs in Hr. cbn [flat_map] in Hr. rewrite !in_app_iff in Hr.
    destruct Hr as [Hr | [Hr | Hr]].
    + apply d. apply in_app_iff; auto.
    + left. apply G2 in Hr. apply idlt_id_n in a. lia.
    + apply d. apply in_app_iff; auto.
Qed.

Lemma InvC_enq_req M Q nx b ua h raw : InvC M Q nx b ua ->
  InvC M (MRequest (mkid b nx) (Some h) raw :: Q) (nx + 1) b ua.
Proof.
  intros (H1 & H2 & H3). split; [|split]; auto.
  - destruct H1 as [h1 h2 h3 h4 h5 h6 h7].
    assert (F : ~ In (mkid b nx) (ids_of (requests M) Q)).
    { intros Hi. apply h2 in Hi. eapply idlt_ge_False; eauto. exists nx; split; auto; lia. }
    constructor; unfold ids_of, rngs_of, qids, qrngs in *; cbn [flat_map msg_ids msg_ranges app] in *; auto.
    + apply nodup_middle. constructor; auto.
    + intros i Hi. apply in_app_iff in Hi as [Hi | [<- | Hi]].
      * eapply idlt_mono; [|apply h2; apply in_app_iff; auto]. lia.
      * exists nx; split; auto; lia.
      * eapply idlt_mono; [|apply h2; apply in_app_iff; auto]. lia.
    + intros r Hr. apply h4 in Hr. lia.
    + intros i Hi r Hr. apply in_app_iff in Hi as [Hi | [<- | Hi]].
      * apply (h6 i); auto. apply in_app_iff; auto.
      * rewrite id_n_mkid. apply h4 in Hr. lia.
      * apply (h6 i); auto. apply in_app_iff; auto.
    + intros x [<- | Hx]; cbn; auto.
  - eapply TabC_enq; [| | |eauto]; [lia| |]; cbn.
    + intros i [<- | []]. exists nx; split; auto; lia.
    + intros r [].
Qed.

Lemma InvC_enq_sub M Q nx b ua um h raw : InvC M Q nx b ua ->
  InvC M (MSubscribe (mkid b nx) (mkid b (nx + 1)) um h raw :: Q) (nx + 2) b ua.
Proof.
  intros (H1 & H2 & H3). split; [|split]; auto.
  - destruct H1 as [h1 h2 h3 h4 h5 h6 h7].
    assert (F : forall n, nx <= n -> ~ In (mkid b n) (ids_of (requests M) Q)).
    { intros n Hn Hi. apply h2 in Hi. eapply idlt_ge_False; eauto. exists n; split; auto. }
    constructor; unfold ids_of, rngs_of, qids, qrngs in *; cbn [flat_map msg_ids msg_ranges app] in *; auto.
    + apply nodup_middle. constructor.
      * cbn [In]. rewrite in_app_iff. cbn [In]. intros [Hi | [Hi | Hi]].
        -- apply (F nx); [lia|]. apply in_app_iff; auto.
        -- apply mkid_inj in Hi. lia.
        -- apply (F nx); [lia|]. apply in_app_iff; auto.
      * apply nodup_middle. constructor; auto. apply F. lia.
    + intros i Hi. apply in_app_iff in Hi as [Hi | [<- | [<- | Hi]]].
      * eapply idlt_mono; [|apply h2; apply in_app_iff; auto]. lia.
      * exists nx; split; auto; lia.
      * exists (nx + 1); split; auto; lia.
      * eapply idlt_mono; [|apply h2; apply in_app_iff; auto]. lia.
    + intros r Hr. apply h4 in Hr. lia.
    + intros i Hi r Hr. apply in_app_iff in Hi as [Hi | [<- | [<- | Hi]]].
      * apply (h6 i); auto. apply in_app_iff; auto.
      * rewrite id_n_mkid. apply h4 in Hr. lia.
      * rewrite id_n_mkid. apply h4 in Hr. lia.
      * apply (h6 i); auto. apply in_app_iff; auto.
    + intros x [<- | Hx]; cbn; auto.
  - eapply TabC_enq; [| | |eauto]; [lia| |]; cbn.
    + intros i [<- | [<- | []]].
      * exists nx; split; auto; lia.
      * exists (nx + 1); split; auto; lia.
    + intros r [].
Qed.

Lemma InvC_enq_batch M Q nx len b ua h raw : 0 < len -> InvC M Q nx b ua ->
  InvC M (MBatch nx (nx + len) h raw :: Q) (nx + len) b ua.
Proof.
  intros L (H1 & H2 & H3). split; [|split]; auto.
  - destruct H1 as [h1 h2 h3 h4 h5 h6 h7].
    assert (F : ~ In (nx, nx + len) (rngs_of (batches M) Q)).
    { intros Hi. apply h4 in Hi. cbn in Hi. lia. }
    constructor; unfold ids_of, rngs_of, qids, qrngs in *; cbn [flat_map msg_ids msg_ranges app] in *; auto.
    + intros i Hi. eapply idlt_mono; [|apply h2; auto]. lia.
    + apply nodup_middle. constructor; auto.
    + intros r Hr. apply in_app_iff in Hr as [Hr | [<- | Hr]].
      * assert (Hr' : In r (map fst (batches M) ++ flat_map msg_ranges Q)) by (apply in_app_iff; auto).
        apply h4 in Hr'. lia.
      * cbn. lia.
      * assert (Hr' : In r (map fst (batches M) ++ flat_map msg_ranges Q)) by (apply in_app_iff; auto).
        apply h4 in Hr'. lia.
    + intros r1 r2 Hr1 Hr2.
      assert (O : forall r, In r (map fst (batches M) ++ (nx, nx + len) :: flat_map msg_ranges Q) ->
                   r = (nx, nx + len) \/ In r (map fst (batches M) ++ flat_map msg_ranges Q)).
      { intros r Hr. rewrite in_app_iff in *. cbn [In] in Hr. intuition auto. }
      apply O in Hr1 as [-> | Hr1]; apply O in Hr2 as [-> | Hr2]; auto.
      * right. right. cbn. apply h4 in Hr2. lia.
      * right. left. cbn. apply h4 in Hr1. lia.
    + intros i Hi r Hr. apply in_app_iff in Hr as [Hr | [<- | Hr]].
      * apply (h6 i); auto. apply in_app_iff; auto.
      * cbn. left. apply idlt_id_n with (b := b). auto.
      * apply (h6 i); auto. apply in_app_iff; auto.
    + intros x [<- | Hx]; cbn; auto.
  - eapply TabC_enq; [| | |eauto]; [lia| |]; cbn.
    + intros i [].
    + intros r [<- | []]. cbn. lia.
Qed.

(* ---------- the send task takes a message off the queue ---------- *)
Lemma In_aset {K V} (eqb : K -> K -> bool) (eqb_ok : forall a b, eqb a b = true <-> a = b) i v (l : list (K * V)) j k :
  In (j, k) (aset eqb i v l) <-> (j = i /\ k = v) \/ (In (j, k) l /\ j <> i).
Proof.
  unfold aset. cbn [In]. rewrite (In_aremove eqb eqb_ok). split.
  - intros [E | H]; [inv E|]; auto.
  - intros [(-> & ->) | H]; auto.
Qed.

Lemma InvC_front_req M Q nx b ua i w raw : InvC M (MRequest i w raw :: Q) nx b ua ->
  ~ In i (map fst (requests M)) /\ InvC (set_requests M ((i, KCall w) :: requests M)) Q nx b ua.
Proof.
  intros (H1 & H2 & H3).
  pose proof (ic_nd_ids _ _ _ _ _ H1) as N. unfold ids_of, qids in N. cbn [flat_map msg_ids app] in N.
  apply nodup_middle in N. apply NoDup_cons_iff in N as (N1 & N2). rewrite in_app_iff in N1.
  split; [tauto|]. split; [|split]; auto; cbn [requests set_requests subs batches].
  - eapply IdsC_shrink; [exact H1|..]; unfold ids_of, rngs_of, qids, qrngs; cbn [flat_map msg_ids msg_ranges app map fst].
    + constructor; auto. rewrite in_app_iff. tauto.
    + intros j. cbn [In]. rewrite !in_app_iff. cbn [In]. tauto.
    + apply (ic_nd_rng _ _ _ _ _ H1).
    + auto.
    + intros y Hy. apply (ic_qok _ _ _ _ _ H1). right; auto.
  - assert (W : w <> None).
    { pose proof (ic_qok _ _ _ _ _ H1 _ (or_introl eq_refl)) as K. cbn in K. destruct w; auto; discriminate. }
    destruct H2 as [h1 h2 h3 h4 h5 h6 h7 h8 h9].
    assert (NR : forall j k u, In (j, k) (requests M) -> refs k = Some u -> u <> i).
    { intros j k u Hj Hu ->. destruct (h5 j k i Hj Hu) as (_ & c & _). apply c. unfold qids. cbn. auto. }
    constructor; auto.
    + intros sid j Hs. destruct (h3 sid j Hs) as (u & ch & um & Hu). exists u, ch, um. right; auto.
    + intros j u ch um [E | Hj]; [inv E|]. eauto.
    + intros j k u [E | Hj] Hu; [inv E; discriminate|].
      destruct (h5 j k u Hj Hu) as (a & c & d & e). repeat split; auto.
      * intros Hq. apply c. unfold qids. cbn [flat_map]. apply in_app_iff; auto.
      * intros k' [E | Hk]; [inv E|]; auto. exfalso. eapply NR; eauto.
    + intros i1 k1 i2 k2 u [E1 | I1] [E2 | I2] R1 R2; try (inv E1; discriminate); try (inv E2; discriminate). eauto.
    + intros j [E | Hj]; [inv E; congruence|]. destruct (h7 j Hj) as (i2 & k2 & Hi2 & Hr). exists i2, k2. split; auto. right; auto.
    + intros u j [E | Hj]; [inv E|]. eauto.
    + intros u Hu. destruct (h9 u Hu) as (j & Hj). exists j. right; auto.
Qed.

Lemma InvC_front_sub M Q nx b ua si ui um h raw : InvC M (MSubscribe si ui um h raw :: Q) nx b ua ->
  ~ In si (map fst (requests M)) /\ ~ In ui (map fst (requests M)) /\ si <> ui /\
  InvC (set_requests M ((ui, KCall None) :: (si, KPendSub ui h um) :: requests M)) Q nx b ua.
Proof.
  intros (H1 & H2 & H3).
  pose proof (ic_nd_ids _ _ _ _ _ H1) as N. unfold ids_of, qids in N. cbn [flat_map msg_ids app] in N.
  apply nodup_middle in N. apply NoDup_cons_iff in N as (N1 & N2).
  apply nodup_middle in N2. apply NoDup_cons_iff in N2 as (N3 & N4).
  cbn [In] in N1. rewrite in_app_iff in N1, N3. cbn [In] in N1.
  assert (D : si <> ui) by (intros ->; tauto).
  split; [tauto|]. split; [tauto|]. split; auto.
  split; [|split]; auto; cbn [requests set_requests subs batches].
  - eapply IdsC_shrink; [exact H1|..]; unfold ids_of, rngs_of, qids, qrngs; cbn [flat_map msg_ids msg_ranges app map fst].
    + constructor; [|constructor]; auto.
      * cbn [In]. rewrite in_app_iff. intros [E | Hx]; [congruence | tauto].
      * rewrite in_app_iff. tauto.
    + intros j. cbn [In]. rewrite !in_app_iff. cbn [In]. tauto.
    + apply (ic_nd_rng _ _ _ _ _ H1).
    + auto.
    + intros y Hy. apply (ic_qok _ _ _ _ _ H1). right; auto.
  - pose proof (ic_lt_ids _ _ _ _ _ H1) as LT. pose proof (ic_id_rng _ _ _ _ _ H1) as OR.
    unfold ids_of, rngs_of, qids, qrngs in LT, OR. cbn [flat_map msg_ids msg_ranges app] in LT, OR.
    destruct H2 as [h1 h2 h3 h4 h5 h6 h7 h8 h9].
    assert (NR : forall j k u, In (j, k) (requests M) -> refs k = Some u -> u <> si /\ u <> ui).
    { intros j k u Hj Hu. destruct (h5 j k u Hj Hu) as (_ & c & _). unfold qids in c. cbn in c. tauto. }
    assert (KS : forall k, ~ In (si, k) (requests M)).
    { intros k Hk. apply (in_key _ _ _) in Hk. tauto. }
    assert (KU : forall k, ~ In (ui, k) (requests M)).
    { intros k Hk. apply (in_key _ _ _) in Hk. tauto. }
    constructor; auto.
    + intros sid j Hs. destruct (h3 sid j Hs) as (u & ch & um' & Hu). exists u, ch, um'. right; right; auto.
    + intros j u ch um' [E | [E | Hj]]; [inv E | inv E|]. eauto.
    + intros j k u [E | [E | Hj]] Hu; [inv E; discriminate | inv E |].
      * cbn in Hu. inv Hu. repeat split.
        -- apply LT. rewrite in_app_iff. cbn [In]. auto.
        -- tauto.
        -- intros r Hr. apply (OR u); auto. rewrite in_app_iff. cbn [In]. auto.
        -- intros k' [E | [E | Hk]]; [inv E; auto | inv E; congruence | exfalso; eapply KU; eauto].
      * destruct (h5 j k u Hj Hu) as (a & c & d & e). destruct (NR j k u Hj Hu) as (n1 & n2). repeat split; auto.
        -- intros Hq. apply c. unfold qids. cbn [flat_map]. apply in_app_iff; auto.
        -- intros k' [E | [E | Hk]]; [inv E; congruence | inv E; congruence | auto].
    + intros i1 k1 i2 k2 u [E1 | [E1 | I1]] [E2 | [E2 | I2]] R1 R2; try (inv E1; discriminate); try (inv E2; discriminate); auto.
      * inv E1; inv E2; auto.
      * inv E1. cbn in R1. inv R1. destruct (NR i2 k2 u I2 R2). congruence.
      * inv E2. cbn in R2. inv R2. destruct (NR i1 k1 u I1 R1). congruence.
      * eauto.
    + intros j [E | [E | Hj]]; [inv E | inv E|].
      * exists si, (KPendSub j h um). split; auto. right; left; auto.
      * destruct (h7 j Hj) as (i2 & k2 & Hi2 & Hr). exists i2, k2. split; auto. right; right; auto.
    + intros u j [E | [E | Hj]]; [inv E | inv E|]. eauto.
    + intros u Hu. destruct (h9 u Hu) as (j & Hj). exists j. right; right; auto.
Qed.

Lemma InvC_front_batch M Q nx b ua lo hi h raw : InvC M (MBatch lo hi h raw :: Q) nx b ua ->
  ~ In (lo, hi) (map fst (batches M)) /\ InvC (set_batches M (((lo, hi), h) :: batches M)) Q nx b ua.
Proof.
  intros (H1 & H2 & H3).
  pose proof (ic_nd_rng _ _ _ _ _ H1) as N. unfold rngs_of, qrngs in N. cbn [flat_map msg_ranges app] in N.
  apply nodup_middle in N. apply NoDup_cons_iff in N as (N1 & N2). rewrite in_app_iff in N1.
  split; [tauto|]. split; [|split]; auto; cbn [requests set_batches subs batches].
  - eapply IdsC_shrink; [exact H1|..]; unfold ids_of, rngs_of, qids, qrngs; cbn [flat_map msg_ids msg_ranges app map fst].
    + apply (ic_nd_ids _ _ _ _ _ H1).
    + auto.
    + constructor; auto. rewrite in_app_iff. tauto.
    + intros j. cbn [In]. rewrite !in_app_iff. cbn [In]. tauto.
    + intros y Hy. apply (ic_qok _ _ _ _ _ H1). right; auto.
  - eapply TabC_q; [| |eauto]; unfold rngs_of, qids, qrngs; cbn [flat_map msg_ids msg_ranges app map fst]; auto.
    intros j. cbn [In]. rewrite !in_app_iff. cbn [In]. tauto.
Qed.

(* ---------- answers ---------- *)
Lemma TabC_kind_unique R S B Q nx b ua i k k' : NoDup (map fst R) -> TabC R S B Q nx b ua ->
  In (i, k) R -> In (i, k') R -> k = k'.
Proof. intros N _ H1 H2. eapply nodup_keys_fun; eauto. exact id_eqb_ok. Qed.

(* a plain entry (no reference) goes away *)
Lemma InvC_resp_call M Q nx b ua i w : InvC M Q nx b ua -> In (i, KCall w) (requests M) ->
  InvC (set_requests M (aremove id_eqb i (requests M))) Q nx b (filter (fun u => negb (id_eqb i u)) ua).
Proof.
  intros (H1 & H2 & H3) Hi. pose proof (IdsC_nd_keys _ _ _ _ _ H1) as ND.
  assert (U : forall k, In (i, k) (requests M) -> k = KCall w).
  { intros k Hk. eapply nodup_keys_fun; eauto. exact id_eqb_ok. }
  split; [|split]; auto; cbn [requests set_requests subs batches].
  - eapply IdsC_rekey; eauto.
    + apply keys_aremove_nodup; auto.
    + intros j Hj. apply (keys_aremove id_eqb id_eqb_ok) in Hj. tauto.
  - destruct H2 as [h1 h2 h3 h4 h5 h6 h7 h8 h9]. constructor; auto.
    + intros sid j Hs. destruct (h3 sid j Hs) as (u & ch & um & Hu). exists u, ch, um.
      apply (In_aremove id_eqb id_eqb_ok). split; auto. intros ->. apply U in Hu. discriminate.
    + intros j u ch um Hj. apply (In_aremove id_eqb id_eqb_ok) in Hj as (Hj & _). eauto.
    + intros j k u Hj Hu. apply (In_aremove id_eqb id_eqb_ok) in Hj as (Hj & _).
      destruct (h5 j k u Hj Hu) as (a & c & d & e). repeat split; auto.
      intros k' Hk. apply (In_aremove id_eqb id_eqb_ok) in Hk as (Hk & _). auto.
    + intros i1 k1 i2 k2 u I1 I2. apply (In_aremove id_eqb id_eqb_ok) in I1 as (I1 & _).
      apply (In_aremove id_eqb id_eqb_ok) in I2 as (I2 & _). eauto.
    + intros j Hj. apply (In_aremove id_eqb id_eqb_ok) in Hj as (Hj & Hn).
      destruct (h7 j Hj) as (i2 & k2 & Hi2 & Hr). exists i2, k2. split; auto.
      apply (In_aremove id_eqb id_eqb_ok). split; auto. intros ->. apply U in Hi2. subst. discriminate.
    + intros u j Hj. apply (In_aremove id_eqb id_eqb_ok) in Hj as (Hj & Hn).
      apply filter_In. split; eauto. rewrite (eqb_neq id_eqb id_eqb_ok); auto.
    + intros u Hu. apply filter_In in Hu as (Hu & Hn). destruct (h9 u Hu) as (j & Hj). exists j.
      apply (In_aremove id_eqb id_eqb_ok). split; auto. intros ->. rewrite (eqb_rfl id_eqb id_eqb_ok) in Hn. discriminate.
Qed.

(* an entry goes away together with the id it refers to *)
Lemma TabC_rm_ref R S B Q nx b ua i k0 u R' S' ua' :
  TabC R S B Q nx b ua -> NoDup (map fst R) -> In (i, k0) R -> refs k0 = Some u ->
  (forall j k, In (j, k) R' <-> In (j, k) R /\ j <> i /\ j <> u) ->
  (forall sid j, In (sid, j) S' <-> In (sid, j) S /\ j <> i) -> NoDup (map fst S') -> NoDup (map snd S') ->
  (forall x, In x ua' <-> In x ua /\ x <> i) ->
  TabC R' S' B Q nx b ua'.
Proof.
  intros [h1 h2 h3 h4 h5 h6 h7 h8 h9] ND Hi Hr CR CS N1 N2 CU.
  assert (U : forall k, In (i, k) R -> k = k0).
  { intros k Hk. eapply nodup_keys_fun; eauto. exact id_eqb_ok. }
  destruct (h5 i k0 u Hi Hr) as (_ & _ & _ & UK).
  constructor; auto.
  - intros sid j Hs. apply CS in Hs as (Hs & Hn). destruct (h3 sid j Hs) as (u' & ch & um & Hu). exists u', ch, um.
    apply CR. repeat split; auto. intros ->. apply UK in Hu. discriminate.
  - intros j u' ch um Hj. apply CR in Hj as (Hj & Hn & _). destruct (h4 _ _ _ _ Hj) as (sid & Hs). exists sid. apply CS. auto.
  - intros j k u' Hj Hu. apply CR in Hj as (Hj & _). destruct (h5 j k u' Hj Hu) as (a & c & d & e). repeat split; auto.
    intros k' Hk. apply CR in Hk as (Hk & _). auto.
  - intros i1 k1 i2 k2 u' I1 I2. apply CR in I1 as (I1 & _). apply CR in I2 as (I2 & _). eauto.
  - intros j Hj. apply CR in Hj as (Hj & Hn1 & Hn2). destruct (h7 j Hj) as (i2 & k2 & Hi2 & Hr2). exists i2, k2. split; auto.
    apply CR. repeat split; auto.
    + intros ->. apply U in Hi2. subst. congruence.
    + intros ->. apply UK in Hi2. subst. discriminate.
  - intros x j Hj. apply CR in Hj as (Hj & Hn & _). apply CU. split; eauto.
  - intros x Hx. apply CU in Hx as (Hx & Hn). destruct (h9 x Hx) as (j & Hj). exists j. apply CR. repeat split; auto.
    intros ->. apply UK in Hj. discriminate.
Qed.

Lemma release_char M u : NoDup (map fst (requests M)) -> (forall k, In (u, k) (requests M) -> k = KCall None) ->
  subs (release_reserved u M) = subs M /\ batches (release_reserved u M) = batches M /\
  nhandlers (release_reserved u M) = nhandlers M /\ NoDup (map fst (requests (release_reserved u M))) /\
  forall j k, In (j, k) (requests (release_reserved u M)) <-> In (j, k) (requests M) /\ j <> u.
Proof.
  intros ND UK. unfold release_reserved, req_lookup.
  destruct (alookup id_eqb u (requests M)) as [[[w|]| | |]|] eqn:E;
    try (apply (alookup_In id_eqb id_eqb_ok) in E; apply UK in E; discriminate).
  - repeat split; auto; cbn [requests set_requests].
    + apply keys_aremove_nodup; auto.
    + apply (In_aremove id_eqb id_eqb_ok).
    + apply (In_aremove id_eqb id_eqb_ok).
    + apply (In_aremove id_eqb id_eqb_ok); tauto.
  - repeat split; auto; try tauto.
    intros ->. apply (alookup_None id_eqb id_eqb_ok) in E. apply E. eapply in_key; eauto.
Qed.

Lemma not_unacked R S B Q nx b ua i k : TabC R S B Q nx b ua -> NoDup (map fst R) -> In (i, k) R ->
  (forall j, k <> KUnsubP j) -> forall x, In x ua <-> In x ua /\ x <> i.
Proof.
  intros T ND Hi Hk x. split; [|tauto]. intros Hx. split; auto. intros ->.
  destruct (tc_unacked _ _ _ _ _ _ _ T i Hx) as (j & Hj).
  apply (Hk j). eapply nodup_keys_fun; eauto. exact id_eqb_ok.
Qed.

(* a refused / malformed / duplicate subscribe answer: the pending entry and its reserved id go *)
Lemma InvC_resp_pend_err M Q nx b ua i u w um : InvC M Q nx b ua -> In (i, KPendSub u w um) (requests M) ->
  InvC (release_reserved u (set_requests M (aremove id_eqb i (requests M)))) Q nx b ua.
Proof.
  intros (H1 & H2 & H3) Hi. pose proof (IdsC_nd_keys _ _ _ _ _ H1) as ND.
  destruct (tc_res _ _ _ _ _ _ _ H2 _ _ _ Hi eq_refl) as (_ & _ & _ & UK).
  set (M1 := set_requests M (aremove id_eqb i (requests M))).
  destruct (release_char M1 u) as (E1 & E2 & E3 & N' & CR).
  { cbn. apply keys_aremove_nodup; auto. }
  { cbn. intros k Hk. apply (In_aremove id_eqb id_eqb_ok) in Hk as (Hk & _). auto. }
  assert (CR' : forall j k, In (j, k) (requests (release_reserved u M1)) <-> In (j, k) (requests M) /\ j <> i /\ j <> u).
  { intros j k. rewrite CR. cbn. rewrite (In_aremove id_eqb id_eqb_ok). tauto. }
  split; [|split]; rewrite ?E1, ?E2, ?E3; auto.
  - eapply IdsC_rekey; eauto. intros j Hj. left. apply in_map_iff in Hj as ([j' k] & <- & Hj). apply CR' in Hj as (Hj & _).
    eapply in_key; eauto.
  - eapply TabC_rm_ref with (k0 := KPendSub u w um); eauto.
    + cbn. intros sid j. split; [|tauto]. intros Hs. split; auto. intros ->.
      destruct (tc_subs_a _ _ _ _ _ _ _ H2 _ _ Hs) as (u' & ch & um' & Hu).
      assert (X : KSub u' ch um' = KPendSub u w um) by (eapply nodup_keys_fun; eauto; exact id_eqb_ok). discriminate.
    + apply (tc_nd_subs _ _ _ _ _ _ _ H2).
    + apply (tc_nd_subv _ _ _ _ _ _ _ H2).
    + eapply not_unacked; eauto. intros j; discriminate.
Qed.

(* the unsubscribe acknowledgement: the pending-unsubscribe entry and the tombstone go *)
Lemma InvC_resp_unsubp M Q nx b ua i sub : InvC M Q nx b ua -> In (i, KUnsubP sub) (requests M) ->
  let r1 := aremove id_eqb i (requests M) in
  let r2 := match alookup id_eqb sub r1 with Some (KCall None) => aremove id_eqb sub r1 | _ => r1 end in
  InvC (set_requests M r2) Q nx b (filter (fun u => negb (id_eqb i u)) ua).
Proof.
  intros (H1 & H2 & H3) Hi r1 r2. pose proof (IdsC_nd_keys _ _ _ _ _ H1) as ND.
  destruct (tc_res _ _ _ _ _ _ _ H2 _ _ _ Hi eq_refl) as (_ & _ & _ & UK).
  assert (N1 : NoDup (map fst r1)) by (apply keys_aremove_nodup; auto).
  assert (CR : forall j k, In (j, k) r2 <-> In (j, k) (requests M) /\ j <> i /\ j <> sub).
  { intros j k. unfold r2. destruct (alookup id_eqb sub r1) as [[[w|]| | |]|] eqn:E;
      try (apply (alookup_In id_eqb id_eqb_ok) in E; apply (In_aremove id_eqb id_eqb_ok) in E as (E & _); apply UK in E; discriminate).
    - rewrite (In_aremove id_eqb id_eqb_ok). unfold r1. rewrite (In_aremove id_eqb id_eqb_ok). tauto.
    - unfold r1 in *. rewrite (In_aremove id_eqb id_eqb_ok). split; [|tauto]. intros (Hj & Hn). repeat split; auto.
      intros ->. apply (alookup_None id_eqb id_eqb_ok) in E. apply E. apply (keys_aremove id_eqb id_eqb_ok). split; auto.
      eapply in_key; eauto. }
  assert (N2 : NoDup (map fst r2)).
  { unfold r2. destruct (alookup id_eqb sub r1) as [[[w|]| | |]|]; auto. apply keys_aremove_nodup; auto. }
  split; [|split]; auto; cbn [requests set_requests subs batches].
  - eapply IdsC_rekey; eauto. intros j Hj. left. apply in_map_iff in Hj as ([j' k] & <- & Hj). apply CR in Hj as (Hj & _).
    eapply in_key; eauto.
  - eapply TabC_rm_ref with (k0 := KUnsubP sub); eauto.
    + intros sid j. split; [|tauto]. intros Hs. split; auto. intros ->.
      destruct (tc_subs_a _ _ _ _ _ _ _ H2 _ _ Hs) as (u' & ch & um' & Hu).
      assert (X : KSub u' ch um' = KUnsubP sub) by (eapply nodup_keys_fun; eauto; exact id_eqb_ok). discriminate.
    + apply (tc_nd_subs _ _ _ _ _ _ _ H2).
    + apply (tc_nd_subv _ _ _ _ _ _ _ H2).
    + intros x. rewrite filter_In. split.
      * intros (Hx & Hn). split; auto. intros ->. rewrite (eqb_rfl id_eqb id_eqb_ok) in Hn. discriminate.
      * intros (Hx & Hn). split; auto. rewrite (eqb_neq id_eqb id_eqb_ok); auto.
Qed.
