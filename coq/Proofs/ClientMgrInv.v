(* Shared invariants of the async client's request manager (Model/ClientMgr.v), used by C03 and C18.

   Part 1: association-list and list facts.
   Part 2: the id discipline and table invariant `InvC` over the "core" of a state
           (manager tables, the multiset of queued front-to-back messages, the id counter, the id kind,
           the unacked history variable) and its preservation by each table transformation.
   Part 3: frame facts for the state-level primitives, `Inv : st -> Prop`, `Ext` (what a step can add),
           and their preservation by apply / handle_front / drain / try_kill / finish_unsubs / settle / step / run. *)
From JV Require Import Base.Bytes Base.Dec Base.Utf8 Json.Json Model.Wire Model.ClientMgr Proofs.DecFacts.
From JV Require Import Proofs.ClientDispatchFacts.
From Coq Require Import Permutation.
Local Open Scope N_scope.
Arguments N.add : simpl never.
Arguments N.sub : simpl never.
Arguments N.mul : simpl never.
Arguments N.ltb : simpl never.
Arguments N.leb : simpl never.
Arguments N.eqb : simpl never.

(* ------------------------------------------------------------------------------------------- *)
(* Part 1: lists                                                                                 *)
(* ------------------------------------------------------------------------------------------- *)

Lemma nodup_app {A} (l1 l2 : list A) :
  NoDup (l1 ++ l2) <-> NoDup l1 /\ NoDup l2 /\ (forall x, In x l1 -> ~ In x l2).
Proof.
  induction l1 as [|a l1 IH]; cbn.
  - split; [intros H; repeat split; auto; constructor | intros (_ & H & _); exact H].
  - rewrite !NoDup_cons_iff, IH, in_app_iff. split.
    + intros (Hn & H1 & H2 & H3). repeat split; auto.
      intros x [-> | Hx]; auto.
    + intros ((Hn & H1) & H2 & H3). repeat split; auto.
      intros [Hx | Hx]; auto. apply (H3 a); auto.
Qed.

Lemma nodup_map_filter {A B} (f : A -> B) (p : A -> bool) l :
  NoDup (map f l) -> NoDup (map f (filter p l)).
Proof.
  induction l as [|a l IH]; cbn; intros H; auto.
  apply NoDup_cons_iff in H as (Hn & H). destruct (p a); cbn; auto.
  constructor; auto. intros Hi. apply Hn.
  apply in_map_iff in Hi as (x & Hx & Hi). apply filter_In in Hi as (Hi & _).
  apply in_map_iff. eauto.
Qed.

Lemma in_map_filter {A B} (f : A -> B) (p : A -> bool) l y :
  In y (map f (filter p l)) -> In y (map f l).
Proof.
  intros Hi. apply in_map_iff in Hi as (x & Hx & Hi). apply filter_In in Hi as (Hi & _).
  apply in_map_iff; eauto.
Qed.

Lemma in_flat_map_filter {A B} (f : A -> list B) (p : A -> bool) l y :
  In y (flat_map f (filter p l)) -> In y (flat_map f l).
Proof.
  intros Hi. apply in_flat_map in Hi as (x & Hi & Hx). apply filter_In in Hi as (Hi & _).
  apply in_flat_map; eauto.
Qed.

Lemma nodup_flat_map_filter {A B} (f : A -> list B) (p : A -> bool) l :
  NoDup (flat_map f l) -> NoDup (flat_map f (filter p l)).
Proof.
  induction l as [|a l IH]; cbn; intros H; auto.
  apply nodup_app in H as (H1 & H2 & H3). destruct (p a); cbn; auto.
  apply nodup_app. repeat split; auto.
  intros x Hx Hi. apply (H3 x Hx). eapply in_flat_map_filter; eauto.
Qed.

(* ---------- association lists ---------- *)
Section AL.
  Context {K V : Type} (eqb : K -> K -> bool).
  Hypothesis eqb_ok : forall a b, eqb a b = true <-> a = b.

  Lemma eqb_rfl a : eqb a a = true.
  Proof. apply eqb_ok; reflexivity. Qed.

  Lemma eqb_neq a b : a <> b -> eqb a b = false.
  Proof. intros H. destruct (eqb a b) eqn:E; auto. apply eqb_ok in E. contradiction. Qed.

  Lemma aremove_filter k (l : list (K * V)) :
    aremove eqb k l = filter (fun kv => negb (eqb k (fst kv))) l.
  Proof.
    induction l as [|[k' v] l IH]; cbn; auto. destruct (eqb k k'); cbn; congruence.
  Qed.

  Lemma In_aremove k k' v (l : list (K * V)) :
    In (k', v) (aremove eqb k l) <-> In (k', v) l /\ k' <> k.
  Proof.
    rewrite aremove_filter, filter_In. cbn. split; intros (H1 & H2); split; auto.
    - intros ->. rewrite eqb_rfl in H2. discriminate.
    - rewrite eqb_neq; auto.
  Qed.

  Lemma keys_aremove k k' (l : list (K * V)) :
    In k' (map fst (aremove eqb k l)) <-> In k' (map fst l) /\ k' <> k.
  Proof.
    rewrite !in_map_iff. split.
    - intros ([k2 v] & E & Hi). cbn in E; subst k2. apply In_aremove in Hi as (Hi & Hn).
      split; auto. exists (k', v); auto.
    - intros (([k2 v] & E & Hi) & Hn). cbn in E; subst k2. exists (k', v). split; auto.
      apply In_aremove; auto.
  Qed.

  Lemma keys_aremove_nodup k (l : list (K * V)) :
    NoDup (map fst l) -> NoDup (map fst (aremove eqb k l)).
  Proof. rewrite aremove_filter. apply nodup_map_filter. Qed.

  Lemma vals_aremove_nodup {W} (g : V -> W) k (l : list (K * V)) :
    NoDup (map (fun kv => g (snd kv)) l) -> NoDup (map (fun kv => g (snd kv)) (aremove eqb k l)).
  Proof. rewrite aremove_filter. apply nodup_map_filter. Qed.

  Lemma aremove_notin k (l : list (K * V)) : ~ In k (map fst l) -> aremove eqb k l = l.
  Proof.
    induction l as [|[k' v] l IH]; cbn; auto. intros H.
    rewrite eqb_neq by (intros ->; apply H; auto). f_equal. apply IH. intros Hi; apply H; auto.
  Qed.

  Lemma alookup_In k v (l : list (K * V)) : alookup eqb k l = Some v -> In (k, v) l.
  Proof.
    induction l as [|[k' v'] l IH]; cbn; [discriminate|].
    destruct (eqb k k') eqn:E.
    - apply eqb_ok in E. subst. intros [= ->]. auto.
    - auto.
  Qed.

  Lemma alookup_None k (l : list (K * V)) : alookup eqb k l = None <-> ~ In k (map fst l).
  Proof.
    induction l as [|[k' v'] l IH]; cbn; [tauto|].
    destruct (eqb k k') eqn:E.
    - apply eqb_ok in E. subst. split; [discriminate | intros H; exfalso; apply H; auto].
    - rewrite IH. split; [|tauto]. intros H [-> | Hi]; auto. rewrite eqb_rfl in E. discriminate.
  Qed.

  Lemma In_alookup k v (l : list (K * V)) : NoDup (map fst l) -> In (k, v) l -> alookup eqb k l = Some v.
  Proof.
    induction l as [|[k' v'] l IH]; cbn; [tauto|]. intros Hn. apply NoDup_cons_iff in Hn as (Hn & Hd).
    intros [[= -> ->] | Hi].
    - rewrite eqb_rfl; auto.
    - rewrite eqb_neq; auto. intros ->. apply Hn. apply in_map_iff. exists (k', v); auto.
  Qed.

  Lemma ahas_false k (l : list (K * V)) : ahas eqb k l = false <-> ~ In k (map fst l).
  Proof.
    unfold ahas. rewrite <- alookup_None. destruct (alookup eqb k l); split; congruence.
  Qed.

  Lemma ahas_true k (l : list (K * V)) : ahas eqb k l = true <-> In k (map fst l).
  Proof.
    destruct (ahas eqb k l) eqn:E.
    - split; auto. intros _. destruct (in_dec (fun a b => match Bool.bool_dec (eqb a b) true with
        | left e => left (proj1 (eqb_ok a b) e)
        | right n => right (fun e => n (proj2 (eqb_ok a b) e)) end) k (map fst l)) as [Hi|Hn]; auto.
      apply ahas_false in Hn. congruence.
    - split; [discriminate|]. intros Hi. apply ahas_false in E. contradiction.
  Qed.

  Lemma alookup_key_in k v (l : list (K * V)) : alookup eqb k l = Some v -> In k (map fst l).
  Proof. intros H. apply alookup_In in H. apply in_map_iff. exists (k, v); auto. Qed.

  Lemma in_key k v (l : list (K * V)) : In (k, v) l -> In k (map fst l).
  Proof. intros H. apply in_map_iff. exists (k, v); auto. Qed.

  Lemma nodup_keys_fun k v v' (l : list (K * V)) : NoDup (map fst l) -> In (k, v) l -> In (k, v') l -> v = v'.
  Proof.
    intros Hn H1 H2. apply (In_alookup _ _ _ Hn) in H1. apply (In_alookup _ _ _ Hn) in H2. congruence.
  Qed.

  Lemma aset_keys_nodup k v (l : list (K * V)) : NoDup (map fst l) -> NoDup (map fst (aset eqb k v l)).
  Proof.
    intros H. unfold aset. cbn. constructor.
    - intros Hi. apply keys_aremove in Hi as (_ & Hn). congruence.
    - apply keys_aremove_nodup; auto.
  Qed.

  Lemma length_aremove_in k (l : list (K * V)) :
    NoDup (map fst l) -> In k (map fst l) -> S (length (aremove eqb k l)) = length l.
  Proof.
    induction l as [|[k' v] l IH]; cbn; [tauto|]. intros Hn. apply NoDup_cons_iff in Hn as (Hn & Hd).
    intros [-> | Hi].
    - rewrite eqb_rfl. rewrite aremove_notin; auto.
    - rewrite eqb_neq by (intros ->; contradiction). cbn. f_equal. auto.
  Qed.
End AL.

Lemma nodup_vals_fun {K V} (l : list (K * V)) k k' v :
  NoDup (map snd l) -> In (k, v) l -> In (k', v) l -> k = k'.
Proof.
  induction l as [|[k0 v0] l IH]; cbn; [tauto|]. intros Hn. apply NoDup_cons_iff in Hn as (Hn & Hd).
  intros [E1 | H1] [E2 | H2]; auto.
  - congruence.
  - inversion E1; subst. exfalso. apply Hn. apply in_map_iff. exists (k', v); auto.
  - inversion E2; subst. exfalso. apply Hn. apply in_map_iff. exists (k, v); auto.
Qed.

Lemma id_eqb_ok a b : id_eqb a b = true <-> a = b.
Proof.
  destruct a, b; cbn; try (split; [discriminate | congruence]); try tauto.
  - rewrite N.eqb_eq. split; congruence.
  - rewrite bytes_eqb_eq. split; congruence.
Qed.

Lemma subid_eqb_ok a b : subid_eqb a b = true <-> a = b.
Proof.
  destruct a, b; cbn; try (split; [discriminate | congruence]).
  - rewrite N.eqb_eq. split; congruence.
  - rewrite bytes_eqb_eq. split; congruence.
Qed.

Lemma range_eqb_ok a b : range_eqb a b = true <-> a = b.
Proof.
  destruct a, b; unfold range_eqb; cbn. rewrite andb_true_iff, !N.eqb_eq. split; [intros (-> & ->); auto | intros [= -> ->]; auto].
Qed.

Lemma Neqb_ok (a b : N) : N.eqb a b = true <-> a = b.
Proof. apply N.eqb_eq. Qed.


(* ------------------------------------------------------------------------------------------- *)
(* Part 2: the core invariant                                                                    *)
(* ------------------------------------------------------------------------------------------- *)

Definition mkid (b : bool) (n : N) : id := if b then IdStr (print_N n) else IdNum n.
Lemma mk_id_mkid s n : mk_id s n = mkid (id_str s) n.
Proof. reflexivity. Qed.

(* the number an allocated id stands for *)
Definition id_n (i : id) : N := match i with IdNum n => n | IdStr s => digits_val s | IdNull => 0 end.
Lemma id_n_mkid b n : id_n (mkid b n) = n.
Proof. destruct b; cbn; auto. apply digits_val_print_N. Qed.
Lemma mkid_inj b n n' : mkid b n = mkid b n' -> n = n'.
Proof. intros H. apply (f_equal id_n) in H. rewrite !id_n_mkid in H. exact H. Qed.

Definition idlt (b : bool) (nx : N) (i : id) : Prop := exists n, n < nx /\ i = mkid b n.
Definition idge (b : bool) (nx : N) (i : id) : Prop := exists n, nx <= n /\ i = mkid b n.

Lemma idlt_mono b nx nx' i : nx <= nx' -> idlt b nx i -> idlt b nx' i.
Proof. intros H (n & Hn & ->). exists n; split; auto; lia. Qed.
Lemma idlt_ge_False b nx i : idlt b nx i -> idge b nx i -> False.
Proof. intros (n & Hn & ->) (n' & Hn' & E). apply mkid_inj in E. lia. Qed.
Lemma idlt_id_n b nx i : idlt b nx i -> id_n i < nx.
Proof. intros (n & Hn & ->). rewrite id_n_mkid; auto. Qed.

Definition msg_ids (x : f2b) : list id :=
  match x with MRequest i _ _ => [i] | MSubscribe si ui _ _ _ => [si; ui] | _ => [] end.
Definition msg_ranges (x : f2b) : list (N * N) :=
  match x with MBatch lo hi _ _ => [(lo, hi)] | _ => [] end.
Definition msg_ok (x : f2b) : Prop := match x with MRequest _ None _ => False | _ => True end.
(* the other id a table entry refers to: the reserved unsubscribe id of a (pending) subscription,
   the kept subscribe id (tombstone) of a pending unsubscribe *)
Definition refs (k : kind) : option id :=
  match k with KCall _ => None | KPendSub u _ _ => Some u | KSub u _ _ => Some u | KUnsubP j => Some j end.

Definition qids (Q : list f2b) : list id := flat_map msg_ids Q.
Definition qrngs (Q : list f2b) : list (N * N) := flat_map msg_ranges Q.
Definition ids_of (R : list (id * kind)) (Q : list f2b) : list id := map fst R ++ qids Q.
Definition rngs_of (B : list ((N * N) * handle)) (Q : list f2b) : list (N * N) := map fst B ++ qrngs Q.
Definition rdisj (r1 r2 : N * N) : Prop := snd r1 <= fst r2 \/ snd r2 <= fst r1.
Definition off_rngs (rs : list (N * N)) (i : id) : Prop := forall r, In r rs -> id_n i < fst r \/ snd r <= id_n i.

(* id discipline: R = requests, B = batches, Q = queued messages (queue ++ waiting), nx = id counter *)
Record IdsC (R : list (id * kind)) (B : list ((N * N) * handle)) (Q : list f2b) (nx : N) (b : bool) : Prop := {
  ic_nd_ids : NoDup (ids_of R Q);
  ic_lt_ids : forall i, In i (ids_of R Q) -> idlt b nx i;
  ic_nd_rng : NoDup (rngs_of B Q);
  ic_rng_ok : forall r, In r (rngs_of B Q) -> fst r < snd r /\ snd r <= nx;
  ic_rng_disj : forall r1 r2, In r1 (rngs_of B Q) -> In r2 (rngs_of B Q) -> r1 = r2 \/ rdisj r1 r2;
  ic_id_rng : forall i, In i (ids_of R Q) -> off_rngs (rngs_of B Q) i;
  ic_qok : forall x, In x Q -> msg_ok x
}.

(* table shape: S = subs, ua = unacked *)
Record TabC (R : list (id * kind)) (S : list (subid * id)) (B : list ((N * N) * handle)) (Q : list f2b)
            (nx : N) (b : bool) (ua : list id) : Prop := {
  tc_nd_subs : NoDup (map fst S);
  tc_nd_subv : NoDup (map snd S);
  tc_subs_a : forall sid i, In (sid, i) S -> exists u ch um, In (i, KSub u ch um) R;
  tc_subs_b : forall i u ch um, In (i, KSub u ch um) R -> exists sid, In (sid, i) S;
  tc_res : forall i k u, In (i, k) R -> refs k = Some u ->
             idlt b nx u /\ ~ In u (qids Q) /\ off_rngs (rngs_of B Q) u /\ (forall k', In (u, k') R -> k' = KCall None);
  tc_uniq : forall i1 k1 i2 k2 u, In (i1, k1) R -> In (i2, k2) R -> refs k1 = Some u -> refs k2 = Some u -> i1 = i2;
  tc_none : forall j, In (j, KCall None) R -> exists i k, In (i, k) R /\ refs k = Some j;
  tc_unsubp : forall u j, In (u, KUnsubP j) R -> In u ua;
  tc_unacked : forall u, In u ua -> exists j, In (u, KUnsubP j) R
}.

Definition InvC (M : mgr) (Q : list f2b) (nx : N) (b : bool) (ua : list id) : Prop :=
  IdsC (requests M) (batches M) Q nx b /\ TabC (requests M) (subs M) (batches M) Q nx b ua /\ NoDup (map fst (nhandlers M)).

Lemma IdsC_nd_keys R B Q nx b : IdsC R B Q nx b -> NoDup (map fst R).
Proof. intros H. apply (ic_nd_ids _ _ _ _ _) in H. apply nodup_app in H. tauto. Qed.
Lemma IdsC_nd_bkeys R B Q nx b : IdsC R B Q nx b -> NoDup (map fst B).
Proof. intros H. apply (ic_nd_rng _ _ _ _ _) in H. apply nodup_app in H. tauto. Qed.
Lemma IdsC_key_notq R B Q nx b i : IdsC R B Q nx b -> In i (map fst R) -> ~ In i (qids Q).
Proof. intros H. apply (ic_nd_ids _ _ _ _ _) in H. apply nodup_app in H. destruct H as (_ & _ & H). apply H. Qed.

Lemma InvC_init b : InvC empty_mgr [] 0 b [].
Proof.
  split; [|split]; [constructor | constructor |]; cbn; try constructor; intros; try contradiction; tauto.
Qed.

Ltac inv H := inversion H; subst; clear H.

(* generic shrinking of the id discipline *)
Lemma IdsC_shrink R B Q nx b R' B' Q' :
  IdsC R B Q nx b ->
  NoDup (ids_of R' Q') -> (forall i, In i (ids_of R' Q') -> In i (ids_of R Q)) ->
  NoDup (rngs_of B' Q') -> (forall r, In r (rngs_of B' Q') -> In r (rngs_of B Q)) ->
  (forall x, In x Q' -> msg_ok x) ->
  IdsC R' B' Q' nx b.
Proof.
  intros [h1 h2 h3 h4 h5 h6 h7] N1 I1 N2 I2 K. constructor; auto.
  intros i Hi r Hr. apply (h6 i); auto.
Qed.

(* the key set of requests changes, queue and batches stay *)
Lemma IdsC_rekey R B Q nx b R' :
  IdsC R B Q nx b -> NoDup (map fst R') ->
  (forall i, In i (map fst R') -> In i (map fst R) \/ (idlt b nx i /\ ~ In i (qids Q) /\ off_rngs (rngs_of B Q) i)) ->
  IdsC R' B Q nx b.
Proof.
  intros H N1 I1. pose proof H as [h1 h2 h3 h4 h5 h6 h7]. constructor; auto; unfold ids_of in *.
  - apply nodup_app. apply nodup_app in h1 as (a & c & d). repeat split; auto.
    intros x Hx. apply I1 in Hx as [Hx | (_ & Hx & _)]; auto.
  - intros i Hi. apply in_app_iff in Hi as [Hi | Hi].
    + apply I1 in Hi as [Hi | (Hi & _)]; auto. apply h2. apply in_app_iff; auto.
    + apply h2. apply in_app_iff; auto.
  - intros i Hi. apply in_app_iff in Hi as [Hi | Hi].
    + apply I1 in Hi as [Hi | (_ & _ & Hi)]; auto. apply h6. apply in_app_iff; auto.
    + apply h6. apply in_app_iff; auto.
Qed.

Lemma IdsC_mono R B Q nx nx' b : nx <= nx' -> IdsC R B Q nx b -> IdsC R B Q nx' b.
Proof.
  intros L [h1 h2 h3 h4 h5 h6 h7]. constructor; auto.
  - intros i Hi. eapply idlt_mono; eauto.
  - intros r Hr. apply h4 in Hr. lia.
Qed.

Lemma nodup_middle {A} (x : A) l1 l2 : NoDup (l1 ++ x :: l2) <-> NoDup (x :: l1 ++ l2).
Proof.
  split; intros H; eapply Permutation_NoDup; try exact H.
  - symmetry. apply Permutation_middle.
  - apply Permutation_middle.
Qed.

Lemma qids_perm Q Q' : Permutation Q Q' -> Permutation (qids Q) (qids Q').
Proof. apply Permutation_flat_map. Qed.
Lemma qrngs_perm Q Q' : Permutation Q Q' -> Permutation (qrngs Q) (qrngs Q').
Proof. apply Permutation_flat_map. Qed.

Lemma IdsC_perm R B Q Q' nx b : Permutation Q Q' -> IdsC R B Q nx b -> IdsC R B Q' nx b.
Proof.
  intros P H. eapply IdsC_shrink; eauto.
  - eapply Permutation_NoDup; [|apply (ic_nd_ids _ _ _ _ _ H)]. apply Permutation_app_head, qids_perm; auto.
  - intros i Hi. eapply Permutation_in; [|exact Hi]. apply Permutation_app_head, qids_perm. symmetry; auto.
  - eapply Permutation_NoDup; [|apply (ic_nd_rng _ _ _ _ _ H)]. apply Permutation_app_head, qrngs_perm; auto.
  - intros i Hi. eapply Permutation_in; [|exact Hi]. apply Permutation_app_head, qrngs_perm. symmetry; auto.
  - intros x Hx. apply (ic_qok _ _ _ _ _ H). eapply Permutation_in; [|exact Hx]. symmetry; auto.
Qed.

Lemma TabC_q R S B B' Q Q' nx b ua :
  (forall i, In i (qids Q') -> In i (qids Q)) -> (forall r, In r (rngs_of B' Q') -> In r (rngs_of B Q)) ->
  TabC R S B Q nx b ua -> TabC R S B' Q' nx b ua.
Proof.
  intros I J [h1 h2 h3 h4 h5 h6 h7 h8 h9]. constructor; auto.
  intros i k u Hi Hu. destruct (h5 i k u Hi Hu) as (a & c & d & e). repeat split; auto.
  intros r Hr. apply d; auto.
Qed.

Lemma InvC_perm M Q Q' nx b ua : Permutation Q Q' -> InvC M Q nx b ua -> InvC M Q' nx b ua.
Proof.
  intros P (H1 & H2 & H3). split; [|split]; auto.
  - eapply IdsC_perm; eauto.
  - eapply TabC_q; [| |eauto].
    + intros i Hi. eapply Permutation_in; [|exact Hi]. apply qids_perm. symmetry; auto.
    + intros i Hi. eapply Permutation_in; [|exact Hi]. apply Permutation_app_head, qrngs_perm. symmetry; auto.
Qed.

(* dropping a queued message *)
Lemma InvC_tail M x Q nx b ua : InvC M (x :: Q) nx b ua -> InvC M Q nx b ua.
Proof.
  intros (H1 & H2 & H3). split; [|split]; auto.
  - eapply IdsC_shrink; eauto.
    + pose proof (ic_nd_ids _ _ _ _ _ H1) as N. unfold ids_of, qids in *. cbn [flat_map] in N.
      apply nodup_app in N as (N1 & N2 & N3). apply nodup_app in N2 as (N4 & N5 & N6).
      apply nodup_app. repeat split; auto. intros y Hy Hq. apply (N3 y Hy). apply in_app_iff; auto.
    + unfold ids_of, qids. cbn [flat_map]. intros i. rewrite !in_app_iff. tauto.
    + pose proof (ic_nd_rng _ _ _ _ _ H1) as N. unfold rngs_of, qrngs in *. cbn [flat_map] in N.
      apply nodup_app in N as (N1 & N2 & N3). apply nodup_app in N2 as (N4 & N5 & N6).
      apply nodup_app. repeat split; auto. intros y Hy Hq. apply (N3 y Hy). apply in_app_iff; auto.
    + unfold rngs_of, qrngs. cbn [flat_map]. intros i. rewrite !in_app_iff. tauto.
    + intros y Hy. apply (ic_qok _ _ _ _ _ H1). right; auto.
  - eapply TabC_q; [| |eauto].
    + unfold qids. cbn [flat_map]. intros i. rewrite in_app_iff. tauto.
    + unfold rngs_of, qrngs. cbn [flat_map]. intros i. rewrite !in_app_iff. tauto.
Qed.

Lemma InvC_drop M Q1 x Q2 nx b ua : InvC M (Q1 ++ x :: Q2) nx b ua -> InvC M (Q1 ++ Q2) nx b ua.
Proof.
  intros H. apply (InvC_tail M x). eapply InvC_perm; [|exact H]. symmetry. apply Permutation_middle.
Qed.

Lemma InvC_filter M p Q2 : forall Q1 nx b ua, InvC M (Q1 ++ Q2) nx b ua -> InvC M (Q1 ++ filter p Q2) nx b ua.
Proof.
  induction Q2 as [|x Q2 IH]; intros Q1 nx b ua H; cbn; auto.
  destruct (p x).
  - replace (Q1 ++ x :: filter p Q2) with ((Q1 ++ [x]) ++ filter p Q2) by (rewrite <- app_assoc; reflexivity).
    apply IH. rewrite <- app_assoc. exact H.
  - apply IH. eapply InvC_drop; eauto.
Qed.

(* ---------- enqueueing ---------- *)
Lemma InvC_enq_plain M Q x nx b ua : msg_ids x = [] -> msg_ranges x = [] -> msg_ok x ->
  InvC M Q nx b ua -> InvC M (x :: Q) nx b ua.
Proof.
  intros E1 E2 K (H1 & H2 & H3). split; [|split]; auto.
  - eapply IdsC_shrink; eauto; unfold ids_of, rngs_of, qids, qrngs; cbn [flat_map]; rewrite ?E1, ?E2; cbn [app]; auto.
    + apply (ic_nd_ids _ _ _ _ _ H1).
    + apply (ic_nd_rng _ _ _ _ _ H1).
    + intros y [<- | Hy]; auto. apply (ic_qok _ _ _ _ _ H1); auto.
  - eapply TabC_q; [| |eauto]; unfold rngs_of, qids, qrngs; cbn [flat_map]; rewrite ?E1, ?E2; auto.
Qed.

Lemma InvC_mono M Q nx nx' b ua : nx <= nx' -> InvC M Q nx b ua -> InvC M Q nx' b ua.
Proof.
  intros L (H1 & H2 & H3). split; [|split]; auto.
  - eapply IdsC_mono; eauto.
  - destruct H2 as [h1 h2 h3 h4 h5 h6 h7 h8 h9]. constructor; auto.
    intros i k u Hi Hu. destruct (h5 i k u Hi Hu) as (a & c & d & e). repeat split; auto. eapply idlt_mono; eauto.
Qed.

Lemma TabC_enq R S B Q x nx nx' b ua : nx <= nx' -> (forall i, In i (msg_ids x) -> idge b nx i) ->
  (forall r, In r (msg_ranges x) -> nx <= fst r) ->
  TabC R S B Q nx b ua -> TabC R S B (x :: Q) nx' b ua.
Proof.
  intros L G G2 [h1 h2 h3 h4 h5 h6 h7 h8 h9]. constructor; auto.
  intros i k u Hi Hu. destruct (h5 i k u Hi Hu) as (a & c & d & e). repeat split; auto.
  - eapply idlt_mono; eauto.
  - unfold qids. cbn [flat_map]. rewrite in_app_iff. intros [Hx | Hx]; auto.
    eapply idlt_ge_False; eauto.
  - intros r Hr. unfold rngs_of, qrngs in Hr. cbn [flat_map] in Hr. rewrite !in_app_iff in Hr.
    destruct Hr as [Hr | [Hr | Hr]].
    + apply d. apply in_app_iff; auto.
    + left. apply G2 in Hr. apply idlt_id_n in a. lia.
    + apply d. apply in_app_iff; auto.
Qed.

Lemma InvC_enq_req M Q nx b ua h raw : InvC M Q nx b ua ->
  InvC M (MRequest (mkid b nx) (Some h) raw :: Q) (nx + 1) b ua.
Proof.
  intros (H1 & H2 & H3). split; [|split]; auto.
  - destruct H1 as [h1 h2 h3 h4 h5 h6 h7].
    assert (F : ~ In (mkid b nx) (ids_of (requests M) Q)).
    { intros Hi. apply h2 in Hi. eapply idlt_ge_False; eauto. exists nx; split; auto; lia. }
    constructor; unfold ids_of, rngs_of, qids, qrngs in *; cbn [flat_map msg_ids msg_ranges app] in *; auto.
    + apply nodup_middle. constructor; auto.
    + intros i Hi. apply in_app_iff in Hi as [Hi | [<- | Hi]].
      * eapply idlt_mono; [|apply h2; apply in_app_iff; auto]. lia.
      * exists nx; split; auto; lia.
      * eapply idlt_mono; [|apply h2; apply in_app_iff; auto]. lia.
    + intros r Hr. apply h4 in Hr. lia.
    + intros i Hi r Hr. apply in_app_iff in Hi as [Hi | [<- | Hi]].
      * apply (h6 i); auto. apply in_app_iff; auto.
      * rewrite id_n_mkid. apply h4 in Hr. lia.
      * apply (h6 i); auto. apply in_app_iff; auto.
    + intros x [<- | Hx]; cbn; auto.
  - eapply TabC_enq; [| | |eauto]; [lia| |]; cbn.
    + intros i [<- | []]. exists nx; split; auto; lia.
    + intros r [].
Qed.

Lemma InvC_enq_sub M Q nx b ua um h raw : InvC M Q nx b ua ->
  InvC M (MSubscribe (mkid b nx) (mkid b (nx + 1)) um h raw :: Q) (nx + 2) b ua.
Proof.
  intros (H1 & H2 & H3). split; [|split]; auto.
  - destruct H1 as [h1 h2 h3 h4 h5 h6 h7].
    assert (F : forall n, nx <= n -> ~ In (mkid b n) (ids_of (requests M) Q)).
    { intros n Hn Hi. apply h2 in Hi. eapply idlt_ge_False; eauto. exists n; split; auto. }
    constructor; unfold ids_of, rngs_of, qids, qrngs in *; cbn [flat_map msg_ids msg_ranges app] in *; auto.
    + apply nodup_middle. constructor.
      * cbn [In]. rewrite in_app_iff. cbn [In]. intros [Hi | [Hi | Hi]].
        -- apply (F nx); [lia|]. apply in_app_iff; auto.
        -- apply mkid_inj in Hi. lia.
        -- apply (F nx); [lia|]. apply in_app_iff; auto.
      * apply nodup_middle. constructor; auto. apply F. lia.
    + intros i Hi. apply in_app_iff in Hi as [Hi | [<- | [<- | Hi]]].
      * eapply idlt_mono; [|apply h2; apply in_app_iff; auto]. lia.
      * exists nx; split; auto; lia.
      * exists (nx + 1); split; auto; lia.
      * eapply idlt_mono; [|apply h2; apply in_app_iff; auto]. lia.
    + intros r Hr. apply h4 in Hr. lia.
    + intros i Hi r Hr. apply in_app_iff in Hi as [Hi | [<- | [<- | Hi]]].
      * apply (h6 i); auto. apply in_app_iff; auto.
      * rewrite id_n_mkid. apply h4 in Hr. lia.
      * rewrite id_n_mkid. apply h4 in Hr. lia.
      * apply (h6 i); auto. apply in_app_iff; auto.
    + intros x [<- | Hx]; cbn; auto.
  - eapply TabC_enq; [| | |eauto]; [lia| |]; cbn.
    + intros i [<- | [<- | []]].
      * exists nx; split; auto; lia.
      * exists (nx + 1); split; auto; lia.
    + intros r [].
Qed.

Lemma InvC_enq_batch M Q nx len b ua h raw : 0 < len -> InvC M Q nx b ua ->
  InvC M (MBatch nx (nx + len) h raw :: Q) (nx + len) b ua.
Proof.
  intros L (H1 & H2 & H3). split; [|split]; auto.
  - destruct H1 as [h1 h2 h3 h4 h5 h6 h7].
    assert (F : ~ In (nx, nx + len) (rngs_of (batches M) Q)).
    { intros Hi. apply h4 in Hi. cbn in Hi. lia. }
    constructor; unfold ids_of, rngs_of, qids, qrngs in *; cbn [flat_map msg_ids msg_ranges app] in *; auto.
    + intros i Hi. eapply idlt_mono; [|apply h2; auto]. lia.
    + apply nodup_middle. constructor; auto.
    + intros r Hr. apply in_app_iff in Hr as [Hr | [<- | Hr]].
      * assert (Hr' : In r (map fst (batches M) ++ flat_map msg_ranges Q)) by (apply in_app_iff; auto).
        apply h4 in Hr'. lia.
      * cbn. lia.
      * assert (Hr' : In r (map fst (batches M) ++ flat_map msg_ranges Q)) by (apply in_app_iff; auto).
        apply h4 in Hr'. lia.
    + intros r1 r2 Hr1 Hr2.
      assert (O : forall r, In r (map fst (batches M) ++ (nx, nx + len) :: flat_map msg_ranges Q) ->
                   r = (nx, nx + len) \/ In r (map fst (batches M) ++ flat_map msg_ranges Q)).
      { intros r Hr. rewrite in_app_iff in *. cbn [In] in Hr. intuition auto. }
      apply O in Hr1 as [-> | Hr1]; apply O in Hr2 as [-> | Hr2]; auto.
      * right. right. cbn. apply h4 in Hr2. lia.
      * right. left. cbn. apply h4 in Hr1. lia.
    + intros i Hi r Hr. apply in_app_iff in Hr as [Hr | [<- | Hr]].
      * apply (h6 i); auto. apply in_app_iff; auto.
      * cbn. left. apply idlt_id_n with (b := b). auto.
      * apply (h6 i); auto. apply in_app_iff; auto.
    + intros x [<- | Hx]; cbn; auto.
  - eapply TabC_enq; [| | |eauto]; [lia| |]; cbn.
    + intros i [].
    + intros r [<- | []]. cbn. lia.
Qed.

(* ---------- the send task takes a message off the queue ---------- *)
Lemma In_aset {K V} (eqb : K -> K -> bool) (eqb_ok : forall a b, eqb a b = true <-> a = b) i v (l : list (K * V)) j k :
  In (j, k) (aset eqb i v l) <-> (j = i /\ k = v) \/ (In (j, k) l /\ j <> i).
Proof.
  unfold aset. cbn [In]. rewrite (In_aremove eqb eqb_ok). split.
  - intros [E | H]; [inv E|]; auto.
  - intros [(-> & ->) | H]; auto.
Qed.

Lemma InvC_front_req M Q nx b ua i w raw : InvC M (MRequest i w raw :: Q) nx b ua ->
  ~ In i (map fst (requests M)) /\ InvC (set_requests M ((i, KCall w) :: requests M)) Q nx b ua.
Proof.
  intros (H1 & H2 & H3).
  pose proof (ic_nd_ids _ _ _ _ _ H1) as N. unfold ids_of, qids in N. cbn [flat_map msg_ids app] in N.
  apply nodup_middle in N. apply NoDup_cons_iff in N as (N1 & N2). rewrite in_app_iff in N1.
  split; [tauto|]. split; [|split]; auto; cbn [requests set_requests subs batches].
  - eapply IdsC_shrink; [exact H1|..]; unfold ids_of, rngs_of, qids, qrngs; cbn [flat_map msg_ids msg_ranges app map fst].
    + constructor; auto. rewrite in_app_iff. tauto.
    + intros j. cbn [In]. rewrite !in_app_iff. cbn [In]. tauto.
    + apply (ic_nd_rng _ _ _ _ _ H1).
    + auto.
    + intros y Hy. apply (ic_qok _ _ _ _ _ H1). right; auto.
  - assert (W : w <> None).
    { pose proof (ic_qok _ _ _ _ _ H1 _ (or_introl eq_refl)) as K. cbn in K. destruct w; auto; discriminate. }
    destruct H2 as [h1 h2 h3 h4 h5 h6 h7 h8 h9].
    assert (NR : forall j k u, In (j, k) (requests M) -> refs k = Some u -> u <> i).
    { intros j k u Hj Hu ->. destruct (h5 j k i Hj Hu) as (_ & c & _). apply c. unfold qids. cbn. auto. }
    constructor; auto.
    + intros sid j Hs. destruct (h3 sid j Hs) as (u & ch & um & Hu). exists u, ch, um. right; auto.
    + intros j u ch um [E | Hj]; [inv E|]. eauto.
    + intros j k u [E | Hj] Hu; [inv E; discriminate|].
      destruct (h5 j k u Hj Hu) as (a & c & d & e). repeat split; auto.
      * intros Hq. apply c. unfold qids. cbn [flat_map]. apply in_app_iff; auto.
      * intros k' [E | Hk]; [inv E|]; auto. exfalso. eapply NR; eauto.
    + intros i1 k1 i2 k2 u [E1 | I1] [E2 | I2] R1 R2; try (inv E1; discriminate); try (inv E2; discriminate). eauto.
    + intros j [E | Hj]; [inv E; congruence|]. destruct (h7 j Hj) as (i2 & k2 & Hi2 & Hr). exists i2, k2. split; auto. right; auto.
    + intros u j [E | Hj]; [inv E|]. eauto.
    + intros u Hu. destruct (h9 u Hu) as (j & Hj). exists j. right; auto.
Qed.

Lemma InvC_front_sub M Q nx b ua si ui um h raw : InvC M (MSubscribe si ui um h raw :: Q) nx b ua ->
  ~ In si (map fst (requests M)) /\ ~ In ui (map fst (requests M)) /\ si <> ui /\
  InvC (set_requests M ((ui, KCall None) :: (si, KPendSub ui h um) :: requests M)) Q nx b ua.
Proof.
  intros (H1 & H2 & H3).
  pose proof (ic_nd_ids _ _ _ _ _ H1) as N. unfold ids_of, qids in N. cbn [flat_map msg_ids app] in N.
  apply nodup_middle in N. apply NoDup_cons_iff in N as (N1 & N2).
  apply nodup_middle in N2. apply NoDup_cons_iff in N2 as (N3 & N4).
  cbn [In] in N1. rewrite in_app_iff in N1, N3. cbn [In] in N1.
  assert (D : si <> ui) by (intros ->; tauto).
  split; [tauto|]. split; [tauto|]. split; auto.
  split; [|split]; auto; cbn [requests set_requests subs batches].
  - eapply IdsC_shrink; [exact H1|..]; unfold ids_of, rngs_of, qids, qrngs; cbn [flat_map msg_ids msg_ranges app map fst].
    + constructor; [|constructor]; auto.
      * cbn [In]. rewrite in_app_iff. intros [E | Hx]; [congruence | tauto].
      * rewrite in_app_iff. tauto.
    + intros j. cbn [In]. rewrite !in_app_iff. cbn [In]. tauto.
    + apply (ic_nd_rng _ _ _ _ _ H1).
    + auto.
    + intros y Hy. apply (ic_qok _ _ _ _ _ H1). right; auto.
  - pose proof (ic_lt_ids _ _ _ _ _ H1) as LT. pose proof (ic_id_rng _ _ _ _ _ H1) as OR.
    unfold ids_of, rngs_of, qids, qrngs in LT, OR. cbn [flat_map msg_ids msg_ranges app] in LT, OR.
    destruct H2 as [h1 h2 h3 h4 h5 h6 h7 h8 h9].
    assert (NR : forall j k u, In (j, k) (requests M) -> refs k = Some u -> u <> si /\ u <> ui).
    { intros j k u Hj Hu. destruct (h5 j k u Hj Hu) as (_ & c & _). unfold qids in c. cbn [flat_map msg_ids app In] in c.
      split; intros ->; apply c; auto. }
    assert (KS : forall k, ~ In (si, k) (requests M)).
    { intros k Hk. apply (in_key _ _ _) in Hk. tauto. }
    assert (KU : forall k, ~ In (ui, k) (requests M)).
    { intros k Hk. apply (in_key _ _ _) in Hk. tauto. }
    constructor; auto.
    + intros sid j Hs. destruct (h3 sid j Hs) as (u & ch & um' & Hu). exists u, ch, um'. right; right; auto.
    + intros j u ch um' [E | [E | Hj]]; [inv E | inv E|]. eauto.
    + intros j k u [E | [E | Hj]] Hu; [inv E; discriminate | inv E |].
      * cbn in Hu. inv Hu. repeat split.
        -- apply LT. rewrite in_app_iff. cbn [In]. auto.
        -- tauto.
        -- intros r Hr. apply (OR u); auto. rewrite in_app_iff. cbn [In]. auto.
        -- intros k' [E | [E | Hk]]; [inv E; auto | inv E; congruence | exfalso; eapply KU; eauto].
      * destruct (h5 j k u Hj Hu) as (a & c & d & e). destruct (NR j k u Hj Hu) as (n1 & n2). repeat split; auto.
        -- intros Hq. apply c. unfold qids. cbn [flat_map]. apply in_app_iff; auto.
        -- intros k' [E | [E | Hk]]; [inv E; congruence | inv E; congruence | auto].
    + intros i1 k1 i2 k2 u [E1 | [E1 | I1]] [E2 | [E2 | I2]] R1 R2; try (inv E1; discriminate); try (inv E2; discriminate); auto.
      * inv E1; inv E2; auto.
      * inv E1. cbn in R1. inv R1. destruct (NR i2 k2 u I2 R2). congruence.
      * inv E2. cbn in R2. inv R2. destruct (NR i1 k1 u I1 R1). congruence.
      * eauto.
    + intros j [E | [E | Hj]]; [inv E | inv E|].
      * exists si, (KPendSub j h um). split; auto. right; left; auto.
      * destruct (h7 j Hj) as (i2 & k2 & Hi2 & Hr). exists i2, k2. split; auto. right; right; auto.
    + intros u j [E | [E | Hj]]; [inv E | inv E|]. eauto.
    + intros u Hu. destruct (h9 u Hu) as (j & Hj). exists j. right; right; auto.
Qed.

Lemma InvC_front_batch M Q nx b ua lo hi h raw : InvC M (MBatch lo hi h raw :: Q) nx b ua ->
  ~ In (lo, hi) (map fst (batches M)) /\ InvC (set_batches M (((lo, hi), h) :: batches M)) Q nx b ua.
Proof.
  intros (H1 & H2 & H3).
  pose proof (ic_nd_rng _ _ _ _ _ H1) as N. unfold rngs_of, qrngs in N. cbn [flat_map msg_ranges app] in N.
  apply nodup_middle in N. apply NoDup_cons_iff in N as (N1 & N2). rewrite in_app_iff in N1.
  split; [tauto|]. split; [|split]; auto; cbn [requests set_batches subs batches].
  - eapply IdsC_shrink; [exact H1|..]; unfold ids_of, rngs_of, qids, qrngs; cbn [flat_map msg_ids msg_ranges app map fst].
    + apply (ic_nd_ids _ _ _ _ _ H1).
    + auto.
    + constructor; auto. rewrite in_app_iff. tauto.
    + intros j. cbn [In]. rewrite !in_app_iff. cbn [In]. tauto.
    + intros y Hy. apply (ic_qok _ _ _ _ _ H1). right; auto.
  - eapply TabC_q; [| |eauto]; unfold rngs_of, qids, qrngs; cbn [flat_map msg_ids msg_ranges app map fst]; auto.
    intros j. cbn [In]. rewrite !in_app_iff. cbn [In]. tauto.
Qed.

(* ---------- answers ---------- *)
Lemma req_kind_fun (R : list (id * kind)) i k k' : NoDup (map fst R) -> In (i, k) R -> In (i, k') R -> k = k'.
Proof. intros N H1 H2. exact (nodup_keys_fun id_eqb id_eqb_ok i k k' R N H1 H2). Qed.

(* a plain entry (no reference) goes away *)
Lemma InvC_resp_call M Q nx b ua i w : InvC M Q nx b ua -> In (i, KCall w) (requests M) ->
  InvC (set_requests M (aremove id_eqb i (requests M))) Q nx b (filter (fun u => negb (id_eqb i u)) ua).
Proof.
  intros (H1 & H2 & H3) Hi. pose proof (IdsC_nd_keys _ _ _ _ _ H1) as ND.
  assert (U : forall k, In (i, k) (requests M) -> k = KCall w).
  { intros k Hk. exact (req_kind_fun _ _ _ _ ND Hk Hi). }
  split; [|split]; auto; cbn [requests set_requests subs batches].
  - eapply IdsC_rekey; eauto.
    + apply keys_aremove_nodup; auto.
    + intros j Hj. apply (keys_aremove id_eqb id_eqb_ok) in Hj. tauto.
  - destruct H2 as [h1 h2 h3 h4 h5 h6 h7 h8 h9]. constructor; auto.
    + intros sid j Hs. destruct (h3 sid j Hs) as (u & ch & um & Hu). exists u, ch, um.
      apply (In_aremove id_eqb id_eqb_ok). split; auto. intros ->. apply U in Hu. discriminate.
    + intros j u ch um Hj. apply (In_aremove id_eqb id_eqb_ok) in Hj as (Hj & _). eauto.
    + intros j k u Hj Hu. apply (In_aremove id_eqb id_eqb_ok) in Hj as (Hj & _).
      destruct (h5 j k u Hj Hu) as (a & c & d & e). repeat split; auto.
      intros k' Hk. apply (In_aremove id_eqb id_eqb_ok) in Hk as (Hk & _). auto.
    + intros i1 k1 i2 k2 u I1 I2. apply (In_aremove id_eqb id_eqb_ok) in I1 as (I1 & _).
      apply (In_aremove id_eqb id_eqb_ok) in I2 as (I2 & _). eauto.
    + intros j Hj. apply (In_aremove id_eqb id_eqb_ok) in Hj as (Hj & Hn).
      destruct (h7 j Hj) as (i2 & k2 & Hi2 & Hr). exists i2, k2. split; auto.
      apply (In_aremove id_eqb id_eqb_ok). split; auto. intros ->. apply U in Hi2. subst. discriminate.
    + intros u j Hj. apply (In_aremove id_eqb id_eqb_ok) in Hj as (Hj & Hn).
      apply filter_In. split; eauto. rewrite (eqb_neq id_eqb id_eqb_ok); auto.
    + intros u Hu. apply filter_In in Hu as (Hu & Hn). destruct (h9 u Hu) as (j & Hj). exists j.
      apply (In_aremove id_eqb id_eqb_ok). split; auto. intros ->. rewrite (eqb_rfl id_eqb id_eqb_ok) in Hn. discriminate.
Qed.

(* an entry goes away together with the id it refers to *)
Lemma TabC_rm_ref R S B Q nx b ua i k0 u R' S' ua' :
  TabC R S B Q nx b ua -> NoDup (map fst R) -> In (i, k0) R -> refs k0 = Some u ->
  (forall j k, In (j, k) R' <-> In (j, k) R /\ j <> i /\ j <> u) ->
  (forall sid j, In (sid, j) S' <-> In (sid, j) S /\ j <> i) -> NoDup (map fst S') -> NoDup (map snd S') ->
  (forall x, In x ua' <-> In x ua /\ x <> i) ->
  TabC R' S' B Q nx b ua'.
Proof.
  intros [h1 h2 h3 h4 h5 h6 h7 h8 h9] ND Hi Hr CR CS N1 N2 CU.
  assert (U : forall k, In (i, k) R -> k = k0).
  { intros k Hk. exact (req_kind_fun _ _ _ _ ND Hk Hi). }
  destruct (h5 i k0 u Hi Hr) as (_ & _ & _ & UK).
  constructor; auto.
  - intros sid j Hs. apply CS in Hs as (Hs & Hn). destruct (h3 sid j Hs) as (u' & ch & um & Hu). exists u', ch, um.
    apply CR. repeat split; auto. intros ->. apply UK in Hu. discriminate.
  - intros j u' ch um Hj. apply CR in Hj as (Hj & Hn & _). destruct (h4 _ _ _ _ Hj) as (sid & Hs). exists sid. apply CS. auto.
  - intros j k u' Hj Hu. apply CR in Hj as (Hj & _). destruct (h5 j k u' Hj Hu) as (a & c & d & e). repeat split; auto.
    intros k' Hk. apply CR in Hk as (Hk & _). auto.
  - intros i1 k1 i2 k2 u' I1 I2. apply CR in I1 as (I1 & _). apply CR in I2 as (I2 & _). eauto.
  - intros j Hj. apply CR in Hj as (Hj & Hn1 & Hn2). destruct (h7 j Hj) as (i2 & k2 & Hi2 & Hr2). exists i2, k2. split; auto.
    apply CR. repeat split; auto.
    + intros ->. apply U in Hi2. subst. congruence.
    + intros ->. apply UK in Hi2. subst. discriminate.
  - intros x j Hj. apply CR in Hj as (Hj & Hn & _). apply CU. split; eauto.
  - intros x Hx. apply CU in Hx as (Hx & Hn). destruct (h9 x Hx) as (j & Hj). exists j. apply CR. repeat split; auto.
    intros ->. apply UK in Hj. discriminate.
Qed.

Lemma release_char M u : NoDup (map fst (requests M)) -> (forall k, In (u, k) (requests M) -> k = KCall None) ->
  subs (release_reserved u M) = subs M /\ batches (release_reserved u M) = batches M /\
  nhandlers (release_reserved u M) = nhandlers M /\ NoDup (map fst (requests (release_reserved u M))) /\
  forall j k, In (j, k) (requests (release_reserved u M)) <-> In (j, k) (requests M) /\ j <> u.
Proof.
  intros ND UK. unfold release_reserved, req_lookup.
  destruct (alookup id_eqb u (requests M)) as [[[w|]| | |]|] eqn:E;
    try (apply (alookup_In id_eqb id_eqb_ok) in E; apply UK in E; discriminate).
  - split; [|split; [|split; [|split]]]; auto; cbn [requests set_requests].
    + apply keys_aremove_nodup; auto.
    + intros j k. apply (In_aremove id_eqb id_eqb_ok).
  - split; [|split; [|split; [|split]]]; auto.
    intros j k. split; [|tauto]. intros Hj. split; auto.
    intros ->. apply (alookup_None id_eqb id_eqb_ok) in E. apply E. eapply in_key; eauto.
Qed.

Lemma not_unacked R S B Q nx b ua i k : TabC R S B Q nx b ua -> NoDup (map fst R) -> In (i, k) R ->
  (forall j, k <> KUnsubP j) -> forall x, In x ua <-> In x ua /\ x <> i.
Proof.
  intros T ND Hi Hk x. split; [|tauto]. intros Hx. split; auto. intros ->.
  destruct (tc_unacked _ _ _ _ _ _ _ T i Hx) as (j & Hj).
  apply (Hk j). exact (req_kind_fun _ _ _ _ ND Hi Hj).
Qed.

(* a refused / malformed / duplicate subscribe answer: the pending entry and its reserved id go *)
Lemma InvC_resp_pend_err M Q nx b ua i u w um : InvC M Q nx b ua -> In (i, KPendSub u w um) (requests M) ->
  InvC (release_reserved u (set_requests M (aremove id_eqb i (requests M)))) Q nx b ua.
Proof.
  intros (H1 & H2 & H3) Hi. pose proof (IdsC_nd_keys _ _ _ _ _ H1) as ND.
  destruct (tc_res _ _ _ _ _ _ _ H2 _ _ _ Hi eq_refl) as (_ & _ & _ & UK).
  set (M1 := set_requests M (aremove id_eqb i (requests M))).
  destruct (release_char M1 u) as (E1 & E2 & E3 & N' & CR).
  { cbn. apply keys_aremove_nodup; auto. }
  { cbn. intros k Hk. apply (In_aremove id_eqb id_eqb_ok) in Hk as (Hk & _). auto. }
  assert (CR' : forall j k, In (j, k) (requests (release_reserved u M1)) <-> In (j, k) (requests M) /\ j <> i /\ j <> u).
  { intros j k. rewrite CR. cbn. rewrite (In_aremove id_eqb id_eqb_ok). tauto. }
  split; [|split]; rewrite ?E1, ?E2, ?E3; auto.
  - eapply IdsC_rekey; eauto. intros j Hj. left. apply in_map_iff in Hj as ([j' k] & <- & Hj). apply CR' in Hj as (Hj & _).
    eapply in_key; eauto.
  - eapply TabC_rm_ref with (k0 := KPendSub u w um); [exact H2 | exact ND | exact Hi | reflexivity | exact CR' | | | | ].
    + cbn. intros sid j. split; [|tauto]. intros Hs. split; auto. intros ->.
      destruct (tc_subs_a _ _ _ _ _ _ _ H2 _ _ Hs) as (u' & ch & um' & Hu).
      assert (X : KSub u' ch um' = KPendSub u w um) by (exact (req_kind_fun _ _ _ _ ND Hu Hi)). discriminate.
    + apply (tc_nd_subs _ _ _ _ _ _ _ H2).
    + apply (tc_nd_subv _ _ _ _ _ _ _ H2).
    + eapply not_unacked; eauto. intros j; discriminate.
Qed.

(* the unsubscribe acknowledgement: the pending-unsubscribe entry and the tombstone go *)
Lemma InvC_resp_unsubp M Q nx b ua i sub : InvC M Q nx b ua -> In (i, KUnsubP sub) (requests M) ->
  let r1 := aremove id_eqb i (requests M) in
  let r2 := match alookup id_eqb sub r1 with Some (KCall None) => aremove id_eqb sub r1 | _ => r1 end in
  InvC (set_requests M r2) Q nx b (filter (fun u => negb (id_eqb i u)) ua).
Proof.
  intros (H1 & H2 & H3) Hi r1 r2. pose proof (IdsC_nd_keys _ _ _ _ _ H1) as ND.
  destruct (tc_res _ _ _ _ _ _ _ H2 _ _ _ Hi eq_refl) as (_ & _ & _ & UK).
  assert (N1 : NoDup (map fst r1)) by (apply keys_aremove_nodup; auto).
  assert (CR : forall j k, In (j, k) r2 <-> In (j, k) (requests M) /\ j <> i /\ j <> sub).
  { intros j k. unfold r2. destruct (alookup id_eqb sub r1) as [[[w|]| | |]|] eqn:E;
      try (apply (alookup_In id_eqb id_eqb_ok) in E; apply (In_aremove id_eqb id_eqb_ok) in E as (E & _); apply UK in E; discriminate).
    - rewrite (In_aremove id_eqb id_eqb_ok). unfold r1. rewrite (In_aremove id_eqb id_eqb_ok). tauto.
    - unfold r1 in *. rewrite (In_aremove id_eqb id_eqb_ok). split; [|tauto]. intros (Hj & Hn). repeat split; auto.
      intros ->. apply (alookup_None id_eqb id_eqb_ok) in E. apply E. apply (keys_aremove id_eqb id_eqb_ok). split; auto.
      eapply in_key; eauto. }
  assert (N2 : NoDup (map fst r2)).
  { unfold r2. destruct (alookup id_eqb sub r1) as [[[w|]| | |]|]; auto. apply keys_aremove_nodup; auto. }
  split; [|split]; auto; cbn [requests set_requests subs batches].
  - eapply IdsC_rekey; eauto. intros j Hj. left. apply in_map_iff in Hj as ([j' k] & <- & Hj). apply CR in Hj as (Hj & _).
    eapply in_key; eauto.
  - eapply TabC_rm_ref with (k0 := KUnsubP sub); [exact H2 | exact ND | exact Hi | reflexivity | exact CR | | | | ].
    + intros sid j. split; [|tauto]. intros Hs. split; auto. intros ->.
      destruct (tc_subs_a _ _ _ _ _ _ _ H2 _ _ Hs) as (u' & ch & um' & Hu).
      assert (X : KSub u' ch um' = KUnsubP sub) by (exact (req_kind_fun _ _ _ _ ND Hu Hi)). discriminate.
    + apply (tc_nd_subs _ _ _ _ _ _ _ H2).
    + apply (tc_nd_subv _ _ _ _ _ _ _ H2).
    + intros x. rewrite filter_In. split.
      * intros (Hx & Hn). split; auto. intros ->. rewrite (eqb_rfl id_eqb id_eqb_ok) in Hn. discriminate.
      * intros (Hx & Hn). split; auto. rewrite (eqb_neq id_eqb id_eqb_ok); auto.
Qed.

Lemma subs_aremove_char (S : list (subid * id)) sid rid : NoDup (map fst S) -> NoDup (map snd S) -> In (sid, rid) S ->
  forall sid' j, In (sid', j) (aremove subid_eqb sid S) <-> In (sid', j) S /\ j <> rid.
Proof.
  intros N1 N2 Hs sid' j. rewrite (In_aremove subid_eqb subid_eqb_ok). split; intros (H & Hn); split; auto.
  - intros ->. apply Hn. eapply nodup_vals_fun; eauto.
  - intros ->. apply Hn. exact (nodup_keys_fun subid_eqb subid_eqb_ok _ _ _ _ N1 H Hs).
Qed.

Lemma subs_aremove_nd (S : list (subid * id)) sid : NoDup (map fst S) -> NoDup (map snd S) ->
  NoDup (map fst (aremove subid_eqb sid S)) /\ NoDup (map snd (aremove subid_eqb sid S)).
Proof.
  intros N1 N2. split.
  - apply keys_aremove_nodup; auto.
  - rewrite (aremove_filter subid_eqb). apply nodup_map_filter; auto.
Qed.

(* a server close notification: the subscription and its reserved id go *)
Lemma InvC_close M Q nx b ua sid rid u ch um : InvC M Q nx b ua ->
  In (sid, rid) (subs M) -> In (rid, KSub u ch um) (requests M) ->
  InvC (release_reserved u (set_subs (set_requests M (aremove id_eqb rid (requests M))) (aremove subid_eqb sid (subs M)))) Q nx b ua.
Proof.
  intros (H1 & H2 & H3) Hs Hi. pose proof (IdsC_nd_keys _ _ _ _ _ H1) as ND.
  destruct (tc_res _ _ _ _ _ _ _ H2 _ _ _ Hi eq_refl) as (_ & _ & _ & UK).
  set (M1 := set_subs (set_requests M (aremove id_eqb rid (requests M))) (aremove subid_eqb sid (subs M))).
  destruct (release_char M1 u) as (E1 & E2 & E3 & N' & CR).
  { cbn. apply keys_aremove_nodup; auto. }
  { cbn. intros k Hk. apply (In_aremove id_eqb id_eqb_ok) in Hk as (Hk & _). auto. }
  assert (CR' : forall j k, In (j, k) (requests (release_reserved u M1)) <-> In (j, k) (requests M) /\ j <> rid /\ j <> u).
  { intros j k. rewrite CR. cbn. rewrite (In_aremove id_eqb id_eqb_ok). tauto. }
  pose proof (tc_nd_subs _ _ _ _ _ _ _ H2) as NS1. pose proof (tc_nd_subv _ _ _ _ _ _ _ H2) as NS2.
  destruct (subs_aremove_nd (subs M) sid NS1 NS2) as (NS3 & NS4).
  split; [|split]; rewrite ?E1, ?E2, ?E3; auto.
  - eapply IdsC_rekey; eauto. intros j Hj. left. apply in_map_iff in Hj as ([j' k] & <- & Hj). apply CR' in Hj as (Hj & _).
    eapply in_key; eauto.
  - eapply TabC_rm_ref with (k0 := KSub u ch um); [exact H2 | exact ND | exact Hi | reflexivity | exact CR' | | | | ]; cbn [M1 subs set_subs set_requests]; auto.
    + apply subs_aremove_char; auto.
    + eapply not_unacked; eauto. intros j; discriminate.
Qed.

(* an accepted subscribe answer *)
Lemma InvC_resp_pend_ok M Q nx b ua i u w um sid : InvC M Q nx b ua -> In (i, KPendSub u w um) (requests M) ->
  ~ In sid (map fst (subs M)) ->
  InvC (set_subs (set_requests M ((i, KSub u w um) :: aremove id_eqb i (requests M))) ((sid, i) :: subs M)) Q nx b ua.
Proof.
  intros (H1 & H2 & H3) Hi Hsid. pose proof (IdsC_nd_keys _ _ _ _ _ H1) as ND.
  assert (U : forall k, In (i, k) (requests M) -> k = KPendSub u w um).
  { intros k Hk. exact (req_kind_fun _ _ _ _ ND Hk Hi). }
  split; [|split]; auto; cbn [requests set_requests set_subs subs batches].
  - eapply IdsC_rekey; eauto; cbn [map fst].
    + constructor.
      * intros Hx. apply (keys_aremove id_eqb id_eqb_ok) in Hx. tauto.
      * apply keys_aremove_nodup; auto.
    + intros j [<- | Hj]; left.
      * eapply in_key; eauto.
      * apply (keys_aremove id_eqb id_eqb_ok) in Hj. tauto.
  - destruct H2 as [h1 h2 h3 h4 h5 h6 h7 h8 h9].
    destruct (h5 _ _ _ Hi eq_refl) as (a0 & c0 & d0 & e0).
    (* every new entry comes from an old entry with the same key and the same reference *)
    assert (PRE : forall j k, In (j, k) ((i, KSub u w um) :: aremove id_eqb i (requests M)) ->
                   exists k0, In (j, k0) (requests M) /\ refs k0 = refs k /\ (k = k0 \/ (j = i /\ k = KSub u w um))).
    { intros j k [E | Hj]; [inv E|].
      - exists (KPendSub u w um). auto.
      - apply (In_aremove id_eqb id_eqb_ok) in Hj as (Hj & _). exists k. auto. }
    constructor; auto.
    + cbn [map fst]. constructor; auto.
    + cbn [map snd]. constructor; auto. intros Hx. apply in_map_iff in Hx as ([sid' j] & E & Hs). cbn in E. subst j.
      destruct (h3 _ _ Hs) as (u' & ch & um' & Hu). apply U in Hu. discriminate.
    + intros sid' j [E | Hs]; [inv E|].
      * exists u, w, um. left; auto.
      * destruct (h3 _ _ Hs) as (u' & ch & um' & Hu). exists u', ch, um'. right.
        apply (In_aremove id_eqb id_eqb_ok). split; auto. intros ->. apply U in Hu. discriminate.
    + intros j u' ch um' [E | Hj]; [inv E|].
      * exists sid. left; auto.
      * apply (In_aremove id_eqb id_eqb_ok) in Hj as (Hj & _). destruct (h4 _ _ _ _ Hj) as (sid' & Hs). exists sid'. right; auto.
    + intros j k u' Hj Hu. destruct (PRE j k Hj) as (k0 & Hk0 & Hr & _). rewrite <- Hr in Hu.
      destruct (h5 j k0 u' Hk0 Hu) as (a & c & d & e). repeat split; auto.
      intros k' [E | Hk]; [inv E|].
      * apply e in Hi. discriminate.
      * apply (In_aremove id_eqb id_eqb_ok) in Hk as (Hk & _). auto.
    + intros i1 k1 i2 k2 u' I1 I2 R1 R2.
      destruct (PRE _ _ I1) as (k1' & J1 & E1 & _). destruct (PRE _ _ I2) as (k2' & J2 & E2 & _).
      rewrite <- E1 in R1. rewrite <- E2 in R2. eauto.
    + intros j [E | Hj]; [inv E|]. apply (In_aremove id_eqb id_eqb_ok) in Hj as (Hj & Hn).
      destruct (h7 j Hj) as (i2 & k2 & Hi2 & Hr).
      destruct (id_eqb i2 i) eqn:E.
      * apply id_eqb_ok in E. subst i2. apply U in Hi2. subst k2. cbn in Hr. inv Hr.
        exists i, (KSub j w um). split; auto. left; auto.
      * exists i2, k2. split; auto. right. apply (In_aremove id_eqb id_eqb_ok). split; auto.
        intros ->. rewrite (eqb_rfl id_eqb id_eqb_ok) in E. discriminate.
    + intros x j [E | Hj]; [inv E|]. apply (In_aremove id_eqb id_eqb_ok) in Hj as (Hj & _). eauto.
    + intros x Hx. destruct (h9 x Hx) as (j & Hj). exists j. right.
      apply (In_aremove id_eqb id_eqb_ok). split; auto. intros ->. apply U in Hj. discriminate.
Qed.

(* the send task unsubscribes: the subscription entry becomes a tombstone, the reserved id a pending unsubscribe *)
Lemma InvC_unsub M Q nx b ua sid rid u ch um : InvC M Q nx b ua ->
  In (sid, rid) (subs M) -> In (rid, KSub u ch um) (requests M) ->
  InvC (set_subs (set_requests M (aset id_eqb u (KUnsubP rid) (aset id_eqb rid (KCall None) (requests M))))
                 (aremove subid_eqb sid (subs M))) Q nx b (u :: ua).
Proof.
  intros (H1 & H2 & H3) Hs Hi. pose proof (IdsC_nd_keys _ _ _ _ _ H1) as ND.
  assert (U : forall k, In (rid, k) (requests M) -> k = KSub u ch um).
  { intros k Hk. exact (req_kind_fun _ _ _ _ ND Hk Hi). }
  destruct (tc_res _ _ _ _ _ _ _ H2 _ _ _ Hi eq_refl) as (a0 & c0 & d0 & UK).
  assert (D : u <> rid). { intros ->. apply UK in Hi. discriminate. }
  set (R' := aset id_eqb u (KUnsubP rid) (aset id_eqb rid (KCall None) (requests M))).
  assert (CR : forall j k, In (j, k) R' <->
            (j = u /\ k = KUnsubP rid) \/ (j = rid /\ k = KCall None) \/ (In (j, k) (requests M) /\ j <> rid /\ j <> u)).
  { intros j k. unfold R'. rewrite (In_aset id_eqb id_eqb_ok), (In_aset id_eqb id_eqb_ok). split.
    - intros [X | ([(X1 & X2) | X] & Y)]; auto. right; right. tauto.
    - intros [X | [(X1 & X2) | X]]; auto.
      + right. split; auto. congruence.
      + right. split; [right|]; tauto. }
  assert (NR' : NoDup (map fst R')).
  { unfold R'. apply aset_keys_nodup; [exact id_eqb_ok|]. apply aset_keys_nodup; [exact id_eqb_ok|]. auto. }
  pose proof (tc_nd_subs _ _ _ _ _ _ _ H2) as NS1. pose proof (tc_nd_subv _ _ _ _ _ _ _ H2) as NS2.
  destruct (subs_aremove_nd (subs M) sid NS1 NS2) as (NS3 & NS4).
  pose proof (subs_aremove_char (subs M) sid rid NS1 NS2 Hs) as CS.
  split; [|split]; auto; cbn [requests set_requests set_subs subs batches]; fold R'.
  - eapply IdsC_rekey; eauto. intros j Hj. apply in_map_iff in Hj as ([j' k] & <- & Hj). cbn [fst].
    apply CR in Hj as [(-> & _) | [(-> & _) | (Hj & _)]].
    + right. auto.
    + left. eapply in_key; eauto.
    + left. eapply in_key; eauto.
  - destruct H2 as [h1 h2 h3 h4 h5 h6 h7 h8 h9].
    assert (RID : idlt b nx rid /\ ~ In rid (qids Q) /\ off_rngs (rngs_of (batches M) Q) rid).
    { assert (K : In rid (ids_of (requests M) Q)) by (apply in_app_iff; left; eapply in_key; eauto).
      repeat split.
      - apply (ic_lt_ids _ _ _ _ _ H1); auto.
      - eapply IdsC_key_notq; eauto. eapply in_key; eauto.
      - apply (ic_id_rng _ _ _ _ _ H1); auto. }
    assert (NOREF : forall j k, In (j, k) (requests M) -> refs k = Some rid -> False).
    { intros j k Hj Hr. destruct (h5 j k rid Hj Hr) as (_ & _ & _ & e). apply e in Hi. discriminate. }
    constructor; auto.
    + intros sid' j Hs'. apply CS in Hs' as (Hs' & Hn). destruct (h3 _ _ Hs') as (u' & ch' & um' & Hu).
      exists u', ch', um'. apply CR. right; right. repeat split; auto. intros ->. apply UK in Hu. discriminate.
    + intros j u' ch' um' Hj. apply CR in Hj as [(_ & X) | [(_ & X) | (Hj & Hn1 & Hn2)]]; try discriminate.
      destruct (h4 _ _ _ _ Hj) as (sid' & Hs'). exists sid'. apply CS. auto.
    + intros j k u' Hj Hu. apply CR in Hj as [(-> & ->) | [(-> & ->) | (Hj & Hn1 & Hn2)]]; [|discriminate|].
      * cbn in Hu. inv Hu. destruct RID as (r1 & r2 & r3). repeat split; auto.
        intros k' Hk. apply CR in Hk as [(X & _) | [(_ & X) | (_ & X & _)]]; auto; congruence.
      * destruct (h5 j k u' Hj Hu) as (a & c & d & e). repeat split; auto.
        assert (u' <> u). { intros ->. apply Hn1. eapply h6; eauto. }
        intros k' Hk. apply CR in Hk as [(X & _) | [(_ & X) | (X & _)]]; auto; congruence.
    + intros i1 k1 i2 k2 u' I1 I2 R1 R2.
      apply CR in I1 as [(-> & ->) | [(-> & ->) | (I1 & N11 & N12)]]; [|discriminate|];
      apply CR in I2 as [(-> & ->) | [(-> & ->) | (I2 & N21 & N22)]]; try discriminate; auto.
      * cbn in R1. inv R1. exfalso. eapply NOREF; eauto.
      * cbn in R2. inv R2. exfalso. eapply NOREF; eauto.
      * eauto.
    + intros j Hj. apply CR in Hj as [(_ & X) | [(-> & _) | (Hj & Hn1 & Hn2)]]; [discriminate | |].
      * exists u, (KUnsubP rid). split; auto. apply CR. auto.
      * destruct (h7 j Hj) as (i2 & k2 & Hi2 & Hr). exists i2, k2. split; auto. apply CR. right; right. repeat split; auto.
        -- intros ->. apply U in Hi2. subst k2. cbn in Hr. congruence.
        -- intros ->. apply UK in Hi2. subst k2. discriminate.
    + intros x j Hj. apply CR in Hj as [(-> & _) | [(_ & X) | (Hj & _)]]; [left; auto | discriminate | right; eauto].
    + intros x [<- | Hx].
      * exists rid. apply CR. auto.
      * destruct (h9 x Hx) as (j & Hj). exists j. apply CR. right; right. repeat split; auto.
        -- intros ->. apply U in Hj. discriminate.
        -- intros ->. apply UK in Hj. discriminate.
Qed.

(* an array reply / (un)registration of a notification handler *)
Lemma InvC_batch_rm M Q nx b ua k : InvC M Q nx b ua ->
  InvC (set_batches M (aremove range_eqb k (batches M))) Q nx b ua.
Proof.
  intros (H1 & H2 & H3).
  assert (I : forall r, In r (rngs_of (aremove range_eqb k (batches M)) Q) -> In r (rngs_of (batches M) Q)).
  { unfold rngs_of. intros r. rewrite !in_app_iff. intros [Hr | Hr]; auto. left.
    apply (keys_aremove range_eqb range_eqb_ok) in Hr. tauto. }
  split; [|split]; auto; cbn [requests set_batches subs batches].
  - eapply IdsC_shrink; [exact H1|..]; auto.
    + apply (ic_nd_ids _ _ _ _ _ H1).
    + pose proof (ic_nd_rng _ _ _ _ _ H1) as N. unfold rngs_of in *. apply nodup_app in N as (N1 & N2 & N3).
      apply nodup_app. repeat split; auto.
      * apply keys_aremove_nodup; auto.
      * intros x Hx. apply (keys_aremove range_eqb range_eqb_ok) in Hx. apply N3. tauto.
    + apply (ic_qok _ _ _ _ _ H1).
  - eapply TabC_q; [| |eauto]; auto.
Qed.

Lemma InvC_nh M Q nx b ua nh : InvC M Q nx b ua -> NoDup (map fst nh) -> InvC (set_nhandlers M nh) Q nx b ua.
Proof. intros (H1 & H2 & H3) N. split; [|split]; auto. Qed.

Lemma InvC_kill nx b : InvC empty_mgr [] nx b [].
Proof.
  split; [|split]; [constructor | constructor |]; cbn; try constructor; intros; try contradiction; tauto.
Qed.

(* what the invariant says about a quiescent table *)
Lemma InvC_quiescent M Q nx b ua : InvC M Q nx b ua ->
  (forall i k, In (i, k) (requests M) -> k = KCall None) -> requests M = [] /\ subs M = [].
Proof.
  intros (H1 & H2 & H3) Hq.
  assert (E : requests M = []).
  { destruct (requests M) as [|[i k] R] eqn:E; auto. exfalso.
    assert (Hk : k = KCall None) by (apply (Hq i); left; auto). subst k.
    destruct (tc_none _ _ _ _ _ _ _ H2 i) as (i2 & k2 & Hi2 & Hr); [left; auto|].
    apply Hq in Hi2. subst. discriminate. }
  split; auto. destruct (subs M) as [|[sid j] S] eqn:E2; auto. exfalso.
  destruct (tc_subs_a _ _ _ _ _ _ _ H2 sid j) as (u & ch & um & Hu); [left; auto|].
  rewrite E in Hu. contradiction.
Qed.

(* ------------------------------------------------------------------------------------------- *)
(* Part 3: the state-level invariant                                                             *)
(* ------------------------------------------------------------------------------------------- *)

Definition qmsgs (s : st) : list f2b := queue s ++ map fst (waiting s).

Record Inv (s : st) : Prop := {
  inv_core : InvC (m s) (qmsgs s) (next_id s) (id_str s) (unacked s);
  inv_chans : NoDup (map fst (chans s));
  inv_dead : dead s = true -> m s = empty_mgr /\ queue s = [] /\ waiting s = [];
  inv_busy : busy s = true -> gated s = true
}.

(* ids in use: keys of requests, ids carried by queued messages, ids referred to by table entries *)
Definition usedC (R : list (id * kind)) (Q : list f2b) (i : id) : Prop :=
  In i (map fst R) \/ In i (qids Q) \/ exists j k, In (j, k) R /\ refs k = Some i.
Definition used (s : st) (i : id) : Prop := usedC (requests (m s)) (qmsgs s) i.

(* what a transition may add: only ids at or above the counter *)
Record Ext (s s' : st) : Prop := {
  ext_str : id_str s' = id_str s;
  ext_next : next_id s <= next_id s';
  ext_used : forall i, used s' i -> used s i \/ idge (id_str s) (next_id s) i;
  ext_q : forall i, In i (qids (qmsgs s')) -> In i (qids (qmsgs s)) \/ idge (id_str s) (next_id s) i
}.

Lemma Ext_refl s : Ext s s.
Proof. constructor; auto; lia. Qed.

Lemma idge_mono b nx nx' i : nx <= nx' -> idge b nx' i -> idge b nx i.
Proof. intros L (n & Hn & ->). exists n. split; auto; lia. Qed.

Lemma Ext_trans s1 s2 s3 : Ext s1 s2 -> Ext s2 s3 -> Ext s1 s3.
Proof.
  intros [a1 a2 a3 a4] [b1 b2 b3 b4]. constructor.
  - congruence.
  - lia.
  - intros i Hi. apply b3 in Hi as [Hi | Hi]; auto. right. rewrite a1 in Hi. eapply idge_mono; eauto.
  - intros i Hi. apply b4 in Hi as [Hi | Hi]; auto. right. rewrite a1 in Hi. eapply idge_mono; eauto.
Qed.

Definition Good (s s' : st) : Prop := Inv s' /\ Ext s s'.

Lemma Good_trans s1 s2 s3 : Good s1 s2 -> (Inv s2 -> Good s2 s3) -> Good s1 s3.
Proof. intros (I2 & E12) H. destruct (H I2) as (I3 & E23). split; auto. eapply Ext_trans; eauto. Qed.

Lemma Good_refl s : Inv s -> Good s s.
Proof. intros H. split; auto. apply Ext_refl. Qed.

Ltac st_simpl :=
  cbn [m chans next_id id_str queue qcap waiting gone gated busy unsubw subkind bufcap dead dying sendfail unacked
       upd_m upd_chans upd_next upd_queue upd_gone upd_busy upd_unsubw upd_subkind upd_dead upd_dying upd_sendfail
       upd_unacked set_chan fst snd] in *.

(* the part of the state the invariant reads is untouched *)
Record SameC (s s' : st) : Prop := {
  sc_m : m s' = m s; sc_next : next_id s' = next_id s; sc_str : id_str s' = id_str s;
  sc_queue : queue s' = queue s; sc_waiting : waiting s' = waiting s; sc_unacked : unacked s' = unacked s;
  sc_dead : dead s' = dead s; sc_gated : gated s' = gated s; sc_qcap : qcap s' = qcap s; sc_bufcap : bufcap s' = bufcap s
}.

Lemma SameC_refl s : SameC s s.
Proof. constructor; reflexivity. Qed.
Lemma SameC_trans s1 s2 s3 : SameC s1 s2 -> SameC s2 s3 -> SameC s1 s3.
Proof. intros [] []. constructor; congruence. Qed.

Lemma SameC_qmsgs s s' : SameC s s' -> qmsgs s' = qmsgs s.
Proof. intros []. unfold qmsgs. congruence. Qed.

Lemma Inv_same s s' : SameC s s' -> NoDup (map fst (chans s')) -> (busy s' = true -> gated s' = true) -> Inv s -> Inv s'.
Proof.
  intros C N B [h1 h2 h3 h4]. pose proof (SameC_qmsgs _ _ C) as Q. destruct C. constructor; auto.
  - rewrite Q. congruence.
  - intros D. rewrite sc_dead0 in D. apply h3 in D. rewrite sc_m0, sc_queue0, sc_waiting0. auto.
Qed.

Lemma Ext_same s s' : SameC s s' -> Ext s s'.
Proof.
  intros C. pose proof (SameC_qmsgs _ _ C) as Q. destruct C. constructor; unfold used; rewrite ?Q; try congruence; auto.
  - lia.
  - rewrite sc_m0. auto.
Qed.

Lemma Good_same s s' : SameC s s' -> NoDup (map fst (chans s')) -> (busy s' = true -> gated s' = true) -> Inv s -> Good s s'.
Proof. intros C N B I. split; [eapply Inv_same; eauto | apply Ext_same; auto]. Qed.

(* ---------- primitives that leave the core alone ---------- *)
Lemma set_chan_keys s h c : NoDup (map fst (chans s)) -> NoDup (map fst (chans (set_chan s h c))).
Proof. intros H. st_simpl. apply aset_keys_nodup; auto. exact Neqb_ok. Qed.

Lemma set_chan_same s h c : SameC s (set_chan s h c).
Proof. constructor; reflexivity. Qed.

Lemma drop_sink_same s h : SameC s (drop_sink s h).
Proof. unfold drop_sink. destruct (chan_of s h); [apply set_chan_same | apply SameC_refl]. Qed.

Lemma drop_sink_keys s h : NoDup (map fst (chans s)) -> NoDup (map fst (chans (drop_sink s h))).
Proof. intros H. unfold drop_sink. destruct (chan_of s h); auto. apply set_chan_keys; auto. Qed.

Lemma drop_sink_flags s h : busy (drop_sink s h) = busy s /\ dying (drop_sink s h) = dying s /\ sendfail (drop_sink s h) = sendfail s.
Proof. unfold drop_sink. destruct (chan_of s h); auto. Qed.

Lemma wire_same s raw : SameC s (fst (wire s raw)).
Proof. unfold wire. destruct (sendfail s); [|destruct (gated s)]; constructor; reflexivity. Qed.

Lemma wire_chans s raw : chans (fst (wire s raw)) = chans s.
Proof. unfold wire. destruct (sendfail s); [|destruct (gated s)]; reflexivity. Qed.

Lemma wire_busy s raw : (busy s = true -> gated s = true) -> busy (fst (wire s raw)) = true -> gated (fst (wire s raw)) = true.
Proof.
  unfold wire. destruct (sendfail s); [|destruct (gated s) eqn:G]; st_simpl; auto.
  intros H Hb. rewrite G. auto.
Qed.

Lemma wire_good s raw : Inv s -> Good s (fst (wire s raw)).
Proof.
  intros I. apply Good_same; auto.
  - apply wire_same.
  - rewrite wire_chans. apply (inv_chans _ I).
  - apply wire_busy. apply (inv_busy _ I).
Qed.

(* ---------- queueing ---------- *)
Lemma mark_admitted_fst w u : map (fun x => fst (fst x)) (mark_admitted w u) = map (fun x => fst (fst x)) u.
Proof.
  unfold mark_admitted. rewrite map_map. apply map_ext. intros [[h c] b]. destruct (N.eqb h w); reflexivity.
Qed.

Lemma enqueue_tagged_perm s msg tag : Permutation (msg :: qmsgs s) (qmsgs (enqueue_tagged s msg tag)).
Proof.
  unfold enqueue_tagged, qmsgs.
  destruct (Nat.ltb (length (queue s)) (qcap s) && match waiting s with [] => true | _ => false end).
  - assert (P : Permutation (msg :: queue s ++ map fst (waiting s)) ((queue s ++ [msg]) ++ map fst (waiting s))).
    { rewrite <- app_assoc. apply Permutation_middle. }
    destruct tag; st_simpl; exact P.
  - st_simpl. rewrite map_app. cbn [map fst]. rewrite app_assoc. apply Permutation_cons_append.
Qed.

(* everything but queue, waiting, unsubw *)
Record SameQ (s s' : st) : Prop := {
  sq_m : m s' = m s; sq_next : next_id s' = next_id s; sq_str : id_str s' = id_str s;
  sq_unacked : unacked s' = unacked s; sq_dead : dead s' = dead s; sq_gated : gated s' = gated s;
  sq_qcap : qcap s' = qcap s; sq_chans : chans s' = chans s; sq_busy : busy s' = busy s;
  sq_dying : dying s' = dying s; sq_sendfail : sendfail s' = sendfail s; sq_gone : gone s' = gone s;
  sq_subkind : subkind s' = subkind s; sq_bufcap : bufcap s' = bufcap s
}.

Lemma SameQ_refl s : SameQ s s.
Proof. constructor; reflexivity. Qed.
Lemma SameQ_trans s1 s2 s3 : SameQ s1 s2 -> SameQ s2 s3 -> SameQ s1 s3.
Proof. intros [] []. constructor; congruence. Qed.

Lemma enqueue_tagged_sameq s msg tag : SameQ s (enqueue_tagged s msg tag).
Proof.
  unfold enqueue_tagged.
  destruct (Nat.ltb (length (queue s)) (qcap s) && match waiting s with [] => true | _ => false end);
    [destruct tag|]; constructor; reflexivity.
Qed.

Lemma try_enqueue_sameq s msg : SameQ s (try_enqueue s msg).
Proof. unfold try_enqueue. destruct (Nat.ltb (length (queue s)) (qcap s)); constructor; reflexivity. Qed.

Lemma admit_waiting_sameq f : forall s, SameQ s (admit_waiting f s).
Proof.
  induction f as [|f IH]; intros s; cbn [admit_waiting]; [apply SameQ_refl|].
  destruct (waiting s) as [|[msg tag] w]; [apply SameQ_refl|].
  destruct (Nat.ltb (length (queue s)) (qcap s)); [|apply SameQ_refl].
  eapply SameQ_trans; [|apply IH]. destruct tag; constructor; reflexivity.
Qed.

Lemma admit_waiting_qmsgs f : forall s, qmsgs (admit_waiting f s) = qmsgs s.
Proof.
  induction f as [|f IH]; intros s; cbn [admit_waiting]; auto.
  destruct (waiting s) as [|[msg tag] w] eqn:W; auto.
  destruct (Nat.ltb (length (queue s)) (qcap s)); auto.
  rewrite IH. unfold qmsgs. rewrite W. destruct tag; st_simpl; rewrite <- app_assoc; reflexivity.
Qed.

(* the queued multiset changes, nothing else the invariant reads does; dead states do not queue *)
Lemma Inv_requeue s s' : SameQ s s' -> Inv s -> dead s = false ->
  InvC (m s) (qmsgs s') (next_id s) (id_str s) (unacked s) -> Inv s'.
Proof.
  intros [] [h1 h2 h3 h4] D C. constructor.
  - congruence.
  - congruence.
  - intros X. congruence.
  - intros X. rewrite sq_gated0. apply h4. congruence.
Qed.

Lemma Ext_requeue s s' : SameQ s s' -> (forall i, In i (qids (qmsgs s')) -> In i (qids (qmsgs s))) -> Ext s s'.
Proof.
  intros [] I. constructor; auto; try lia.
  intros i. unfold used, usedC. rewrite sq_m0. intros [H | [H | H]]; auto.
Qed.

Lemma admit_waiting_good f s : Inv s -> Good s (admit_waiting f s).
Proof.
  intros I. pose proof (admit_waiting_sameq f s) as Q. pose proof (admit_waiting_qmsgs f s) as E. split.
  - destruct Q, I as [h1 h2 h3 h4]. constructor; try congruence; [|rewrite sq_busy0, sq_gated0; auto].
    intros D. rewrite sq_dead0 in D. destruct (h3 D) as (a & b & c).
    assert (X : admit_waiting f s = s).
    { destruct f; cbn [admit_waiting]; auto. rewrite c. auto. }
    rewrite X. auto.
  - apply Ext_requeue; auto. rewrite E. auto.
Qed.

Lemma enqueue_plain_good s msg tag : Inv s -> dead s = false -> msg_ids msg = [] -> msg_ranges msg = [] -> msg_ok msg ->
  Good s (enqueue_tagged s msg tag).
Proof.
  intros I D E1 E2 K. pose proof (enqueue_tagged_sameq s msg tag) as Q. pose proof (enqueue_tagged_perm s msg tag) as P. split.
  - eapply Inv_requeue; eauto. eapply InvC_perm; [exact P|]. apply InvC_enq_plain; auto. apply (inv_core _ I).
  - apply Ext_requeue; auto. intros i Hi. eapply Permutation_in in Hi; [|apply qids_perm; symmetry; exact P].
    unfold qids in Hi. cbn [flat_map] in Hi. rewrite E1 in Hi. exact Hi.
Qed.

Lemma try_enqueue_plain_good s msg : Inv s -> dead s = false -> msg_ids msg = [] -> msg_ranges msg = [] -> msg_ok msg ->
  Good s (try_enqueue s msg).
Proof.
  intros I D E1 E2 K. pose proof (try_enqueue_sameq s msg) as Q.
  assert (P : qmsgs (try_enqueue s msg) = qmsgs s \/ Permutation (msg :: qmsgs s) (qmsgs (try_enqueue s msg))).
  { unfold try_enqueue, qmsgs. destruct (Nat.ltb (length (queue s)) (qcap s)); auto. right. st_simpl.
    rewrite <- app_assoc. apply Permutation_middle. }
  split.
  - eapply Inv_requeue; eauto. destruct P as [-> | P]; [apply (inv_core _ I)|].
    eapply InvC_perm; [exact P|]. apply InvC_enq_plain; auto. apply (inv_core _ I).
  - apply Ext_requeue; auto. intros i Hi. destruct P as [P | P]; [rewrite P in Hi; auto|].
    eapply Permutation_in in Hi; [|apply qids_perm; symmetry; exact P].
    unfold qids in Hi. cbn [flat_map] in Hi. rewrite E1 in Hi. exact Hi.
Qed.

(* ---------- unsubscribe() futures ---------- *)
Lemma fold_drop_rx_same (l : list (handle * handle * bool)) : forall s,
  let s' := fold_left (fun s' x => match x with (_, c, _) =>
              match chan_of s' c with Some ch => set_chan s' c (chan_drop_rx ch) | None => s' end end) l s in
  SameC s s' /\ (NoDup (map fst (chans s)) -> NoDup (map fst (chans s'))) /\ busy s' = busy s /\ dying s' = dying s
  /\ sendfail s' = sendfail s /\ unsubw s' = unsubw s /\ gone s' = gone s /\ subkind s' = subkind s.
Proof.
  induction l as [|[[w c] a] l IH]; intros s; cbn [fold_left].
  - split; [apply SameC_refl|]. repeat split; auto.
  - destruct (chan_of s c) as [ch|]; [|apply IH].
    destruct (IH (set_chan s c (chan_drop_rx ch))) as (A & B & C & D & E & F & G & H). cbv zeta in *.
    split; [eapply SameC_trans; [apply set_chan_same | exact A]|].
    split; [intros N; apply B; apply set_chan_keys; auto|].
    repeat split; auto.
Qed.

Lemma finish_unsubs_good s : Inv s -> Good s (fst (finish_unsubs s)).
Proof.
  intros I. unfold finish_unsubs. cbn [fst].
  destruct (fold_drop_rx_same (filter (unsub_done s) (unsubw s)) s) as (A & B & C & D & _). cbv zeta in *.
  set (s1 := fold_left _ _ s) in *.
  apply Good_same; auto.
  - destruct A. constructor; st_simpl; auto.
  - st_simpl. apply B. apply (inv_chans _ I).
  - st_simpl. rewrite C. destruct A. rewrite sc_gated0. apply (inv_busy _ I).
Qed.

Lemma poll_next_same s sh : SameC s (fst (poll_next s sh)).
Proof.
  unfold poll_next. destruct (chan_of s sh) as [c|]; [|apply SameC_refl].
  destruct (negb (c_rx c)); [apply SameC_refl|]. destruct (c_buf c); [destruct (c_tx c); apply SameC_refl|].
  apply set_chan_same.
Qed.

Lemma poll_next_good s sh : Inv s -> Good s (fst (poll_next s sh)).
Proof.
  intros I. apply Good_same; auto; [apply poll_next_same | |];
    unfold poll_next; destruct (chan_of s sh) as [c|]; try apply I;
    destruct (negb (c_rx c)); try apply I; destruct (c_buf c); try (destruct (c_tx c); apply I);
    try (apply set_chan_keys; apply I); st_simpl; apply I.
Qed.

(* ---------- the send task ---------- *)
Lemma usedC_mono R R' Q Q' i :
  (forall j k, In (j, k) R' -> In (j, k) R) -> (forall x, In x (qids Q') -> In x (qids Q)) ->
  usedC R' Q' i -> usedC R Q i.
Proof.
  intros A B [H | [H | (j & k & H & E)]].
  - left. apply in_map_iff in H as ([j k] & <- & H). apply A in H. eapply in_key; eauto.
  - right; left; auto.
  - right; right. exists j, k. auto.
Qed.

Lemma usedC_sub R R' Q Q' :
  (forall j k, In (j, k) R' -> usedC R Q j /\ forall u, refs k = Some u -> usedC R Q u) ->
  (forall x, In x (qids Q') -> usedC R Q x) ->
  forall i, usedC R' Q' i -> usedC R Q i.
Proof.
  intros A B i [H | [H | (j & k & H & E)]].
  - apply in_map_iff in H as ([j k] & <- & H). apply A in H. tauto.
  - auto.
  - apply A in H as (_ & H). auto.
Qed.

Definition HF (s : st) (msg : f2b) (s' : st) : Prop :=
  Inv s' /\ dead s' = false /\ id_str s' = id_str s /\ next_id s' = next_id s /\ qmsgs s' = qmsgs s /\
  (forall i, used s' i -> usedC (requests (m s)) (msg :: qmsgs s) i).

Lemma HF_same s msg s1 s2 : SameC s1 s2 -> NoDup (map fst (chans s2)) -> (busy s2 = true -> gated s2 = true) ->
  HF s msg s1 -> HF s msg s2.
Proof.
  intros C N B (I & D & E1 & E2 & E3 & U). pose proof (SameC_qmsgs _ _ C) as Q. pose proof C as [].
  split; [eapply Inv_same; eauto|]. repeat split; try congruence.
  intros i. unfold used. rewrite Q, sc_m0. apply U.
Qed.

Lemma HF_wire s msg s1 raw : HF s msg s1 -> HF s msg (fst (wire s1 raw)).
Proof.
  intros H. pose proof H as (I & _). eapply HF_same; eauto.
  - apply wire_same.
  - rewrite wire_chans. apply I.
  - apply wire_busy. apply I.
Qed.

Lemma HF_build s msg s' :
  dead s = false -> dead s' = false -> id_str s' = id_str s -> next_id s' = next_id s ->
  queue s' = queue s -> waiting s' = waiting s ->
  NoDup (map fst (chans s')) -> (busy s' = true -> gated s' = true) ->
  InvC (m s') (qmsgs s) (next_id s) (id_str s) (unacked s') ->
  (forall i, usedC (requests (m s')) (qmsgs s) i -> usedC (requests (m s)) (msg :: qmsgs s) i) ->
  HF s msg s'.
Proof.
  intros D D' E1 E2 E3 E4 N B C U.
  assert (Q : qmsgs s' = qmsgs s) by (unfold qmsgs; congruence).
  split; [|repeat split; auto].
  - constructor; auto; [|congruence]. rewrite Q, E1, E2. auto.
  - unfold used. rewrite Q. auto.
Qed.

Lemma usedC_tail R x Q i : usedC R Q i -> usedC R (x :: Q) i.
Proof.
  intros [H | [H | H]]; [left | right; left | right; right]; auto.
  unfold qids. cbn [flat_map]. apply in_app_iff; auto.
Qed.

Lemma handle_front_good s msg :
  dead s = false -> NoDup (map fst (chans s)) -> (busy s = true -> gated s = true) ->
  InvC (m s) (msg :: qmsgs s) (next_id s) (id_str s) (unacked s) ->
  HF s msg (fst (handle_front s msg)).
Proof.
  intros D N B C.
  assert (SELF : HF s msg s).
  { apply HF_build; auto. - eapply InvC_tail; eauto. - intros i. apply usedC_tail. }
  destruct msg as [lo hi h raw | raw | i w raw | si ui um h raw | me h | me | sid]; cbn [handle_front].
  - (* MBatch *)
    apply InvC_front_batch in C as (F & C).
    apply (ahas_false range_eqb range_eqb_ok) in F. rewrite F.
    apply HF_wire. apply HF_build; st_simpl; auto; try (intros i; apply usedC_tail).
  - (* MNotif *) apply HF_wire; auto.
  - (* MRequest *)
    apply InvC_front_req in C as (F & C).
    pose proof F as F'. apply (ahas_false id_eqb id_eqb_ok) in F'. rewrite F'.
    apply HF_wire. apply HF_build; st_simpl; auto. cbn [requests set_requests].
    apply usedC_sub.
    + intros j k [E | Hj].
      * inv E. split; [|discriminate]. right; left. unfold qids. cbn. auto.
      * split; [left; eapply in_key; eauto|]. intros u Hu. right; right. eauto.
    + intros x Hx. right; left. unfold qids. cbn [flat_map]. apply in_app_iff; auto.
  - (* MSubscribe *)
    apply InvC_front_sub in C as (F1 & F2 & F3 & C).
    pose proof F1 as F1'. apply (ahas_false id_eqb id_eqb_ok) in F1'.
    pose proof F2 as F2'. apply (ahas_false id_eqb id_eqb_ok) in F2'.
    rewrite F1', F2', (eqb_neq id_eqb id_eqb_ok _ _ F3). cbn [negb andb].
    apply HF_wire. apply HF_build; st_simpl; auto. cbn [requests set_requests].
    apply usedC_sub.
    + intros j k [E | [E | Hj]].
      * inv E. split; [|discriminate]. right; left. unfold qids. cbn. auto.
      * inv E. split.
        -- right; left. unfold qids. cbn. auto.
        -- intros u Hu. cbn in Hu. inv Hu. right; left. unfold qids. cbn. auto.
      * split; [left; eapply in_key; eauto|]. intros u Hu. right; right. eauto.
    + intros x Hx. right; left. unfold qids. cbn [flat_map]. apply in_app_iff; auto.
  - (* MRegister *)
    apply InvC_tail in C.
    destruct (ahas bytes_eqb me (nhandlers (m s))) eqn:A; auto.
    apply (ahas_false bytes_eqb bytes_eqb_eq) in A.
    assert (C' : InvC (set_nhandlers (m s) ((me, h) :: nhandlers (m s))) (qmsgs s) (next_id s) (id_str s) (unacked s)).
    { apply InvC_nh; auto. cbn. constructor; auto. destruct C as (_ & _ & C). auto. }
    destruct (alive s h); cbn [fst]; apply HF_build; st_simpl; auto;
      try (repeat apply aset_keys_nodup; auto; exact Neqb_ok);
      intros i; apply usedC_tail.
  - (* MUnregister *)
    apply InvC_tail in C.
    destruct (alookup bytes_eqb me (nhandlers (m s))) as [ch|] eqn:A; auto. cbn [fst].
    set (s1 := upd_m s (set_nhandlers (m s) (aremove bytes_eqb me (nhandlers (m s))))).
    eapply HF_same; [apply drop_sink_same | apply drop_sink_keys; exact N | |].
    + destruct (drop_sink_flags s1 ch) as (-> & _). destruct (drop_sink_same s1 ch). rewrite sc_gated0. exact B.
    + apply HF_build; unfold s1; st_simpl; auto; try (intros i; apply usedC_tail).
      apply InvC_nh; auto. apply keys_aremove_nodup. destruct C as (_ & _ & C). auto.
  - (* MSubClosed *)
    apply InvC_tail in C. unfold do_unsubscribe.
    destruct (alookup subid_eqb sid (subs (m s))) as [rid|] eqn:A; auto.
    unfold req_lookup. destruct (alookup id_eqb rid (requests (m s))) as [[w|u w um|u ch um|j]|] eqn:A2; auto.
    apply (alookup_In subid_eqb subid_eqb_ok) in A. apply (alookup_In id_eqb id_eqb_ok) in A2.
    apply HF_wire.
    set (m1 := set_subs _ _).
    destruct (drop_sink_same (upd_m s m1) ch). destruct (drop_sink_flags (upd_m s m1) ch) as (F1 & F2 & F3).
    apply HF_build; st_simpl; auto; try congruence.
    + apply (drop_sink_keys (upd_m s m1) ch). exact N.
    + rewrite F1, sc_gated0. exact B.
    + rewrite sc_unacked0, sc_m0. st_simpl. apply InvC_unsub with (ch := ch) (um := um); auto.
    + rewrite sc_m0. st_simpl. unfold m1. cbn [requests set_subs set_requests].
      intros i Hi. apply usedC_tail. revert i Hi. apply usedC_sub; auto.
      * intros j k Hj. apply (In_aset id_eqb id_eqb_ok) in Hj as [(-> & ->) | (Hj & _)].
        -- split.
           ++ right; right. exists rid, (KSub u ch um). auto.
           ++ intros x Hx. cbn in Hx. inv Hx. left. eapply in_key; eauto.
        -- apply (In_aset id_eqb id_eqb_ok) in Hj as [(-> & ->) | (Hj & _)].
           ++ split; [left; eapply in_key; eauto | discriminate].
           ++ split; [left; eapply in_key; eauto|]. intros x Hx. right; right. eauto.
      * intros x Hx. right; left; auto.
Qed.

Lemma HF_front s0 msg q s' : Inv s0 -> queue s0 = msg :: q -> dead s0 = false ->
  HF (upd_queue s0 q (waiting s0)) msg s' -> Good s0 s' /\ dead s' = false.
Proof.
  intros I Q D (I' & D' & E1 & E2 & E3 & U). st_simpl.
  assert (QM : qmsgs s0 = msg :: qmsgs (upd_queue s0 q (waiting s0))).
  { unfold qmsgs. st_simpl. rewrite Q. reflexivity. }
  split; auto. split; auto. constructor; auto.
  - lia.
  - intros i Hi. left. unfold used. rewrite QM. apply U. auto.
  - intros i Hi. left. rewrite E3 in Hi. rewrite QM. unfold qids. cbn [flat_map]. apply in_app_iff; auto.
Qed.

Lemma drain_good f : forall s, Inv s -> Good s (fst (drain f s)).
Proof.
  induction f as [|f IH]; intros s I; cbn [drain fst]; [apply Good_refl; auto|].
  pose proof (admit_waiting_good (length (waiting s)) s I) as G0.
  set (s0 := admit_waiting (length (waiting s)) s) in *.
  destruct (busy s0 || dead s0 || match dying s0 with Some _ => true | None => false end) eqn:F; [exact G0|].
  destruct (queue s0) as [|msg q] eqn:Q; [exact G0|].
  apply orb_false_iff in F as (F & _). apply orb_false_iff in F as (_ & D).
  eapply Good_trans; [exact G0|]. intros I0.
  pose proof (handle_front_good (upd_queue s0 q (waiting s0)) msg) as H. st_simpl.
  assert (H' : HF (upd_queue s0 q (waiting s0)) msg (fst (handle_front (upd_queue s0 q (waiting s0)) msg))).
  { apply H; auto; try apply I0. pose proof (inv_core _ I0) as C. unfold qmsgs in *. st_simpl. rewrite Q in C. exact C. }
  apply (HF_front s0 msg q _ I0 Q D) in H' as (G1 & D1).
  destruct (handle_front (upd_queue s0 q (waiting s0)) msg) as [s1 o1]. cbn [fst] in *.
  specialize (IH s1). destruct (drain f s1) as [s2 o2]. cbn [fst] in *.
  eapply Good_trans; [exact G1|]. auto.
Qed.

(* ---------- the read task ---------- *)
Definition rres_st (r : rres) : st := match r with ROk s _ => s | RFatal s _ _ => s end.
Definition rres_out (r : rres) : list out := match r with ROk _ o => o | RFatal _ o _ => o end.

Definition GoodL (s s' : st) : Prop := Good s s' /\ dead s' = false.

Lemma GoodL_refl s : Inv s -> dead s = false -> GoodL s s.
Proof. intros I D. split; auto. apply Good_refl; auto. Qed.

Lemma GoodL_trans s1 s2 s3 : GoodL s1 s2 -> (Inv s2 -> dead s2 = false -> GoodL s2 s3) -> GoodL s1 s3.
Proof.
  intros (G & D) H. destruct (H (proj1 G) D) as (G' & D'). split; auto.
  eapply Good_trans; eauto.
Qed.

Lemma GoodL_build s s' :
  Inv s -> dead s = false -> dead s' = false -> id_str s' = id_str s -> next_id s' = next_id s ->
  queue s' = queue s -> waiting s' = waiting s ->
  NoDup (map fst (chans s')) -> (busy s' = true -> gated s' = true) ->
  InvC (m s') (qmsgs s) (next_id s) (id_str s) (unacked s') ->
  (forall i, usedC (requests (m s')) (qmsgs s) i -> used s i) ->
  GoodL s s'.
Proof.
  intros I D D' E1 E2 E3 E4 N B C U.
  assert (Q : qmsgs s' = qmsgs s) by (unfold qmsgs; congruence).
  split; auto. split.
  - constructor; auto; [|congruence]. rewrite Q, E1, E2. auto.
  - constructor; auto; try lia.
    + intros i Hi. left. apply U. unfold used in Hi. rewrite Q in Hi. exact Hi.
    + rewrite Q. auto.
Qed.

Lemma GoodL_same s s' : SameC s s' -> NoDup (map fst (chans s')) -> (busy s' = true -> gated s' = true) ->
  Inv s -> dead s = false -> GoodL s s'.
Proof. intros C N B I D. split; [apply Good_same; auto|]. destruct C. congruence. Qed.

Lemma release_sub u M x : In x (requests (release_reserved u M)) -> In x (requests M).
Proof.
  unfold release_reserved. destruct (req_lookup u M) as [[[w|]| | |]|]; auto. cbn. destruct x as [j k].
  intros H. apply (In_aremove id_eqb id_eqb_ok) in H. tauto.
Qed.

Lemma release_frame u M : subs (release_reserved u M) = subs M /\ batches (release_reserved u M) = batches M /\
  nhandlers (release_reserved u M) = nhandlers M.
Proof. unfold release_reserved. destruct (req_lookup u M) as [[[w|]| | |]|]; auto. Qed.

Lemma forward_goodL s sid : Inv s -> dead s = false -> GoodL s (forward s (MSubClosed sid)).
Proof.
  intros I D. split.
  - apply enqueue_plain_good; auto. exact Logic.I.
  - destruct (enqueue_tagged_sameq s (MSubClosed sid) None). unfold forward, enqueue. congruence.
Qed.

Lemma set_chan_goodL s h c : Inv s -> dead s = false -> GoodL s (set_chan s h c).
Proof.
  intros I D. apply GoodL_same; auto.
  - apply set_chan_same.
  - apply set_chan_keys. apply I.
  - apply I.
Qed.

Lemma drop_sink_goodL s h : Inv s -> dead s = false -> GoodL s (drop_sink s h).
Proof.
  intros I D. apply GoodL_same; auto.
  - apply drop_sink_same.
  - apply drop_sink_keys. apply I.
  - destruct (drop_sink_flags s h) as (-> & _). destruct (drop_sink_same s h). rewrite sc_gated0. apply I.
Qed.

Lemma single_response_good s r : Inv s -> dead s = false -> GoodL s (rres_st (single_response s r)).
Proof.
  intros I D. unfold single_response, req_lookup.
  pose proof (inv_core _ I) as C. pose proof (inv_chans _ I) as N. pose proof (inv_busy _ I) as B.
  destruct (alookup id_eqb (rs_id r) (requests (m s))) as [[w|u w um|u ch um|sub]|] eqn:A;
    try (apply GoodL_refl; auto; fail); apply (alookup_In id_eqb id_eqb_ok) in A.
  - (* KCall *)
    cbn [rres_st]. apply GoodL_build; st_simpl; auto.
    + eapply InvC_resp_call; eauto.
    + intros i. apply usedC_mono; auto. cbn. intros j k Hj. apply (In_aremove id_eqb id_eqb_ok) in Hj. tauto.
  - (* KPendSub *)
    set (m1 := set_requests (m s) (aremove id_eqb (rs_id r) (requests (m s)))).
    assert (ERR : GoodL s (upd_m s (release_reserved u m1))).
    { apply GoodL_build; st_simpl; auto.
      - eapply InvC_resp_pend_err; eauto.
      - intros i. apply usedC_mono; auto. intros j k Hj. apply release_sub in Hj. cbn in Hj.
        apply (In_aremove id_eqb id_eqb_ok) in Hj. tauto. }
    destruct (rs_payload r) as [raw|e]; [|exact ERR].
    destruct (parse_subid raw) as [sid|]; [|exact ERR].
    destruct (ahas subid_eqb sid (subs m1)) eqn:AH; [exact ERR|].
    apply (ahas_false subid_eqb subid_eqb_ok) in AH. cbn [m1 subs set_requests] in AH.
    set (m2 := set_subs _ _).
    assert (OK : GoodL s (upd_m s m2)).
    { change m2 with (set_subs (set_requests (m s) ((rs_id r, KSub u w um) :: aremove id_eqb (rs_id r) (requests (m s))))
                               ((sid, rs_id r) :: subs (m s))).
      apply GoodL_build; st_simpl; auto.
      - eapply InvC_resp_pend_ok; eauto.
      - cbn [requests subs set_requests set_subs]. apply usedC_sub.
        + intros j k [E | Hj].
          * inv E. split; [left; eapply in_key; eauto|]. intros x Hx. cbn in Hx. inv Hx.
            right; right. exists (rs_id r), (KPendSub x w um). auto.
          * apply (In_aremove id_eqb id_eqb_ok) in Hj as (Hj & _).
            split; [left; eapply in_key; eauto|]. intros x Hx. right; right. eauto.
        + intros x Hx. right; left; auto. }
    destruct (alive s w); cbn [rres_st].
    + eapply GoodL_trans; [exact OK|]. intros I1 D1.
      eapply GoodL_trans; [apply (set_chan_goodL _ w (new_chan (bufcap s))); auto|]. intros I2 D2.
      apply GoodL_same; auto; try apply I2. constructor; reflexivity.
    + eapply GoodL_trans; [exact OK|]. intros I1 D1.
      eapply GoodL_trans; [apply (set_chan_goodL _ w (new_chan (bufcap s))); auto|]. intros I2 D2.
      eapply GoodL_trans; [apply (set_chan_goodL _ w (chan_drop_rx (new_chan (bufcap s)))); auto|]. intros I3 D3.
      apply forward_goodL; auto.
  - (* KUnsubP *)
    cbn [rres_st]. apply GoodL_build; st_simpl; auto.
    + exact (InvC_resp_unsubp _ _ _ _ _ _ sub C A).
    + intros i. apply usedC_mono; auto. cbn [requests set_requests]. intros j k Hj.
      destruct (alookup id_eqb sub (aremove id_eqb (rs_id r) (requests (m s)))) as [[[w|]| | |]|];
        repeat (apply (In_aremove id_eqb id_eqb_ok) in Hj as (Hj & _)); auto.
Qed.

Lemma sub_deliver_good s sid p : Inv s -> dead s = false -> GoodL s (sub_deliver s sid p).
Proof.
  intros I D. unfold sub_deliver.
  destruct (alookup subid_eqb sid (subs (m s))) as [rid|]; [|apply GoodL_refl; auto].
  destruct (req_lookup rid (m s)) as [[w|u w um|u ch um|sub]|]; try (apply GoodL_refl; auto; fail).
  destruct (chan_of s ch) as [c|]; [|apply GoodL_refl; auto].
  destruct (chan_send c p) as [c' res].
  destruct res; try apply set_chan_goodL; auto;
    (eapply GoodL_trans; [apply set_chan_goodL; auto|]; intros I1 D1; apply forward_goodL; auto).
Qed.

Lemma sub_close_good s sid : Inv s -> dead s = false -> GoodL s (sub_close s sid).
Proof.
  intros I D. unfold sub_close, req_lookup.
  pose proof (inv_core _ I) as C. pose proof (inv_chans _ I) as N. pose proof (inv_busy _ I) as B.
  destruct (alookup subid_eqb sid (subs (m s))) as [rid|] eqn:A1; [|apply GoodL_refl; auto].
  destruct (alookup id_eqb rid (requests (m s))) as [[w|u w um|u ch um|sub]|] eqn:A2; try (apply GoodL_refl; auto; fail).
  apply (alookup_In subid_eqb subid_eqb_ok) in A1. apply (alookup_In id_eqb id_eqb_ok) in A2.
  set (m1 := set_subs _ _).
  eapply GoodL_trans; [|intros I1 D1; apply drop_sink_goodL; auto].
  apply GoodL_build; st_simpl; auto.
  - eapply InvC_close; eauto.
  - intros i. apply usedC_mono; auto. intros j k Hj. apply release_sub in Hj. cbn in Hj.
    apply (In_aremove id_eqb id_eqb_ok) in Hj. tauto.
Qed.

Lemma notif_deliver_good s me p : Inv s -> dead s = false -> GoodL s (notif_deliver s me p).
Proof.
  intros I D. unfold notif_deliver.
  destruct (alookup bytes_eqb me (nhandlers (m s))) as [ch|]; [|apply GoodL_refl; auto].
  destruct (chan_of s ch) as [c|]; [|apply GoodL_refl; auto].
  destruct (chan_send c _) as [c' res].
  assert (X : forall s1, Inv s1 -> dead s1 = false ->
              GoodL s1 (drop_sink (upd_m s1 (set_nhandlers (m s1) (aremove bytes_eqb me (nhandlers (m s1))))) ch)).
  { intros s1 I1 D1. eapply GoodL_trans; [|intros I2 D2; apply drop_sink_goodL; auto].
    apply GoodL_build; st_simpl; auto; try apply I1.
    apply InvC_nh; [apply I1|]. apply keys_aremove_nodup. destruct (inv_core _ I1) as (_ & _ & H). exact H. }
  destruct res; try apply set_chan_goodL; auto;
    (eapply GoodL_trans; [apply set_chan_goodL; auto|]; intros I1 D1; apply X; auto).
Qed.

Lemma array_loop_good ms : forall s acc rng got, Inv s -> dead s = false ->
  match array_loop s ms acc rng got with
  | inl (s', _, _, _) => GoodL s s'
  | inr (s', _) => GoodL s s'
  end.
Proof.
  induction ms as [|x ms IH]; intros s acc rng got I D; cbn [array_loop]; [apply GoodL_refl; auto|].
  destruct x as [r|me sid p|me sid p|me p|].
  - destruct (id_as_number (rs_id r)); [apply IH; auto | apply GoodL_refl; auto].
  - pose proof (sub_deliver_good s sid p I D) as G. pose proof G as ((I1 & _) & D1).
    specialize (IH (sub_deliver s sid p) acc rng true I1 D1).
    destruct (array_loop (sub_deliver s sid p) ms acc rng true) as [[[[s' a] b] c]|[s' f]];
      (eapply GoodL_trans; [exact G | intros; exact IH]).
  - pose proof (sub_close_good s sid I D) as G. pose proof G as ((I1 & _) & D1).
    specialize (IH (sub_close s sid) acc rng true I1 D1).
    destruct (array_loop (sub_close s sid) ms acc rng true) as [[[[s' a] b] c]|[s' f]];
      (eapply GoodL_trans; [exact G | intros; exact IH]).
  - pose proof (notif_deliver_good s me p I D) as G. pose proof G as ((I1 & _) & D1).
    specialize (IH (notif_deliver s me p) acc rng true I1 D1).
    destruct (array_loop (notif_deliver s me p) ms acc rng true) as [[[[s' a] b] c]|[s' f]];
      (eapply GoodL_trans; [exact G | intros; exact IH]).
  - apply GoodL_refl; auto.
Qed.

Lemma batch_response_good s rs lo hi : Inv s -> dead s = false -> GoodL s (rres_st (batch_response s rs lo hi)).
Proof.
  intros I D. unfold batch_response.
  destruct (alookup range_eqb (lo, hi) (batches (m s))); [|apply GoodL_refl; auto].
  cbn [rres_st]. apply GoodL_build; st_simpl; auto; try apply I.
  apply InvC_batch_rm. apply I.
Qed.

Lemma handle_back_good s fr : Inv s -> dead s = false -> GoodL s (rres_st (handle_back s fr)).
Proof.
  intros I D. destruct fr as [x|ms|]; rewrite ?handle_back_now; cbn [handle_back_ref].
  - destruct x as [r|me sid p|me sid p|me p|]; cbn [handle_elem_single_ref rres_st].
    + apply single_response_good; auto.
    + apply sub_deliver_good; auto.
    + apply sub_close_good; auto.
    + apply notif_deliver_good; auto.
    + apply GoodL_refl; auto.
  - pose proof (array_loop_good ms s [] None false I D) as G.
    destruct (array_loop s ms [] None false) as [[[[s' rs] [[lo hi]|]] got]|[s' f]]; auto.
    + destruct (hi =? u64_max); auto.
      eapply GoodL_trans; [exact G|]. intros I1 D1. apply batch_response_good; auto.
    + destruct got; auto.
  - apply GoodL_refl; auto.
Qed.

(* ---------- shutdown ---------- *)
Lemma kill_good s f : Inv s -> Good s (fst (kill s f)).
Proof.
  intros I. unfold kill. cbn [fst]. split.
  - constructor; st_simpl.
    + apply InvC_kill.
    + rewrite map_map. cbn [fst]. apply I.
    + auto.
    + apply I.
  - constructor; st_simpl; auto; try lia.
    + intros i [H | [H | (j & k & H & _)]]; cbn in H; contradiction.
    + cbn. tauto.
Qed.

Lemma try_kill_good s : Inv s -> Good s (fst (try_kill s)).
Proof.
  intros I. unfold try_kill. destruct (dying s); [|apply Good_refl; auto].
  destruct (busy s || dead s); [apply Good_refl; auto|]. apply kill_good; auto.
Qed.

(* ---------- front-end events ---------- *)
Lemma alloc_enq_good s nx' msg tag : Inv s -> dead s = false -> next_id s <= nx' ->
  InvC (m s) (msg :: qmsgs s) nx' (id_str s) (unacked s) ->
  (forall i, In i (msg_ids msg) -> idge (id_str s) (next_id s) i) ->
  Good s (enqueue_tagged (upd_next s nx') msg tag).
Proof.
  intros I D L C G. set (s1 := upd_next s nx').
  pose proof (enqueue_tagged_sameq s1 msg tag) as Q. pose proof (enqueue_tagged_perm s1 msg tag) as P.
  assert (QM : qmsgs s1 = qmsgs s) by reflexivity. rewrite QM in P.
  destruct Q; unfold s1 in *; st_simpl. split.
  - constructor.
    + rewrite sq_m0, sq_next0, sq_str0, sq_unacked0. eapply InvC_perm; [exact P|]. exact C.
    + rewrite sq_chans0. apply I.
    + intros X. congruence.
    + rewrite sq_busy0, sq_gated0. apply I.
  - constructor; auto; try lia.
    + intros i. unfold used, usedC. rewrite sq_m0. intros [H | [H | H]]; auto.
      eapply Permutation_in in H; [|apply qids_perm; symmetry; exact P].
      unfold qids in H. cbn [flat_map] in H. apply in_app_iff in H as [H | H]; auto.
    + intros i H. eapply Permutation_in in H; [|apply qids_perm; symmetry; exact P].
      unfold qids in H. cbn [flat_map] in H. apply in_app_iff in H as [H | H]; auto.
Qed.

Lemma map_fst_filter {A B} (p : A -> bool) (l : list (A * B)) :
  map fst (filter (fun x => p (fst x)) l) = filter p (map fst l).
Proof. induction l as [|[a b] l IH]; cbn; auto. destruct (p a); cbn; congruence. Qed.

Lemma close_msg_plain s sh msg : close_msg_of s sh = Some msg -> msg_ids msg = [] /\ msg_ranges msg = [] /\ msg_ok msg.
Proof.
  unfold close_msg_of. destruct (alookup N.eqb sh (subkind s)) as [[sid|me]|]; intros [= <-]; cbn; auto.
Qed.

Lemma apply_good s e : Inv s -> Good s (fst (fst (apply s e))).
Proof.
  intros I. unfold apply. destruct (dead s) eqn:D.
  - (* dead *)
    assert (X : forall sh c, Good s (upd_subkind (set_chan s sh (chan_drop_rx c)) (aremove N.eqb sh (subkind s)))).
    { intros sh c. apply Good_same; auto; st_simpl; try apply I.
      - constructor; reflexivity.
      - apply aset_keys_nodup; [exact Neqb_ok | apply I]. }
    destruct e; cbn [fst]; try (apply Good_refl; auto; fail).
    + pose proof (poll_next_good s sh I) as G. destruct (poll_next s sh); exact G.
    + destruct (close_msg_of s sh); [|apply Good_refl; auto]. destruct (chan_of s sh); [|apply Good_refl; auto]. apply X.
    + destruct (close_msg_of s sh); [|apply Good_refl; auto]. destruct (chan_of s sh); [|apply Good_refl; auto]. apply X.
  - pose proof (inv_core _ I) as C.
    destruct e; cbn [fst].
    + (* FCall *) unfold enqueue. apply alloc_enq_good; auto; [lia | apply InvC_enq_req; auto |].
      cbn. intros i [<- | []]. exists (next_id s). split; [lia | reflexivity].
    + (* FNotify *) unfold enqueue. apply alloc_enq_good; auto; [lia | | cbn; tauto].
      apply InvC_enq_plain; cbn; auto. eapply InvC_mono; [|exact C]. lia.
    + (* FBatch *) destruct entries as [|e0 es]; [apply Good_refl; auto|].
      unfold enqueue. apply alloc_enq_good; auto; [lia | | cbn; tauto].
      apply InvC_enq_batch; auto. cbn [length]. lia.
    + (* FSubscribe *) destruct (bytes_eqb sub unsub); [apply Good_refl; auto|]. cbn [fst].
      unfold enqueue. apply alloc_enq_good; auto; [lia | apply InvC_enq_sub; auto |].
      cbn. intros i [<- | [<- | []]].
      * exists (next_id s). split; [lia | reflexivity].
      * exists (next_id s + 1). split; [lia | reflexivity].
    + (* FSubMethod *) apply enqueue_plain_good; auto. exact Logic.I.
    + (* FNext *) pose proof (poll_next_good s sh I) as G. destruct (poll_next s sh); exact G.
    + (* FUnsub *) destruct (close_msg_of s sh) as [msg|] eqn:CM; [|apply Good_refl; auto]. cbn [fst].
      destruct (close_msg_plain _ _ _ CM) as (E1 & E2 & K).
      set (s1 := upd_unsubw _ _).
      assert (G1 : Good s s1).
      { apply Good_same; auto; unfold s1; st_simpl; try apply I. constructor; reflexivity. }
      eapply Good_trans; [exact G1|]. intros I1. apply enqueue_plain_good; auto.
    + (* FDrop *) destruct (close_msg_of s sh) as [msg|] eqn:CM; [|apply Good_refl; auto].
      destruct (chan_of s sh) as [c|]; [|apply Good_refl; auto]. cbn [fst].
      destruct (close_msg_plain _ _ _ CM) as (E1 & E2 & K).
      set (s1 := set_chan _ _ _).
      assert (G1 : Good s s1).
      { apply Good_same; auto; unfold s1; st_simpl; try apply I.
        - constructor; reflexivity.
        - apply aset_keys_nodup; [exact Neqb_ok | apply I]. }
      eapply Good_trans; [exact G1|]. intros I1. apply try_enqueue_plain_good; auto.
    + (* FGiveUp *)
      set (p := fun x : f2b => negb (existsb (N.eqb h) (waiters_of_msg x))).
      set (s' := upd_gone _ _).
      assert (QM : qmsgs s' = queue s ++ filter p (map fst (waiting s))).
      { unfold qmsgs, s'. st_simpl. apply f_equal. apply (map_fst_filter p). }
      assert (E1 : m s' = m s) by reflexivity. assert (E2 : next_id s' = next_id s) by reflexivity.
      assert (E3 : id_str s' = id_str s) by reflexivity. assert (E4 : unacked s' = unacked s) by reflexivity.
      assert (E5 : chans s' = chans s) by reflexivity. assert (E6 : dead s' = dead s) by reflexivity.
      assert (E7 : busy s' = busy s) by reflexivity. assert (E8 : gated s' = gated s) by reflexivity.
      clearbody s'. split.
      * constructor; rewrite ?E1, ?E2, ?E3, ?E4, ?E5, ?E6, ?E7, ?E8; try apply I; [|intros X; congruence].
        rewrite QM. apply InvC_filter. exact C.
      * constructor; rewrite ?E2, ?E3; auto; try lia.
        -- intros i. unfold used, usedC. rewrite QM, E1. intros [H | [H | H]]; auto.
           left; right; left. unfold qmsgs, qids in *. rewrite flat_map_app in *. rewrite in_app_iff in *.
           destruct H as [H | H]; auto. right. eapply in_flat_map_filter; eauto.
        -- intros i H. left. rewrite QM in H. unfold qmsgs, qids in *. rewrite flat_map_app in *. rewrite in_app_iff in *.
           destruct H as [H | H]; auto. right. eapply in_flat_map_filter; eauto.
    + (* Release *) apply Good_same; auto; st_simpl; try apply I; [constructor; reflexivity | discriminate].
    + (* Back *) destruct (dying s); [apply Good_refl; auto|].
      pose proof (handle_back_good s (classify_frame raw) I D) as (G & D').
      destruct (handle_back s (classify_frame raw)) as [s' o | s' o f]; cbn [rres_st fst] in *; auto.
      eapply Good_trans; [exact G|]. intros I'. apply Good_same; auto; st_simpl; try apply I'. constructor; reflexivity.
    + (* Fault *) apply Good_same; auto; st_simpl; try apply I. constructor; reflexivity.
    + (* FailSend *) apply Good_same; auto; st_simpl; try apply I. constructor; reflexivity.
Qed.

Lemma settle_good s : Inv s -> Good s (fst (settle s)).
Proof.
  intros I. unfold settle.
  pose proof (try_kill_good s I) as G1. destruct (try_kill s) as [s1 o1]. cbn [fst] in G1.
  pose proof (drain_good (S (length (queue s1) + length (waiting s1))) s1) as G2.
  destruct (drain _ s1) as [s2 o2]. cbn [fst] in G2.
  pose proof (try_kill_good s2) as G3. destruct (try_kill s2) as [s3 o3]. cbn [fst] in G3.
  pose proof (finish_unsubs_good s3) as G4. destruct (finish_unsubs s3) as [s4 o4]. cbn [fst] in *.
  eapply Good_trans; [exact G1|]. intros I1. eapply Good_trans; [apply G2; auto|]. intros I2.
  eapply Good_trans; [apply G3; auto|]. auto.
Qed.

Theorem step_good s e : Inv s -> Good s (fst (fst (step s e))).
Proof.
  intros I. unfold step.
  pose proof (apply_good s e I) as G1. destruct (apply s e) as [[s1 o1] r]. cbn [fst] in G1.
  pose proof (settle_good s1) as G2. destruct (settle s1) as [s2 o2]. cbn [fst] in *.
  eapply Good_trans; [exact G1|]. auto.
Qed.

Theorem step_inv s e : Inv s -> Inv (fst (fst (step s e))).
Proof. intros I. apply (step_good s e I). Qed.

Theorem init_inv idstr qc bc gate : Inv (init idstr qc bc gate).
Proof.
  constructor; cbn; auto; try discriminate; [apply InvC_init | constructor].
Qed.

Lemma run_cons s e es : run s (e :: es) =
  (fst (run (fst (fst (step s e))) es), (snd (fst (step s e)), snd (step s e)) :: snd (run (fst (fst (step s e))) es)).
Proof.
  cbn [run]. destruct (step s e) as [[s1 o] r]. cbn [fst snd]. destruct (run s1 es); reflexivity.
Qed.

Lemma run_app s es1 es2 : fst (run s (es1 ++ es2)) = fst (run (fst (run s es1)) es2).
Proof.
  revert s. induction es1 as [|e es1 IH]; intros s; [reflexivity|].
  rewrite <- app_comm_cons, !run_cons. cbn [fst]. apply IH.
Qed.

Theorem run_good es : forall s, Inv s -> Good s (fst (run s es)).
Proof.
  induction es as [|e es IH]; intros s I; [apply Good_refl; auto|].
  rewrite run_cons. cbn [fst]. eapply Good_trans; [apply step_good; auto|]. auto.
Qed.

Theorem run_inv es s : Inv s -> Inv (fst (run s es)).
Proof. intros I. apply (run_good es s I). Qed.

(* ------------------------------------------------------------------------------------------- *)
(* Part 4: lifting a state predicate J and an output predicate P through settle / step / run     *)
(* ------------------------------------------------------------------------------------------- *)

Lemma Forall_flat_map {A B} (P : B -> Prop) (f : A -> list B) l : (forall x, In x l -> Forall P (f x)) -> Forall P (flat_map f l).
Proof.
  induction l as [|a l IH]; cbn; intros H; [constructor|]. apply Forall_app. split; [apply H; auto | apply IH; auto].
Qed.

Lemma complete_Forall (P : out -> Prop) s h r : (alive s h = true -> P (OComplete h r)) -> Forall P (complete s h r).
Proof. unfold complete. destruct (alive s h); intros H; repeat constructor; auto. Qed.

Lemma admit_waiting_flags f s : busy (admit_waiting f s) = busy s /\ dead (admit_waiting f s) = dead s /\ dying (admit_waiting f s) = dying s.
Proof. destruct (admit_waiting_sameq f s). auto. Qed.

Section Lift.
  Variables (J : st -> Prop) (P : out -> Prop).
  Hypothesis H_admit : forall f s, J s -> J (admit_waiting f s).
  Hypothesis H_front : forall s0 msg q, J s0 -> queue s0 = msg :: q -> dead s0 = false -> busy s0 = false -> dying s0 = None ->
    J (fst (handle_front (upd_queue s0 q (waiting s0)) msg)) /\ Forall P (snd (handle_front (upd_queue s0 q (waiting s0)) msg)).
  Hypothesis H_kill : forall s f, J s -> dying s = Some f -> busy s = false -> dead s = false ->
    J (fst (kill s f)) /\ Forall P (snd (kill s f)).
  Hypothesis H_fin : forall s, J s -> J (fst (finish_unsubs s)) /\ Forall P (snd (finish_unsubs s)).

  Lemma drain_lift f : forall s, J s -> J (fst (drain f s)) /\ Forall P (snd (drain f s)).
  Proof.
    induction f as [|f IH]; intros s Js; cbn [drain]; [split; auto; constructor|].
    pose proof (H_admit (length (waiting s)) s Js) as J0.
    set (s0 := admit_waiting (length (waiting s)) s) in *.
    destruct (busy s0 || dead s0 || match dying s0 with Some _ => true | None => false end) eqn:F; [split; auto; constructor|].
    destruct (queue s0) as [|msg q] eqn:Q; [split; auto; constructor|].
    apply orb_false_iff in F as (F & DY). apply orb_false_iff in F as (B & D).
    assert (DY' : dying s0 = None) by (destruct (dying s0); [discriminate | auto]).
    destruct (H_front s0 msg q J0 Q D B DY') as (J1 & P1).
    destruct (handle_front (upd_queue s0 q (waiting s0)) msg) as [s1 o1]. cbn [fst snd] in *.
    destruct (IH s1 J1) as (J2 & P2). destruct (drain f s1) as [s2 o2]. cbn [fst snd] in *.
    split; auto. apply Forall_app; auto.
  Qed.

  Lemma try_kill_lift s : J s -> J (fst (try_kill s)) /\ Forall P (snd (try_kill s)).
  Proof.
    intros Js. unfold try_kill. destruct (dying s) eqn:DY; [|split; auto; constructor].
    destruct (busy s || dead s) eqn:F; [split; auto; constructor|].
    apply orb_false_iff in F as (B & D). apply H_kill; auto.
  Qed.

  Lemma settle_lift s : J s -> J (fst (settle s)) /\ Forall P (snd (settle s)).
  Proof.
    intros Js. unfold settle.
    destruct (try_kill_lift s Js) as (J1 & P1). destruct (try_kill s) as [s1 o1]. cbn [fst snd] in *.
    destruct (drain_lift (S (length (queue s1) + length (waiting s1))) s1 J1) as (J2 & P2).
    destruct (drain _ s1) as [s2 o2]. cbn [fst snd] in *.
    destruct (try_kill_lift s2 J2) as (J3 & P3). destruct (try_kill s2) as [s3 o3]. cbn [fst snd] in *.
    destruct (H_fin s3 J3) as (J4 & P4). destruct (finish_unsubs s3) as [s4 o4]. cbn [fst snd] in *.
    split; auto. repeat (apply Forall_app; split; auto).
  Qed.

  Hypothesis H_apply : forall s e, J s -> J (fst (fst (apply s e))) /\ Forall P (snd (fst (apply s e))).

  Lemma step_lift s e : J s -> J (fst (fst (step s e))) /\ Forall P (snd (fst (step s e))).
  Proof.
    intros Js. unfold step. destruct (H_apply s e Js) as (J1 & P1). destruct (apply s e) as [[s1 o1] r]. cbn [fst snd] in *.
    destruct (settle_lift s1 J1) as (J2 & P2). destruct (settle s1) as [s2 o2]. cbn [fst snd] in *.
    split; auto. apply Forall_app; auto.
  Qed.

  Lemma run_lift es : forall s, J s -> J (fst (run s es)) /\ Forall (fun x => Forall P (fst x)) (snd (run s es)).
  Proof.
    induction es as [|e es IH]; intros s Js; [split; auto; constructor|].
    rewrite run_cons. cbn [fst snd]. destruct (step_lift s e Js) as (J1 & P1).
    destruct (IH _ J1) as (J2 & P2). split; auto.
  Qed.
End Lift.

(* Inv through the dequeue form of handle_front, for use as J *)
Lemma Inv_front s0 msg q : Inv s0 -> queue s0 = msg :: q -> dead s0 = false ->
  Inv (fst (handle_front (upd_queue s0 q (waiting s0)) msg)) /\
  InvC (m s0) (msg :: qmsgs (upd_queue s0 q (waiting s0))) (next_id s0) (id_str s0) (unacked s0).
Proof.
  intros I Q D.
  assert (C : InvC (m s0) (msg :: qmsgs (upd_queue s0 q (waiting s0))) (next_id s0) (id_str s0) (unacked s0)).
  { pose proof (inv_core _ I) as C. unfold qmsgs in *. st_simpl. rewrite Q in C. exact C. }
  split; auto.
  pose proof (handle_front_good (upd_queue s0 q (waiting s0)) msg) as H. st_simpl.
  destruct H as (H & _); auto; apply I.
Qed.

(* which completions each part of a step can emit *)
Definition settle_cres (c : cres) : Prop :=
  match c with
  | CErr EOccupied | CErr EAlreadyRegistered | CErr EDisconnected | CRegOk | CDone => True
  | _ => False
  end.
Definition settle_out (o : out) : Prop := match o with OComplete _ c => settle_cres c | _ => True end.

Lemma wire_out (P : out -> Prop) s raw : P (OWire raw) -> Forall P (snd (wire s raw)).
Proof. unfold wire. destruct (sendfail s); cbn; intros; repeat constructor; auto. Qed.

Lemma handle_front_out (P : out -> Prop) s msg :
  (forall raw, P (OWire raw)) -> (forall h, P (OComplete h (CErr EOccupied))) ->
  (forall h, P (OComplete h (CErr EAlreadyRegistered))) -> (forall h, P (OComplete h CRegOk)) ->
  Forall P (snd (handle_front s msg)).
Proof.
  intros W O A R. destruct msg as [lo hi h raw | raw | i w raw | si ui um h raw | me h | me | sid]; cbn [handle_front].
  - destruct (ahas _ _ _); [apply complete_Forall; auto | apply wire_out; auto].
  - apply wire_out; auto.
  - destruct (ahas _ _ _); [|apply wire_out; auto]. destruct w; [apply complete_Forall; auto | constructor].
  - destruct (_ && _); [apply wire_out; auto | apply complete_Forall; auto].
  - destruct (ahas _ _ _); [apply complete_Forall; auto|]. destruct (alive s h); cbn; repeat constructor; auto.
  - destruct (alookup _ _ _); constructor.
  - unfold do_unsubscribe. destruct (alookup _ _ _); [|constructor].
    destruct (req_lookup _ _) as [[w|u w um|u ch um|j]|]; try constructor. apply wire_out; auto.
Qed.

Lemma kill_out (P : out -> Prop) s f : P (OFatal f) -> (forall h, P (OComplete h (CErr EDisconnected))) -> Forall P (snd (kill s f)).
Proof.
  intros F D. unfold kill. cbn [snd]. constructor; auto. apply Forall_flat_map. intros h _. apply complete_Forall; auto.
Qed.

Lemma finish_unsubs_out (P : out -> Prop) s : (forall h, P (OComplete h CDone)) -> Forall P (snd (finish_unsubs s)).
Proof.
  intros D. unfold finish_unsubs. cbn [snd]. apply Forall_flat_map. intros [[w c] a] _. apply complete_Forall; auto.
Qed.

Lemma settle_outs s : Forall settle_out (snd (settle s)).
Proof.
  apply (settle_lift (fun _ => True) settle_out); auto.
  - intros. split; auto. apply handle_front_out; cbn; auto.
  - intros. split; auto. apply kill_out; cbn; auto.
  - intros. split; auto. apply finish_unsubs_out; cbn; auto.
Qed.

Lemma run_app_snd s es1 es2 : snd (run s (es1 ++ es2)) = snd (run s es1) ++ snd (run (fst (run s es1)) es2).
Proof.
  revert s. induction es1 as [|e es1 IH]; intros s; [reflexivity|].
  rewrite <- app_comm_cons, !run_cons. cbn [fst snd]. rewrite IH. reflexivity.
Qed.

Lemma run_length s es : length (snd (run s es)) = length es.
Proof. revert s. induction es as [|e es IH]; intros s; [reflexivity|]. rewrite run_cons. cbn [snd length]. rewrite IH. reflexivity. Qed.

(* the k-th element of a run's trace is the output of the k-th step, taken in the state reached by the first k events *)
Lemma run_nth s es e rest :
  nth_error (snd (run s (es ++ e :: rest))) (length es) =
  Some (snd (fst (step (fst (run s es)) e)), snd (step (fst (run s es)) e)).
Proof.
  rewrite run_app_snd, nth_error_app2; rewrite run_length; [|lia]. rewrite Nat.sub_diag, run_cons. reflexivity.
Qed.
