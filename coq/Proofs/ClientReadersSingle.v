(* The ORDER in which the readers are tried on a whole message (the `{` arm of handle_recv_message), as read from the source
   (Gen/ClientDispatchGen.client_single_dispatch), and the classifier it gives.  See Proofs/ClientDispatchFacts.v. *)
From JV Require Import Base.Bytes Base.Dec Model.Wire Model.ClientMgr Model.ClientDispatch Gen.ClientDispatchGen.

Lemma single_readers_now : single_readers client_dispatch = [TryResponse; TrySubResponse; TrySubError; TryNotification].
Proof. reflexivity. Qed.

(* order of attempts: Response, else SubscriptionResponse, else SubscriptionError, else Notification, else unparseable *)
Lemma classify_single_now t :
  classify_single t =
  match parse_response t with
  | Some r => IResp r
  | None =>
    match parse_sub_notif k_result t with
    | Some (me, s, p) => ISubNotif me s p
    | None =>
      match parse_sub_notif k_error t with
      | Some (me, s, p) => ISubErr me s p
      | None =>
        match parse_notification t with
        | Some (me, p) => INotif me p
        | None => IBad
        end
      end
    end
  end.
Proof.
  unfold classify_single. rewrite single_readers_now. cbn [classify_with try_reader].
  destruct (parse_response t); [reflexivity|].
  destruct (parse_sub_notif k_result t) as [[[me s] p]|]; [reflexivity|].
  destruct (parse_sub_notif k_error t) as [[[me s] p]|]; [reflexivity|].
  destruct (parse_notification t) as [[me p]|]; reflexivity.
Qed.
