(* Proofs about Model/ClientShutdown.v (C09). *)
From JV Require Import Base.Bytes Base.Dec Base.Utf8 Json.Json Json.JsonSer Json.JsonParse Json.JsonWf Model.Wire Model.ClientMgr Model.ClientShutdown.
From JV Require Import Proofs.JsonFacts.
From JV Require Import Proofs.ClientDispatchFacts.
Arguments N.add : simpl never.
Arguments N.sub : simpl never.
Arguments N.mul : simpl never.
Arguments N.ltb : simpl never.
Arguments N.leb : simpl never.
Arguments N.eqb : simpl never.

(* ---------- association-list lookups ---------- *)
Lemma alookup_aremove_same (h : N) (l : list (N * cpc)) : alookup N.eqb h (aremove N.eqb h l) = None.
Proof.
  induction l as [|[k v] l IH]; cbn; [reflexivity|].
  destruct (N.eqb h k) eqn:E; [exact IH|]. cbn. rewrite E. exact IH.
Qed.

Lemma alookup_aremove_other (h k : N) (l : list (N * cpc)) : N.eqb h k = false ->
  alookup N.eqb h (aremove N.eqb k l) = alookup N.eqb h l.
Proof.
  intro Hk. induction l as [|[k' v] l IH]; cbn; [reflexivity|].
  destruct (N.eqb k k') eqn:E.
  - apply N.eqb_eq in E. subst k'. rewrite Hk. exact IH.
  - cbn. destruct (N.eqb h k'); [reflexivity | exact IH].
Qed.

Lemma get_set_same s h c : get_c (set_c s h c) h = Some c.
Proof. unfold get_c, set_c, aset. cbn. rewrite N.eqb_refl. reflexivity. Qed.

Lemma get_set_other s h k c : N.eqb h k = false -> get_c (set_c s k c) h = get_c s h.
Proof. intro E. unfold get_c, set_c, aset. cbn. rewrite E. apply alookup_aremove_other. exact E. Qed.

Lemma get_set s h k c : get_c (set_c s k c) h = if N.eqb h k then Some c else get_c s h.
Proof.
  destruct (N.eqb h k) eqn:E.
  - apply N.eqb_eq in E. subst. apply get_set_same.
  - apply get_set_other. exact E.
Qed.

Lemma alookup_map_val (f : cpc -> cpc) h (l : list (N * cpc)) :
  alookup N.eqb h (map (fun hc => (fst hc, f (snd hc))) l) = option_map f (alookup N.eqb h l).
Proof.
  induction l as [|[k v] l IH]; cbn; [reflexivity|]. destruct (N.eqb h k); [reflexivity | exact IH].
Qed.

(* ---------- the invariant ---------- *)
Definition sp_new (x : spc) : Prop :=
  match x with OCloseFront _ | OClosing _ | OReport _ => False | _ => True end.
Definition sp_closing (x : spc) : Prop := match x with SClosing | SExited => True | _ => False end.
Definition sp_sawclosed (x : spc) : Prop := match x with SCloseFront | SClosing | SExited => True | _ => False end.
Definition sp_reported (x : spc) : Prop :=
  match x with SAwaitClosed | SCloseFront | SClosing | SExited => True | _ => False end.
Definition rp_reported (x : rpc) : Prop := match x with RExiting | RExited => True | _ => False end.
Definition wp_after (x : wpc) : Prop := match x with WStored | WExited => True | _ => False end.

Ltac bool_norm :=
  repeat match goal with
  | H : _ && _ = true |- _ => apply andb_prop in H; destruct H
  | H : negb _ = true |- _ => apply negb_true_iff in H
  | H : _ || _ = true |- _ => apply orb_prop in H
  end.

(* push, destructed *)
Lemma push_cases s r :
  (rx_closed s = true /\ push s r = s) \/
  (rx_closed s = false /\
   push s r = set_first (set_slot s (Some r)) (match h_first s with None => Some r | x => x end)).
Proof. unfold push. destruct (rx_closed s); [left | right]; split; reflexivity. Qed.

Lemma get_c_set_sp s x h : get_c (set_sp s x) h = get_c s h. Proof. reflexivity. Qed.
Lemma get_c_set_rp s x h : get_c (set_rp s x) h = get_c s h. Proof. reflexivity. Qed.
Lemma get_c_set_wp s x h : get_c (set_wp s x) h = get_c s h. Proof. reflexivity. Qed.

Lemma get_c_pop s h c : get_c (pop_to_mgr s) h = Some c ->
  get_c s h = Some c \/ (c = CInMgr /\ get_c s h = Some CQueued).
Proof.
  unfold pop_to_mgr. destruct (fqueue s) as [|k q]; [tauto|].
  destruct (is_queued (get_c s k)) eqn:Q; [|cbn; tauto].
  rewrite get_set. change (get_c (set_fqueue s q) h) with (get_c s h).
  destruct (N.eqb h k) eqn:E; [|tauto].
  apply N.eqb_eq in E. subst k. intro H. inversion H. right. split; [reflexivity|].
  destruct (get_c s h) as [[]|]; try discriminate. reflexivity.
Qed.

Lemma pop_ctl s :
  sp (pop_to_mgr s) = sp s /\ rp (pop_to_mgr s) = rp s /\ wp (pop_to_mgr s) = wp s /\ slot (pop_to_mgr s) = slot s /\
  rx_closed (pop_to_mgr s) = rx_closed s /\ reason (pop_to_mgr s) = reason s /\
  front_closed (pop_to_mgr s) = front_closed s /\ dropped (pop_to_mgr s) = dropped s /\
  h_recvend (pop_to_mgr s) = h_recvend s /\ h_first (pop_to_mgr s) = h_first s.
Proof.
  unfold pop_to_mgr. destruct (fqueue s); [tauto|]. destruct (is_queued _); cbn; tauto.
Qed.

(* ---------- the control invariant ---------- *)
Record cinv (s : state) : Prop := {
  c_new : sp_new (sp s);
  c_front : front_closed s = true <-> sp_closing (sp s);
  c_sclosed : sp_sawclosed (sp s) -> rx_closed s = true;
  c_rx : rx_closed s = true <-> wp s = WExited;
  c_after : wp_after (wp s) -> reason s <> None \/ dropped s = true \/ h_recvend s = true;
  c_got : wp s = WGot None -> dropped s = true \/ h_recvend s = true;
  c_slot : slot s = Some None -> dropped s = true \/ h_recvend s = true;
  c_srep : sp s = SReport None -> rx_closed s = true \/ dropped s = true;
  c_rrep : rp s = RReport None -> rx_closed s = true \/ h_recvend s = true;
  c_reason : forall c, reason s = Some c -> wp_after (wp s) /\ h_first s = Some (Some c);
  c_wait : wp s = WWait -> (slot s = None /\ h_first s = None) \/ (exists r, slot s = Some r /\ h_first s = Some r);
  c_gotf : forall r, wp s = WGot r -> h_first s = Some r;
  c_past : wp s = WWait -> sp_reported (sp s) \/ rp_reported (rp s) -> slot s <> None
}.

Definition same_ctl (s s' : state) : Prop :=
  sp s' = sp s /\ rp s' = rp s /\ wp s' = wp s /\ slot s' = slot s /\ rx_closed s' = rx_closed s /\
  reason s' = reason s /\ front_closed s' = front_closed s /\ dropped s' = dropped s /\
  h_recvend s' = h_recvend s /\ h_first s' = h_first s.

Lemma cinv_ext s s' : same_ctl s s' -> cinv s -> cinv s'.
Proof.
  intros (P1&P2&P3&P4&P5&P6&P7&P8&P9&P10) [].
  constructor; rewrite ?P1, ?P2, ?P3, ?P4, ?P5, ?P6, ?P7, ?P8, ?P9, ?P10; assumption.
Qed.

Ltac crunch :=
  repeat match goal with
  | H : _ /\ _ |- _ => destruct H
  | H : exists _, _ |- _ => destruct H
  | H : Some _ = Some _ |- _ => inversion H; clear H; subst
  end; subst; cbn in *;
  try tauto; try congruence.


Ltac enab E :=
  unfold enabled, sp_is_loop, rp_is_loop, sp_exited, rp_exited, can_push, is_none in E; bool_norm;
  repeat match goal with
  | H : match ?x with _ => _ end = true |- _ => let Q := fresh "Q" in destruct x eqn:Q; try discriminate H
  end.

Ltac fin1 := try (intros; discriminate); try tauto; try congruence;
  try solve [intros; repeat match goal with H : Some _ = Some _ |- _ => inversion H; clear H; subst
                            | H : SReport _ = SReport _ |- _ => inversion H; clear H; subst
                            | H : RReport _ = RReport _ |- _ => inversion H; clear H; subst
                            | H : WGot _ = WGot _ |- _ => inversion H; clear H; subst end;
             repeat match goal with
                    | H : ?a = ?a -> _ |- _ => specialize (H eq_refl)
                    | I : forall c, reason ?s = Some c -> _, H : reason ?s = Some _ |- _ => specialize (I _ H)
                    | I : forall r, ?w = WGot r -> _ |- _ => first [specialize (I _ eq_refl) | clear I]
                    end;
             repeat match goal with H : _ /\ _ |- _ => destruct H | H : exists _, _ |- _ => destruct H
                                    | H : _ \/ _ |- _ => destruct H end; try discriminate; try congruence;
             intuition (try congruence; try discriminate; eauto)].
Ltac rwq := repeat match goal with
  | Q : sp _ = _ |- _ => rewrite Q in *; clear Q
  | Q : rp _ = _ |- _ => rewrite Q in *; clear Q
  | Q : wp _ = _ |- _ => rewrite Q in *; clear Q
  | Q : slot _ = _ |- _ => rewrite Q in *; clear Q
  | Q : rx_closed _ = _ |- _ => rewrite Q in *; clear Q
  | Q : dropped _ = _ |- _ => rewrite Q in *; clear Q
  end; cbn in *.
Ltac fld0 := constructor; cbn -[push]; try assumption.

Lemma cinv_step s l : cinv s -> cinv (step VNow s l).
Proof.
  intro I. unfold step. destruct (enabled VNow s l) eqn:E; [|exact I].
  destruct l; cbn [effect after_break no_wait];
  try (apply (cinv_ext s); [|exact I]; first [apply pop_ctl | repeat split; try reflexivity;
        match goal with |- context [if ?b then _ else _] => destruct b; reflexivity end]).
  all: enab E; destruct I as [I1 I2 I3 I4 I5 I6 I7 I8 I9 I10 I11 I12 I13].
  all: try solve [rwq; contradiction].
  all: try solve [fld0; rwq; fin1].
  all: try (destruct (pop_ctl s) as (P1&P2&P3&P4&P5&P6&P7&P8&P9&P10);
    solve [fld0; rewrite ?P1, ?P2, ?P3, ?P4, ?P5, ?P6, ?P7, ?P8, ?P9, ?P10; try assumption; rwq; fin1]).
  all: try (destruct (push_cases s r) as [[X ->]|[X ->]]; [solve [fld0; rwq; fin1]|];
    rewrite X in E; cbn in E; rewrite orb_false_r in E;
    destruct (slot s) eqn:QS; try discriminate E; destruct (h_first s) eqn:QF; destruct (wp s) eqn:QW;
    solve [fld0; rewrite ?QS, ?QF, ?QW in *; rwq; fin1]).
  - destruct r; fld0; rwq; fin1.
  - apply (cinv_ext s); [destruct (front_closed s); repeat split; reflexivity | constructor; assumption].
Qed.

(* ---------- what callers have observed ---------- *)
Record kinv (s : state) : Prop := {
  k_cause : forall h c, get_c s h = Some (CDone (OCause c)) -> reason s = Some c;
  k_ph : forall h, get_c s h = Some (CDone OPlaceholder) -> h_recvend s = true;
  k_drop : dropped s = true -> forall h c, get_c s h = Some c -> is_done c = true;
  k_gone : forall h, get_c s h = Some CGone -> dropped s = true
}.

Lemma kinv_ext s s' : callers s' = callers s -> reason s' = reason s -> dropped s' = dropped s ->
  (h_recvend s = true -> h_recvend s' = true) -> kinv s -> kinv s'.
Proof.
  intros C R D E [K1 K2 K3 K4]. unfold get_c in *. constructor; unfold get_c; rewrite ?C, ?R, ?D; eauto.
Qed.

Lemma kinv_setc s h x : kinv s ->
  (forall c, x = CDone (OCause c) -> reason s = Some c) ->
  (x = CDone OPlaceholder -> h_recvend s = true) ->
  (dropped s = true -> is_done x = true) -> x <> CGone -> kinv (set_c s h x).
Proof.
  intros [K1 K2 K3 K4] A B C NG. constructor; cbn [reason h_recvend dropped set_c set_callers].
  - intros k c. rewrite get_set. destruct (N.eqb k h); [intro H; inversion H; auto | apply K1].
  - intros k. rewrite get_set. destruct (N.eqb k h); [intro H; inversion H; auto | apply K2].
  - intros D k c. rewrite get_set. destruct (N.eqb k h); [intro H; inversion H; subst; auto | apply K3; exact D].
  - intros k. rewrite get_set. destruct (N.eqb k h); [intro H; inversion H; congruence | apply K4].
Qed.

Lemma kinv_pop s : kinv s -> kinv (pop_to_mgr s).
Proof.
  intros [K1 K2 K3 K4]. destruct (pop_ctl s) as (P1&P2&P3&P4&P5&P6&P7&P8&P9&P10).
  constructor; rewrite ?P6, ?P8, ?P9.
  - intros h c H. apply get_c_pop in H as [H|[H _]]; [eauto | discriminate].
  - intros h H. apply get_c_pop in H as [H|[H _]]; [eauto | discriminate].
  - intros D h c H. apply get_c_pop in H as [H|[-> H]]; [eauto|]. apply (K3 D) in H. discriminate.
  - intros h H. apply get_c_pop in H as [H|[H _]]; [eauto | discriminate].
Qed.

Lemma kinv_step s l : cinv s -> kinv s -> kinv (step VNow s l).
Proof.
  intros I K. unfold step. destruct (enabled VNow s l) eqn:E; [|exact K].
  destruct l; cbn [effect after_break no_wait];
  try solve [apply (kinv_ext s); [reflexivity..|tauto|exact K]].
  - apply kinv_pop; exact K.
  - apply (kinv_ext (pop_to_mgr s)); [reflexivity..|tauto|apply kinv_pop; exact K].
  - destruct (sp s); try exact K; unfold push; destruct (rx_closed s);
      (eapply (kinv_ext s); [reflexivity..|cbn; tauto|exact K]).
  - destruct (sp s); (eapply (kinv_ext s); [reflexivity..|cbn; tauto|exact K]).
  - destruct (sp s); (eapply (kinv_ext s); [reflexivity..|cbn; tauto|exact K]).
  - apply kinv_setc; [exact K|discriminate|discriminate|reflexivity|discriminate].
  - destruct (rp s); try exact K; unfold push; destruct (rx_closed s);
      (eapply (kinv_ext s); [reflexivity..|cbn; tauto|exact K]).
  - destruct (slot s); try exact K. eapply (kinv_ext s); [reflexivity..|cbn; tauto|exact K].
  - cbn in E. destruct (wp s) as [|[c|]| |] eqn:W; try discriminate E;
      try (eapply (kinv_ext s); [reflexivity..|cbn; tauto|exact K]).
    destruct K as [K1 K2 K3 K4]. constructor; cbn [reason h_recvend dropped set_wp set_reason]; auto.
    intros h c' H. apply K1 in H. destruct (c_reason s I _ H) as [A _]. rewrite W in A. contradiction.
  - destruct K as [K1 K2 K3 K4].
    assert (G : forall h x, get_c (set_dropped (set_callers s (map (fun hc : handle * cpc =>
                   (fst hc, if is_done (snd hc) then snd hc else CGone)) (callers s)))) h = Some x ->
                 is_done x = true /\ (x <> CGone -> get_c s h = Some x)).
    { intros h x. unfold get_c. cbn [callers set_dropped set_callers].
      rewrite (alookup_map_val (fun c => if is_done c then c else CGone)).
      destruct (alookup N.eqb h (callers s)) as [c|]; cbn; [|discriminate].
      destruct (is_done c) eqn:D; intro H; inversion H; subst; split; auto; congruence. }
    constructor; cbn [reason h_recvend dropped set_dropped set_callers].
    + intros h c H. apply G in H as [_ H]. apply (K1 h). apply H. discriminate.
    + intros h H. apply G in H as [_ H]. apply (K2 h). apply H. discriminate.
    + intros _ h c H. apply G in H as [H _]. exact H.
    + reflexivity.
  - cbn in E. apply andb_prop in E as [E _]. apply negb_true_iff in E.
    destruct (front_closed s).
    + apply kinv_setc; [exact K|discriminate|discriminate|congruence|discriminate].
    + apply kinv_setc; [|discriminate|discriminate|cbn; congruence|discriminate].
      eapply (kinv_ext s); [reflexivity..|cbn; tauto|exact K].
  - cbn in E. apply andb_prop in E as [E _]. apply negb_true_iff in E.
    apply kinv_setc; [exact K|discriminate|discriminate|congruence|discriminate].
  - apply kinv_setc; [exact K|discriminate|discriminate| |discriminate].
    intro D. cbn in E. destruct (get_c s h) as [c|] eqn:G; [|discriminate].
    pose proof (k_drop _ K D _ _ G). destruct c; discriminate.
  - cbn in E. apply andb_prop in E as [E F]. destruct (get_c s h) as [[]|] eqn:G; try discriminate E.
    apply kinv_setc; [exact K| | |reflexivity|discriminate].
    + intros c H. destruct (reason s); inversion H. reflexivity.
    + intro H. destruct (reason s) eqn:R; [discriminate|].
      destruct I as [I1 I2 I3 I4 I5 I6 I7 I8 I9 I10 I11 I12 I13]. apply I2 in F.
      assert (X : sp_sawclosed (sp s)) by (destruct (sp s); cbn in *; tauto).
      apply I3 in X. apply I4 in X. rewrite X in I5. destruct (I5 Logic.I) as [A|[A|A]].
      * congruence.
      * pose proof (k_drop _ K A _ _ G). discriminate.
      * exact A.
Qed.

(* ---------- reachability ---------- *)
Lemma cinv_init : cinv init.
Proof.
  constructor; cbn; try tauto; try discriminate; try (intros; discriminate).
  - split; [discriminate | tauto].
  - split; discriminate.
Qed.

Lemma kinv_init : kinv init.
Proof. constructor; cbn; intros; discriminate. Qed.

Lemma inv_run s tr : cinv s -> kinv s -> cinv (run VNow s tr) /\ kinv (run VNow s tr).
Proof.
  revert s. induction tr as [|l tr IH]; intros s C K; [split; assumption|].
  cbn. apply IH; [apply cinv_step; exact C | apply kinv_step; assumption].
Qed.

Lemma reach_inv tr : cinv (run VNow init tr) /\ kinv (run VNow init tr).
Proof. apply inv_run; [exact cinv_init | exact kinv_init]. Qed.

Lemma run_app old s a b : run old s (a ++ b) = run old (run old s a) b.
Proof. unfold run. apply fold_left_app. Qed.

(* ---------- C09_cause_before_close ---------- *)
Lemma closed_has_cause s : cinv s -> front_closed s = true ->
  reason s <> None \/ dropped s = true \/ h_recvend s = true.
Proof.
  intros [I1 I2 I3 I4 I5 I6 I7 I8 I9 I10 I11 I12 I13] F. apply I2 in F.
  assert (X : sp_sawclosed (sp s)) by (destruct (sp s); cbn in *; tauto).
  apply I3 in X. apply I4 in X. rewrite X in I5. exact (I5 Logic.I).
Qed.

Theorem cause_before_close : forall tr, let s := run VNow init tr in
  front_closed s = true -> (exists c, reason s = Some c) \/ dropped s = true \/ h_recvend s = true.
Proof.
  intros tr s F. destruct (closed_has_cause s (proj1 (reach_inv tr)) F) as [A|A]; [|right; exact A].
  left. destruct (reason s) as [c|]; [exists c; reflexivity | congruence].
Qed.

(* which exits record a cause: whatever the watcher receives first *)
Theorem reason_is_first_report : forall tr c, let s := run VNow init tr in
  reason s = Some c -> h_first s = Some (Some c).
Proof. intros tr c s R. exact (proj2 (c_reason s (proj1 (reach_inv tr)) c R)). Qed.

(* ---------- C09_no_placeholder ---------- *)
Theorem no_placeholder : forall tr h, let s := run VNow init tr in
  h_recvend s = false -> get_c s h <> Some (CDone OPlaceholder).
Proof.
  intros tr h s R G. pose proof (k_ph s (proj2 (reach_inv tr)) h G). congruence.
Qed.

Theorem observed_cause_is_reason : forall tr h c, let s := run VNow init tr in
  get_c s h = Some (CDone (OCause c)) -> reason s = Some c /\ h_first s = Some (Some c).
Proof.
  intros tr h c s G. pose proof (k_cause s (proj2 (reach_inv tr)) h c G) as R.
  split; [exact R | exact (proj2 (c_reason s (proj1 (reach_inv tr)) c R))].
Qed.

(* ---------- C09_all_pending_fail_with_cause ---------- *)
Definition is_pending (c : cpc) : bool := match c with CQueued | CInMgr | CReadErr => true | _ => false end.

Lemma step_readerr s h c : get_c s h = Some CReadErr -> front_closed s = true -> reason s = Some c ->
  get_c (step VNow s (LReadErr h)) h = Some (CDone (OCause c)).
Proof.
  intros G F R. unfold step. cbn [enabled]. rewrite G, F. cbn [is_readerr andb effect]. rewrite R. apply get_set_same.
Qed.

Lemma finish_pending s h c x : sp_closing_b (sp s) = true -> rp s = RExited -> front_closed s = true -> reason s = Some c ->
  get_c s h = Some x -> is_pending x = true ->
  get_c (run VNow s [LCallerDropped h; LReadErr h]) h = Some (CDone (OCause c)).
Proof.
  intros S R F Rs G P. cbn [run fold_left].
  assert (E1 : step VNow s (LCallerDropped h) = match x with CReadErr => s | _ => set_c s h CReadErr end).
  { unfold step. cbn [enabled]. unfold sender_let_go, rp_exited. cbn [early_drop]. rewrite G, S, R.
    destruct x; try discriminate P; reflexivity. }
  rewrite E1. destruct x; try discriminate P.
  - apply step_readerr; [apply get_set_same | exact F | exact Rs].
  - apply step_readerr; [apply get_set_same | exact F | exact Rs].
  - apply step_readerr; assumption.
Qed.

Lemma finish_new s h c (l : label) : (l = LNewCall h \/ l = LOnDisc h) ->
  dropped s = false -> front_closed s = true -> reason s = Some c -> get_c s h = None ->
  get_c (run VNow s [l; LReadErr h]) h = Some (CDone (OCause c)).
Proof.
  intros L D F Rs G. cbn. unfold step at 2.
  assert (E : enabled VNow s l = true) by (destruct L; subst l; cbn; rewrite D, G; reflexivity).
  rewrite E.
  assert (X : effect VNow s l = set_c s h CReadErr) by (destruct L; subst l; cbn; rewrite ?F; reflexivity).
  rewrite X. apply step_readerr; [apply get_set_same | exact F | exact Rs].
Qed.

Theorem all_pending_fail_with_cause : forall tr, let s := run VNow init tr in
  sp s = SExited -> rp s = RExited -> dropped s = false -> h_recvend s = false ->
  exists c, reason s = Some c /\ h_first s = Some (Some c) /\ is_connected s = false /\
    forall h,
      match get_c s h with
      | Some (CDone OOk) => True                       (* answered before the connection died *)
      | Some (CDone (OCause c')) => c' = c
      | Some (CDone OPlaceholder) => False
      | Some CGone => False
      | Some _ => get_c (run VNow s [LCallerDropped h; LReadErr h]) h = Some (CDone (OCause c))
      | None => get_c (run VNow s [LNewCall h; LReadErr h]) h = Some (CDone (OCause c)) /\
                get_c (run VNow s [LOnDisc h; LReadErr h]) h = Some (CDone (OCause c))
      end.
Proof.
  intros tr s S R D E. destruct (reach_inv tr) as [C K]. fold s in C, K.
  assert (F : front_closed s = true) by (apply (c_front s C); rewrite S; exact Logic.I).
  destruct (closed_has_cause s C F) as [A|[A|A]]; try congruence.
  destruct (reason s) as [c|] eqn:Rs; [|congruence]. exists c.
  split; [reflexivity|]. split; [exact (proj2 (c_reason s C c Rs))|]. split; [unfold is_connected; rewrite F; reflexivity|].
  intro h. destruct (get_c s h) as [x|] eqn:G.
  - destruct x as [| | |[|c'|]|].
    + eapply finish_pending; eauto; rewrite S; reflexivity.
    + eapply finish_pending; eauto; rewrite S; reflexivity.
    + eapply finish_pending; eauto; rewrite S; reflexivity.
    + exact Logic.I.
    + pose proof (k_cause s K h c' G). congruence.
    + pose proof (k_ph s K h G). congruence.
    + pose proof (k_gone s K h G). congruence.
  - split; apply finish_new; auto.
Qed.

Local Open Scope N_scope.

(* ---------- C09_progress ---------- *)
Lemma push_pcs s r : sp (push s r) = sp s /\ rp (push s r) = rp s /\ wp (push s r) = wp s.
Proof. unfold push. destruct (rx_closed s); cbn; tauto. Qed.

Lemma mu_step (old : variant) s l :
  (mu (step old s l) <= mu s)%nat /\
  (is_proto l = true -> enabled old s l = true -> (mu (step old s l) < mu s)%nat).
Proof.
  unfold step. destruct (enabled old s l) eqn:E; [|split; [lia | discriminate]].
  destruct (pop_ctl s) as (P1&P2&P3&_).
  destruct l; cbn [effect is_proto]; enab E; unfold mu, after_break; cbn;
    repeat match goal with |- context [push ?s ?r] => destruct (push_pcs s r) as (X1&X2&X3); rewrite ?X1, ?X2, ?X3; clear X1 X2 X3 end;
    rewrite ?P1, ?P2, ?P3;
    repeat match goal with Q : sp _ = _ |- _ => rewrite Q | Q : rp _ = _ |- _ => rewrite Q | Q : wp _ = _ |- _ => rewrite Q
                      | Q : slot _ = _ |- _ => rewrite Q end;
    try (destruct old); cbn; try (split; [lia | intros; try discriminate; lia]).
  all: repeat match goal with |- context [match ?r with Some _ => _ | None => _ end] => destruct r end; cbn; try split; intros; try lia.
  all: destruct (front_closed s); cbn; lia.
Qed.

Lemma mu_zero s : mu s = 0%nat <-> all_exited s = true.
Proof.
  unfold mu, all_exited, sp_exited, rp_exited. destruct (sp s), (rp s), (wp s); cbn; split; intro; try lia; try discriminate; reflexivity.
Qed.

Lemma mu_bound s : (mu s <= 11)%nat.
Proof. unfold mu. destruct (sp s), (rp s), (wp s); cbn; lia. Qed.

Lemma next_proto_sound old slow s l : next_proto old slow s = Some l -> is_proto l = true /\ enabled old s l = true.
Proof.
  unfold next_proto.
  repeat match goal with
  | |- context [if enabled old s ?x then _ else _] => destruct (enabled old s x) eqn:?; [intro H; inversion H; subst; split; [reflexivity | assumption]|]
  | |- context [if slow then _ else _] => destruct slow
  end; discriminate.
Qed.

(* no deadlock: once the shutdown has started, some protocol step is enabled until all three tasks are gone
   (the completion of the transport's close() counts as a protocol step: slow = false) *)
Lemma next_proto_none s : cinv s -> started s = true -> next_proto VNow false s = None -> all_exited s = true.
Proof.
  intros [I1 I2 I3 I4 I5 I6 I7 I8 I9 I10 I11 I12 I13] St. unfold next_proto.
  repeat match goal with
  | |- context [if enabled VNow s ?x then _ else _] => destruct (enabled VNow s x) eqn:?; [discriminate|]
  end. intros _.
  unfold enabled, started, all_exited, sp_is_loop, rp_is_loop, sp_exited, rp_exited, can_push, is_none in *.
  destruct (wp s) eqn:W; try discriminate.
  - (* WWait *) destruct (slot s) eqn:SL; try discriminate. destruct (dropped s) eqn:D; try discriminate.
    assert (RX : rx_closed s = false) by (destruct (rx_closed s); [destruct I4 as [A _]; discriminate (A eq_refl) | reflexivity]).
    rewrite RX in *. cbn in *.
    destruct (sp s) eqn:S; try discriminate; try contradiction;
    try (exfalso; apply I13; [reflexivity | left; exact Logic.I | reflexivity]).
    destruct (rp s) eqn:R; try discriminate;
    try (exfalso; apply I13; [reflexivity | right; exact Logic.I | reflexivity]).
  - (* WExited *) assert (RX : rx_closed s = true) by (apply I4; reflexivity). rewrite RX in *.
    destruct (sp s); cbn in *; rewrite ?orb_true_r in *; try discriminate; try contradiction.
    destruct (rp s); cbn in *; rewrite ?orb_true_r in *; try discriminate. reflexivity.
Qed.

Lemma lt_started s : (mu s < 11)%nat -> started s = true.
Proof.
  unfold mu, started, sp_is_loop, rp_is_loop. destruct (sp s), (rp s), (wp s); cbn; intros; try reflexivity; lia.
Qed.

Lemma drive_exits fuel : forall s, cinv s -> started s = true -> (mu s <= fuel)%nat ->
  all_exited (drive VNow false fuel s) = true.
Proof.
  induction fuel as [|f IH]; intros s C St Le.
  - cbn. apply mu_zero. lia.
  - cbn. destruct (next_proto VNow false s) as [l|] eqn:N.
    + destruct (next_proto_sound _ _ _ _ N) as [P E].
      destruct (mu_step VNow s l) as [_ Lt]. specialize (Lt P E). pose proof (mu_bound s).
      apply IH; [apply cinv_step; exact C | apply lt_started; lia | lia].
    + apply next_proto_none; assumption.
Qed.

Theorem progress : forall tr, let s := run VNow init tr in
  started s = true ->
  (mu s <= 11)%nat /\
  (forall l, (mu (step VNow s l) <= mu s)%nat) /\
  (forall l, is_proto l = true -> enabled VNow s l = true -> (mu (step VNow s l) < mu s)%nat) /\
  (mu s = 0%nat <-> all_exited s = true) /\
  ((mu s > 0)%nat -> exists l, is_proto l = true /\ enabled VNow s l = true) /\
  all_exited (drive VNow false (mu s) s) = true.
Proof.
  intros tr s St. destruct (reach_inv tr) as [C _]. fold s in C.
  split; [apply mu_bound|]. split; [intro l; apply (mu_step VNow s l)|].
  split; [intro l; apply (mu_step VNow s l)|]. split; [apply mu_zero|].
  split; [|apply drive_exits; auto].
  intro Pos. destruct (next_proto VNow false s) as [l|] eqn:N.
  - exists l. eapply next_proto_sound; exact N.
  - apply (next_proto_none s C St) in N. apply mu_zero in N. lia.
Qed.

(* ---------- BEFORE the repair (VLateDrop: queue and manager handle dropped only when send_task returns): while the
   transport's close() has not completed, calls registered in the manager stay pending ---------- *)
Lemma blocked_step s l h : l <> LSTransportClosed -> l <> LClientDrop ->
  sp s = SClosing -> rp s <> RLoop -> get_c s h = Some CInMgr ->
  let s' := step VLateDrop s l in sp s' = SClosing /\ rp s' <> RLoop /\ get_c s' h = Some CInMgr.
Proof.
  intros N1 N2 S R G. unfold step. destruct (enabled VLateDrop s l) eqn:E; [|auto].
  destruct (pop_ctl s) as (P1&P2&P3&_).
  assert (GP : forall r, get_c (push s r) h = get_c s h) by (intro r; unfold push; destruct (rx_closed s); reflexivity).
  assert (NE : forall k x, get_c s k <> Some CInMgr -> get_c (set_c s k x) h = Some CInMgr).
  { intros k x D. rewrite get_set. destruct (N.eqb h k) eqn:X; [apply N.eqb_eq in X; subst; congruence | exact G]. }
  destruct l; try congruence; cbn [effect after_break no_wait];
    unfold enabled, sender_let_go, sp_is_loop, rp_is_loop, sp_exited, rp_exited in E; cbn [early_drop] in E; rewrite ?S in E; try discriminate E.
  all: try solve [destruct (rp s); try congruence; discriminate E].
  all: try solve [destruct (get_c s h0) as [[]|]; cbn in E; discriminate E].
  all: try solve [destruct (get_c s h0) as [[]|] eqn:G0; try discriminate E;
                  cbn [sp rp set_c set_callers]; split; [exact S | split; [exact R | apply NE; congruence]]].
  all: try solve [apply andb_prop in E as [E1 E2]; destruct (get_c s h0) as [[]|] eqn:G0; try discriminate E2; try discriminate E1;
                  try destruct (front_closed s);
                  cbn [sp rp set_c set_callers set_fqueue]; (split; [exact S | split; [exact R |]]);
                  first [apply NE; congruence
                        | rewrite get_set; destruct (N.eqb h h0) eqn:X; [apply N.eqb_eq in X; subst; congruence | exact G]]].
  all: unfold push; repeat match goal with |- context [match ?x with _ => _ end] => destruct x | |- context [if ?b then _ else _] => destruct b end;
       try discriminate E; unfold get_c in *; cbn; try (split; [assumption | split; [first [assumption | discriminate] | assumption]]).
Qed.

Lemma blocked_run tr : forall s h, ~ In LSTransportClosed tr -> ~ In LClientDrop tr ->
  sp s = SClosing -> rp s <> RLoop -> get_c s h = Some CInMgr ->
  let s' := run VLateDrop s tr in sp s' = SClosing /\ get_c s' h = Some CInMgr.
Proof.
  induction tr as [|l tr IH]; intros s h N1 N2 S R G; [split; assumption|].
  cbn. destruct (blocked_step s l h) as (S'&R'&G'); auto.
  - intro X; apply N1; left; auto.
  - intro X; apply N2; left; auto.
  - apply IH; auto; intro X; [apply N1 | apply N2]; right; exact X.
Qed.

(* non-vacuity: such a state is reachable with the cause already recorded and the front channel closed *)
Definition tr_blocked : list label :=
  [LNewCall 1; LSendOk; LRecvFault; LRReport; LWRecv; LWStore; LWExit; LRExit; LSNotice; LSReport; LSClosedSeen; LSCloseFront].

Lemma blocked_witness : let s := run VLateDrop init tr_blocked in
  sp s = SClosing /\ rp s = RExited /\ get_c s 1 = Some CInMgr /\ reason s = Some CRecv /\ front_closed s = true.
Proof. vm_compute. repeat split. Qed.

(* ---------- AFTER the repair (VNow): nothing pending waits for the transport's close() ---------- *)
Definition live (c : cause) (h : handle) (s : state) : Prop :=
  cinv s /\ sp_closing_b (sp s) = true /\ rp s = RExited /\ reason s = Some c /\ front_closed s = true /\
  (get_c s h = Some CQueued \/ get_c s h = Some CInMgr \/ get_c s h = Some CReadErr \/ get_c s h = Some (CDone (OCause c))).

Lemma live_step c h s l : l <> LClientDrop -> live c h s -> live c h (step VNow s l).
Proof.
  intros NL (C & S & R & Rs & F & G).
  split; [apply cinv_step; exact C|].
  unfold step. destruct (enabled VNow s l) eqn:E; [|repeat split; assumption].
  assert (W : wp_after (wp s)) by (exact (proj1 (c_reason s C c Rs))).
  assert (GS : forall k x, N.eqb h k = false -> 
           (get_c (set_c s k x) h = Some CQueued \/ get_c (set_c s k x) h = Some CInMgr \/
            get_c (set_c s k x) h = Some CReadErr \/ get_c (set_c s k x) h = Some (CDone (OCause c)))).
  { intros k x X. rewrite get_set, X. exact G. }
  destruct l; try congruence; cbn [effect after_break old_order no_wait];
    unfold enabled, sender_let_go, sp_is_loop, rp_is_loop, sp_exited, rp_exited in E; cbn [early_drop] in E; rewrite ?R in E;
    try (destruct (sp s) eqn:Q; try discriminate S; try discriminate E).
  all: try solve [destruct (wp s); cbn in *; try contradiction; discriminate E].
  all: try solve [repeat match goal with |- context [match ?x with _ => _ end] => destruct x end;
                  unfold get_c in *; cbn; rewrite ?Q; cbn; repeat split; assumption].
  all: rewrite ?F; cbn [sp rp reason front_closed set_c set_callers]; rewrite ?Q; cbn [sp_closing_b].
  all: (split; [reflexivity|]); (split; [exact R|]); (split; [exact Rs|]); (split; [exact F|]).
  all: rewrite get_set; destruct (N.eqb h h0) eqn:X; [apply N.eqb_eq in X; subst h0 | exact G].
  all: rewrite ?Rs; tauto.
Qed.

Lemma live_run c h tr : forall s, ~ In LClientDrop tr -> live c h s -> live c h (run VNow s tr).
Proof.
  induction tr as [|l tr IH]; intros s N L; [exact L|].
  cbn. apply IH; [intro X; apply N; right; exact X|]. apply live_step; [intro X; apply N; left; auto | exact L].
Qed.

Lemma live_finish c h s : live c h s ->
  get_c (run VNow s [LCallerDropped h; LReadErr h]) h = Some (CDone (OCause c)).
Proof.
  intros (C & S & R & Rs & F & [G|[G|[G|G]]]).
  - eapply finish_pending; eauto.
  - eapply finish_pending; eauto.
  - eapply finish_pending; eauto.
  - cbn [run fold_left]. unfold step. cbn [enabled]. rewrite ?G; cbn [is_readerr andb]; rewrite ?G; cbn [is_readerr andb]; first [exact G | reflexivity].
Qed.

(* once the reason is recorded, the front channel closed and the read task gone, every caller that is queued,
   registered in the manager or inside read_error completes with that cause by its own two steps after ANY
   continuation in which the client is not dropped -- in particular those that never complete the transport's close() *)
Theorem pending_fail_without_transport_close : forall tr h c, let s := run VNow init tr in
  reason s = Some c -> front_closed s = true -> rp s = RExited ->
  (get_c s h = Some CQueued \/ get_c s h = Some CInMgr \/ get_c s h = Some CReadErr) ->
  forall tr', ~ In LClientDrop tr' ->
    let s' := run VNow s tr' in
    get_c (run VNow s' [LCallerDropped h; LReadErr h]) h = Some (CDone (OCause c)).
Proof.
  intros tr h c s Rs F R G tr' N s'. destruct (reach_inv tr) as [C _]. fold s in C.
  apply live_finish. apply live_run; [exact N|].
  assert (SC : sp_closing_b (sp s) = true).
  { pose proof (proj1 (c_front s C) F) as X. destruct (sp s); try contradiction; reflexivity. }
  unfold live. tauto.
Qed.

(* non-vacuity: the transport's close() never completes, the pending call still fails with the cause *)
Lemma no_wait_example :
  let s := run VNow init tr_blocked in
  sp s = SClosing /\ reason s = Some CRecv /\ get_c s 1 = Some CInMgr /\
  sp (run VNow s [LNewCall 2; LRecvFault; LCallerDropped 1; LReadErr 1]) = SClosing /\
  get_c (run VNow s [LNewCall 2; LRecvFault; LCallerDropped 1; LReadErr 1]) 1 = Some (CDone (OCause CRecv)).
Proof. vm_compute. repeat split. Qed.

(* ---------- the OLD send_task epilogue: close the front channel, close the transport, then report ---------- *)
Definition tr_old : list label := [LNewCall 1; LSendFault; LSCloseFront; LNewCall 2; LReadErr 2].

Lemma old_order_placeholder :
  get_c (run VOldOrder init tr_old) 2 = Some (CDone OPlaceholder) /\ h_recvend (run VOldOrder init tr_old) = false /\
  dropped (run VOldOrder init tr_old) = false /\
  front_closed (run VOldOrder init [LNewCall 1; LSendFault; LSCloseFront]) = true /\
  reason (run VOldOrder init [LNewCall 1; LSendFault; LSCloseFront]) = None.
Proof. vm_compute. repeat split. Qed.

(* the same schedule on the current code: the late call is merely queued, and fails with the cause *)
Lemma new_order_same_schedule :
  get_c (run VNow init tr_old) 2 = Some CQueued /\
  get_c (run VNow init (tr_old ++ [LSReport; LWRecv; LWStore; LWExit; LSClosedSeen; LSCloseFront; LRNotice; LRReport; LRExit;
                                    LSTransportClosed; LCallerDropped 2; LReadErr 2])) 2 = Some (CDone (OCause CSend)).
Proof. vm_compute. split; reflexivity. Qed.

(* ---------- the dead clean-exit branch of read_task would yield the placeholder ---------- *)
Definition tr_recvend : list label :=
  [LRecvEnd; LRReport; LWRecv; LWStore; LWExit; LSNotice; LSReport; LSClosedSeen; LSCloseFront; LNewCall 1; LReadErr 1].

Lemma recv_end_placeholder : get_c (run VNow init tr_recvend) 1 = Some (CDone OPlaceholder).
Proof. vm_compute. reflexivity. Qed.


(* ================= arithmetic of the frame handler: no overflow, no out-of-bounds ================= *)
Definition id_ok (i : id) : Prop := match i with IdNum n => n <= u64_max | _ => True end.
Definition elem_ok (x : inmsg) : Prop := match x with IResp r => id_ok (rs_id r) | _ => True end.

Lemma parse_text_wf t v : parse_text t = Some v -> wf v = true.
Proof.
  unfold parse_text. destruct (parse_value _ _ t) as [[v' r]|] eqn:E; [|discriminate].
  destruct (skip_ws r); [|discriminate]. intro H; inversion H; subst.
  apply parse_value_wf in E; [tauto | unfold depth_limit; lia].
Qed.

Lemma parse_id_ok t i : parse_id t = Some i -> id_ok i.
Proof.
  unfold parse_id. destruct (parse_text t) as [v|] eqn:E; [|discriminate].
  apply parse_text_wf in E. destruct v as [| |[n|n|l]| | |]; cbn; try discriminate; intro H; inversion H; subst; cbn; auto.
  cbn in E. apply N.leb_le. exact E.
Qed.

Lemma parse_response_members_ok m r : parse_response_members m = Some r -> id_ok (rs_id r).
Proof.
  unfold parse_response_members.
  destruct (field_of k_id m) as [|v|]; try discriminate.
  destruct (parse_id v) as [i|] eqn:E; [|discriminate]. apply parse_id_ok in E.
  repeat match goal with
  | |- match ?x with _ => _ end = Some _ -> _ => destruct x; try discriminate
  end; intro H; inversion H; subst; exact E.
Qed.

(* whatever the order in which the readers are tried *)
Lemma try_reader_ok rd t x : try_reader rd t = Some x -> elem_ok x.
Proof.
  destruct rd; cbn [try_reader].
  - destruct (parse_response t) as [r|] eqn:E; [|discriminate]. intro H; inversion H; subst. cbn.
    unfold parse_response in E. destruct (object_members t); [|discriminate].
    eapply parse_response_members_ok; exact E.
  - destruct (parse_sub_notif k_result t) as [[[? ?] ?]|]; [|discriminate]. intro H; inversion H; subst. exact I.
  - destruct (parse_sub_notif k_error t) as [[[? ?] ?]|]; [|discriminate]. intro H; inversion H; subst. exact I.
  - destruct (parse_notification t) as [[? ?]|]; [|discriminate]. intro H; inversion H; subst. exact I.
Qed.

Lemma classify_with_ok rs t : elem_ok (classify_with rs t).
Proof.
  induction rs as [|rd rs IH]; cbn [classify_with]; [exact I|].
  destruct (try_reader rd t) as [x|] eqn:E; [eapply try_reader_ok; exact E | exact IH].
Qed.

Lemma classify_elem_ok t : elem_ok (classify_elem t).
Proof. apply classify_with_ok. Qed.

Lemma classify_frame_ok raw ms : classify_frame raw = FArray ms -> Forall elem_ok ms.
Proof.
  rewrite classify_frame_now. destruct (drop_while is_ascii_ws raw) as [|c t]; [discriminate|].
  destruct (beqb c x7b); [discriminate|]. destruct (beqb c x5b); [|discriminate].
  destruct (raw_array raw) as [ts|]; [|discriminate]. intro H; inversion H; subst.
  apply Forall_forall. intros x Hx. apply in_map_iff in Hx as (t' & <- & _). apply classify_elem_ok.
Qed.

Lemma id_as_number_ok i n : id_ok i -> id_as_number i = Some n -> n <= u64_max.
Proof.
  destruct i as [|m|s]; cbn; [discriminate | intros H E; inversion E; subst; exact H |].
  intros _. destruct (match s with [] => s | c :: t => if beqb c x2b then t else s end) as [|c t]; [discriminate|].
  destruct (all_digits (c :: t)); [|discriminate].
  destruct (digits_val (c :: t) <=? u64_max) eqn:E; [|discriminate].
  intro H; inversion H; subst. apply N.leb_le. exact E.
Qed.

Definition rng_ok (r : option (N * N)) : Prop :=
  match r with Some (lo, hi) => lo <= hi /\ hi <= u64_max | None => True end.

Lemma array_loop_rng ms : forall s acc rng got s' rs rng' got',
  Forall elem_ok ms -> rng_ok rng ->
  array_loop s ms acc rng got = inl (s', rs, rng', got') -> rng_ok rng'.
Proof.
  induction ms as [|x ms IH]; intros s acc rng got s' rs rng' got' F R E.
  - cbn in E. inversion E; subst. exact R.
  - inversion F as [|? ? Fx Fms]; subst. cbn [array_loop] in E. destruct x.
    + destruct (id_as_number (rs_id r)) as [n|] eqn:En; [|discriminate].
      apply (id_as_number_ok _ _ Fx) in En.
      eapply IH; [exact Fms | | exact E].
      destruct rng as [[lo hi]|]; cbn in *; [|split; [apply N.le_refl | exact En]].
      destruct R as [R1 R2]. destruct (n <? lo) eqn:A, (hi <? n) eqn:B;
        try apply N.ltb_lt in A; try apply N.ltb_lt in B; try apply N.ltb_ge in A; try apply N.ltb_ge in B; lia.
    + eapply IH; eauto.
    + eapply IH; eauto.
    + eapply IH; eauto.
    + discriminate.
Qed.

Lemma frame_range_ok s raw lo hi : frame_range s (classify_frame raw) = Some (lo, hi) -> lo <= hi /\ hi <= u64_max.
Proof.
  unfold frame_range. destruct (classify_frame raw) as [|ms|] eqn:C; try discriminate.
  apply classify_frame_ok in C. rewrite array_run_now.
  destruct (array_loop s ms [] None false) as [[[[s' rs] [r|]] g]|[s' f]] eqn:E; cbn [loop_exit]; try discriminate.
  intro H; inversion H; subst. exact (array_loop_rng ms s [] None false _ _ _ _ C I E).
Qed.

(* handle_back computes `range.end + 1` exactly where range_end_now does *)
Lemma handle_back_range s fr lo hi : frame_range s fr = Some (lo, hi) ->
  exists s' rs, handle_back s fr =
    if hi =? u64_max then RFatal s' [] FNotPending else batch_response s' rs lo (hi + 1).
Proof.
  rewrite handle_back_now. unfold frame_range, handle_back_ref. destruct fr as [|ms|]; try discriminate.
  rewrite array_run_now.
  destruct (array_loop s ms [] None false) as [[[[s' rs] [[lo' hi']|]] g]|[s' f]]; cbn [loop_exit]; try discriminate.
  intro H; inversion H; subst. exists s', rs. reflexivity.
Qed.

Theorem range_end_no_overflow : forall s raw e,
  range_end_now s (classify_frame raw) = Some e -> e <= u64_max.
Proof.
  intros s raw e. unfold range_end_now.
  destruct (frame_range s (classify_frame raw)) as [[lo hi]|] eqn:E; [|discriminate].
  apply frame_range_ok in E as [_ E]. destruct (hi =? u64_max) eqn:X; [discriminate|].
  apply N.eqb_neq in X. intro H; inversion H; subst. unfold u64_max in *. lia.
Qed.

(* the slots of a batch result: `hi - lo` placeholders, each reply written at `id - lo` or ignored *)
Lemma set_nth_length {A} n (x : A) l : length (set_nth n x l) = length l.
Proof. revert n. induction l as [|y l IH]; intros [|n]; cbn; auto. Qed.

Theorem batch_slots : forall s rs lo hi s' o h filled,
  batch_response s rs lo hi = ROk s' o -> In (OComplete h (CBatch filled)) o -> length filled = N.to_nat (hi - lo).
Proof.
  intros s rs lo hi s' o h filled. unfold batch_response.
  destruct (alookup range_eqb (lo, hi) (batches (m s))) as [w|]; [|discriminate].
  intro H; inversion H; subst; clear H. unfold complete. destruct (alive s w); [|intros []].
  intros [H|[]]. inversion H; subst; clear H.
  assert (G : forall (l : list response) acc, length (fold_left (fun acc r =>
               match id_as_number (rs_id r) with Some n => set_nth (N.to_nat (n - lo)) r acc | None => acc end) l acc) = length acc).
  { induction l as [|r l IH]; intro acc; cbn; [reflexivity|]. rewrite IH.
    destruct (id_as_number (rs_id r)); [apply set_nth_length | reflexivity]. }
  rewrite G. apply repeat_length.
Qed.

(* the OLD code: `range.end += 1` unconditionally *)

Lemma old_overflow : range_end_old (ClientMgr.init false 4 4 false) (classify_frame overflow_frame) = Some 18446744073709551616
  /\ ~ (18446744073709551616 <= u64_max)
  /\ range_end_now (ClientMgr.init false 4 4 false) (classify_frame overflow_frame) = None
  /\ exists s', handle_back (ClientMgr.init false 4 4 false) (classify_frame overflow_frame) = RFatal s' [] FNotPending.
Proof.
  split; [vm_compute; reflexivity|]. split; [unfold u64_max; lia|]. split; [vm_compute; reflexivity|].
  eexists. vm_compute. reflexivity.
Qed.

(* ================= statements used by Props/C09.v ================= *)
Lemma pending_blocked_refuted :
  exists tr h, let s := run VLateDrop init tr in
    reason s = Some CRecv /\ front_closed s = true /\ rp s = RExited /\ get_c s h = Some CInMgr /\
    forall tr', ~ In LSTransportClosed tr' -> ~ In LClientDrop tr' -> get_c (run VLateDrop s tr') h = Some CInMgr.
Proof.
  exists tr_blocked, 1. destruct blocked_witness as (S & R & G & Rs & F). cbv zeta.
  repeat split; try assumption.
  intros tr' N1 N2. apply (blocked_run tr' _ 1 N1 N2 S); [rewrite R; discriminate | exact G].
Qed.

Lemma old_order_refuted :
  exists tr h, let s := run VOldOrder init tr in
    get_c s h = Some (CDone OPlaceholder) /\ h_recvend s = false /\ dropped s = false.
Proof. exists tr_old, 2. destruct old_order_placeholder as (A & B & C & _). cbv zeta. auto. Qed.

(* the reordering recognised as VNoWait (report, then drop the front receiver without awaiting close_tx.closed()) *)
Definition tr_nowait : list label := [LNewCall 1; LSendFault; LSReport; LSCloseFront; LNewCall 2; LReadErr 2].
Lemma no_wait_refuted :
  exists tr h, let s := run VNoWait init tr in
    get_c s h = Some (CDone OPlaceholder) /\ h_recvend s = false /\ dropped s = false /\ reason s = None.
Proof. exists tr_nowait, 2. vm_compute. repeat split. Qed.

Lemma recv_end_refuted : exists tr h, get_c (run VNow init tr) h = Some (CDone OPlaceholder).
Proof. exists tr_recvend, 1. exact recv_end_placeholder. Qed.

Lemma old_overflow_refuted :
  exists s raw e, range_end_old s (classify_frame raw) = Some e /\ ~ e <= u64_max /\
                  range_end_now s (classify_frame raw) = None.
Proof.
  exists (ClientMgr.init false 4 4 false), overflow_frame, 18446744073709551616.
  destruct old_overflow as (A & B & C & _). auto.
Qed.

Lemma fault_run_example :
  let s := run VNow init (tr_blocked ++ [LSTransportClosed; LCallerDropped 1; LReadErr 1; LOnDisc 2; LReadErr 2]) in
  all_exited s = true /\ get_c s 1 = Some (CDone (OCause CRecv)) /\ get_c s 2 = Some (CDone (OCause CRecv)) /\
  is_connected s = false /\ started (run VNow init [LRecvFault]) = true /\ mu (run VNow init [LRecvFault]) = 10%nat.
Proof. vm_compute. repeat split. Qed.

(* ================= ping / inactivity ================= *)

(* ---------- the ping layer is a refinement of the base protocol ---------- *)
Lemma pstep_base old p l : pb (pstep old p l) = run old (pb p) (base_of old p l).
Proof.
  unfold pstep, base_of. destruct (penabled old p l) eqn:E; [|reflexivity].
  destruct l as [l'|[|]| |stale]; cbn [peffect]; try reflexivity.
  unfold is_inactive. cbn [fst snd]. destruct (p_max _ <=? _); reflexivity.
Qed.

Lemma prun_base old tr : forall p, pb (prun old p tr) = run old (pb p) (base_trace old p tr).
Proof.
  induction tr as [|l tr IH]; intro p; [reflexivity|].
  cbn [prun fold_left base_trace]. change (fold_left (pstep old) tr (pstep old p l)) with (prun old (pstep old p l) tr).
  rewrite IH, pstep_base, run_app. reflexivity.
Qed.

Lemma prun_app old p a b : prun old p (a ++ b) = prun old (prun old p a) b.
Proof. unfold prun. apply fold_left_app. Qed.

Lemma pstep_max old p l : p_max (pstep old p l) = p_max p.
Proof.
  unfold pstep. destruct (penabled old p l); [|reflexivity].
  destruct l as [l'|[|]| |stale]; cbn [peffect]; try reflexivity.
  - destruct (is_received l'); reflexivity.
  - unfold is_inactive. destruct (_ <=? _); reflexivity.
Qed.

Lemma prun_max old tr : forall p, p_max (prun old p tr) = p_max p.
Proof. induction tr as [|l tr IH]; intro p; [reflexivity|]. cbn. unfold prun in IH. rewrite IH. apply pstep_max. Qed.

(* ---------- the count: cumulative, never reset ---------- *)
Definition tick_weight (old : variant) (p : pstate) (l : plabel) : N :=
  match l with LInactTick true => if penabled old p l then 1 else 0 | _ => 0 end.

Lemma pstep_count old p l : p_count (pstep old p l) = p_count p + tick_weight old p l.
Proof.
  unfold pstep, tick_weight. destruct (penabled old p l) eqn:E.
  - destruct l as [l'|[|]| |[|]]; cbn [peffect]; rewrite ?N.add_0_r; try reflexivity.
    + destruct (is_received l'); reflexivity.
    + unfold is_inactive. destruct (_ <=? _); reflexivity.
    + unfold is_inactive. destruct (_ <=? _); reflexivity.
  - destruct l as [l'|[|]| |[|]]; rewrite ?N.add_0_r; reflexivity.
Qed.

Lemma prun_count old tr : forall p, p_count (prun old p tr) = p_count p + stale_ticks old p tr.
Proof.
  induction tr as [|l tr IH]; intro p; [cbn; rewrite N.add_0_r; reflexivity|].
  cbn [prun fold_left stale_ticks]. change (fold_left (pstep old) tr (pstep old p l)) with (prun old (pstep old p l) tr).
  rewrite IH, pstep_count. unfold tick_weight. lia.
Qed.

Theorem inactivity_count_monotone : forall maxf tr l, let p := prun VNow (pinit maxf) tr in
  p_count p <= p_count (pstep VNow p l) /\
  p_count p = stale_ticks VNow (pinit maxf) tr /\
  p_max p = maxf /\
  (forall stale, penabled VNow p (LInactTick stale) = true ->
     let c := if stale then p_count p + 1 else p_count p in
     pb (pstep VNow p (LInactTick stale)) = if maxf <=? c then step VNow (pb p) LInactive else pb p).
Proof.
  intros maxf tr l p. split; [rewrite pstep_count; lia|].
  split; [unfold p; rewrite prun_count; reflexivity|].
  assert (M : p_max p = maxf) by (unfold p; rewrite prun_max; reflexivity).
  split; [exact M|].
  intros stale E. unfold pstep. rewrite E. cbn [peffect]. unfold is_inactive. cbn [set_active set_count p_max p_count].
  rewrite M. destruct stale; destruct (maxf <=? _); reflexivity.
Qed.

(* ---------- no stale tick, no inactivity cause ---------- *)
Definition rclean (r : res) : Prop := r <> Some CInactive.
Record clean (s : state) : Prop := {
  cl_sp : forall r, sp s = SReport r \/ sp s = OCloseFront r \/ sp s = OClosing r \/ sp s = OReport r -> rclean r;
  cl_rp : forall r, rp s = RReport r -> rclean r;
  cl_wp : forall r, wp s = WGot r -> rclean r;
  cl_slot : forall r, slot s = Some r -> rclean r;
  cl_first : forall r, h_first s = Some r -> rclean r;
  cl_reason : reason s <> Some CInactive
}.

Lemma clean_init : clean init.
Proof. constructor; cbn; intros; try discriminate; intuition discriminate. Qed.

Lemma clean_ext s s' : sp s' = sp s -> rp s' = rp s -> wp s' = wp s -> slot s' = slot s -> h_first s' = h_first s ->
  reason s' = reason s -> clean s -> clean s'.
Proof. intros P1 P2 P3 P4 P5 P6 []. constructor; rewrite ?P1, ?P2, ?P3, ?P4, ?P5, ?P6; assumption. Qed.

Lemma clean_push s r : clean s -> rclean r -> clean (push s r).
Proof.
  intros C R. unfold push. destruct (rx_closed s); [exact C|]. destruct C as [C1 C2 C3 C4 C5 C6].
  constructor; cbn; auto.
  - intros r' H. inversion H; subst. exact R.
  - intros r' H. destruct (h_first s) eqn:F; [apply C5; exact H | inversion H; subst; exact R].
Qed.

Lemma clean_step old s l : l <> LInactive -> clean s -> clean (step old s l).
Proof.
  intros NL C. unfold step. destruct (enabled old s l) eqn:E; [|exact C].
  destruct (pop_ctl s) as (P1&P2&P3&P4&P5&P6&P7&P8&P9&P10).
  assert (CP : clean (pop_to_mgr s)) by (apply (clean_ext s); auto).
  destruct l; try congruence; cbn [effect].
  all: try solve [apply (clean_ext s); auto; try (destruct (front_closed s); reflexivity)].
  all: try solve [destruct C as [C1 C2 C3 C4 C5 C6]; constructor; cbn; auto;
                  unfold after_break; destruct (old_order old); intros r H;
                  repeat (destruct H as [H|H]); try discriminate; inversion H; subst; unfold rclean; discriminate].
  all: try solve [destruct C as [C1 C2 C3 C4 C5 C6]; constructor; cbn; auto; intros r H; inversion H; subst; unfold rclean; discriminate].
  - (* LSendFault *) destruct CP as [C1 C2 C3 C4 C5 C6]. constructor; cbn; auto.
    unfold after_break; destruct (old_order old); intros r H;
      repeat (destruct H as [H|H]); try discriminate; inversion H; subst; unfold rclean; discriminate.
  - (* LSReport *) destruct (sp s) eqn:Q; try exact C.
    + assert (R : rclean r) by (apply (cl_sp s C); left; exact Q).
      pose proof (clean_push s r C R) as [C1 C2 C3 C4 C5 C6]. destruct (push_pcs s r) as (X1&X2&X3).
      constructor; cbn; auto. intros r' H. destruct (no_wait old); repeat (destruct H as [H|H]); discriminate.
    + assert (R : rclean r) by (apply (cl_sp s C); right; right; right; exact Q).
      pose proof (clean_push s r C R) as [C1 C2 C3 C4 C5 C6].
      constructor; cbn; auto. intros r' H. repeat (destruct H as [H|H]); discriminate.
  - (* LSCloseFront *) destruct C as [C1 C2 C3 C4 C5 C6]. destruct (sp s) eqn:Q; constructor; cbn; auto;
      intros r' H; repeat (destruct H as [H|H]); try discriminate.
    inversion H; subst. apply (C1 r'). right; left; reflexivity.
  - (* LSTransportClosed *) destruct C as [C1 C2 C3 C4 C5 C6]. destruct (sp s) eqn:Q; constructor; cbn; auto;
      intros r' H; repeat (destruct H as [H|H]); try discriminate.
    inversion H; subst. apply (C1 r'). right; right; left; reflexivity.
  - (* LRReport *) destruct (rp s) eqn:Q; try exact C.
    assert (R : rclean r) by (apply (cl_rp s C); exact Q).
    pose proof (clean_push s r C R) as [C1 C2 C3 C4 C5 C6].
    constructor; cbn; auto. intros r' H. discriminate.
  - (* LWRecv *) destruct (slot s) eqn:Q; [|exact C]. destruct C as [C1 C2 C3 C4 C5 C6]. constructor; cbn; auto.
    + intros r' H. inversion H; subst. apply C4. exact Q.
    + discriminate.
  - (* LWStore *) destruct C as [C1 C2 C3 C4 C5 C6]. destruct (wp s) as [|[c|]| |] eqn:Q; constructor; cbn; auto; try discriminate.
    intro H. inversion H; subst. apply (C3 (Some CInactive)); reflexivity.
Qed.

Lemma clean_run old tr : forall s, ~ In LInactive tr -> clean s -> clean (run old s tr).
Proof.
  induction tr as [|l tr IH]; intros s N C; [exact C|].
  cbn. apply IH; [intro X; apply N; right; exact X|]. apply clean_step; [intro X; apply N; left; auto | exact C].
Qed.

(* without a stale tick the count stays 0 and the inactivity arm never breaks *)
Lemma never_step old p l : 0 < p_max p -> tick_weight old p l = 0 -> p_count p = 0 -> clean (pb p) ->
  p_count (pstep old p l) = 0 /\ clean (pb (pstep old p l)).
Proof.
  intros M W Z C. split; [rewrite pstep_count, W, Z; reflexivity|].
  rewrite pstep_base. apply clean_run; [|exact C].
  unfold base_of. destruct (penabled old p l) eqn:E; [|intros []].
  destruct l as [l'|[|]| |[|]]; cbn [In]; try tauto.
  - intros [X|[]]. subst l'. discriminate E.
  - intros [X|[]]. discriminate X.
  - unfold tick_weight in W. rewrite E in W. discriminate W.
  - unfold is_inactive. cbn [snd set_active p_count p_max]. rewrite Z.
    destruct (p_max p <=? 0) eqn:L; [apply N.leb_le in L; lia | intros []].
Qed.

Lemma never_run old tr : forall p, 0 < p_max p -> stale_ticks old p tr = 0 -> p_count p = 0 -> clean (pb p) ->
  p_count (prun old p tr) = 0 /\ clean (pb (prun old p tr)).
Proof.
  induction tr as [|l tr IH]; intros p M S Z C; [split; assumption|].
  cbn [stale_ticks] in S. assert (W : tick_weight old p l = 0) by (unfold tick_weight; lia).
  assert (S' : stale_ticks old (pstep old p l) tr = 0) by lia.
  destruct (never_step old p l M W Z C) as [Z' C'].
  cbn [prun fold_left]. apply IH; auto. rewrite pstep_max. exact M.
Qed.

Lemma no_stale_label old tr : forall p, (forall l, In l tr -> l <> LInactTick true) -> stale_ticks old p tr = 0.
Proof.
  induction tr as [|l tr IH]; intros p H; [reflexivity|].
  cbn [stale_ticks]. rewrite IH; [|intros l' X; apply H; right; exact X].
  destruct l as [l'|[|]| |[|]]; try reflexivity. exfalso. apply (H (LInactTick true)); [left|]; reflexivity.
Qed.

Theorem active_never_inactive : forall maxf tr, 0 < maxf -> stale_ticks VNow (pinit maxf) tr = 0 ->
  let p := prun VNow (pinit maxf) tr in
  p_count p = 0 /\ reason (pb p) <> Some CInactive /\ h_first (pb p) <> Some (Some CInactive) /\
  rp (pb p) <> RReport (Some CInactive) /\
  forall h, get_c (pb p) h <> Some (CDone (OCause CInactive)).
Proof.
  intros maxf tr M S p.
  destruct (never_run VNow tr (pinit maxf) M S eq_refl clean_init) as [Z C]. fold p in Z, C.
  split; [exact Z|]. split; [exact (cl_reason _ C)|].
  split; [intro X; exact (cl_first _ C _ X eq_refl)|].
  split; [intro X; exact (cl_rp _ C _ X eq_refl)|].
  intros h G. unfold p in G, C. rewrite prun_base in G, C. cbn [pb pinit] in G, C.
  apply observed_cause_is_reason in G. destruct G as [G _]. exact (cl_reason _ C G).
Qed.

Theorem fresh_ticks_never_inactive : forall maxf tr, 0 < maxf -> (forall l, In l tr -> l <> LInactTick true) ->
  let p := prun VNow (pinit maxf) tr in
  p_count p = 0 /\ reason (pb p) <> Some CInactive /\ h_first (pb p) <> Some (Some CInactive) /\
  rp (pb p) <> RReport (Some CInactive) /\
  forall h, get_c (pb p) h <> Some (CDone (OCause CInactive)).
Proof. intros maxf tr M H. apply active_never_inactive; [exact M | apply no_stale_label; exact H]. Qed.

(* ---------- messages between the ticks: ticks on time + regular traffic ---------- *)
Lemma regular_no_stale old tr : forall p, regular old p tr -> stale_ticks old p tr = 0.
Proof.
  induction tr as [|l tr IH]; intros p R; [reflexivity|]. destruct R as [R1 R2].
  cbn [stale_ticks]. rewrite (IH _ R2).
  destruct l as [l'|[|]| |[|]]; try reflexivity.
  cbn [N.add]. destruct (penabled old p (LInactTick true)) eqn:E; [|reflexivity].
  destruct (R1 true eq_refl eq_refl) as [A T]. cbn in T. rewrite A in T. discriminate T.
Qed.

(* ---------- a connection that is up: nothing has been reported ---------- *)
Lemma quiet_step s l : started (step VNow s l) = false ->
  started s = false /\ h_first (step VNow s l) = h_first s /\ h_recvend (step VNow s l) = h_recvend s.
Proof.
  unfold step. destruct (enabled VNow s l) eqn:E; [|tauto].
  destruct (pop_ctl s) as (P1&P2&P3&P4&P5&P6&P7&P8&P9&P10).
  unfold started, sp_is_loop, rp_is_loop.
  destruct l; cbn [effect after_break old_order no_wait];
    cbn [sp rp wp dropped h_first h_recvend set_sp set_rp set_wp set_c set_callers set_fqueue set_dropped set_recvend
         set_rx_closed set_slot set_reason set_front_closed negb orb];
    rewrite ?P1, ?P2, ?P3, ?P8, ?P9, ?P10, ?orb_true_r; try (intro X; discriminate X); try tauto.
  all: enab E; rwq.
  all: try (intro X; discriminate X).
  all: repeat match goal with |- context [push ?s ?r] => destruct (push_pcs s r) as (X1&X2&X3); rewrite ?X1, ?X2, ?X3; clear X1 X2 X3 end.
  all: try (destruct r; cbn); try (destruct (front_closed s); cbn).
  all: rewrite ?orb_true_r; cbn [orb]; try (intro X; discriminate X); try tauto.
  all: intro X; apply orb_false_elim in X as [X _]; rewrite X; auto.
Qed.

Lemma quiet_run tr : forall s, started (run VNow s tr) = false ->
  started s = false /\ h_first (run VNow s tr) = h_first s /\ h_recvend (run VNow s tr) = h_recvend s.
Proof.
  induction tr as [|l tr IH]; intros s H; [auto|].
  cbn [run fold_left] in *. destruct (IH _ H) as (A & B & C). destruct (quiet_step s l A) as (A' & B' & C').
  unfold run in *. split; [exact A'|]. split; congruence.
Qed.

(* the control state of a connection that is up *)
Lemma up_state tr : let s := run VNow init tr in started s = false ->
  sp s = SLoop /\ rp s = RLoop /\ wp s = WWait /\ slot s = None /\ rx_closed s = false /\ reason s = None /\
  front_closed s = false /\ dropped s = false /\ h_first s = None /\ h_recvend s = false.
Proof.
  intros s St. destruct (quiet_run tr init St) as (_ & F & E). cbn in F, E. fold s in F, E.
  destruct (reach_inv tr) as [C _]. fold s in C.
  unfold started, sp_is_loop, rp_is_loop in St.
  destruct (sp s) eqn:S; try discriminate St. destruct (rp s) eqn:R; try discriminate St.
  destruct (wp s) eqn:W; try discriminate St. cbn in St.
  destruct C as [I1 I2 I3 I4 I5 I6 I7 I8 I9 I10 I11 I12 I13].
  assert (SL : slot s = None).
  { destruct (I11 W) as [[A _]|[r [_ B]]]; [exact A | congruence]. }
  assert (RX : rx_closed s = false).
  { destruct (rx_closed s); [|reflexivity]. destruct I4 as [A _]. specialize (A eq_refl). congruence. }
  assert (RS : reason s = None).
  { destruct (reason s) as [c|] eqn:Q; [|reflexivity]. destruct (I10 c eq_refl) as [A _]. rewrite W in A. contradiction. }
  assert (FC : front_closed s = false).
  { destruct (front_closed s); [|reflexivity]. destruct I2 as [A _]. specialize (A eq_refl). rewrite S in A. contradiction. }
  repeat split; auto.
Qed.

Lemma drive_is_run old slow f : forall s, exists tr, drive old slow f s = run old s tr.
Proof.
  induction f as [|f IH]; intro s; [exists []; reflexivity|].
  cbn [drive]. destruct (next_proto old slow s) as [l|]; [|exists []; reflexivity].
  destruct (IH (step old s l)) as [tr E]. exists (l :: tr). exact E.
Qed.

(* the inactivity arm breaks in a connection that is up: the protocol runs to its end with that cause *)
Lemma inactive_drive s : sp s = SLoop -> rp s = RLoop -> wp s = WWait -> slot s = None -> rx_closed s = false ->
  reason s = None -> front_closed s = false -> dropped s = false -> h_first s = None ->
  let s1 := step VNow s LInactive in
  let s2 := drive VNow false (mu s1) s1 in
  rp s1 = RReport (Some CInactive) /\ all_exited s2 = true /\ sp s2 = SExited /\ rp s2 = RExited /\
  reason s2 = Some CInactive /\ h_first s2 = Some (Some CInactive) /\ front_closed s2 = true /\ dropped s2 = false /\
  h_recvend s2 = h_recvend s /\ callers s2 = callers s /\ fqueue s2 = fqueue s.
Proof.
  destruct s; cbn [ClientShutdown.sp ClientShutdown.rp ClientShutdown.wp ClientShutdown.slot ClientShutdown.rx_closed
                   ClientShutdown.reason ClientShutdown.front_closed ClientShutdown.dropped ClientShutdown.h_first].
  intros; subst. cbv. repeat split; reflexivity.
Qed.

Theorem inactivity_fails_everything : forall maxf tr, let p := prun VNow (pinit maxf) tr in
  started (pb p) = false -> maxf <= p_count p + 1 ->
  let p1 := pstep VNow p (LInactTick true) in
  let s2 := drive VNow false (mu (pb p1)) (pb p1) in
  p_count p1 = p_count p + 1 /\ rp (pb p1) = RReport (Some CInactive) /\
  all_exited s2 = true /\ reason s2 = Some CInactive /\ h_first s2 = Some (Some CInactive) /\ is_connected s2 = false /\
  (forall h, get_c s2 h = get_c (pb p) h) /\
  forall h,
    match get_c (pb p) h with
    | Some (CDone OOk) => True                      (* answered while the connection was up *)
    | Some (CDone _) | Some CGone => False
    | Some _ => get_c (run VNow s2 [LCallerDropped h; LReadErr h]) h = Some (CDone (OCause CInactive))
    | None => get_c (run VNow s2 [LNewCall h; LReadErr h]) h = Some (CDone (OCause CInactive)) /\
              get_c (run VNow s2 [LOnDisc h; LReadErr h]) h = Some (CDone (OCause CInactive))
    end.
Proof.
  intros maxf tr p St Le p1 s2.
  assert (PB : pb p = run VNow init (base_trace VNow (pinit maxf) tr)) by (unfold p; rewrite prun_base; reflexivity).
  assert (M : p_max p = maxf) by (unfold p; rewrite prun_max; reflexivity).
  pose proof St as St'. rewrite PB in St'.
  destruct (up_state _ St') as (S & R & W & SL & RX & RS & FC & D & HF & HE). rewrite <- PB in *.
  assert (E : penabled VNow p (LInactTick true) = true).
  { cbn. unfold rp_is_loop. rewrite R, RX. reflexivity. }
  assert (P1 : pb p1 = step VNow (pb p) LInactive /\ p_count p1 = p_count p + 1).
  { unfold p1, pstep. rewrite E. cbn [peffect]. unfold is_inactive. cbn [set_active set_count p_max p_count].
    rewrite M. destruct (maxf <=? p_count p + 1) eqn:L; [split; reflexivity|]. apply N.leb_gt in L. lia. }
  destruct P1 as [P1 P1c].
  destruct (inactive_drive (pb p) S R W SL RX RS FC D HF) as (A1 & A2 & A3 & A4 & A5 & A6 & A7 & A8 & A9 & A10 & A11).
  cbv zeta in A1, A2, A3, A4, A5, A6, A7, A8, A9, A10, A11. rewrite <- P1 in *. fold s2 in A2, A3, A4, A5, A6, A7, A8, A9, A10, A11.
  split; [exact P1c|]. split; [exact A1|]. split; [exact A2|]. split; [exact A5|]. split; [exact A6|].
  split; [unfold is_connected; rewrite A7; reflexivity|].
  assert (GC : forall h, get_c s2 h = get_c (pb p) h) by (intro h; unfold get_c; rewrite A10; reflexivity).
  split; [exact GC|].
  (* s2 is reachable: the existing theorem applies *)
  destruct (drive_is_run VNow false (mu (pb p1)) (pb p1)) as [trd Ed]. fold s2 in Ed.
  assert (RS2 : s2 = run VNow init (base_trace VNow (pinit maxf) tr ++ LInactive :: trd)).
  { rewrite run_app, <- PB. cbn [run fold_left]. rewrite <- P1. exact Ed. }
  pose proof (all_pending_fail_with_cause (base_trace VNow (pinit maxf) tr ++ LInactive :: trd)) as AP.
  cbv zeta in AP. rewrite <- RS2 in AP. rewrite HE in A9.
  destruct (AP A3 A4 A8 A9) as (c & Rc & _ & _ & Hh). rewrite A5 in Rc. inversion Rc; subst c.
  intro h. specialize (Hh h). rewrite GC in Hh.
  destruct (get_c (pb p) h) as [[| | |[|c'|]|]|] eqn:G; auto.
  (* a caller cannot have seen a cause while the connection is up *)
  destruct (reach_inv (base_trace VNow (pinit maxf) tr)) as [_ K]. rewrite <- PB in K.
  pose proof (k_cause _ K h c' G). congruence.
Qed.

(* ---------- witnesses ---------- *)
Definition tr_ping_up : list plabel :=
  [LBase (LNewCall 1); LBase LSendOk; LPingTick true; LInactTick true; LPong; LInactTick false; LBase (LNewCall 2); LBase (LNewCall 3);
   LBase LSendOk; LBase (LAnswer 2)].

Lemma inactivity_example :
  let p := prun VNow (pinit 2) tr_ping_up in
  started (pb p) = false /\ p_count p = 1 /\ h_pings p = 1 /\
  let p1 := pstep VNow p (LInactTick true) in
  let s2 := drive VNow false (mu (pb p1)) (pb p1) in
  p_count p1 = 2 /\ all_exited s2 = true /\ reason s2 = Some CInactive /\
  get_c (run VNow s2 [LCallerDropped 1; LReadErr 1]) 1 = Some (CDone (OCause CInactive)) /\
  get_c s2 2 = Some (CDone OOk) /\
  get_c (run VNow s2 [LCallerDropped 3; LReadErr 3]) 3 = Some (CDone (OCause CInactive)) /\
  get_c (run VNow s2 [LOnDisc 4; LReadErr 4]) 4 = Some (CDone (OCause CInactive)) /\
  (* the failures are cumulative, not consecutive: a pong and a fresh tick in between did not reset the count *)
  stale_ticks VNow (pinit 2) (tr_ping_up ++ [LInactTick true]) = 2 /\
  (* with max_failures = 3 the same history leaves the connection up *)
  started (pb (prun VNow (pinit 3) (tr_ping_up ++ [LInactTick true]))) = false /\
  (* a failing ping is the send-fault path *)
  sp (pb (prun VNow (pinit 2) (tr_ping_up ++ [LBase LSendOk; LPingTick false]))) = SReport (Some CSend) /\
  (* the ping arm does not run while a front-end message is queued (biased select) *)
  penabled VNow (prun VNow (pinit 2) [LBase (LNewCall 1)]) (LPingTick true) = false.
Proof. vm_compute. repeat split. Qed.

Theorem regular_traffic_never_inactive : forall maxf tr, 0 < maxf -> regular VNow (pinit maxf) tr ->
  let p := prun VNow (pinit maxf) tr in
  p_count p = 0 /\ reason (pb p) <> Some CInactive /\ h_first (pb p) <> Some (Some CInactive) /\
  rp (pb p) <> RReport (Some CInactive) /\
  forall h, get_c (pb p) h <> Some (CDone (OCause CInactive)).
Proof. intros maxf tr M H. apply active_never_inactive; [exact M | apply regular_no_stale; exact H]. Qed.
