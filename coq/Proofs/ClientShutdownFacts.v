(* Proofs about Model/ClientShutdown.v (C09). *)
From JV Require Import Base.Bytes Base.Dec Model.Wire Model.ClientMgr Model.ClientShutdown.
Arguments N.add : simpl never.
Arguments N.sub : simpl never.
Arguments N.mul : simpl never.
Arguments N.ltb : simpl never.
Arguments N.leb : simpl never.
Arguments N.eqb : simpl never.

(* ---------- association-list lookups ---------- *)
Lemma alookup_aremove_same (h : N) (l : list (N * cpc)) : alookup N.eqb h (aremove N.eqb h l) = None.
Proof.
  induction l as [|[k v] l IH]; cbn; [reflexivity|].
  destruct (N.eqb h k) eqn:E; [exact IH|]. cbn. rewrite E. exact IH.
Qed.

Lemma alookup_aremove_other (h k : N) (l : list (N * cpc)) : N.eqb h k = false ->
  alookup N.eqb h (aremove N.eqb k l) = alookup N.eqb h l.
Proof.
  intro Hk. induction l as [|[k' v] l IH]; cbn; [reflexivity|].
  destruct (N.eqb k k') eqn:E.
  - apply N.eqb_eq in E. subst k'. rewrite Hk. exact IH.
  - cbn. destruct (N.eqb h k'); [reflexivity | exact IH].
Qed.

Lemma get_set_same s h c : get_c (set_c s h c) h = Some c.
Proof. unfold get_c, set_c, aset. cbn. rewrite N.eqb_refl. reflexivity. Qed.

Lemma get_set_other s h k c : N.eqb h k = false -> get_c (set_c s k c) h = get_c s h.
Proof. intro E. unfold get_c, set_c, aset. cbn. rewrite E. apply alookup_aremove_other. exact E. Qed.

Lemma get_set s h k c : get_c (set_c s k c) h = if N.eqb h k then Some c else get_c s h.
Proof.
  destruct (N.eqb h k) eqn:E.
  - apply N.eqb_eq in E. subst. apply get_set_same.
  - apply get_set_other. exact E.
Qed.

Lemma alookup_map_val (f : cpc -> cpc) h (l : list (N * cpc)) :
  alookup N.eqb h (map (fun hc => (fst hc, f (snd hc))) l) = option_map f (alookup N.eqb h l).
Proof.
  induction l as [|[k v] l IH]; cbn; [reflexivity|]. destruct (N.eqb h k); [reflexivity | exact IH].
Qed.

(* ---------- the invariant ---------- *)
Definition sp_new (x : spc) : Prop :=
  match x with OCloseFront _ | OClosing _ | OReport _ => False | _ => True end.
Definition sp_closing (x : spc) : Prop := match x with SClosing | SExited => True | _ => False end.
Definition sp_sawclosed (x : spc) : Prop := match x with SCloseFront | SClosing | SExited => True | _ => False end.
Definition sp_reported (x : spc) : Prop :=
  match x with SAwaitClosed | SCloseFront | SClosing | SExited => True | _ => False end.
Definition rp_reported (x : rpc) : Prop := match x with RExiting | RExited => True | _ => False end.
Definition wp_after (x : wpc) : Prop := match x with WStored | WExited => True | _ => False end.

(* the shutdown was not caused by an error: the client was dropped, or the (dead) clean-exit branch ran *)
Definition clean (s : state) : Prop := dropped s = true \/ h_recvend s = true.

Record inv (s : state) : Prop := {
  i_new : sp_new (sp s);
  i_front : front_closed s = true <-> sp_closing (sp s);
  i_sclosed : sp_sawclosed (sp s) -> rx_closed s = true;
  i_rx : rx_closed s = true <-> wp s = WExited;
  i_after : wp_after (wp s) -> reason s <> None \/ clean s;
  i_got : wp s = WGot None -> clean s;
  i_slot : slot s = Some None -> clean s;
  i_srep : sp s = SReport None -> rx_closed s = true \/ dropped s = true;
  i_rrep : rp s = RReport None -> rx_closed s = true \/ h_recvend s = true;
  i_reason : forall c, reason s = Some c -> wp_after (wp s) /\ h_first s = Some (Some c);
  i_wait : wp s = WWait -> (slot s = None /\ h_first s = None) \/ (exists r, slot s = Some r /\ h_first s = Some r);
  i_gotf : forall r, wp s = WGot r -> h_first s = Some r;
  i_past : wp s = WWait -> sp_reported (sp s) \/ rp_reported (rp s) -> slot s <> None;
  i_cause : forall h c, get_c s h = Some (CDone (OCause c)) -> reason s = Some c;
  i_ph : forall h, get_c s h = Some (CDone OPlaceholder) -> h_recvend s = true;
  i_drop : dropped s = true -> forall h c, get_c s h = Some c -> is_done c = true
}.

Lemma inv_init : inv init.
Proof.
  constructor; cbn; try tauto; try discriminate; try (intros; discriminate).
  - split; [discriminate | tauto].
  - split; discriminate.
Qed.

Ltac bool_norm :=
  repeat match goal with
  | H : _ && _ = true |- _ => apply andb_prop in H; destruct H
  | H : negb _ = true |- _ => apply negb_true_iff in H
  | H : _ || _ = true |- _ => apply orb_prop in H
  end.

Ltac fin := cbn in *; try tauto; try congruence; try discriminate;
  try solve [intuition (try congruence; try discriminate; eauto)].

(* push, destructed *)
Lemma push_cases s r :
  (rx_closed s = true /\ push s r = s) \/
  (rx_closed s = false /\
   push s r = set_first (set_slot s (Some r)) (match h_first s with None => Some r | x => x end)).
Proof. unfold push. destruct (rx_closed s); [left | right]; split; reflexivity. Qed.

Lemma get_c_set_sp s x h : get_c (set_sp s x) h = get_c s h. Proof. reflexivity. Qed.
Lemma get_c_set_rp s x h : get_c (set_rp s x) h = get_c s h. Proof. reflexivity. Qed.
Lemma get_c_set_wp s x h : get_c (set_wp s x) h = get_c s h. Proof. reflexivity. Qed.

Lemma get_c_pop s h c : get_c (pop_to_mgr s) h = Some c ->
  get_c s h = Some c \/ (c = CInMgr /\ get_c s h = Some CQueued).
Proof.
  unfold pop_to_mgr. destruct (fqueue s) as [|k q]; [tauto|].
  destruct (is_queued (get_c s k)) eqn:Q; [|cbn; tauto].
  rewrite get_set. change (get_c (set_fqueue s q) h) with (get_c s h).
  destruct (N.eqb h k) eqn:E; [|tauto].
  apply N.eqb_eq in E. subst k. intro H. inversion H. right. split; [reflexivity|].
  destruct (get_c s h) as [[]|]; try discriminate. reflexivity.
Qed.

Lemma pop_ctl s :
  sp (pop_to_mgr s) = sp s /\ rp (pop_to_mgr s) = rp s /\ wp (pop_to_mgr s) = wp s /\ slot (pop_to_mgr s) = slot s /\
  rx_closed (pop_to_mgr s) = rx_closed s /\ reason (pop_to_mgr s) = reason s /\
  front_closed (pop_to_mgr s) = front_closed s /\ dropped (pop_to_mgr s) = dropped s /\
  h_recvend (pop_to_mgr s) = h_recvend s /\ h_first (pop_to_mgr s) = h_first s.
Proof.
  unfold pop_to_mgr. destruct (fqueue s); [tauto|]. destruct (is_queued _); cbn; tauto.
Qed.
