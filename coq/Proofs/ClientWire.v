(* Byte-level end of the client theorems: what the server *sends* (the serialisation of a response / subscription
   notification) is classified by the client exactly as that message, and a correct answer to a pending call
   completes it with exactly that response (the "if" direction of C03_routing, down to the bytes on the wire). *)
From JV Require Import Base.Bytes Base.Dec Base.Utf8 Json.Json Json.JsonSer Json.JsonParse Json.JsonWf
  Model.Wire Model.ClientMgr Proofs.JsonFacts Proofs.WireFacts.
From JV Require Import Proofs.ClientDispatchFacts Proofs.ClientReadersSingle.

Definition wf_response (r : response) : Prop := wf_id (rs_id r) /\ wf_payload (rs_payload r).

Lemma drop_ws_object ms : exists tl, drop_while is_ascii_ws (ser_object ms) = x7b :: tl.
Proof. unfold ser_object. cbn [drop_while is_ascii_ws]. eexists; reflexivity. Qed.

Lemma classify_frame_object ms :
  classify_frame (ser_object ms) = FSingle (classify_single (ser_object ms)).
Proof.
  rewrite classify_frame_now. destruct (drop_ws_object ms) as [tl ->].
  cbn [beqb]. rewrite byte_eqb_refl. reflexivity.
Qed.

Lemma classify_frame_of_object t ms : t = ser_object ms -> classify_frame t = FSingle (classify_single t).
Proof. intros ->. apply classify_frame_object. Qed.

Theorem classify_frame_response r :
  wf_response r -> classify_frame (ser_response r) = FSingle (IResp r).
Proof.
  intros [Hi Hp]. rewrite (classify_frame_of_object _ _ (ser_response_eq r)).
  rewrite classify_single_now. rewrite (response_roundtrip r Hi Hp). reflexivity.
Qed.

(* a subscription notification is not a response: it has no id member *)
Lemma sub_notif_not_response me sid is_err raw :
  utf8_valid me = true -> wf_subid sid -> raw_payload raw ->
  parse_response (ser_sub_notif me sid is_err raw) = None.
Proof.
  intros Hm Hs Hr. unfold parse_response. rewrite ser_sub_notif_eq.
  rewrite object_members_ser by (apply sub_notif_members_ok; assumption).
  unfold sub_notif_members, parse_response_members. reflexivity.
Qed.

Theorem classify_frame_sub_notif me sid raw :
  utf8_valid me = true -> wf_subid sid -> raw_payload raw ->
  classify_frame (ser_sub_notif me sid false raw) = FSingle (ISubNotif me sid raw).
Proof.
  intros Hm Hs Hr. rewrite (classify_frame_of_object _ _ (ser_sub_notif_eq me sid false raw)).
  rewrite classify_single_now. rewrite (sub_notif_not_response me sid false raw Hm Hs Hr).
  pose proof (sub_notif_roundtrip me sid false raw Hm Hs Hr) as R.
  change (parse_sub_notif k_result (ser_sub_notif me sid false raw) = Some (me, sid, raw)) in R.
  rewrite R. reflexivity.
Qed.

Theorem classify_frame_sub_close me sid raw :
  utf8_valid me = true -> wf_subid sid -> raw_payload raw ->
  classify_frame (ser_sub_notif me sid true raw) = FSingle (ISubErr me sid raw).
Proof.
  intros Hm Hs Hr. rewrite (classify_frame_of_object _ _ (ser_sub_notif_eq me sid true raw)).
  rewrite classify_single_now. rewrite (sub_notif_not_response me sid true raw Hm Hs Hr).
  pose proof (sub_notif_kind_distinguished me sid true raw Hm Hs Hr) as D.
  change (parse_sub_notif k_result (ser_sub_notif me sid true raw) = None) in D. rewrite D.
  pose proof (sub_notif_roundtrip me sid true raw Hm Hs Hr) as R.
  change (parse_sub_notif k_error (ser_sub_notif me sid true raw) = Some (me, sid, raw)) in R.
  rewrite R. reflexivity.
Qed.

(* the "if" direction of routing, on bytes: a pending, still awaited call is completed by the serialisation of any
   well-formed response bearing its id, with exactly that response *)
Theorem answer_completes_call s h r :
  dead s = false -> dying s = None -> wf_response r ->
  req_lookup (rs_id r) (m s) = Some (KCall (Some h)) -> alive s h = true ->
  In (OComplete h (CResp r)) (snd (fst (step s (Back (ser_response r))))).
Proof.
  intros Hd Hy Hw Hl Ha. unfold step.
  assert (E : apply s (Back (ser_response r)) =
              (upd_unacked (upd_m s (set_requests (m s) (aremove id_eqb (rs_id r) (requests (m s)))))
                 (filter (fun u => negb (id_eqb (rs_id r) u))
                    (unacked (upd_m s (set_requests (m s) (aremove id_eqb (rs_id r) (requests (m s))))))),
               [OComplete h (CResp r)], None)).
  { unfold apply. rewrite Hd, Hy, (classify_frame_response r Hw).
    rewrite ?handle_back_now; cbn [handle_back_ref handle_elem_single_ref]. unfold single_response. rewrite Hl.
    unfold complete. rewrite Ha. reflexivity. }
  rewrite E. destruct (settle _) as [s2 o2]. cbn [fst snd]. apply in_or_app. left. left. reflexivity.
Qed.
