(* Byte-level classification of the ELEMENTS of an array: what the server sends inside a JSON array (the serialisation
   of a response / subscription notification / closing notification) is read by the loop of handle_recv_message as
   exactly that message.  Rests on the ORDER of the readers of the loop as read from the source
   (Proofs/ClientReadersElem.v); the whole-message counterparts are in Proofs/ClientWire.v. *)
From JV Require Import Base.Bytes Base.Dec Base.Utf8 Json.Json Json.JsonSer Json.JsonParse Json.JsonWf
  Model.Wire Model.ClientMgr Proofs.JsonFacts Proofs.WireFacts Proofs.ClientWire Proofs.ClientReadersElem.

Theorem classify_elem_response r : wf_response r -> classify_elem (ser_response r) = IResp r.
Proof. intros [Hi Hp]. rewrite classify_elem_now. rewrite (response_roundtrip r Hi Hp). reflexivity. Qed.

Theorem classify_elem_sub_notif me sid raw :
  utf8_valid me = true -> wf_subid sid -> raw_payload raw ->
  classify_elem (ser_sub_notif me sid false raw) = ISubNotif me sid raw.
Proof.
  intros Hm Hs Hr.
  rewrite classify_elem_now. rewrite (sub_notif_not_response me sid false raw Hm Hs Hr).
  pose proof (sub_notif_roundtrip me sid false raw Hm Hs Hr) as R.
  change (parse_sub_notif k_result (ser_sub_notif me sid false raw) = Some (me, sid, raw)) in R.
  rewrite R. reflexivity.
Qed.

Theorem classify_elem_sub_close me sid raw :
  utf8_valid me = true -> wf_subid sid -> raw_payload raw ->
  classify_elem (ser_sub_notif me sid true raw) = ISubErr me sid raw.
Proof.
  intros Hm Hs Hr.
  rewrite classify_elem_now. rewrite (sub_notif_not_response me sid true raw Hm Hs Hr).
  pose proof (sub_notif_kind_distinguished me sid true raw Hm Hs Hr) as D.
  change (parse_sub_notif k_result (ser_sub_notif me sid true raw) = None) in D. rewrite D.
  pose proof (sub_notif_roundtrip me sid true raw Hm Hs Hr) as R.
  change (parse_sub_notif k_error (ser_sub_notif me sid true raw) = Some (me, sid, raw)) in R.
  rewrite R. reflexivity.
Qed.
