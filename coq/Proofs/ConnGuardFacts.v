(* C11: facts about Model/ConnGuard.v.  The central invariant ties the semaphore counter to the phases:
     s_avail s + served s = c_max (s_cfg s)
   on every state of every trace. *)
From Coq Require Import List NArith Bool Lia Arith.
From JV Require Import Gen.ConnGuardGen Model.ConnGuard.
Import ListNotations.
Local Open Scope N_scope.
Arguments N.add : simpl never.
Arguments N.sub : simpl never.
Arguments N.mul : simpl never.
Arguments N.ltb : simpl never.
Arguments N.leb : simpl never.
Arguments N.eqb : simpl never.

Definition b2n (b : bool) : N := if b then 1 else 0.

(* ---------- lists ---------- *)
Lemma nth_upd_same : forall l i f, nth_error (upd l i f) i = option_map f (nth_error l i).
Proof. induction l as [|a t IH]; intros [|i] f; cbn; auto. Qed.

Lemma nth_upd_other : forall l i j f, i <> j -> nth_error (upd l i f) j = nth_error l j.
Proof.
  induction l as [|a t IH]; intros [|i] [|j] f H; cbn; auto; try congruence.
Qed.

Lemma upd_length : forall l i f, length (upd l i f) = length l.
Proof. induction l as [|a t IH]; intros [|i] f; cbn; auto. Qed.

Lemma count_app : forall l a, count_holding (l ++ [a]) = count_holding l + b2n (holding (a_phase a)).
Proof. induction l as [|x t IH]; intro a; cbn; [unfold b2n; destruct (holding _); lia | rewrite IH; lia]. Qed.

Lemma count_app2 : forall l m, count_holding (l ++ m) = count_holding l + count_holding m.
Proof. induction l as [|x t IH]; intro m; cbn; [lia | rewrite IH; lia]. Qed.

Lemma count_upd : forall l i f x, nth_error l i = Some x ->
  count_holding (upd l i f) + b2n (holding (a_phase x)) = count_holding l + b2n (holding (a_phase (f x))).
Proof.
  induction l as [|a t IH]; intros [|i] f x H; cbn in *; try discriminate.
  - injection H as ->. unfold b2n. destruct (holding (a_phase x)), (holding (a_phase (f x))); lia.
  - specialize (IH i f x H). lia.
Qed.

Lemma total_upd_same : forall l i f, (forall x, a_handlers (f x) = a_handlers x) -> total_handlers (upd l i f) = total_handlers l.
Proof. induction l as [|a t IH]; intros [|i] f H; cbn; auto. - now rewrite H. - now rewrite IH. Qed.

(* ---------- one step ---------- *)
Definition inv (s : state) : Prop := s_avail s + served s = c_max (s_cfg s).

Lemma keep_served : forall s i f x, get s i = Some x -> holding (a_phase (f x)) = holding (a_phase x) ->
  served (keep s i f) = served s /\ s_avail (keep s i f) = s_avail s /\ s_cfg (keep s i f) = s_cfg s.
Proof.
  intros s i f x G H. unfold served, keep; cbn. pose proof (count_upd (s_att s) i f x G) as C. rewrite H in C.
  repeat split. lia.
Qed.

Lemma release_served : forall s i f x, get s i = Some x -> holding (a_phase x) = true -> holding (a_phase (f x)) = false ->
  served (release s i f) + 1 = served s /\ s_avail (release s i f) = s_avail s + 1 /\ s_cfg (release s i f) = s_cfg s.
Proof.
  intros s i f x G H1 H2. unfold served, release; cbn. pose proof (count_upd (s_att s) i f x G) as C.
  rewrite H1, H2 in C. cbn in C. repeat split. lia.
Qed.

(* case analysis of `step` shared by most proofs: afterwards every goal mentions either s itself, an Acquire
   result, or `keep s i f` / `release s i f` with the phase of the touched attempt known *)
Ltac step_cases s a :=
  destruct a as [k | i | i | i | i | i ok | i | i c0 | i | i]; unfold step;
  [ destruct (N.eqb_spec (s_avail s) 0)
  | destruct (get s i) as [x|] eqn:G; [destruct (a_phase x) eqn:P; try (destruct (c_ws (s_cfg s) && is_upgrade (a_kind x)); [destruct (a_kind x) eqn:K | destruct (c_http (s_cfg s) && negb (is_upgrade (a_kind x)))]) |]
  | destruct (get s i) as [x|] eqn:G; [destruct (a_phase x) eqn:P; destruct (a_kind x) eqn:K |]
  | destruct (get s i) as [x|] eqn:G; [destruct (a_phase x) eqn:P |]
  | destruct (get s i) as [x|] eqn:G; [destruct (a_phase x) eqn:P |]
  | destruct (get s i) as [x|] eqn:G; [destruct (a_phase x) eqn:P; try destruct ok |]
  | destruct (get s i) as [x|] eqn:G; [destruct (a_phase x) eqn:P; destruct (N.eqb_spec (a_pending x) 0) as [Z|Z] |]
  | destruct (get s i) as [x|] eqn:G; [destruct (a_phase x) eqn:P |]
  | destruct (get s i) as [x|] eqn:G; [destruct (a_phase x) as [| | | | c1 |] eqn:P; try destruct (shutdown_blocked c1 x) |]
  | destruct (get s i) as [x|] eqn:G; [destruct (a_phase x) eqn:P |] ].

Lemma step_cfg : forall s a, s_cfg (step s a) = s_cfg s.
Proof. intros s a. step_cases s a; reflexivity. Qed.

Lemma step_inv : forall s a, inv s -> inv (step s a).
Proof.
  intros s a I. unfold inv in *.
  step_cases s a; try exact I;
    try (match goal with
         | |- context [keep s ?i ?f] =>
             destruct (keep_served s i f x G) as (A & B & C); [cbn; rewrite P; reflexivity | rewrite A, B, C; exact I]
         | |- context [release s ?i ?f] =>
             destruct (release_served s i f x G) as (A & B & C); [rewrite P; reflexivity | reflexivity | rewrite B, C; lia]
         end).
  - (* refused *) unfold served in *; cbn. rewrite count_app. cbn. lia.
  - (* acquired *) unfold served in *; cbn. rewrite count_app. cbn. lia.
Qed.

Lemma init_inv : forall c, inv (init c).
Proof. intro c. unfold inv, served; cbn. lia. Qed.

Lemma run_from_inv : forall tr s, inv s -> inv (run_from s tr).
Proof. induction tr as [|a t IH]; intros s I; [exact I | apply (IH (step s a)), step_inv, I]. Qed.

Lemma run_from_cfg : forall tr s, s_cfg (run_from s tr) = s_cfg s.
Proof. induction tr as [|a t IH]; intros s; [reflexivity |]. change (run_from s (a :: t)) with (run_from (step s a) t). rewrite IH. apply step_cfg. Qed.

Lemma run_inv : forall c tr, inv (run c tr).
Proof. intros. apply run_from_inv, init_inv. Qed.

Lemma run_cfg : forall c tr, s_cfg (run c tr) = c.
Proof. intros. unfold run. now rewrite run_from_cfg. Qed.

Lemma run_from_app : forall t1 t2 s, run_from s (t1 ++ t2) = run_from (run_from s t1) t2.
Proof. intros. unfold run_from. apply fold_left_app. Qed.

(* ---------- C11_bound ---------- *)
Lemma states_from_inv : forall tr s, inv s -> Forall inv (states_from s tr).
Proof.
  induction tr as [|a t IH]; intros s I; cbn; constructor; auto. apply IH, step_inv, I.
Qed.

Lemma states_from_cfg : forall tr s, Forall (fun s' => s_cfg s' = s_cfg s) (states_from s tr).
Proof.
  induction tr as [|a t IH]; intros s; cbn; constructor; auto.
  eapply Forall_impl; [| apply IH]. cbn. intros s' H. now rewrite H, step_cfg.
Qed.

Lemma bound_all_states : forall c tr, Forall (fun s => served s <= c_max c) (trace_states c tr).
Proof.
  intros c tr. unfold trace_states.
  pose proof (states_from_inv tr (init c) (init_inv c)) as A.
  pose proof (states_from_cfg tr (init c)) as B.
  rewrite Forall_forall in *. intros s H. specialize (A s H). specialize (B s H). unfold inv in A. cbn in B.
  rewrite B in A. lia.
Qed.

Lemma counter_exact_all_states : forall c tr, Forall (fun s => s_avail s + served s = c_max c) (trace_states c tr).
Proof.
  intros c tr. unfold trace_states.
  pose proof (states_from_inv tr (init c) (init_inv c)) as A.
  pose proof (states_from_cfg tr (init c)) as B.
  rewrite Forall_forall in *. intros s H. specialize (A s H). specialize (B s H). unfold inv in A. cbn in B.
  now rewrite B in A.
Qed.

Lemma last_state_in : forall tr s, In (run_from s tr) (states_from s tr).
Proof. induction tr as [|a t IH]; intro s; [left; reflexivity | right; apply (IH (step s a))]. Qed.

Lemma states_cover_run : forall c tr, In (run c tr) (trace_states c tr).
Proof. intros. apply last_state_in. Qed.

Lemma bound_run : forall c tr, served (run c tr) <= c_max c.
Proof. intros. pose proof (run_inv c tr) as I. unfold inv in I. rewrite run_cfg in I. lia. Qed.

(* ---------- refusal ---------- *)
Lemma get_app_new : forall s a, nth_error (s_att s ++ [a]) (length (s_att s)) = Some a.
Proof. intros. rewrite nth_error_app2, Nat.sub_diag; auto. Qed.

Lemma refused_iff_full : forall c tr k,
  refused (step (run c tr) (Acquire k)) (length (s_att (run c tr))) = true <-> served (run c tr) = c_max c.
Proof.
  intros c tr k. pose proof (run_inv c tr) as I. unfold inv in I. rewrite run_cfg in I.
  set (s := run c tr) in *. unfold refused, get, step.
  destruct (N.eqb_spec (s_avail s) 0) as [E|E]; cbn [s_att]; rewrite get_app_new; cbn.
  - split; [intros _; lia | reflexivity].
  - split; [discriminate | intro; lia].
Qed.

(* what a refused attempt looks like, in any reachable state *)
Definition refused_ok (s : state) : Prop :=
  forall i x, get s i = Some x -> a_status x = status_refused -> a_phase x = PDone /\ a_handlers x = 0 /\ a_pending x = 0.

Lemma get_keep : forall s i f j, get (keep s i f) j = if Nat.eqb i j then option_map f (get s i) else get s j.
Proof.
  intros. unfold get, keep; cbn. destruct (Nat.eqb_spec i j) as [->|N]; [apply nth_upd_same | now apply nth_upd_other].
Qed.
Lemma get_release : forall s i f j, get (release s i f) j = if Nat.eqb i j then option_map f (get s i) else get s j.
Proof.
  intros. unfold get, release; cbn. destruct (Nat.eqb_spec i j) as [->|N]; [apply nth_upd_same | now apply nth_upd_other].
Qed.

Lemma get_acquire : forall (l : list attempt) a j x, nth_error (l ++ [a]) j = Some x ->
  (nth_error l j = Some x) \/ (j = length l /\ x = a).
Proof.
  intros l a j x H. destruct (Nat.lt_ge_cases j (length l)) as [L|L].
  - rewrite nth_error_app1 in H by exact L. now left.
  - rewrite nth_error_app2 in H by exact L. destruct (j - length l)%nat eqn:E; cbn in H.
    + injection H as <-. right. split; [lia | reflexivity].
    + destruct n; discriminate.
Qed.

Ltac upd_goal G P :=
  match goal with
  | H : get (keep _ ?i _) ?j = Some _ |- _ => rewrite get_keep in H; destruct (Nat.eqb_spec i j) as [<-|]; [rewrite G in H; cbn in H; injection H as <- |]
  | H : get (release _ ?i _) ?j = Some _ |- _ => rewrite get_release in H; destruct (Nat.eqb_spec i j) as [<-|]; [rewrite G in H; cbn in H; injection H as <- |]
  end.

Lemma step_refused_ok : forall s a, refused_ok s -> refused_ok (step s a).
Proof.
  intros s a R. unfold refused_ok in *.
  step_cases s a; try exact R; intros j y Gy Sy;
    try (upd_goal G P; [ cbn in Sy |- *; try discriminate Sy; try (destruct (a_kind x); discriminate Sy); try (destruct (R _ _ G Sy) as (Q & _ & Q2); congruence) | eauto ]).
  - unfold get in Gy; cbn in Gy. apply get_acquire in Gy as [Gy | [_ ->]]; [eauto | cbn; auto].
  - unfold get in Gy; cbn in Gy. apply get_acquire in Gy as [Gy | [_ ->]]; [eauto | cbn in Sy; discriminate].
Qed.

Lemma run_from_refused_ok : forall tr s, refused_ok s -> refused_ok (run_from s tr).
Proof. induction tr as [|a t IH]; intros s R; [exact R | apply (IH (step s a)), step_refused_ok, R]. Qed.

Lemma run_refused_ok : forall c tr, refused_ok (run c tr).
Proof. intros. apply run_from_refused_ok. intros i x H. unfold get in H; cbn in H. destruct i; discriminate. Qed.

(* an attempt that exists with a status other than 429 never becomes a refused one *)
Lemma step_status_stable : forall s a i x, get s i = Some x -> a_status x <> status_refused ->
  exists y, get (step s a) i = Some y /\ a_status y <> status_refused.
Proof.
  intros s a j x0 G0 S0.
  assert (L : (j < length (s_att s))%nat) by (apply nth_error_Some; unfold get in G0; congruence).
  step_cases s a; try (exists x0; split; [exact G0 | exact S0]);
    try (match goal with
         | |- context [keep s ?i ?f] => rewrite get_keep
         | |- context [release s ?i ?f] => rewrite get_release
         end;
         match goal with |- context [Nat.eqb ?i j] => destruct (Nat.eqb_spec i j) as [->|] end;
         [ rewrite G0; cbn; eexists; split; [reflexivity |]; cbn; rewrite G0 in G; injection G as <-;
           first [exact S0 | discriminate | destruct (a_kind x0); discriminate | destruct (a_kind x); discriminate]
         | exists x0; split; [exact G0 | exact S0] ]).
  - exists x0. split; [| exact S0]. unfold get; cbn. rewrite nth_error_app1; auto.
  - exists x0. split; [| exact S0]. unfold get; cbn. rewrite nth_error_app1; auto.
Qed.

Lemma run_from_status_stable : forall tr s i x, get s i = Some x -> a_status x <> status_refused ->
  exists y, get (run_from s tr) i = Some y /\ a_status y <> status_refused.
Proof.
  induction tr as [|a t IH]; intros s i x G S; cbn; [eauto |].
  destruct (step_status_stable s a i x G S) as (y & Gy & Sy). eauto.
Qed.

Lemma refused_no_handler : forall c tr i, refused (run c tr) i = true ->
  handlers_of (run c tr) i = 0 /\ holds (run c tr) i = false /\ forall n, holds (run c (firstn n tr)) i = false.
Proof.
  intros c tr i R. unfold refused in R. destruct (get (run c tr) i) as [x|] eqn:G; [| discriminate].
  apply N.eqb_eq in R. destruct (run_refused_ok c tr i x G R) as (P & H & _).
  unfold handlers_of, holds. rewrite G, P. repeat split; auto.
  intro n. unfold holds. destruct (get (run c (firstn n tr)) i) as [y|] eqn:Gy; [| reflexivity].
  destruct (holding (a_phase y)) eqn:Hy; [exfalso | reflexivity].
  assert (Sy : a_status y <> status_refused).
  { intro E. destruct (run_refused_ok c (firstn n tr) i y Gy E) as (Q & _). rewrite Q in Hy. discriminate. }
  destruct (run_from_status_stable (skipn n tr) _ i y Gy Sy) as (z & Gz & Sz).
  unfold run in *. rewrite <- run_from_app, firstn_skipn in Gz. rewrite G in Gz. injection Gz as <-. contradiction.
Qed.

(* ---------- no leak ---------- *)
Lemma terminated_served0 : forall l, forallb (fun x => negb (holding (a_phase x))) l = true -> count_holding l = 0.
Proof.
  induction l as [|a t IH]; cbn; auto. intro H. apply andb_true_iff in H as [A B]. rewrite (IH B).
  destruct (holding (a_phase a)); [discriminate | reflexivity].
Qed.

Lemma no_leak : forall c tr, all_terminated (run c tr) = true -> s_avail (run c tr) = c_max c.
Proof.
  intros c tr T. pose proof (run_inv c tr) as I. unfold inv, served in I. rewrite run_cfg in I.
  unfold all_terminated in T. rewrite (terminated_served0 _ T) in I. lia.
Qed.

Definition fresh (k : kind) : attempt := {| a_kind := k; a_phase := PCall; a_status := 0; a_handlers := 0; a_pending := 0 |}.

Lemma acquire_many : forall ks s, N.of_nat (length ks) <= s_avail s ->
  s_avail (run_from s (map Acquire ks)) = s_avail s - N.of_nat (length ks) /\
  s_att (run_from s (map Acquire ks)) = s_att s ++ map fresh ks.
Proof.
  induction ks as [|k t IH]; intros s H.
  - cbn. rewrite app_nil_r. split; [lia | reflexivity].
  - cbn [map run_from fold_left]. cbn [length] in H.
    assert (E : step s (Acquire k) = {| s_cfg := s_cfg s; s_avail := s_avail s - 1; s_att := s_att s ++ [fresh k] |}).
    { unfold step. destruct (N.eqb_spec (s_avail s) 0); [lia | reflexivity]. }
    fold (run_from (step s (Acquire k)) (map Acquire t)). rewrite E.
    destruct (IH {| s_cfg := s_cfg s; s_avail := s_avail s - 1; s_att := s_att s ++ [fresh k] |}) as [A B]; [cbn; lia |].
    rewrite A, B. cbn [s_avail s_att length]. split; [lia | now rewrite <- app_assoc].
Qed.

Lemma limit_reachable_again : forall c tr ks k, all_terminated (run c tr) = true -> length ks = N.to_nat (c_max c) ->
  let s := run c tr in
  let s' := run c (tr ++ map Acquire ks) in
  served s = 0 /\ served s' = c_max c
  /\ (forall j, (j < length ks)%nat -> holds s' (length (s_att s) + j) = true /\ refused s' (length (s_att s) + j) = false)
  /\ refused (step s' (Acquire k)) (length (s_att s')) = true.
Proof.
  intros c tr ks k T L s s'.
  assert (A : s_avail s = c_max c) by (apply no_leak; exact T).
  assert (S0 : served s = 0) by (apply terminated_served0; exact T).
  assert (E : s' = run_from s (map Acquire ks)) by (unfold s', s, run; apply run_from_app).
  destruct (acquire_many ks s) as [B C]; [rewrite L, A; lia |].
  assert (S' : served s' = c_max c).
  { pose proof (run_inv c (tr ++ map Acquire ks)) as I. unfold inv in I. rewrite run_cfg in I. fold s' in I.
    rewrite E in I |- *. rewrite B, L, A in I. lia. }
  repeat split; auto.
  - unfold holds, get. rewrite E, C, nth_error_app2 by lia.
    replace (length (s_att s) + j - length (s_att s))%nat with j by lia.
    rewrite nth_error_map. destruct (nth_error ks j) eqn:N; [reflexivity | apply nth_error_None in N; lia].
  - unfold refused, get. rewrite E, C, nth_error_app2 by lia.
    replace (length (s_att s) + j - length (s_att s))%nat with j by lia.
    rewrite nth_error_map. destruct (nth_error ks j) eqn:N; [reflexivity | reflexivity].
  - apply refused_iff_full. exact S'.
Qed.

(* ---------- every termination frees exactly one slot ---------- *)
Lemma finish_frees_slot : forall s a i, holds s i = true -> holds (step s a) i = false ->
  s_avail (step s a) = s_avail s + 1.
Proof.
  intros s a j H1 H2. unfold holds in H1, H2.
  destruct (get s j) as [x0|] eqn:G0; [| discriminate].
  assert (L : (j < length (s_att s))%nat) by (apply nth_error_Some; unfold get in G0; congruence).
  revert H2.
  step_cases s a; try (rewrite G0, H1; discriminate); try reflexivity;
    try (rewrite get_keep; match goal with |- context [Nat.eqb ?i j] => destruct (Nat.eqb_spec i j) as [->|] end;
         [ rewrite G; cbn; first [ try rewrite P; discriminate | rewrite G0 in G; injection G as <-; rewrite H1; discriminate ]
         | rewrite G0, H1; discriminate ]).
  - unfold get; cbn. rewrite nth_error_app1 by exact L. unfold get in G0. rewrite G0, H1. discriminate.
  - unfold get; cbn. rewrite nth_error_app1 by exact L. unfold get in G0. rewrite G0, H1. discriminate.
Qed.

(* ---------- no phase is a trap ---------- *)
(* from any state, these five actions end attempt i whatever phase it is in *)
Definition finish_acts (i : nat) : list act := [Dispatch i; DropFut i; Upgrade i false; WsEnd i CError; WsPeerGone i].

(* the actions used below (the ones that move the permit without a side condition) *)
Definition target (a : act) : option nat :=
  match a with
  | Dispatch i | Respond i | DropFut i | Upgrade i _ | WsEnd i _ | WsPeerGone i => Some i
  | _ => None
  end.

(* the phase of the targeted attempt after one such action *)
Definition after (c : cfg) (k : kind) (a : act) (p : phase) : phase :=
  match a, p with
  | Dispatch _, PCall =>
      if c_ws c && is_upgrade k then match k with KWs => PWsPending | _ => PDone end
      else if c_http c && negb (is_upgrade k) then PHttp else PDone
  | Respond _, PHttp => PDone
  | DropFut _, PHttp => PDone
  | Upgrade _ ok, PWsPending => if ok then PWsSession else PDone
  | WsEnd _ c', PWsSession => PWsClosing c'
  | WsPeerGone _, PWsClosing _ => PDone
  | _, p => p
  end.

Lemma get_keep_same : forall s i f x, get s i = Some x -> get (keep s i f) i = Some (f x).
Proof. intros s i f x H. now rewrite get_keep, Nat.eqb_refl, H. Qed.
Lemma get_release_same : forall s i f x, get s i = Some x -> get (release s i f) i = Some (f x).
Proof. intros s i f x H. now rewrite get_release, Nat.eqb_refl, H. Qed.

Lemma step_at : forall s a i x, target a = Some i -> get s i = Some x ->
  exists y, get (step s a) i = Some y /\ a_kind y = a_kind x /\ a_phase y = after (s_cfg s) (a_kind x) a (a_phase x).
Proof.
  intros s a i x T G.
  destruct a as [k | j | j | j | j | j ok | j | j c0 | j | j]; cbn in T; try discriminate; injection T as ->;
    unfold step; rewrite G; destruct x as [k p st h pe]; cbn [a_phase a_kind after];
    destruct p; try (eexists; split; [exact G | split; reflexivity]);
    try (eexists; split; [first [apply get_keep_same | apply get_release_same]; exact G | split; reflexivity]).
  - destruct (c_ws (s_cfg s)), (c_http (s_cfg s)), k; cbn [andb negb is_upgrade];
      (eexists; split; [first [apply get_keep_same | apply get_release_same]; exact G | split; reflexivity]).
  - destruct ok; eexists; (split; [first [apply get_keep_same | apply get_release_same]; exact G | split; reflexivity]).
Qed.

Lemma step_none : forall s a i, target a = Some i -> get s i = None -> step s a = s.
Proof.
  intros s a i T G. destruct a; cbn in T; try discriminate; injection T as ->; unfold step; now rewrite G.
Qed.

Lemma can_always_finish : forall s i, holds (run_from s (finish_acts i)) i = false.
Proof.
  intros s i. unfold finish_acts, run_from, fold_left.
  destruct (get s i) as [x|] eqn:G.
  - destruct (step_at s (Dispatch i) i x eq_refl G) as (x1 & G1 & K1 & P1).
    destruct (step_at _ (DropFut i) i x1 eq_refl G1) as (x2 & G2 & K2 & P2).
    destruct (step_at _ (Upgrade i false) i x2 eq_refl G2) as (x3 & G3 & K3 & P3).
    destruct (step_at _ (WsEnd i CError) i x3 eq_refl G3) as (x4 & G4 & K4 & P4).
    destruct (step_at _ (WsPeerGone i) i x4 eq_refl G4) as (x5 & G5 & K5 & P5).
    unfold holds. rewrite G5, P5, P4, P3, P2, P1, K4, K3, K2, K1. rewrite !step_cfg.
    unfold after. destruct (a_phase x), (a_kind x), (c_ws (s_cfg s)), (c_http (s_cfg s)); reflexivity.
  - rewrite (step_none s (Dispatch i) i eq_refl G), (step_none s (DropFut i) i eq_refl G),
      (step_none s (Upgrade i false) i eq_refl G), (step_none s (WsEnd i CError) i eq_refl G), (step_none s (WsPeerGone i) i eq_refl G).
    unfold holds. now rewrite G.
Qed.

(* ---------- a session closed by anything but a server stop gives its slot back whatever its handlers do ---------- *)
Lemma not_blocked_unless_stopped : forall c x, c <> CStopped -> shutdown_blocked c x = false.
Proof. intros c x H. unfold shutdown_blocked, gen_waits_for_pending. destruct c; try reflexivity. contradiction. Qed.

Lemma server_close_frees_slot : forall s i x c, get s i = Some x -> a_phase x = PWsSession -> c <> CStopped ->
  let s' := run_from s [WsEnd i c; WsFinish i] in holds s' i = false /\ s_avail s' = s_avail s + 1.
Proof.
  intros s i x c G P H. cbn [run_from fold_left].
  assert (E1 : step s (WsEnd i c) = keep s i (set_phase (PWsClosing c))) by (unfold step; now rewrite G, P).
  rewrite E1. pose proof (get_keep_same s i (set_phase (PWsClosing c)) x G) as G1.
  assert (E2 : step (keep s i (set_phase (PWsClosing c))) (WsFinish i)
               = release (keep s i (set_phase (PWsClosing c))) i (set_phase PDone)).
  { unfold step. rewrite G1. cbn [a_phase set_phase]. now rewrite not_blocked_unless_stopped. }
  rewrite E2. split.
  - unfold holds. now rewrite (get_release_same _ _ _ _ G1).
  - reflexivity.
Qed.

Lemma stop_waits_only_for_pending_calls : forall s i x, get s i = Some x -> a_phase x = PWsClosing CStopped ->
  (a_pending x <> 0 -> step s (WsFinish i) = s) /\
  (a_pending x = 0 -> holds (step s (WsFinish i)) i = false /\ s_avail (step s (WsFinish i)) = s_avail s + 1) /\
  holds (step s (WsPeerGone i)) i = false /\ s_avail (step s (WsPeerGone i)) = s_avail s + 1.
Proof.
  intros s i x G P. repeat split.
  - intro H. unfold step. rewrite G, P. unfold shutdown_blocked, gen_waits_for_pending. cbn.
    destruct (N.eqb_spec (a_pending x) 0); [contradiction | reflexivity].
  - unfold step. rewrite G, P.
    replace (shutdown_blocked CStopped x) with false by (unfold shutdown_blocked; rewrite H; vm_compute; reflexivity).
    unfold holds. now rewrite (get_release_same _ _ _ _ G).
  - unfold step. rewrite G, P.
    replace (shutdown_blocked CStopped x) with false by (unfold shutdown_blocked; rewrite H; vm_compute; reflexivity).
    reflexivity.
  - unfold step. rewrite G, P. unfold holds. now rewrite (get_release_same _ _ _ _ G).
  - unfold step. now rewrite G, P.
Qed.
